#!/bin/bash
# Builds the checker from files on disk only (offline). Run once after a fresh restore.
set -eu
cd "$(dirname "$0")"
export PATH=/opt/veriftools/go1.26.8/bin:$PATH
export GOFLAGS=-mod=mod GOPROXY=off GOTOOLCHAIN=local GOWORK=off
unset GOSUMDB || true
mkdir -p bin evidence
(cd checker && go build -o ../bin/vchk .)
bin/vchk -list | tr '\n' ' '; echo
