#!/usr/bin/env python3
"""Both-ways self-test of the checker (not a registered check).

selftest/<PROP>/<name>.patch   unified diff against /repo (git diff format, one or more files)
selftest/<PROP>/<name>.json    {"expect": ["RULE:construct", ...], "why": "..."}  (expect may be a prefix ending in *)

Each mutant is analysed through the loader's overlay (no scratch copy, /repo untouched): the
patched file contents are written to a temp dir and passed with -overlay. The mutant must
type-check (the checker fails otherwise), the check must exit 1 and name every expected
construct. usage: selftest.py [PROP ...]
"""
import json, os, re, subprocess, sys, tempfile, glob, shutil

VERIF = os.path.dirname(os.path.abspath(__file__))
REPO = os.environ.get("VERIF_REPO", "/repo")

def patched_files(patch, tmp):
    """apply patch to copies of the touched files; return {rel: abs_tmp_path}"""
    files = re.findall(r'^\+\+\+ b/(\S+)', open(patch).read(), re.M)
    out = {}
    for rel in files:
        dst = os.path.join(tmp, rel)
        os.makedirs(os.path.dirname(dst), exist_ok=True)
        shutil.copy(os.path.join(REPO, rel), dst)
        out[rel] = dst
    r = subprocess.run(["patch", "-p1", "-s", "-d", tmp, "-i", os.path.abspath(patch)], capture_output=True, text=True)
    if r.returncode != 0:
        raise RuntimeError("patch does not apply: " + r.stdout + r.stderr)
    return out

def main():
    props = sys.argv[1:] or sorted(os.path.basename(d) for d in glob.glob(os.path.join(VERIF, "selftest", "C*")))
    bad = 0
    total = 0
    for prop in props:
        for patch in sorted(glob.glob(os.path.join(VERIF, "selftest", prop, "*.patch"))):
            total += 1
            meta = json.load(open(patch[:-6] + ".json"))
            tier = meta.get("tier", "quick")
            with tempfile.TemporaryDirectory(prefix="vfy-mut-") as tmp:
                try:
                    files = patched_files(patch, tmp)
                except Exception as e:
                    print(f"FAIL {prop} {os.path.basename(patch)}: {e}"); bad += 1; continue
                ev = os.path.join(tmp, "verif"); os.makedirs(os.path.join(ev, "evidence"))
                [shutil.copy(k, ev) for k in glob.glob(os.path.join(VERIF, "known_findings*.json"))]
                os.symlink(os.path.join(VERIF, "checker"), os.path.join(ev, "checker"))
                cmd = [os.path.join(VERIF, "bin", "vchk"), "-prop", prop, "-tier", tier, "-repo", REPO, "-verif", ev]
                for rel, p in files.items():
                    cmd += ["-overlay", f"{rel}={p}"]
                r = subprocess.run(cmd, capture_output=True, text=True)
                diags = re.findall(r'^DIAG property=\S+ rule=(\S+) construct=(.*?) at \S*:', r.stdout, re.M)
                got = [f"{a}:{b}" for a, b in diags]
                missing = []
                for e in meta["expect"]:
                    if e.endswith("*"):
                        if not any(g.startswith(e[:-1]) for g in got): missing.append(e)
                    elif e not in got: missing.append(e)
                loaderr = "load/type errors" in r.stdout
                if r.returncode != 1 or missing or loaderr:
                    bad += 1
                    print(f"FAIL {prop} {os.path.basename(patch)}: rc={r.returncode} missing={missing} got={got[:6]} {'(mutant does not type-check)' if loaderr else ''}")
                    if loaderr: print(r.stdout[:800])
                else:
                    extra = [g for g in got if not any((e.endswith('*') and g.startswith(e[:-1])) or g == e for e in meta['expect'])]
                    print(f"ok   {prop} {os.path.basename(patch)}: caught {meta['expect']}" + (f" (also: {extra})" if extra else ""))
    print(f"selftest: {total - bad}/{total} mutants caught")
    sys.exit(1 if bad else 0)

main()
