#!/bin/bash
# usage: mkbrk6.sh CNN  -> worktree /tmp/brk-CNNf with TASK.md + previous seeds paragraph
P=$1; /verif/docs/mkbrk.sh $P f >/dev/null
python3 - $P <<'PY'
import json,os,sys
p=sys.argv[1]; prev=[]
for d in sorted(os.listdir('/verif/seeded')):
    m='/verif/seeded/%s/meta.json'%d
    if os.path.exists(m):
        j=json.load(open(m))
        if j['property']==p: prev.append(j['breaks'])
t='/tmp/brk-%sf/TASK.md'%p
s=open(t).read()
s+="\n\nIMPORTANT — earlier rounds. Other people have already made these changes to this property (you do not see their code):\n"+"".join("  * %s\n"%b for b in prev)+"Your change must be in a DIFFERENT function and use a DIFFERENT mechanism. Prefer a structural slip (a lost or misplaced guard, a dropped or duplicated call, a wrong table entry, swapped arguments or operands, stale or shared state, a missing case arm, an error swallowed, two sites that must agree and no longer do) over a purely numerical one.\n"
open(t,'w').write(s)
PY
echo /tmp/brk-${P}f
