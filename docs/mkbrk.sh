#!/bin/bash
# usage: mkbrk.sh C01 [suffix]  -> creates /tmp/brk-C01[suffix] worktree with SRID stub and prints the property text file path
ID=$1; SUF=${2:-}; D=/tmp/brk-$ID$SUF
git -C /repo worktree remove --force $D 2>/dev/null; rm -rf $D
git -C /repo worktree add --detach $D HEAD >/dev/null 2>&1
cat > $D/sql/types/spatial_reference_systems.go <<'EOS'
package types

type SpatialRef struct {
	Name          string
	ID            uint32
	Organization  string
	OrgCoordsysId uint32
	Definition    string
	Description   any
}

var SupportedSRIDs = map[uint32]SpatialRef{}
EOS
python3 - $ID $D <<'PY'
import json,sys
for l in open('/verif/properties.jsonl'):
    d=json.loads(l)
    if d['id']==sys.argv[1]:
        open(sys.argv[2]+'/PROPERTY.txt','w').write(f"Property {d['id']}: {d['title']}\n\nStatement: {d['statement']}\n\nQuantified over: {d['quantifier']['text']}\n\nWhy the existing tests cannot settle it: {d['why_tests_cant']}\n\nCode anchors (where the mechanism lives): {json.dumps(d['anchors'],indent=1)}\n")
PY
echo $D
sed "s|{DIR}|$D|g" /verif/docs/BREAKER_PROMPT.txt > $D/TASK.md
