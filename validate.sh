#!/bin/bash
# validates MANIFEST.json and every evidence file against the harness schemas
python3-vt - <<'PY'
import json,glob,sys,jsonschema
ok=True
try:
    jsonschema.validate(json.load(open('/verif/MANIFEST.json')), json.load(open('/root/.vp/MANIFEST.schema.json')))
except Exception as e:
    print('MANIFEST invalid:', str(e)[:300]); ok=False
es=json.load(open('/root/.vp/EVIDENCE.schema.json'))
for f in sorted(glob.glob('/verif/evidence/C*.json')):
    try: jsonschema.validate(json.load(open(f)), es)
    except Exception as e: print(f,'invalid:',str(e)[:300]); ok=False
m=json.load(open('/verif/MANIFEST.json'))
ids=[c['property_id'] for c in m['checks']]+[n['property_id'] for n in m.get('not_applicable',[])]
allp=[json.loads(l)['id'] for l in open('/verif/properties.jsonl')]
if sorted(ids)!=sorted(allp): print('manifest does not partition properties', set(allp)^set(ids)); ok=False
print('valid' if ok else 'INVALID'); sys.exit(0 if ok else 1)
PY
