#!/bin/bash
# usage: ./check.sh <property-id> [quick|thorough] [vchk flags…]
# Rebuilds the checker if its sources changed, then decides the property from /repo's
# current working tree. Serialised with a lock: parallel loads could exhaust memory.
set -u
cd "$(dirname "$0")"
PROP="$1"; TIER="${2:-quick}"; shift; shift 2>/dev/null || true
export PATH=/opt/veriftools/go1.26.8/bin:$PATH
export GOFLAGS=-mod=mod GOPROXY=off GOTOOLCHAIN=local GOWORK=off
unset GOSUMDB
mkdir -p bin evidence
(
  flock 9
  if [ ! -x bin/vchk ] || [ -n "$(find checker -name '*.go' -newer bin/vchk -not -path 'checker/testdata/*' 2>/dev/null | head -1)" ] || [ checker/go.mod -nt bin/vchk ]; then
    (cd checker && go build -o ../bin/vchk . ) || { echo "checker build failed"; exit 2; }
  fi
) 9>.build.lock || exit 2
exec flock .run.lock bin/vchk -prop "$PROP" -tier "$TIER" -repo "${VERIF_REPO:-/repo}" -verif "$(pwd)" "$@"
