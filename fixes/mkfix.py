#!/usr/bin/env python3
"""mkfix.py NAME REL OLD NEW [REL OLD NEW ...]: write fixes/NAME.patch as a git-style diff of /repo/REL (HEAD content) with OLD replaced by NEW.
Arguments starting with '@' are read from files. Each fix patch is independent of the others."""
import sys, os, subprocess, tempfile, shutil
def arg(s): return open(s[1:]).read() if s.startswith('@') else s
name = sys.argv[1]; rest = sys.argv[2:]
repo = os.environ.get("VERIF_REPO", "/repo")
here = os.path.dirname(os.path.abspath(__file__))
edits = {}
for i in range(0, len(rest), 3):
    rel, old, new = rest[i], arg(rest[i+1]), arg(rest[i+2])
    src = edits.get(rel) or open(os.path.join(repo, rel)).read()
    if src.count(old) != 1: sys.exit(f"{rel}: OLD occurs {src.count(old)} times: {old[:60]!r}")
    edits[rel] = src.replace(old, new)
tmp = tempfile.mkdtemp(); out = ""
for rel, new in edits.items():
    for side, content in (("a", open(os.path.join(repo, rel)).read()), ("b", new)):
        p = os.path.join(tmp, side, rel); os.makedirs(os.path.dirname(p), exist_ok=True); open(p, "w").write(content)
    lines = subprocess.run(["diff", "-u", "a/"+rel, "b/"+rel], cwd=tmp, capture_output=True, text=True).stdout.split("\n")
    lines[0] = "--- a/" + rel; lines[1] = "+++ b/" + rel
    out += f"diff --git a/{rel} b/{rel}\n" + "\n".join(lines)
open(os.path.join(here, name + ".patch"), "w").write(out); shutil.rmtree(tmp)
print("wrote", name + ".patch")
