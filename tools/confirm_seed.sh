#!/bin/bash
# usage: confirm_seed.sh seeded/<id>   — confirms in the scratch worktree (never /repo) that the seeded change
# applies, builds, passes the pinned suite, and that its demonstration fails with it and passes without it.
set -u
SEED=$(cd "$1" && pwd); S=${SCRATCH:-/var/tmp/vfy-scratch}
export PATH=/opt/veriftools/go1.26.8/bin:$PATH GOFLAGS=-mod=mod GOPROXY=off GOTOOLCHAIN=local GOWORK=off
"$(dirname "$0")"/mk_scratch.sh; cd $S || exit 2
git checkout -q --detach $(git -C /repo rev-parse HEAD) 2>/dev/null
git status --short | grep -v spatial_reference_systems.go | grep -v '^??' && { echo "scratch not clean"; exit 2; }
rm -rf seeddemo; mkdir seeddemo; cp $SEED/demo_test.go seeddemo/
R=()
go test -count=1 ./seeddemo/ >/tmp/seed_without.log 2>&1 && R+=("demo_without_change=pass") || R+=("demo_without_change=FAIL")
git apply $SEED/patch.diff || { echo "patch does not apply"; rm -rf seeddemo; exit 1; }
go build ./... >/tmp/seed_build.log 2>&1 && R+=("build=ok") || R+=("build=FAIL")
go test -count=1 ./errguard/... ./internal/... ./optgen/cmd/support/... ./sql/in_mem_table/... ./sql/planbuilder/dateparse/... ./sql/sqlredact/... ./enginetest/scriptgen/setup/... >/tmp/seed_pinned.log 2>&1 && R+=("pinned_suite=pass") || R+=("pinned_suite=FAIL")
go test -count=1 ./seeddemo/ >/tmp/seed_with.log 2>&1 && R+=("demo_with_change=PASS(unexpected)") || R+=("demo_with_change=fail")
git apply -R $SEED/patch.diff; rm -rf seeddemo
echo "${R[@]}"
grep -h -m3 -- "--- FAIL\|panic:" /tmp/seed_with.log | head -3
