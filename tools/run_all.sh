#!/bin/bash
# usage: run_all.sh quick|thorough  -> runs every registered check, prints one line per property
cd "$(dirname "$0")/.."
T=${1:-quick}
for p in $(bin/vchk -list); do
  out=$(./check.sh $p $T 2>&1); rc=$?
  echo "$p rc=$rc $(echo "$out" | grep -c '^VIOLATION') violations, $(echo "$out" | grep -c '^KNOWN-FINDING') known; $(echo "$out" | grep '^ANALYSED' | sed -E 's/.*(wall=[0-9.]+s)/\1/')"
done
