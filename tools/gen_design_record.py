#!/usr/bin/env python3
"""Regenerates the generated blocks of DESIGN.md (between <!-- GEN:x --> … <!-- /GEN:x --> markers):
   status   – per property: rules with instance counts (from evidence), mutants, seeded changes, notes file
   findings – the findings register from known_findings.json
   seeds    – which checks catch which seeded change (from seeded/*/meta.json)"""
import json, glob, os, re
V = os.path.dirname(os.path.dirname(os.path.abspath(__file__)))
def block_status():
    rows = ["| Id | Rules (instances on today's tree) | Obl. | Known | Mutants | Record |", "|---|---|---|---|---|---|"]
    for ev in sorted(glob.glob(V + '/evidence/C*.json')):
        e = json.load(open(ev)); p = e['property_id']; c = e['coverage']
        rules = ' '.join(f"{r['id'].split('-',1)[1]}={r['instances']}" for r in c.get('rules', []) if r['id'].startswith(p))
        muts = len(glob.glob(f'{V}/selftest/{p}/*.patch'))
        notes = f"design_notes/{p}.md" if os.path.exists(f'{V}/design_notes/{p}.md') else "section 9.2"
        rows.append(f"| {p} | {rules} | {c['obligations']} | {c['status_counts'].get('known-finding',0)} | {muts} | {notes} |")
    return '\n'.join(rows)
def block_findings():
    fs = json.load(open(V + '/known_findings.json'))['findings']
    rows = ["| Prop. | Rule / construct | Status | What fails (demonstration) |", "|---|---|---|---|"]
    for f in fs:
        st = f['status'] + (f" `{f['commit']}`" if f.get('commit') else '')
        wf = f['what_fails'].replace('|', '\\|').replace('\n', ' ')
        if len(wf) > 260: wf = wf[:257] + '…'
        rows.append(f"| {f['property']} | {f['rule']} `{f['construct']}` | {st} | {wf} ({f.get('repro','')}) |")
    return '\n'.join(rows)
def block_seeds():
    rows = ["| Seeded change | Property | Needs to manifest | Caught by | Missed at first? |", "|---|---|---|---|---|"]
    for m in sorted(glob.glob(V + '/seeded/*/meta.json')):
        d = json.load(open(m)); name = os.path.basename(os.path.dirname(m))
        cb = ', '.join(d['checks'].get('caught_by', [])) or '**not caught**'
        rows.append(f"| {name} | {d['property']} | {d['needs_to_manifest']} | {cb} | {d['checks'].get('initially_missed','no')} |")
    return '\n'.join(rows)
s = open(V + '/DESIGN.md').read()
for name, fn in (('status', block_status), ('findings', block_findings), ('seeds', block_seeds)):
    pat = re.compile(r'(<!-- GEN:%s -->\n).*?(<!-- /GEN:%s -->)' % (name, name), re.S)
    if pat.search(s): s = pat.sub(lambda m: m.group(1) + fn() + '\n' + m.group(2), s)
open(V + '/DESIGN.md', 'w').write(s)
print('ok')
