#!/bin/bash
# Creates the scratch worktree of /repo used by apply_fix.sh / confirm_seed.sh (outside /repo and /verif),
# with the 12-line SRID stub so that the engine builds. Remove it when done:
#   git -C /repo worktree remove --force /var/tmp/vfy-scratch
S=${SCRATCH:-/var/tmp/vfy-scratch}
[ -d "$S" ] && exit 0
git -C /repo worktree add --detach "$S" HEAD >/dev/null 2>&1 || exit 2
cat > "$S/sql/types/spatial_reference_systems.go" <<'EOS'
package types

type SpatialRef struct {
	Name          string
	ID            uint32
	Organization  string
	OrgCoordsysId uint32
	Definition    string
	Description   any
}

var SupportedSRIDs = map[uint32]SpatialRef{}
EOS
