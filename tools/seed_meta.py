#!/usr/bin/env python3
"""Writes seeded/<id>/meta.json: runs the listed checks against the seeded change through the
loader overlay (tools/seed_check.py) and records what caught it.
usage: seed_meta.py [seed-dir-name ...]   (default: all entries of TABLE)"""
import json, os, subprocess, sys
V = os.path.dirname(os.path.dirname(os.path.abspath(__file__)))
# dir: (property, checks to run, needs to manifest, what breaks, strengthening note)
TABLE = {
 "C01-lookup-underflow-key": ("C01", ["C01", "C03"], "a LOOKUP_JOIN plan probing a narrower-typed index with a driving value below the column type's range, and the clamped/wrapped value present in the probed table",
   "LookupBuilder.GetLookup treats only Overflow as out of range: an underflowing probe key is looked up as the clamped value, so the lookup plan returns rows no other plan returns",
   "missed at first (C01 had only the join-type tables); rule K (converted key used as index key only when InRange) was added because of this seed"),
 "C03-equals-underflow": ("C03", ["C03"], "= or <=> on an indexed integer column with a literal below the type's range and a row holding the clamped/wrapped value",
   "MySQLIndexBuilder.Equals builds a point range on the clamped key for underflowing literals: index lookup returns rows a full scan does not",
   "missed at first (C03-F classified key-less constructors by their enclosing arm without resolving the branch condition); C03-F now walks the CFG per ConvertInRange value"),
 "C04-index-null-order": ("C04", ["C04"], "a multi-column secondary index, two or more rows NULL in the leading key column inserted out of order of the second column, ORDER BY served from the index",
   "memory.TableData.sortSecondaryIndexes: two NULLs in an earlier key column compare equal instead of deferring to the next key column",
   "missed at first (index-provided order was listed as not decided); rule O6 (the memory backend's index comparator table) was added because of this seed"),
 "C05-lessthan-floor": ("C05", ["C05", "C03"], "an integer index column, strict < against a literal with a fractional part, and a row equal to the rounded-down literal",
   "MySQLIndexBuilder.LessThan rounds a fractional bound down (floor) instead of up: `pk < 2.5` scans `pk < 2`, the row pk=2 is in none of p / NOT p / p IS NULL",
   "not caught by C05 (it decides the connective/filter tables only); caught by the rounding-direction clause added to C03-F because of this seed"),
 "C15-discard-swapped": ("C15", ["C15"], "a statement that edits a table and also looks it up through a foreign key (cascade child or self-reference), then fails after that lookup",
   "memory.tableEditor.DiscardChanges overwrites the statement-begin snapshot with the live table instead of restoring the live table from it",
   "missed at first (\"DiscardChanges really restores the snapshot\" was not decided); snapshot direction / who-may-mutate clauses added"),
 "C16-swap-early-exit": ("C16", ["C16"], "a keyed table with at least two secondary indexes and an out-of-PK-order insert or PK-moving update",
   "memory.partitionssort.Swap stops re-pointing index entries early with a counter that is not reset per index: later indexes keep a stale row location",
   "missed at first; loop-carried early-exit clause for the index-maintenance loops added"),
 "C17-begin-skips-commit": ("C17", ["C17"], "default autocommit, an open explicit transaction with uncommitted writes, then another BEGIN",
   "START TRANSACTION no longer commits the open transaction when autocommit is on: the second BEGIN discards the first transaction's writes",
   "caught by the existing rule"),
 "C20-explicit-id-no-increment": ("C20", ["C20"], "a BEFORE INSERT trigger that raises NEW.id above the counter, then a generated insert",
   "memory.tableEditor.Insert leaves the counter equal to a stored id larger than the counter (the +1 on that arm was dropped): the next generated id duplicates it",
   "missed at first (the store was classified monotone); clause \"counter strictly past every learnt row cell\" added"),
 "C24-leave-skips-scope-end": ("C24", ["C24"], "a labelled loop whose body contains a nested BEGIN…END from which LEAVE <label> jumps out",
   "the interpreter's forward Goto no longer replays the ScopeEnd operations it skips: the nested block's variables and handlers stay in scope after the loop",
   "caught by the existing rule C24-O6, at first only through its instance floor (the forward scope walk had disappeared); an explicit walker-missing report was added"),
 "C37-endquery-stale-pid": ("C37", ["C37"], "out-of-order end on one connection: Q1 begun, killed, Q2 begun, then Q1's iterator closed late",
   "ProcessList.EndQuery acts whenever the connection has any registered query instead of only when it is the query being ended: a late EndQuery cancels and un-counts the connection's current query",
   "missed at first; identity clause (end effects only under QueryPid == own pid) added"),
 "C41-dynamic-priv-order": ("C41", ["C41"], "an account holding two dynamic privileges with different WITH GRANT OPTION flags, persisted and reloaded",
   "serializeGlobalDynamic fills the privilege-name offsets in reverse order, so the parallel grant-option flag vector no longer lines up with the names after a reload",
   "NOT caught: C41 decides which fields are written/read and how they pair, not the element order inside parallel flatbuffer vectors; an index-map analysis of builder Prepend order was judged out of proportion (see DESIGN 9.3)"),
 "C46-rangetree-rotate-parent": ("C46", ["C46"], "ten ranges inserted in ascending order (a left rotation whose pivot's right child has a left subtree), then a range overlapping the re-homed node",
   "MySQLRangeColumnExprTree.rotateLeft no longer re-parents the moved subtree; a later removal follows the stale Parent pointer and cuts off a subtree: index ranges are silently lost",
   "missed at first (the interval tree was listed as not decided); rules T1 (child store coupled with Parent store) and T2 (rotations are mirror images) added"),
 "C19-odku-generated-stale": ("C19", ["C19"], "a STORED generated column and an INSERT … ON DUPLICATE KEY UPDATE that proposes a row identical to the stored one",
   "handleOnDuplicateKeyUpdate compares the stored row with the proposed insert row instead of the post-SET row, so generated columns are not recomputed and a CHECK over them passes on a stale value",
   "NOT caught: which row a recomputation guard compares is a value-identity question inside one function; no general exact clause was found (generated-column recomputation is listed under not decided)"),
 "C18-columnsupdated-all": ("C18", ["C18"], "a multi-column foreign key and an UPDATE of a strict subset of the referenced parent columns while children exist",
   "ForeignKeyEditor.ColumnsUpdated returns true only if all referenced columns changed: RESTRICT/CASCADE/SET NULL handling is skipped and children are orphaned",
   "missed at first; a folded any-column-changed table for ColumnsUpdated added"),
 "C10-substringindex-minint": ("C10", ["C10"], "SUBSTRING_INDEX with count exactly -9223372036854775808",
   "the negation of count overflows and strs[start:end] panics out of Engine.Query",
   "missed at first (B1 covered the byte kernels only); rule B2 (bounds of every slice expression in the built-in functions) added"),
 "C21-addcolumn-pk-ordinal": ("C21", ["C21"], "in-place ADD COLUMN (nullable, no default) placed directly in front of a primary-key column",
   "memory addColumnToSchema does not shift a key ordinal equal to the new column's index: the primary key points at the new all-NULL column",
   "NOT caught: an off-by-one in ordinal arithmetic is a numerical result; C21 decides the rewrite-abort protocol only"),
 "C27-datetime-precision5": ("C27", ["C27"], "a DATETIME(5)/TIMESTAMP(5) column and a value whose fifth fractional digit is non-zero",
   "the precision-5 entry of types.precisionConversion is 10000 instead of 100000: values are silently rounded to four fractional digits",
   "missed at first; constant-table shape invariants (geometric precision table and siblings) added"),
 "C26-int-uint-compare-wrap": ("C26", ["C26"], "a JSON comparison between a non-negative signed integer and a uint64 above MaxInt64",
   "compareIntToUint converts the uint64 to int64 without the range guard: the order of JSON numbers is no longer transitive",
   "missed at first; clause \"operand conversions in the numeric comparison kernels are exact\" added"),
 "C14-accumulator-get-order": ("C14", ["C14"], "a multi-row UPDATE or INSERT … ON DUPLICATE KEY UPDATE in which a key is deleted and re-inserted earlier in the same statement",
   "pkTableEditAccumulator.Get consults deletes before adds: a re-inserted key is reported absent and a later duplicate is accepted",
   "missed at first; writer/reader precedence model of the accumulator added"),
 "C36-partitionrows-alias": ("C36", ["C36"], "a reverse primary-key index lookup (ORDER BY pk DESC) followed by secondary-index lookups in any session",
   "memory.(*Table).PartitionRows returns an alias of the stored row slice instead of a copy; IndexedTable.PartitionRows sorts it in place: a read-only query reorders shared table data",
   "missed at first; stored-rows ownership (no in-place mutation of stored rows on read paths) clause added"),
 "C39-unionwith-shares-table-set": ("C39", ["C39"], "two privilege sources with an entry for the same db.table merged for one account (user + role, or two roles), then a later change of the role graph",
   "PrivilegeSetDatabase.unionWith stores the other side's PrivilegeSetTable (with its maps) as-is: PrivilegeSet.Copy is no longer deep, merging role privileges writes into stored grants and privileges survive REVOKE",
   "missed at first; deep-copy / no-aliasing clause for the Copy/unionWith family added"),
 "C44-setglobal-case": ("C44", ["C44"], "SET GLOBAL with at least one upper-case letter in the variable name",
   "globalSystemVariables.SetGlobal no longer lower-cases the name: the value is stored under the caller's spelling while every reader uses the lower-case key",
   "missed at first; key-normalisation discipline for case-folded maps added"),
 "C09-case-no-else-notnull": ("C09", ["C09"], "a CASE without ELSE whose THEN values are all non-nullable, and a row matching no WHEN arm",
   "Case.IsNullable reports false for a CASE without ELSE although Eval returns NULL when no arm matches",
   "missed at first (E1 covered constant-false IsNullable only); field-condition agreement between Eval's literal NULL returns and a computed IsNullable added"),
 "C25-intdiv-mixed-unsigned": ("C25", ["C25"], "DIV with exactly one UNSIGNED operand and a negative or fractional other operand",
   "IntDiv.convertLeftRight coerces both operands to uint64 when either is unsigned: negatives wrap, decimals round, silently",
   "missed at first; coercion-choice clause (an operand is converted to uint64 only under a test of its own type) added"),
 "C42-triggerexecutor-readonly": ("C42", ["C42"], "a read-only engine and a table with an AFTER trigger whose body is itself read-only",
   "TriggerExecutor.IsReadOnly consults the trigger body twice and never the wrapped INSERT/UPDATE/DELETE: writes pass the read-only check",
   "missed at first (R2 accepted any delegation); R2 now requires every executed child to be consulted"),
 "C11-autocommit-off-after-error": ("C11", ["C11", "C17"], "two sessions: A hits an execution-time error, B commits DML on the same table, A re-queries",
   "TransactionCommittingIter.Next clears autoCommit on a child error, so Close neither commits nor clears the implicit transaction and the session keeps (and later publishes) its stale snapshot",
   "missed at first; who-may-write clause for the commit-decision fields added under C17"),
}
names = sys.argv[1:] or sorted(TABLE)
for name in names:
    prop, checks, needs, breaks, note = TABLE[name]
    d = os.path.join(V, "seeded", name)
    if not os.path.exists(os.path.join(d, "patch.diff")):
        print("missing", name); continue
    r = subprocess.run([os.path.join(V, "tools", "seed_check.py"), os.path.join(d, "patch.diff")] + checks, capture_output=True, text=True)
    caught = json.loads(r.stdout.strip().splitlines()[-1])["caught_by"] if r.stdout.strip() else {}
    flat = [c for p in checks for c in caught.get(p, [])]
    meta = {"property": prop, "breaks": breaks, "needs_to_manifest": needs,
            "confirmed": {"where": "scratch worktree of /repo HEAD + SRID stub (tools/confirm_seed.sh)", "patch_applies": True, "go_build": "ok",
                          "pinned_suite": "pass", "demo_without_change": "pass", "demo_with_change": "fail"},
            "checks": {"run": checks, "caught_by": flat, "how_run": "tools/seed_check.py seeded/%s/patch.diff %s (loader overlay; /repo untouched)" % (name, " ".join(checks)),
                       "initially_missed": note}}
    json.dump(meta, open(os.path.join(d, "meta.json"), "w"), indent=1)
    print(name, "caught_by", flat[:3] if flat else "NOT CAUGHT")
