#!/usr/bin/env python3
"""Fold known_findings.<X>.json fragments into known_findings.json.
usage: merge_findings.py [PROP:slug=commit ...]   e.g. C41=396cde8cb sets the commit of every fixed C41 entry lacking one;
       C32:unquote=abc123 sets it for fixed C32 entries whose what_fails/repro mentions 'unquote'."""
import json, glob, os, sys
V = os.path.dirname(os.path.dirname(os.path.abspath(__file__)))
main = json.load(open(os.path.join(V, 'known_findings.json')))
have = {(f['property'], f['rule'], f['construct']) for f in main['findings']}
for frag in sorted(glob.glob(os.path.join(V, 'known_findings.*.json'))):
    for f in json.load(open(frag))['findings']:
        k = (f['property'], f['rule'], f['construct'])
        if k not in have:
            main['findings'].append(f); have.add(k)
    os.remove(frag)
for arg in sys.argv[1:]:
    sel, commit = arg.split('=')
    prop, _, slug = sel.partition(':')
    for f in main['findings']:
        if f['property'] == prop and f['status'] == 'fixed' and not f.get('commit'):
            if not slug or slug.lower() in (f.get('what_fails', '') + f.get('repro', '') + f['construct']).lower():
                f['commit'] = commit
main['findings'].sort(key=lambda f: (f['property'], f['rule'], f['construct']))
json.dump(main, open(os.path.join(V, 'known_findings.json'), 'w'), indent=1)
print(len(main['findings']), 'findings')
