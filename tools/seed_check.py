#!/usr/bin/env python3
"""Run checks against a seeded change without touching /repo (loader overlay).
usage: seed_check.py <patch.diff> [PROP ...]      (default: every registered property)
Prints, per property, the constructs reported that are not reported on the unchanged tree."""
import json, os, re, subprocess, sys, tempfile, shutil, glob
V = os.path.dirname(os.path.dirname(os.path.abspath(__file__)))
REPO = os.environ.get("VERIF_REPO", "/repo")
patch = os.path.abspath(sys.argv[1])
props = sys.argv[2:] or subprocess.run([V + "/bin/vchk", "-list"], capture_output=True, text=True).stdout.split()
files = re.findall(r'^\+\+\+ b/(\S+)', open(patch).read(), re.M)
files = [f for f in files if f.endswith('.go') and not f.endswith('_test.go')]
caught = {}
with tempfile.TemporaryDirectory(prefix="vfy-seed-") as tmp:
    for rel in files:
        dst = os.path.join(tmp, rel); os.makedirs(os.path.dirname(dst), exist_ok=True)
        if os.path.exists(os.path.join(REPO, rel)): shutil.copy(os.path.join(REPO, rel), dst)
    r = subprocess.run(["patch", "-p1", "-s", "-d", tmp, "-i", patch], capture_output=True, text=True)
    if r.returncode != 0:
        print("patch does not apply:", r.stdout, r.stderr); sys.exit(2)
    ev = os.path.join(tmp, "_verif"); os.makedirs(os.path.join(ev, "evidence"))
    for k in glob.glob(os.path.join(V, "known_findings*.json")): shutil.copy(k, ev)
    os.symlink(os.path.join(V, "checker"), os.path.join(ev, "checker"))
    for p in props:
        cmd = [V + "/bin/vchk", "-prop", p, "-tier", os.environ.get("TIER", "quick"), "-repo", REPO, "-verif", ev]
        for rel in files: cmd += ["-overlay", f"{rel}={os.path.join(tmp, rel)}"]
        r = subprocess.run(cmd, capture_output=True, text=True)
        diags = re.findall(r'^DIAG property=\S+ rule=(\S+) construct=(.*?) at (\S*): (.*)$', r.stdout, re.M)
        if r.returncode != 0:
            caught[p] = [f"{a}:{b}" for a, b, _, _ in diags]
            print(f"CAUGHT by {p}: rc={r.returncode}")
            for a, b, pos, msg in diags[:6]: print(f"    {a} {b} at {pos}: {msg[:200]}")
        else:
            print(f"silent  {p}")
print(json.dumps({"caught_by": caught}))
