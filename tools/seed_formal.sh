#!/bin/bash
# Formal run of seeded changes against /repo itself: apply, run the check(s), undo.
# usage: seed_formal.sh            every seed (rewrites seeded/FORMAL_RUN.txt)
#        seed_formal.sh NAME...    only these seeds (their lines in FORMAL_RUN.txt are replaced)
#        seed_formal.sh -missing   only seeds that have no line in FORMAL_RUN.txt yet
cd /verif
OUT=seeded/FORMAL_RUN.txt
git -C /repo status --short | grep -v spatial_reference_systems.go | grep -q . && { echo "/repo not clean"; exit 2; }
if [ "$1" = "-missing" ]; then
  set --
  for d in seeded/*/; do n=$(basename $d); grep -q "^$n:" $OUT 2>/dev/null || set -- "$@" $n; done
  [ $# -eq 0 ] && { echo "nothing missing"; exit 0; }
elif [ $# -eq 0 ]; then
  : > $OUT
  for d in seeded/*/; do set -- "$@" $(basename $d); done
fi
for n in "$@"; do
  d=seeded/$n; [ -f $d/meta.json ] || { echo "$n: no meta.json"; continue; }
  props=$(python3 -c "import json;print(' '.join(json.load(open('$d/meta.json'))['checks']['run']))")
  git -C /repo apply $PWD/$d/patch.diff || { echo "$n: patch does not apply"; continue; }
  res=""
  for p in $props; do
    out=$(./check.sh $p quick 2>&1); rc=$?
    nv=$(echo "$out" | grep -c '^VIOLATION')
    res="$res $p:rc=$rc,violations=$nv"
  done
  git -C /repo checkout -- .
  grep -v "^$n:" $OUT > $OUT.tmp 2>/dev/null; echo "$n:$res" >> $OUT.tmp; sort $OUT.tmp > $OUT; rm -f $OUT.tmp
  echo "$n:$res"
done
git -C /repo status --short | grep -v spatial_reference_systems.go
