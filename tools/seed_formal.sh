#!/bin/bash
# Formal run of every seeded change against /repo itself: apply, run the check(s), undo.
# usage: seed_formal.sh   (writes seeded/FORMAL_RUN.txt)
cd /verif
OUT=seeded/FORMAL_RUN.txt; : > $OUT
git -C /repo status --short | grep -v spatial_reference_systems.go | grep -q . && { echo "/repo not clean"; exit 2; }
for d in seeded/*/; do
  n=$(basename $d); [ -f $d/meta.json ] || continue
  props=$(python3 -c "import json;print(' '.join(json.load(open('$d/meta.json'))['checks']['run']))")
  git -C /repo apply $PWD/$d/patch.diff || { echo "$n: patch does not apply" | tee -a $OUT; continue; }
  res=""
  for p in $props; do
    out=$(./check.sh $p quick 2>&1); rc=$?
    nv=$(echo "$out" | grep -c '^VIOLATION')
    res="$res $p:rc=$rc,violations=$nv"
  done
  git -C /repo checkout -- .
  echo "$n:$res" | tee -a $OUT
done
git -C /repo status --short | grep -v spatial_reference_systems.go
