#!/bin/bash
# usage: apply_fix.sh fixes/X.patch 'TestRegex' 'fix: subject' 'body'
# Verifies in the scratch worktree that the repro fails before / passes after the patch and that the touched
# packages' own tests still pass, then applies the patch to /repo as one commit.
set -u
P=$(cd "$(dirname "$1")" && pwd)/$(basename "$1"); RX=$2; SUBJ=$3; BODY=${4:-}
S=${SCRATCH:-/var/tmp/vfy-scratch}
export PATH=/opt/veriftools/go1.26.8/bin:$PATH GOFLAGS=-mod=mod GOPROXY=off GOTOOLCHAIN=local GOWORK=off
"$(dirname "$0")"/mk_scratch.sh; cd $S || exit 2
git checkout -q --detach $(git -C /repo rev-parse HEAD) || exit 2
git status --short | grep -v spatial_reference_systems.go | grep -v '^??' && { echo "scratch not clean"; exit 2; }
mkdir -p verifrepro; rm -f verifrepro/*_test.go; cp /verif/repro/*_test.go verifrepro/
# repro tests that live in another package are named <pkgdir-with-__>__x_test.go.txt and copied there
go vet ./verifrepro >/dev/null 2>&1 || { echo "repro package does not build:"; go vet ./verifrepro 2>&1 | head; exit 2; }
go test -count=1 ${GOTESTFLAGS:-} ./verifrepro -run "$RX" >/tmp/fix_before.log 2>&1 && { echo "repro PASSES before the fix (not a demonstration)"; tail -3 /tmp/fix_before.log; exit 1; }
echo "before: repro fails: $(grep -m1 -- '--- FAIL\|panic' /tmp/fix_before.log)"
git apply $P || { echo "patch does not apply"; exit 1; }
go test -count=1 ${GOTESTFLAGS:-} ./verifrepro -run "$RX" >/tmp/fix_after.log 2>&1 || { echo "repro still FAILS after the fix"; tail -5 /tmp/fix_after.log; git apply -R $P; exit 1; }
echo "after: repro passes"
PK=$(grep '^+++ b/' $P | sed 's|+++ b/||' | xargs -n1 dirname | sort -u | sed 's|^|./|')
go test -count=1 $PK 2>&1 | tail -4
go test -count=1 ./errguard/... ./internal/... ./optgen/cmd/support/... ./sql/in_mem_table/... ./sql/planbuilder/dateparse/... ./sql/sqlredact/... ./enginetest/scriptgen/setup/... >/tmp/fix_pinned.log 2>&1 && echo "pinned suite: pass" || { echo "pinned suite FAILS"; tail /tmp/fix_pinned.log; git apply -R $P; exit 1; }
git apply -R $P
cd /repo && git apply $P && git add -A . ':!sql/types/spatial_reference_systems.go' && git commit -q -m "$SUBJ" -m "$BODY" && git log --oneline | head -1
