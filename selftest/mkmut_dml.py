#!/usr/bin/env python3
"""mkmut.py PROP spec.py — build selftest mutants as git-diff patches against /repo.
spec.py defines MUTANTS = [ {name, why, expect:[...], edits:[(relfile, old, new), ...]} ].
Each mutant is made in the scratch worktree from the pristine /repo content of the touched
files, diffed with `git diff`, and the scratch files are restored afterwards."""
import sys, os, subprocess, json, shutil
SCR="/var/tmp/ag-B/scratch"; REPO="/repo"; VERIF="/var/tmp/ag-B/verif"
prop, spec = sys.argv[1], sys.argv[2]
g={}; exec(open(spec).read(), g)
out=os.path.join(VERIF,"selftest",prop); os.makedirs(out, exist_ok=True)
for m in g["MUTANTS"]:
    files=sorted({e[0] for e in m["edits"]})
    saved={f: open(os.path.join(SCR,f)).read() for f in files}
    try:
        for f in files: shutil.copy(os.path.join(REPO,f), os.path.join(SCR,f))
        for e in m["edits"]:
            f=e[0]; p=os.path.join(SCR,f); s=open(p).read()
            if len(e)==3:
                old,new=e[1],e[2]
                if s.count(old)!=1: raise SystemExit(f"{m['name']}: pattern occurs {s.count(old)} times in {f}: {old[:60]!r}")
                s=s.replace(old,new)
            else:  # (file, anchor, old, new): first occurrence of old after the unique anchor
                anchor,old,new=e[1],e[2],e[3]
                if s.count(anchor)!=1: raise SystemExit(f"{m['name']}: anchor occurs {s.count(anchor)} times in {f}: {anchor[:60]!r}")
                i=s.index(anchor); j=s.find(old,i)
                if j<0: raise SystemExit(f"{m['name']}: pattern not found after anchor in {f}: {old[:60]!r}")
                s=s[:j]+new+s[j+len(old):]
            open(p,"w").write(s)
        subprocess.run(["gofmt","-l"]+[os.path.join(SCR,f) for f in files], check=True)
        d=subprocess.run(["git","-C",SCR,"diff","--"]+files, capture_output=True, text=True, check=True).stdout
        open(os.path.join(out,m["name"]+".patch"),"w").write(d)
        json.dump({"expect":m["expect"],"why":m["why"]}, open(os.path.join(out,m["name"]+".json"),"w"))
        print("wrote", m["name"], len(d.splitlines()), "lines")
    finally:
        for f,s in saved.items(): open(os.path.join(SCR,f),"w").write(s)
