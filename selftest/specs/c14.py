TE="memory/table_editor.go"
MUTANTS=[
 dict(name="k1-unique-check-cache-keyed-by-formatted-row", why="a cache of already-checked unique keys is keyed by the formatted row",
      expect=["C14-K1:memory.formatRow/formatted-cell-map-key"],
      edits=[(TE,"// checkUniqueConstraints checks if inserting |row| would violate any unique index constraint.\n","var checkedUniqueKeys = map[string]bool{}\n\n// checkUniqueConstraints checks if inserting |row| would violate any unique index constraint.\n"),
             (TE,"		prefixLengths := t.prefixLengths[i]\n		existing, found, err := t.ea.GetByCols(row, cols, prefixLengths)\n","		prefixLengths := t.prefixLengths[i]\n		if checkedUniqueKeys[formatRow(row, cols)] {\n			continue\n		}\n		checkedUniqueKeys[formatRow(row, cols)] = true\n		existing, found, err := t.ea.GetByCols(row, cols, prefixLengths)\n")]),
 dict(name="k1-partition-key-from-sprint", why="rows are filed under a partition key printed from the first cell",
      expect=["C14-K1:memory.pkTableEditAccumulator.insertHelper/formatted-cell-map-key"],
      edits=[(TE,"func (pke *pkTableEditAccumulator) insertHelper(","	key := string(table.partitionKeys[partIdx])\n","	_ = partIdx\n	key := fmt.Sprint(row[0])\n")]),
 dict(name="k2-pk-get-fast-path-eq", why="single-column primary keys are compared with == on the cells",
      expect=["C14-K2:memory.pkTableEditAccumulator.Get/cell-equality"],
      edits=[(TE,"func (pke *pkTableEditAccumulator) Get(","			if columnsMatch(pkColIdxes, nil, partitionRow, value, pke.tableData.schema.Schema) {\n","			if len(pkColIdxes) == 1 && partitionRow[pkColIdxes[0]] == value[pkColIdxes[0]] {\n				return partitionRow, true, nil\n			}\n			if columnsMatch(pkColIdxes, nil, partitionRow, value, pke.tableData.schema.Schema) {\n")]),
 dict(name="k2-keyless-deepequal", why="keyless accumulator matches pending deletes with reflect.DeepEqual on the first cell",
      expect=["C14-K2:memory.keylessTableEditAccumulator.Insert/cell-equality"],
      edits=[(TE,"func (k *keylessTableEditAccumulator) Insert(","		eq, err := value.Equals(ctx, row, k.tableData.schema.Schema.PhysicalSchema())\n","		eq, err := reflect.DeepEqual(value[0], row[0]), error(nil)\n")]),
]
