#!/usr/bin/env python3
"""Helper to author mutants: mkmut.py PROP NAME 'why' 'EXPECT1;EXPECT2' REL OLD NEW [REL OLD NEW ...]
Creates selftest/PROP/NAME.patch (+.json) as a diff of /repo/REL with OLD replaced by NEW (OLD must occur exactly once).
If an argument starts with '@' it is read from that file."""
import sys, os, subprocess, tempfile, json, shutil
def arg(s): return open(s[1:]).read() if s.startswith('@') else s
prop, name, why, expect = sys.argv[1:5]
rest = sys.argv[5:]
here = os.path.dirname(os.path.abspath(__file__))
repo = os.environ.get("VERIF_REPO", "/repo")
tmp = tempfile.mkdtemp()
out = ""
edits = {}
for i in range(0, len(rest), 3):
    rel, old, new = rest[i], arg(rest[i+1]), arg(rest[i+2])
    src = edits.get(rel) or open(os.path.join(repo, rel)).read()
    if src.count(old) != 1:
        sys.exit(f"{rel}: OLD occurs {src.count(old)} times: {old[:60]!r}")
    edits[rel] = src.replace(old, new)
for rel, new in edits.items():
    for side, content in (("a", open(os.path.join(repo, rel)).read()), ("b", new)):
        p = os.path.join(tmp, side, rel); os.makedirs(os.path.dirname(p), exist_ok=True); open(p, "w").write(content)
    r = subprocess.run(["diff", "-u", os.path.join("a", rel), os.path.join("b", rel)], cwd=tmp, capture_output=True, text=True)
    lines = r.stdout.split("\n")
    lines[0] = "--- a/" + rel; lines[1] = "+++ b/" + rel
    out += f"diff --git a/{rel} b/{rel}\n" + "\n".join(lines)
d = os.path.join(here, prop); os.makedirs(d, exist_ok=True)
open(os.path.join(d, name + ".patch"), "w").write(out)
json.dump({"expect": [e for e in expect.split(";") if e], "why": why}, open(os.path.join(d, name + ".json"), "w"), indent=1)
shutil.rmtree(tmp)
print("wrote", os.path.join(d, name + ".patch"))
