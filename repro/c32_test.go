package verifrepro

import (
	"fmt"
	"testing"

	istrings "github.com/dolthub/go-mysql-server/internal/strings"
)

// C32-Q2 Unquote/s[i+1:i+5]: the guard `i+4 > len(s)` lets a 3-digit \u escape at the end of
// the input through; the slice s[i+1:i+5] is then out of range.
func TestC32UnquoteShortUnicodeEscape(t *testing.T) {
	noPanic(t, `Unquote("\\u123")`, func() {
		if _, err := istrings.Unquote(`\u123`); err == nil {
			t.Errorf("a truncated \\u escape must be an error")
		}
	})
	e, ctx := newEngine(t)
	noPanic(t, `SELECT JSON_UNQUOTE('\\u123')`, func() {
		_, err := run(t, e, ctx, `SELECT JSON_UNQUOTE('\\u123')`)
		t.Logf("query error: %v", err)
	})
}

// C32-Q2 UnquoteBytes/b[i+1:i+5]: same guard in the in-place sibling.
func TestC32UnquoteBytesShortUnicodeEscape(t *testing.T) {
	noPanic(t, `UnquoteBytes("\\u123")`, func() {
		if _, err := istrings.UnquoteBytes([]byte(`\u123`)); err == nil {
			t.Errorf("a truncated \\u escape must be an error")
		}
	})
}

// C32-Q2 UnquoteBytes/b[i]: after a trailing backslash the sibling Unquote breaks out of the
// loop; UnquoteBytes falls through to b[i] with i == len(b).
func TestC32UnquoteBytesTrailingBackslash(t *testing.T) {
	for _, in := range []string{`abc\`, `\`, `"a\`} {
		want, werr := istrings.Unquote(in)
		noPanic(t, fmt.Sprintf("UnquoteBytes(%q)", in), func() {
			got, err := istrings.UnquoteBytes([]byte(in))
			if string(got) != want || (err == nil) != (werr == nil) {
				t.Errorf("UnquoteBytes(%q) = %q, %v; Unquote gives %q, %v", in, got, err, want, werr)
			}
		})
	}
}

// C32-Q2 decodeEscapedUnicode/char[0:size]: utf8.RuneLen returns -1 for the surrogate halves
// U+D800..U+DFFF, and char[0:-1] is out of range.
func TestC32UnquoteSurrogateEscape(t *testing.T) {
	for _, in := range []string{`\ud800`, `"\udfff"`, `😀`} {
		noPanic(t, fmt.Sprintf("Unquote(%q)", in), func() {
			s, err := istrings.Unquote(in)
			t.Logf("Unquote(%q) = %q, %v", in, s, err)
		})
		noPanic(t, fmt.Sprintf("UnquoteBytes(%q)", in), func() {
			s, err := istrings.UnquoteBytes([]byte(in))
			t.Logf("UnquoteBytes(%q) = %q, %v", in, s, err)
		})
	}
	e, ctx := newEngine(t)
	noPanic(t, `SELECT JSON_UNQUOTE('"\\ud800"')`, func() {
		_, err := run(t, e, ctx, `SELECT JSON_UNQUOTE('"\\ud800"')`)
		t.Logf("query error: %v", err)
	})
}
