package verifrepro

import "testing"

// C20-R Table.tableEditorForRewrite/calls TableData.truncate: a table rewrite (ALTER TABLE that
// copies the rows) starts from TableData.truncate, which resets the AUTO_INCREMENT counter like a
// TRUNCATE; re-inserting the surviving rows only brings it back to max(existing)+1. Values of rows
// deleted before the ALTER are handed out again, and an explicit ALTER TABLE … AUTO_INCREMENT = n
// is forgotten.
func TestC20RewriteKeepsAutoIncrementCounter(t *testing.T) {
	e, ctx := newEngine(t)
	mustRun(t, e, ctx, "CREATE TABLE t (id int primary key auto_increment, v int)")
	mustRun(t, e, ctx, "INSERT INTO t (v) VALUES (1),(2),(3),(4),(5)")
	mustRun(t, e, ctx, "DELETE FROM t WHERE id > 3") // ids 4 and 5 were used
	mustRun(t, e, ctx, "ALTER TABLE t ADD COLUMN w int NOT NULL DEFAULT 0")
	mustRun(t, e, ctx, "INSERT INTO t (v) VALUES (6)")
	if got, want := show(mustRun(t, e, ctx, "SELECT id, v FROM t ORDER BY id")), "[[1 1] [2 2] [3 3] [6 6]]"; got != want {
		t.Errorf("after DELETE + rewriting ALTER the next generated id reuses a deleted row's value: %s, want %s", got, want)
	}

	mustRun(t, e, ctx, "CREATE TABLE u (id int primary key auto_increment, v int)")
	mustRun(t, e, ctx, "INSERT INTO u (v) VALUES (1)")
	mustRun(t, e, ctx, "ALTER TABLE u AUTO_INCREMENT = 100")
	mustRun(t, e, ctx, "ALTER TABLE u ADD COLUMN w int NOT NULL DEFAULT 0")
	mustRun(t, e, ctx, "INSERT INTO u (v) VALUES (2)")
	if got, want := show(mustRun(t, e, ctx, "SELECT id, v FROM u ORDER BY id")), "[[1 1] [100 2]]"; got != want {
		t.Errorf("ALTER TABLE … AUTO_INCREMENT = 100 is lost by a later rewriting ALTER: %s, want %s", got, want)
	}
}

// C20-U tableEditor.Update: an UPDATE (or INSERT ... ON DUPLICATE KEY UPDATE) that moves a row's AUTO_INCREMENT cell
// past the counter stores that row without looking at the counter, so a later generated value equals the stored one.
func TestC20UpdateRaisesAutoIncrementCounter(t *testing.T) {
	e, ctx := newEngine(t)
	mustRun(t, e, ctx, "CREATE TABLE t (id int auto_increment, v int, key (id))")
	mustRun(t, e, ctx, "INSERT INTO t (v) VALUES (1),(2)")
	mustRun(t, e, ctx, "UPDATE t SET id = 4 WHERE v = 2")
	mustRun(t, e, ctx, "INSERT INTO t (v) VALUES (3),(4),(5)")
	if got, want := show(mustRun(t, e, ctx, "SELECT id, v FROM t ORDER BY v")), "[[1 1] [4 2] [5 3] [6 4] [7 5]]"; got != want {
		t.Errorf("after UPDATE id=4 generated ids must exceed 4 (MySQL 8: 5,6,7): got %s, want %s", got, want)
	}

	mustRun(t, e, ctx, "CREATE TABLE p (id int primary key auto_increment, v int)")
	mustRun(t, e, ctx, "INSERT INTO p (v) VALUES (1)")
	mustRun(t, e, ctx, "INSERT INTO p (id, v) VALUES (1, 9) ON DUPLICATE KEY UPDATE id = 3")
	if _, err := run(t, e, ctx, "INSERT INTO p (v) VALUES (2),(3)"); err != nil {
		t.Errorf("generated id collides with the id stored by ON DUPLICATE KEY UPDATE: %v", err)
	}
}
