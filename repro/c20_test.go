package verifrepro

import "testing"

// C20-R Table.tableEditorForRewrite/calls TableData.truncate: a table rewrite (ALTER TABLE that
// copies the rows) starts from TableData.truncate, which resets the AUTO_INCREMENT counter like a
// TRUNCATE; re-inserting the surviving rows only brings it back to max(existing)+1. Values of rows
// deleted before the ALTER are handed out again, and an explicit ALTER TABLE … AUTO_INCREMENT = n
// is forgotten.
func TestC20RewriteKeepsAutoIncrementCounter(t *testing.T) {
	e, ctx := newEngine(t)
	mustRun(t, e, ctx, "CREATE TABLE t (id int primary key auto_increment, v int)")
	mustRun(t, e, ctx, "INSERT INTO t (v) VALUES (1),(2),(3),(4),(5)")
	mustRun(t, e, ctx, "DELETE FROM t WHERE id > 3") // ids 4 and 5 were used
	mustRun(t, e, ctx, "ALTER TABLE t ADD COLUMN w int NOT NULL DEFAULT 0")
	mustRun(t, e, ctx, "INSERT INTO t (v) VALUES (6)")
	if got, want := show(mustRun(t, e, ctx, "SELECT id, v FROM t ORDER BY id")), "[[1 1] [2 2] [3 3] [6 6]]"; got != want {
		t.Errorf("after DELETE + rewriting ALTER the next generated id reuses a deleted row's value: %s, want %s", got, want)
	}

	mustRun(t, e, ctx, "CREATE TABLE u (id int primary key auto_increment, v int)")
	mustRun(t, e, ctx, "INSERT INTO u (v) VALUES (1)")
	mustRun(t, e, ctx, "ALTER TABLE u AUTO_INCREMENT = 100")
	mustRun(t, e, ctx, "ALTER TABLE u ADD COLUMN w int NOT NULL DEFAULT 0")
	mustRun(t, e, ctx, "INSERT INTO u (v) VALUES (2)")
	if got, want := show(mustRun(t, e, ctx, "SELECT id, v FROM u ORDER BY id")), "[[1 1] [100 2]]"; got != want {
		t.Errorf("ALTER TABLE … AUTO_INCREMENT = 100 is lost by a later rewriting ALTER: %s, want %s", got, want)
	}
}
