package verifrepro

import "testing"

// C21-R3 memory.Table.getRewriteTableEditor->Session.putTable: acquiring the rewrite inserter of a
// table with a FULLTEXT index truncates the four full-text side tables and publishes the empty
// tables to the session before a single row was rewritten. When the ALTER then fails, the full-text
// index stays empty: MATCH … AGAINST finds nothing although the statement "failed without effect".
func TestC21FailedAlterKeepsFullTextIndex(t *testing.T) {
	for _, alter := range []string{
		"ALTER TABLE t MODIFY COLUMN n int NOT NULL",           // fails in the copy loop (NULL in n), exit with DiscardChanges+Close
		"ALTER TABLE t MODIFY COLUMN e ENUM('a','c') NOT NULL", // fails in the enum remap ('b' has no counterpart), exit without them
	} {
		e, ctx := newEngine(t)
		mustRun(t, e, ctx, "CREATE TABLE t (pk int primary key, e ENUM('a','b') NOT NULL, n int, doc text, FULLTEXT idx (doc))")
		mustRun(t, e, ctx, "INSERT INTO t VALUES (1,'a',1,'hello world'),(2,'b',NULL,'goodbye world')")
		const q = "SELECT pk FROM t WHERE MATCH(doc) AGAINST ('world') ORDER BY pk"
		before := show(mustRun(t, e, ctx, q))
		if _, err := run(t, e, ctx, alter); err == nil {
			t.Fatalf("%s: expected the statement to fail", alter)
		} else {
			t.Logf("%s -> %v", alter, err)
		}
		if after := show(mustRun(t, e, ctx, q)); after != before {
			t.Errorf("%s failed, but the full-text lookup changed from %s to %s", alter, before, after)
		}
	}
}

// The C21-R1 exceptions: error exits of the rewrite functions that skip DiscardChanges/Close.
// This test PASSES on the pinned code: it documents that with the in-memory backend such an exit
// leaves rows, schema and later statements untouched (the rewrite editor edits a private copy that
// only Close publishes), which is why these exits are exceptions of the rule and not findings.
func TestC21AbortedRewriteLeavesTable(t *testing.T) {
	cases := []struct{ setup, alter string }{
		{"CREATE TABLE t (pk int primary key, e ENUM('a','b') NOT NULL, n int)", "ALTER TABLE t MODIFY COLUMN e ENUM('a','c') NOT NULL"}, // modifyColumnIter: enum remap exit
		{"CREATE TABLE t (pk int, e ENUM('a','b') NOT NULL, n int)", "ALTER TABLE t ADD PRIMARY KEY (n)"},                                // createPkIter: NULL in the new key
	}
	for _, cs := range cases {
		e, ctx := newEngine(t)
		mustRun(t, e, ctx, cs.setup)
		mustRun(t, e, ctx, "INSERT INTO t VALUES (1,'a',1),(2,'b',NULL)")
		rows := show(mustRun(t, e, ctx, "SELECT * FROM t ORDER BY pk"))
		sch := show(mustRun(t, e, ctx, "SHOW CREATE TABLE t"))
		if _, err := run(t, e, ctx, cs.alter); err == nil {
			t.Fatalf("%s: expected failure", cs.alter)
		} else {
			t.Logf("%s -> %v", cs.alter, err)
		}
		if got := show(mustRun(t, e, ctx, "SELECT * FROM t ORDER BY pk")); got != rows {
			t.Errorf("%s: rows changed from %s to %s", cs.alter, rows, got)
		}
		if got := show(mustRun(t, e, ctx, "SHOW CREATE TABLE t")); got != sch {
			t.Errorf("%s: schema changed from %s to %s", cs.alter, sch, got)
		}
		mustRun(t, e, ctx, "INSERT INTO t VALUES (3,'b',3)")
		mustRun(t, e, ctx, "UPDATE t SET n = 5 WHERE pk = 1")
		if got, want := show(mustRun(t, e, ctx, "SELECT pk, n FROM t ORDER BY pk")), "[[1 5] [2 <nil>] [3 3]]"; got != want {
			t.Errorf("%s: later statements see %s, want %s", cs.alter, got, want)
		}
	}
}
