package verifrepro

import (
	"strconv"
	"testing"
	"time"

	"github.com/dolthub/go-mysql-server/server"
	"github.com/dolthub/go-mysql-server/sql"
	"github.com/dolthub/go-mysql-server/sql/types"
	"github.com/dolthub/go-mysql-server/sql/variables"
)

// c44Wire renders the single row of `q` exactly as the MySQL wire handler does (server.RowToSQL
// with the statement's schema): this is what a client of SELECT @@var receives.
func c44Wire(t *testing.T, q string) (string, error) {
	e, ctx := newEngine(t)
	sch, iter, _, err := e.Query(ctx, q)
	if err != nil {
		return "", err
	}
	row, err := iter.Next(ctx)
	if err != nil {
		return "", err
	}
	defer iter.Close(ctx)
	t.Logf("%s -> Go value %#v, schema type %s", q, row[0], sch[0].Type)
	vals, err := server.RowToSQL(ctx, sch, row, nil, nil)
	if err != nil {
		return "", err
	}
	return vals[0].ToString(), nil
}

// C44 (N2/D2): systemVars["uptime"] is declared with the bool type of updatable_views_with_limit while its
// ValueFunction returns the number of seconds as an int. Once the server has been up for two seconds the value is not
// a member of its own type any more and cannot be sent to a client.
func TestC44UptimeHasItsOwnIntegerType(t *testing.T) {
	old := variables.ServerStartUpTime
	defer func() { variables.ServerStartUpTime = old }()
	variables.ServerStartUpTime = time.Now().Add(-time.Hour) // a server that has been up for an hour

	// @@global.uptime goes through GetGlobal, which calls the ValueFunction
	got, err := c44Wire(t, "SELECT @@global.uptime")
	if err != nil {
		t.Errorf("SELECT @@global.uptime cannot be rendered for the client: %v", err)
	} else if n, perr := strconv.Atoi(got); perr != nil || n < 3600 {
		t.Errorf("SELECT @@global.uptime = %q, want the number of seconds (>= 3600)", got)
	}
	// observation only (not the defect this test is about): the session read path ignores ValueFunction
	// altogether and shows the declared Default.
	if got, err := c44Wire(t, "SELECT @@uptime"); err == nil {
		t.Logf("SELECT @@uptime (session path, ValueFunction not consulted) = %q", got)
	}

	// the validation error of the variable must name the variable itself
	err = sql.SystemVariables.AssignValues(map[string]interface{}{"uptime": "not a number"})
	t.Logf("AssignValues(uptime='not a number') -> %v", err)
	if err == nil || !contains44(err.Error(), "uptime") {
		t.Errorf("validation error for uptime does not name uptime: %v", err)
	}
}

// C44 (D1): ft_max_word_len has Default int64(0) but its type is NewSystemIntType(..., 10, MaxInt64): the default is
// rejected by the variable's own type, so the value of a fresh server cannot be rendered.
func TestC44FtMaxWordLenDefaultInsideItsBounds(t *testing.T) {
	got, err := c44Wire(t, "SELECT @@ft_max_word_len")
	if err != nil {
		t.Fatalf("SELECT @@ft_max_word_len cannot be rendered for the client: %v", err)
	}
	n, perr := strconv.Atoi(got)
	if perr != nil || n < 10 {
		t.Errorf("SELECT @@ft_max_word_len = %q, want a value >= 10 (the declared minimum)", got)
	}
	v, _, _ := sql.SystemVariables.GetGlobal("ft_max_word_len")
	if _, _, err := v.GetType().Convert(t.Context(), v.GetDefault()); err != nil {
		t.Errorf("the declared default is not a value of the declared type: %v", err)
	}
}

func contains44(s, sub string) bool {
	for i := 0; i+len(sub) <= len(s); i++ {
		if s[i:i+len(sub)] == sub {
			return true
		}
	}
	return false
}

// C44-K1: InitSystemVariables stores every value slot under sysVar.GetName() while every reader (GetGlobal, SetGlobal,
// AssignValues, getSystemVar) and AddSystemVariables itself fold the name with strings.ToLower. AddSystemVariables
// deliberately accepts a variable whose declared Name is not lower-case (it registers it under the folded name), so after
// the next InitSystemVariables (the documented way to reset the globals, used by the engine tests between scripts) the
// registry still knows the variable but its value slot lives under the unfolded spelling: GetGlobal dereferences the
// missing slot.
func TestC44InitSystemVariablesFoldsRegisteredNames(t *testing.T) {
	variables.InitSystemVariables()
	defer variables.InitSystemVariables()
	sql.SystemVariables.AddSystemVariables([]sql.SystemVariable{&sql.MysqlSystemVariable{
		Name:    "Verif_Custom_Limit",
		Scope:   sql.GetMysqlScope(sql.SystemVariableScope_Both),
		Dynamic: true,
		Type:    types.NewSystemIntType("Verif_Custom_Limit", 0, 100, false),
		Default: int64(7),
	}})
	_, v, ok := sql.SystemVariables.GetGlobal("verif_custom_limit")
	if !ok || v != int64(7) {
		t.Fatalf("after AddSystemVariables: GetGlobal(verif_custom_limit) = %v, %v; want 7, true", v, ok)
	}

	variables.InitSystemVariables() // reset the globals to their defaults

	func() {
		defer func() {
			if r := recover(); r != nil {
				t.Errorf("after InitSystemVariables: GetGlobal(verif_custom_limit) panics: %v", r)
			}
		}()
		_, v, ok := sql.SystemVariables.GetGlobal("verif_custom_limit")
		if !ok || v != int64(7) {
			t.Errorf("after InitSystemVariables: GetGlobal(verif_custom_limit) = %v, %v; want the default 7, true", v, ok)
		}
	}()
	// and a session created now does not see the variable under the name every reader uses
	if _, has := sql.SystemVariables.NewSessionMap()["verif_custom_limit"]; !has {
		t.Errorf("after InitSystemVariables: new sessions have no entry verif_custom_limit (keys are folded everywhere else)")
	}
}
