package verifrepro

import (
	"os"
	"path/filepath"
	"testing"
)

// c50RoundTrip exports one row (v, 'x') with SELECT ... INTO OUTFILE and loads the file back with LOAD DATA using
// the same options; it returns the rows of the source and of the reloaded table.
func c50RoundTrip(t *testing.T, opts string, v string) (string, string, string) {
	e, ctx := newEngine(t)
	file := filepath.Join(t.TempDir(), "out.txt")
	mustRun(t, e, ctx, "CREATE TABLE src (a varchar(50), b varchar(50))")
	mustRun(t, e, ctx, "CREATE TABLE dst (a varchar(50), b varchar(50))")
	mustRun(t, e, ctx, "INSERT INTO src VALUES ('"+v+"', 'x')")
	mustRun(t, e, ctx, "SELECT a, b FROM src INTO OUTFILE '"+file+"' "+opts)
	raw, _ := os.ReadFile(file)
	if _, err := run(t, e, ctx, "LOAD DATA INFILE '"+file+"' INTO TABLE dst "+opts); err != nil {
		return show(mustRun(t, e, ctx, "SELECT a, b FROM src")), "LOAD DATA error: " + err.Error(), string(raw)
	}
	return show(mustRun(t, e, ctx, "SELECT a, b FROM src")), show(mustRun(t, e, ctx, "SELECT a, b FROM dst")), string(raw)
}

// C50-E1 buildInto/FieldsTerminatedBy: a value containing the field terminator is written unescaped.
func TestC50OutfileEscapesFieldTerminator(t *testing.T) {
	src, dst, raw := c50RoundTrip(t, "", "a\tb") // SQL literal with a real TAB inside
	t.Logf("file: %q", raw)
	if src != dst {
		t.Errorf("default options: exported %s, reloaded %s", src, dst)
	}
}

// C50-E1 buildInto/FieldsEscapedBy: a value containing the escape character is written unescaped.
func TestC50OutfileEscapesEscapeCharacter(t *testing.T) {
	src, dst, raw := c50RoundTrip(t, "", `c:\\temp`) // the SQL literal denotes c:\temp
	t.Logf("file: %q", raw)
	if src != dst {
		t.Errorf("default options: exported %s, reloaded %s", src, dst)
	}
}

// C50-E1 buildInto/FieldsEnclosedBy: a value containing the enclosure character (followed by the terminator) is written unescaped.
func TestC50OutfileEscapesEnclosure(t *testing.T) {
	src, dst, raw := c50RoundTrip(t, `FIELDS TERMINATED BY ',' ENCLOSED BY '"'`, `say "hi",ok`)
	t.Logf("file: %q", raw)
	if src != dst {
		t.Errorf("ENCLOSED BY '\"': exported %s, reloaded %s", src, dst)
	}
}
