package verifrepro

import (
	"os"
	"path/filepath"
	"testing"
	"time"
)

// c50RoundTrip exports one row (v, 'x') with SELECT ... INTO OUTFILE and loads the file back with LOAD DATA using
// the same options; it returns the rows of the source and of the reloaded table.
func c50RoundTrip(t *testing.T, opts string, v string) (string, string, string) {
	e, ctx := newEngine(t)
	file := filepath.Join(t.TempDir(), "out.txt")
	mustRun(t, e, ctx, "CREATE TABLE src (a varchar(50), b varchar(50))")
	mustRun(t, e, ctx, "CREATE TABLE dst (a varchar(50), b varchar(50))")
	mustRun(t, e, ctx, "INSERT INTO src VALUES ('"+v+"', 'x')")
	mustRun(t, e, ctx, "SELECT a, b FROM src INTO OUTFILE '"+file+"' "+opts)
	raw, _ := os.ReadFile(file)
	if _, err := run(t, e, ctx, "LOAD DATA INFILE '"+file+"' INTO TABLE dst "+opts); err != nil {
		return show(mustRun(t, e, ctx, "SELECT a, b FROM src")), "LOAD DATA error: " + err.Error(), string(raw)
	}
	return show(mustRun(t, e, ctx, "SELECT a, b FROM src")), show(mustRun(t, e, ctx, "SELECT a, b FROM dst")), string(raw)
}

// C50-E1 buildInto/FieldsTerminatedBy: a value containing the field terminator is written unescaped.
func TestC50OutfileEscapesFieldTerminator(t *testing.T) {
	src, dst, raw := c50RoundTrip(t, "", "a\tb") // SQL literal with a real TAB inside
	t.Logf("file: %q", raw)
	if src != dst {
		t.Errorf("default options: exported %s, reloaded %s", src, dst)
	}
}

// C50-E1 buildInto/FieldsEscapedBy: a value containing the escape character is written unescaped.
func TestC50OutfileEscapesEscapeCharacter(t *testing.T) {
	src, dst, raw := c50RoundTrip(t, "", `c:\\temp`) // the SQL literal denotes c:\temp
	t.Logf("file: %q", raw)
	if src != dst {
		t.Errorf("default options: exported %s, reloaded %s", src, dst)
	}
}

// C50-E1 buildInto/FieldsEnclosedBy: a value containing the enclosure character (followed by the terminator) is written unescaped.
func TestC50OutfileEscapesEnclosure(t *testing.T) {
	src, dst, raw := c50RoundTrip(t, `FIELDS TERMINATED BY ',' ENCLOSED BY '"'`, `say "hi",ok`)
	t.Logf("file: %q", raw)
	if src != dst {
		t.Errorf("ENCLOSED BY '\"': exported %s, reloaded %s", src, dst)
	}
}

// C50-O3 loadDataIter.parseFields/word "NULL" read as NULL with escaping enabled: the reader turns the escape sequence \N into
// the in-band marker "NULL" and then maps every field whose text is NULL to SQL NULL, enclosed or not, escaping or not; the
// writer emits the string value 'NULL' verbatim, so it comes back as SQL NULL.
func TestC50StringNULLIsNotReadAsNull(t *testing.T) {
	for _, opts := range []string{"", `FIELDS TERMINATED BY ',' ENCLOSED BY '"'`} {
		src, dst, raw := c50RoundTrip(t, opts, "NULL")
		t.Logf("[%s] file: %q", opts, raw)
		if src != dst {
			t.Errorf("[%s]: exported %s, reloaded %s", opts, src, dst)
		}
	}
}

// C50-O3 BaseBuilder.buildInto/escape letters honoured whenever written: with ENCLOSED BY and ESCAPED BY set to the same
// character the writer still writes NULL as <escape>N, but the reader switches escape-letter processing off in that case
// (doubling only), so the marker is read as data.
func TestC50NullMarkerWhenEnclosureEqualsEscape(t *testing.T) {
	e, ctx := newEngine(t)
	file := filepath.Join(t.TempDir(), "out.txt")
	opts := `FIELDS TERMINATED BY ',' ENCLOSED BY '$' ESCAPED BY '$'`
	mustRun(t, e, ctx, "CREATE TABLE src (a varchar(50), b varchar(50))")
	mustRun(t, e, ctx, "CREATE TABLE dst (a varchar(50), b varchar(50))")
	mustRun(t, e, ctx, "INSERT INTO src VALUES (NULL, 'x')")
	mustRun(t, e, ctx, "SELECT a, b FROM src INTO OUTFILE '"+file+"' "+opts)
	raw, _ := os.ReadFile(file)
	t.Logf("file: %q", raw)
	mustRun(t, e, ctx, "LOAD DATA INFILE '"+file+"' INTO TABLE dst "+opts)
	src, dst := show(mustRun(t, e, ctx, "SELECT a, b FROM src")), show(mustRun(t, e, ctx, "SELECT a, b FROM dst"))
	if src != dst {
		t.Errorf("exported %s, reloaded %s", src, dst)
	}
}

// Observation made while demonstrating the C50-O findings; NOT reported by a rule (which values of an option make the
// reader's splitting degenerate is a value-level question): LINES TERMINATED BY '' is accepted by both statements, the writer
// concatenates the rows, and LOAD DATA never returns (plan.LoadData.SplitLines finds the empty terminator at offset 0 and never
// advances; loadDataIter.Next keeps skipping the empty lines).
func TestC50LoadDataEmptyLineTerminatorTerminates(t *testing.T) {
	e, ctx := newEngine(t)
	file := filepath.Join(t.TempDir(), "out.txt")
	mustRun(t, e, ctx, "CREATE TABLE src (a varchar(50), b varchar(50))")
	mustRun(t, e, ctx, "CREATE TABLE dst (a varchar(50), b varchar(50))")
	mustRun(t, e, ctx, "INSERT INTO src VALUES ('a','b'),('c','d')")
	mustRun(t, e, ctx, "SELECT a, b FROM src INTO OUTFILE '"+file+"' LINES TERMINATED BY ''")
	done := make(chan error, 1)
	go func() {
		_, err := run(t, e, ctx, "LOAD DATA INFILE '"+file+"' INTO TABLE dst LINES TERMINATED BY ''")
		done <- err
	}()
	select {
	case err := <-done:
		t.Logf("LOAD DATA returned: %v", err)
	case <-time.After(5 * time.Second):
		t.Fatalf("LOAD DATA ... LINES TERMINATED BY '' did not return within 5s (the query never terminates)")
	}
}
