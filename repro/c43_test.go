package verifrepro

import (
	"errors"
	"fmt"
	"sort"
	"strings"
	"testing"

	sqle "github.com/dolthub/go-mysql-server"
	"github.com/dolthub/go-mysql-server/memory"
	"github.com/dolthub/go-mysql-server/sql"
)

// C43-S1 information_schema.tablesRowIter: avgRowLength (and tableRows, dataLength, autoInc) are declared outside the
// per-table callback and assigned only on some paths, so an empty table is listed with the AVG_ROW_LENGTH that was
// computed for the table listed before it. Three tables are used so that the outcome does not depend on the order
// in which the database enumerates them: whichever empty table follows the full one shows the stale value.
func TestC43TablesAvgRowLengthNotCarriedOver(t *testing.T) {
	e, ctx := c43SortedEngine(t, new(bool), new(bool))
	for _, q := range []string{
		"CREATE TABLE a_empty (i BIGINT PRIMARY KEY, s VARCHAR(100))",
		"CREATE TABLE m_full (i BIGINT PRIMARY KEY, s VARCHAR(100))",
		"CREATE TABLE z_empty (i BIGINT PRIMARY KEY, s VARCHAR(100))",
		"INSERT INTO m_full VALUES (1,'x'),(2,'y'),(3,'z')",
	} {
		mustRun(t, e, ctx, q)
	}
	rows := mustRun(t, e, ctx, "SELECT table_name, table_rows, avg_row_length FROM information_schema.tables WHERE table_schema = 'mydb' ORDER BY table_name")
	t.Logf("information_schema.tables: %s", show(rows))
	if len(rows) != 3 {
		t.Fatalf("expected 3 tables, got %s", show(rows))
	}
	for _, r := range rows {
		name := fmt.Sprint(r[0])
		if strings.HasSuffix(name, "_empty") && fmt.Sprint(r[2]) != "0" {
			t.Errorf("empty table %s is listed with avg_row_length %v (table_rows %v): the value computed for the previously listed table was carried over", name, r[2], r[1])
		}
	}
}

type c43NoPersist struct{}

func (c43NoPersist) Persist(ctx *sql.Context, data []byte) error { return nil }

func c43PrivEngine(t *testing.T) (*sqle.Engine, func(user string) *sql.Context) {
	db := memory.NewDatabase("mydb")
	pro := memory.NewDBProvider(db)
	e := sqle.NewDefault(pro)
	e.Analyzer.Catalog.MySQLDb.AddRootAccount()
	e.Analyzer.Catalog.MySQLDb.SetPersister(c43NoPersist{})
	mk := func(user string) *sql.Context {
		base := sql.NewBaseSessionWithClientServer("server", sql.Client{User: user, Address: "localhost"}, 1)
		ctx := sql.NewContext(t.Context(), sql.WithSession(memory.NewSession(base, pro)))
		ctx.SetCurrentDatabase("mydb")
		return ctx
	}
	return e, mk
}

// C43-E2 tablesRowIter passes privCheck=true to AllDatabasesWithNames, which *unwraps* the privilege-checking
// database, while COLUMNS, STATISTICS, … and SHOW TABLES keep it: a user who was granted one table sees every table
// of that database in information_schema.TABLES, and only the granted one everywhere else.
func TestC43TablesAppliesTheSameVisibilityAsItsSiblings(t *testing.T) {
	e, mk := c43PrivEngine(t)
	root := mk("root")
	for _, q := range []string{
		"CREATE TABLE visible (i BIGINT PRIMARY KEY)",
		"CREATE TABLE hidden (secret_col BIGINT PRIMARY KEY)",
		"CREATE USER u1@localhost",
		"GRANT SELECT ON mydb.visible TO u1@localhost",
	} {
		mustRun(t, e, root, q)
	}
	u1 := mk("u1")
	names := func(q string) []string {
		var out []string
		for _, r := range mustRun(t, e, u1, q) {
			out = append(out, fmt.Sprint(r[0]))
		}
		return out
	}
	showTables := names("SHOW TABLES")
	columns := names("SELECT DISTINCT table_name FROM information_schema.columns WHERE table_schema = 'mydb' ORDER BY 1")
	tables := names("SELECT table_name FROM information_schema.tables WHERE table_schema = 'mydb' ORDER BY 1")
	t.Logf("as u1: SHOW TABLES=%v  information_schema.columns=%v  information_schema.tables=%v", showTables, columns, tables)
	if _, err := run(t, e, u1, "SELECT * FROM hidden"); err == nil {
		t.Fatalf("u1 can read mydb.hidden: the grant setup is not what the test assumes")
	}
	if fmt.Sprint(tables) != fmt.Sprint(showTables) || fmt.Sprint(tables) != fmt.Sprint(columns) {
		t.Errorf("information_schema.tables lists %v to u1, but SHOW TABLES lists %v and information_schema.columns %v: TABLES bypasses the privilege filter its siblings apply", tables, showTables, columns)
	}
}

// ---- C43-X1: a catalog whose referenced table cannot list its indexes -----------------------------------------

// c43FailingIndexes wraps a table and fails GetIndexes.
type c43FailingIndexes struct {
	*memory.Table
	fail *bool
}

var errC43Indexes = errors.New("c43: index metadata unavailable")

func (t *c43FailingIndexes) GetIndexes(ctx *sql.Context) ([]sql.Index, error) {
	if *t.fail {
		return nil, errC43Indexes
	}
	return t.Table.GetIndexes(ctx)
}

// c43Db hands out the wrapped parent table.
type c43Db struct {
	*memory.Database
	fail  *bool
	plain *bool
}

// GetTableNames lists the tables in name order (the memory database lists them in map order), so that the
// demonstrations do not depend on chance.
func (d *c43Db) GetTableNames(ctx *sql.Context) ([]string, error) {
	names, err := d.Database.GetTableNames(ctx)
	sort.Strings(names)
	return names, err
}

// c43PlainTable is a table of an integrator that implements sql.Table only: no statistics, no auto increment.
type c43PlainTable struct{ sql.Table }

func (d *c43Db) GetTableInsensitive(ctx *sql.Context, name string) (sql.Table, bool, error) {
	tbl, ok, err := d.Database.GetTableInsensitive(ctx, name)
	if err != nil || !ok {
		return tbl, ok, err
	}
	if d.plain != nil && *d.plain && strings.HasSuffix(strings.ToLower(name), "_plain") {
		return c43PlainTable{tbl}, true, nil
	}
	if mt, isMem := tbl.(*memory.Table); isMem && strings.EqualFold(name, "parent") {
		return &c43FailingIndexes{Table: mt, fail: d.fail}, true, nil
	}
	return tbl, ok, err
}

// c43Provider is the engine's view of a memory provider: it hands out the wrapping database. The session keeps the
// plain memory provider (memory.Session only commits to its own database types).
type c43Provider struct {
	*memory.DbProvider
	fail  *bool
	plain *bool
}

func (p *c43Provider) wrap(db sql.Database) sql.Database {
	if mdb, ok := db.(*memory.Database); ok {
		return &c43Db{Database: mdb, fail: p.fail, plain: p.plain}
	}
	return db
}

func (p *c43Provider) Database(ctx *sql.Context, name string) (sql.Database, error) {
	db, err := p.DbProvider.Database(ctx, name)
	if err != nil {
		return nil, err
	}
	return p.wrap(db), nil
}

func (p *c43Provider) AllDatabases(ctx *sql.Context) []sql.Database {
	var out []sql.Database
	for _, db := range p.DbProvider.AllDatabases(ctx) {
		out = append(out, p.wrap(db))
	}
	return out
}

func c43SortedEngine(t *testing.T, fail, plain *bool) (*sqle.Engine, *sql.Context) {
	mem := memory.NewDBProvider(memory.NewDatabase("mydb"))
	e := sqle.NewDefault(&c43Provider{DbProvider: mem, fail: fail, plain: plain})
	sess := memory.NewSession(sql.NewBaseSession(), mem)
	ctx := sql.NewContext(t.Context(), sql.WithSession(sess))
	ctx.SetCurrentDatabase("mydb")
	return e, ctx
}

// C43-S1 (tableRows, dataLength, autoInc): a table that implements sql.Table only (no StatisticsTable, no
// AutoIncrementTable) is listed with TABLE_ROWS, DATA_LENGTH and AUTO_INCREMENT of the table listed before it.
func TestC43TablesPlainTableValuesNotCarriedOver(t *testing.T) {
	plain := false
	e, ctx := c43SortedEngine(t, new(bool), &plain)
	for _, q := range []string{
		"CREATE TABLE m_full (i BIGINT PRIMARY KEY AUTO_INCREMENT, s VARCHAR(100))",
		"CREATE TABLE z_plain (i BIGINT PRIMARY KEY, s VARCHAR(100))",
		"INSERT INTO m_full (s) VALUES ('x'),('y'),('z')",
	} {
		mustRun(t, e, ctx, q)
	}
	plain = true
	rows := mustRun(t, e, ctx, "SELECT table_name, table_rows, data_length, auto_increment FROM information_schema.tables WHERE table_schema = 'mydb' ORDER BY table_name")
	t.Logf("information_schema.tables: %s", show(rows))
	if len(rows) != 2 || fmt.Sprint(rows[1][0]) != "z_plain" {
		t.Fatalf("setup: %s", show(rows))
	}
	z := rows[1]
	if fmt.Sprint(z[1]) != "0" {
		t.Errorf("z_plain (no statistics) is listed with table_rows %v: the count of m_full was carried over", z[1])
	}
	if fmt.Sprint(z[2]) != "0" {
		t.Errorf("z_plain (no statistics) is listed with data_length %v: the length of m_full was carried over", z[2])
	}
	if z[3] != nil {
		t.Errorf("z_plain (no auto increment) is listed with auto_increment %v: the counter of m_full was carried over", z[3])
	}
}

// C43-X1 referentialConstraintsRowIter binds the error of GetIndexes on the referenced table to ierr, tests it with
// an empty body and goes on: when the referenced table cannot list its indexes the statement succeeds and reports
// UNIQUE_CONSTRAINT_NAME = NULL instead of failing (every sibling reader returns the error).
func TestC43ReferentialConstraintsPropagatesIndexErrors(t *testing.T) {
	fail := false
	e, ctx := c43SortedEngine(t, &fail, new(bool))
	for _, q := range []string{
		"CREATE TABLE parent (id BIGINT PRIMARY KEY)",
		"CREATE TABLE child (id BIGINT PRIMARY KEY, pid BIGINT, CONSTRAINT fk1 FOREIGN KEY (pid) REFERENCES parent(id))",
	} {
		mustRun(t, e, ctx, q)
	}
	q := "SELECT constraint_name, unique_constraint_name FROM information_schema.referential_constraints WHERE constraint_schema = 'mydb'"
	ok := mustRun(t, e, ctx, q)
	t.Logf("healthy catalog: %s", show(ok))
	if len(ok) != 1 || fmt.Sprint(ok[0][1]) != "PRIMARY" {
		t.Fatalf("setup: expected fk1 -> PRIMARY, got %s", show(ok))
	}
	// the sibling table that reads the same indexes reports the failure
	fail = true
	_, sibErr := run(t, e, ctx, "SELECT index_name FROM information_schema.statistics WHERE table_schema = 'mydb' AND table_name = 'parent'")
	t.Logf("information_schema.statistics with failing GetIndexes: err=%v", sibErr)
	rows, err := run(t, e, ctx, q)
	t.Logf("information_schema.referential_constraints with failing GetIndexes: rows=%s err=%v", show(rows), err)
	if err == nil {
		t.Errorf("GetIndexes of the referenced table failed (%v) but REFERENTIAL_CONSTRAINTS succeeded with %s: the error was swallowed and the listing silently lost UNIQUE_CONSTRAINT_NAME", errC43Indexes, show(rows))
	}
}
