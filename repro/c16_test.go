package verifrepro

import (
	"fmt"
	"testing"
)

// c16IndexAgreesWithScan compares, for every value of the indexed column v, the ids found through the
// secondary index with the ids found by a full scan (the lookup column is wrapped so that no index is used).
func c16IndexAgreesWithScan(t *testing.T, run1 func(q string) string, vals ...int) {
	t.Helper()
	for _, v := range vals {
		viaIndex := run1(fmt.Sprintf("SELECT id FROM t WHERE v = %d ORDER BY id", v))
		viaScan := run1(fmt.Sprintf("SELECT id FROM t WHERE v + 0 = %d ORDER BY id", v))
		if viaIndex != viaScan {
			t.Errorf("v = %d: index lookup returns %s, full scan returns %s", v, viaIndex, viaScan)
		}
	}
}

// C16-A: the rows of TableData.secondaryIndexStorage are modified in place (partitionssort.Swap and
// deleteRowFromIndexes rewrite the row-location cell), but TableData.copy — which takes the statement
// snapshot — copies only the slices, not the rows. When a statement applies edits early (the editor is
// used for an index lookup by the self-referencing foreign key) and then fails, DiscardChanges restores
// the table rows from the snapshot while the snapshot's index rows already carry the new locations.
func TestC16FailedInsertKeepsIndexConsistent(t *testing.T) {
	e, ctx := newEngine(t)
	run1 := func(q string) string {
		defer func() {
			if r := recover(); r != nil {
				t.Errorf("%s: panic %v", q, r)
			}
		}()
		rows, err := run(t, e, ctx, q)
		if err != nil {
			return "error: " + err.Error()
		}
		return show(rows)
	}
	mustRun(t, e, ctx, "CREATE TABLE t (id int primary key, parent int, v int, KEY vk (v), FOREIGN KEY (parent) REFERENCES t(id))")
	mustRun(t, e, ctx, "INSERT INTO t VALUES (10,NULL,100),(20,NULL,200)")
	// row (5,…) sorts before the existing rows and is applied early for the FK lookup; row (6,999,…) then fails
	if _, err := run(t, e, ctx, "INSERT INTO t VALUES (5,10,50),(6,999,60)"); err == nil {
		t.Fatal("expected a foreign key violation")
	}
	if got, want := run1("SELECT id FROM t ORDER BY id"), "[[10] [20]]"; got != want {
		t.Fatalf("table after the failed statement: %s, want %s", got, want)
	}
	c16IndexAgreesWithScan(t, run1, 100, 200, 50)
}

// Same defect through deleteRowFromIndexes: the first DELETE is applied early (FK child lookup), the
// second one is restricted by a child row, the statement fails.
func TestC16FailedDeleteKeepsIndexConsistent(t *testing.T) {
	e, ctx := newEngine(t)
	run1 := func(q string) string {
		defer func() {
			if r := recover(); r != nil {
				t.Errorf("%s: panic %v", q, r)
			}
		}()
		rows, err := run(t, e, ctx, q)
		if err != nil {
			return "error: " + err.Error()
		}
		return show(rows)
	}
	mustRun(t, e, ctx, "CREATE TABLE t (id int primary key, parent int, v int, KEY vk (v), FOREIGN KEY (parent) REFERENCES t(id))")
	mustRun(t, e, ctx, "INSERT INTO t VALUES (10,NULL,100),(20,NULL,200),(30,20,300)")
	if _, err := run(t, e, ctx, "DELETE FROM t WHERE id IN (10,20)"); err == nil {
		t.Fatal("expected a foreign key violation (row 30 references row 20)")
	}
	if got, want := run1("SELECT id FROM t ORDER BY id"), "[[10] [20] [30]]"; got != want {
		t.Fatalf("table after the failed statement: %s, want %s", got, want)
	}
	c16IndexAgreesWithScan(t, run1, 100, 200, 300)
}
