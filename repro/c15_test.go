package verifrepro

import (
	"context"
	"errors"
	"io"
	"testing"

	sqle "github.com/dolthub/go-mysql-server"
	"github.com/dolthub/go-mysql-server/memory"
	"github.com/dolthub/go-mysql-server/sql"
	"github.com/dolthub/go-mysql-server/sql/plan"
	"github.com/dolthub/go-mysql-server/sql/types"
)

// c15Engine is newEngine with access to the database and a cancellable statement context that
// shares the session (the in-memory backend keeps table data per session).
func c15Engine(t testing.TB) (*sqle.Engine, *memory.Database, *sql.Context, *sql.Context, context.CancelFunc) {
	db := memory.NewDatabase("mydb")
	pro := memory.NewDBProvider(db)
	e := sqle.NewDefault(pro)
	sess := memory.NewSession(sql.NewBaseSession(), pro)
	ctx := sql.NewContext(t.Context(), sql.WithSession(sess))
	ctx.SetCurrentDatabase("mydb")
	cc, cancel := context.WithCancel(t.Context())
	stmtCtx := sql.NewContext(cc, sql.WithSession(sess))
	stmtCtx.SetCurrentDatabase("mydb")
	return e, db, ctx, stmtCtx, cancel
}

// c15RowWriter plays the role of rowexec.insertIter: it inserts one row per Next through the
// editor it was given and closes the editor in Close. After `cancelAfter` rows it cancels the
// statement's context (what KILL QUERY does).
type c15RowWriter struct {
	ed          sql.RowInserter
	rows        []sql.Row
	i           int
	cancelAfter int
	cancel      context.CancelFunc
}

func (w *c15RowWriter) Next(ctx *sql.Context) (sql.Row, error) {
	if w.i >= len(w.rows) {
		return nil, io.EOF
	}
	r := w.rows[w.i]
	w.i++
	if err := w.ed.Insert(ctx, r); err != nil {
		return nil, err
	}
	if w.i == w.cancelAfter {
		w.cancel()
	}
	return r, nil
}

func (w *c15RowWriter) Close(ctx *sql.Context) error { return w.ed.Close(ctx) }

// C15-S1 TableEditorIter.Next/return ctx.Err(): a statement that fails with "context canceled"
// between two rows must leave the table as it was. On the defective code Next does not record the
// error, Close takes the StatementComplete branch and the rows written so far stay.
func TestC15CancelledStatementLeavesNoRows(t *testing.T) {
	e, db, ctx, stmtCtx, cancel := c15Engine(t)
	mustRun(t, e, ctx, "CREATE TABLE t (a int primary key)")
	mustRun(t, e, ctx, "INSERT INTO t VALUES (100)")
	tbl, ok, err := db.GetTableInsensitive(ctx, "t")
	if err != nil || !ok {
		t.Fatal(ok, err)
	}
	ed := tbl.(sql.InsertableTable).Inserter(stmtCtx)
	w := &c15RowWriter{ed: ed, rows: []sql.Row{{int32(1)}, {int32(2)}, {int32(3)}}, cancelAfter: 2, cancel: cancel}
	it := plan.NewTableEditorIter(w, ed)

	var stmtErr error
	for {
		_, err := it.Next(stmtCtx)
		if err == io.EOF {
			break
		}
		if err != nil {
			stmtErr = err
			break
		}
	}
	closeErr := it.Close(stmtCtx)
	t.Logf("statement error: %v, close error: %v", stmtErr, closeErr)
	if !errors.Is(stmtErr, context.Canceled) {
		t.Fatalf("expected the statement to fail with context canceled, got %v", stmtErr)
	}
	rows := mustRun(t, e, ctx, "SELECT a FROM t ORDER BY a")
	if got, want := show(rows), "[[100]]"; got != want {
		t.Errorf("the failed statement left rows behind: table is %s, want %s", got, want)
	}
}

// c15FaultyInt is INT whose comparison can be made to fail: a stand-in for a storage error while
// the accumulated edits of a statement are applied.
type c15FaultyInt struct {
	sql.NumberType
	fail *bool
}

func (f c15FaultyInt) Compare(ctx context.Context, a, b interface{}) (int, error) {
	if *f.fail {
		return 0, errors.New("injected storage error")
	}
	return f.NumberType.Compare(ctx, a, b)
}

// C15-S4 memory.tableEditor.StatementComplete: an error while applying the statement's edits is
// turned into a nil return, so the statement reports success although nothing was applied.
func TestC15StatementCompleteReportsApplyError(t *testing.T) {
	_, db, ctx, _, _ := c15Engine(t)
	fail := false
	sch := sql.NewPrimaryKeySchema(sql.Schema{{Name: "a", Type: c15FaultyInt{types.Int64, &fail}, Source: "k", Nullable: true}})
	tbl := memory.NewTable(ctx, db, "k", sch, nil)
	db.AddTable("k", tbl)

	ins := tbl.Inserter(ctx)
	ins.StatementBegin(ctx)
	for _, r := range []sql.Row{{int64(1)}, {int64(2)}} {
		if err := ins.Insert(ctx, r); err != nil {
			t.Fatal(err)
		}
	}
	if err := ins.StatementComplete(ctx); err != nil {
		t.Fatal(err)
	}
	if err := ins.Close(ctx); err != nil {
		t.Fatal(err)
	}

	count := func() int {
		n := 0
		pi, err := tbl.Partitions(ctx)
		if err != nil {
			t.Fatal(err)
		}
		for {
			p, err := pi.Next(ctx)
			if err == io.EOF {
				break
			}
			ri, err := tbl.PartitionRows(ctx, p)
			if err != nil {
				t.Fatal(err)
			}
			for {
				if _, err := ri.Next(ctx); err != nil {
					break
				}
				n++
			}
		}
		return n
	}
	if n := count(); n != 2 {
		t.Fatalf("setup: %d rows", n)
	}

	del := tbl.Deleter(ctx)
	del.StatementBegin(ctx)
	if err := del.Delete(ctx, sql.Row{int64(1)}); err != nil {
		t.Fatal(err)
	}
	fail = true // applying the edits now fails
	err := del.StatementComplete(ctx)
	fail = false
	n := count()
	t.Logf("StatementComplete error: %v, rows afterwards: %d", err, n)
	if err == nil && n != 1 {
		t.Errorf("StatementComplete reported success but the delete was not applied (%d rows, want 1): the apply error was swallowed", n)
	}
}
