package verifrepro

import (
	"testing"

	sqle "github.com/dolthub/go-mysql-server"
	"github.com/dolthub/go-mysql-server/memory"
	"github.com/dolthub/go-mysql-server/sql"
)

// c17TwoSessions returns one engine and two autocommit sessions (A, B) over the same database.
func c17TwoSessions(t testing.TB) (*sqle.Engine, *sql.Context, *sql.Context) {
	db := memory.NewDatabase("mydb")
	pro := memory.NewDBProvider(db)
	e := sqle.NewDefault(pro)
	mk := func() *sql.Context {
		sess := memory.NewSession(sql.NewBaseSession(), pro)
		ctx := sql.NewContext(t.Context(), sql.WithSession(sess))
		ctx.SetCurrentDatabase("mydb")
		return ctx
	}
	return e, mk(), mk()
}

// C17-P1 Engine.PrepareParsedQuery: the implicit transaction it begins is not cleared when the
// PREPARE fails (no clearAutocommitOnError defer, beginTransaction's error dropped). With
// autocommit on, the next statement of that session then runs inside the stale transaction:
// it reads the snapshot taken during the failed PREPARE and, if it writes, its commit overwrites
// what another session committed in between. The two transactions do not overlap in time, so the
// final state must equal running them one after another.
func TestC17FailedPrepareLeavesNoTransaction(t *testing.T) {
	e, a, b := c17TwoSessions(t)
	mustRun(t, e, a, "CREATE TABLE t (x int primary key)")
	mustRun(t, e, a, "INSERT INTO t VALUES (1)")

	// session A: a PREPARE that fails while binding (t is resolved, then the unknown table fails)
	_, err := e.PrepareQuery(a, "SELECT * FROM t, no_such_table")
	if err == nil {
		t.Fatal("expected the PREPARE to fail")
	}
	t.Logf("failed prepare: %v; transaction left on session A: %v", err, a.GetTransaction())
	if a.GetTransaction() != nil {
		t.Errorf("a failed PREPARE left an implicit transaction open on an autocommit session")
	}

	// session B commits a row (autocommit)
	mustRun(t, e, b, "INSERT INTO t VALUES (2)")

	// session A's next autocommit statement must see it …
	if got, want := show(mustRun(t, e, a, "SELECT x FROM t ORDER BY x")), "[[1] [2]]"; got != want {
		t.Errorf("session A reads %s after session B committed, want %s (stale snapshot of the leaked transaction)", got, want)
	}
}

// Same history, but session A's next statement is a write: its commit must not undo B's insert.
func TestC17FailedPrepareDoesNotLoseOtherSessionsCommit(t *testing.T) {
	e, a, b := c17TwoSessions(t)
	mustRun(t, e, a, "CREATE TABLE t (x int primary key)")
	mustRun(t, e, a, "INSERT INTO t VALUES (1)")
	if _, err := e.PrepareQuery(a, "SELECT * FROM t, no_such_table"); err == nil {
		t.Fatal("expected the PREPARE to fail")
	}
	mustRun(t, e, b, "INSERT INTO t VALUES (2)")
	mustRun(t, e, a, "INSERT INTO t VALUES (3)")
	if got, want := show(mustRun(t, e, b, "SELECT x FROM t ORDER BY x")), "[[1] [2] [3]]"; got != want {
		t.Errorf("final state %s, want %s: session A's commit overwrote session B's committed row", got, want)
	}
}
