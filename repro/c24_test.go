package verifrepro

import "testing"

// C24: the WHILE arm of procedures.ConvertStmt does not register its label (stack.NewLabel), unlike LOOP and REPEAT.
// ITERATE resolves its target with stack.GetLabel, which then finds a stale entry left by an earlier loop with the
// same label, so ITERATE inside the WHILE jumps back into the earlier loop.
func TestC24IterateInWhileTargetsItsOwnLoop(t *testing.T) {
	e, ctx := newEngine(t)
	mustRun(t, e, ctx, `CREATE PROCEDURE p()
BEGIN
  DECLARE i INT DEFAULT 0;
  DECLARE j INT DEFAULT 0;
  l1: LOOP
    SET i = i + 1;
    IF i >= 2 THEN LEAVE l1; END IF;
  END LOOP;
  l1: WHILE j < 3 DO
    SET j = j + 1;
    ITERATE l1;
  END WHILE;
  SELECT i, j;
END`)
	got := show(mustRun(t, e, ctx, "CALL p()"))
	t.Logf("CALL p() -> %s", got)
	if got != "[[2 3]]" {
		t.Errorf("i, j = %s, want [[2 3]] (the first loop must run exactly twice, ITERATE l1 must continue the WHILE)", got)
	}
}

// Same defect in the REPEAT arm: the label is registered only after the first (unrolled) copy of the body has been
// compiled, so an ITERATE in that first copy still binds to the stale label of the earlier loop.
func TestC24IterateInRepeatTargetsItsOwnLoop(t *testing.T) {
	e, ctx := newEngine(t)
	mustRun(t, e, ctx, `CREATE PROCEDURE q()
BEGIN
  DECLARE i INT DEFAULT 0;
  DECLARE j INT DEFAULT 0;
  l1: LOOP
    SET i = i + 1;
    IF i >= 2 THEN LEAVE l1; END IF;
  END LOOP;
  l1: REPEAT
    SET j = j + 1;
    IF j < 3 THEN ITERATE l1; END IF;
  UNTIL j >= 3 END REPEAT;
  SELECT i, j;
END`)
	got := show(mustRun(t, e, ctx, "CALL q()"))
	t.Logf("CALL q() -> %s", got)
	if got != "[[2 3]]" {
		t.Errorf("i, j = %s, want [[2 3]]", got)
	}
}
