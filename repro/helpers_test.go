// Package repro holds demonstrations of findings against the real engine. They are NOT
// checks: they are copied into a scratch copy of /repo (with the SRID stub so that the
// engine builds) under ./verifrepro and run with `go test ./verifrepro -run <name>`. A test
// here FAILS on the defective code and passes on repaired code.
package verifrepro

import (
	"fmt"
	"io"
	"testing"

	sqle "github.com/dolthub/go-mysql-server"
	"github.com/dolthub/go-mysql-server/memory"
	"github.com/dolthub/go-mysql-server/sql"
)

func newEngine(t testing.TB) (*sqle.Engine, *sql.Context) {
	db := memory.NewDatabase("mydb")
	pro := memory.NewDBProvider(db)
	e := sqle.NewDefault(pro)
	sess := memory.NewSession(sql.NewBaseSession(), pro)
	ctx := sql.NewContext(t.Context(), sql.WithSession(sess))
	ctx.SetCurrentDatabase("mydb")
	return e, ctx
}

func run(t testing.TB, e *sqle.Engine, ctx *sql.Context, q string) ([]sql.Row, error) {
	_, iter, _, err := e.Query(ctx, q)
	if err != nil {
		return nil, err
	}
	var rows []sql.Row
	for {
		r, err := iter.Next(ctx)
		if err == io.EOF {
			break
		}
		if err != nil {
			iter.Close(ctx)
			return rows, err
		}
		rows = append(rows, r)
	}
	return rows, iter.Close(ctx)
}

func mustRun(t testing.TB, e *sqle.Engine, ctx *sql.Context, q string) []sql.Row {
	rows, err := run(t, e, ctx, q)
	if err != nil {
		t.Fatalf("%s: %v", q, err)
	}
	return rows
}

func show(rows []sql.Row) string { return fmt.Sprint(rows) }
