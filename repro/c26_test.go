package verifrepro

import (
	"math"
	"testing"

	"github.com/dolthub/vitess/go/vt/proto/query"

	"github.com/dolthub/go-mysql-server/sql"
	"github.com/dolthub/go-mysql-server/sql/types"
)

// C26-N2 CompareNulls(NULL,value)/sign and CompareNulls(value,NULL)/sign: the property (and
// the helper's own comment) say NULL sorts before every non-NULL value, so
// Type.Compare(NULL, x) must be negative and Type.Compare(x, NULL) positive, for every type
// built on types.CompareNulls.
func TestC26CompareNullsOrdersNullFirst(t *testing.T) {
	_, ctx := newEngine(t)
	cases := []struct {
		name string
		typ  sql.Type
		v    any
	}{
		{"BIGINT", types.Int64, int64(5)},
		{"VARCHAR", types.Text, "abc"},
		{"DECIMAL", types.MustCreateDecimalType(10, 2), "1.50"},
		{"YEAR", types.Year, int16(2001)},
		{"DATETIME", types.Datetime, "2020-01-01 00:00:00"},
	}
	for _, tc := range cases {
		lo, err := tc.typ.Compare(ctx, nil, tc.v)
		if err != nil {
			t.Fatalf("%s: %v", tc.name, err)
		}
		hi, err := tc.typ.Compare(ctx, tc.v, nil)
		if err != nil {
			t.Fatalf("%s: %v", tc.name, err)
		}
		if !(lo < 0) {
			t.Errorf("%s.Compare(NULL, %v) = %d, want < 0 (NULL sorts before non-NULL)", tc.name, tc.v, lo)
		}
		if !(hi > 0) {
			t.Errorf("%s.Compare(%v, NULL) = %d, want > 0", tc.name, tc.v, hi)
		}
	}
}

func c26Int64Value(x int64) sql.Value {
	b := make([]byte, 8)
	for i := 0; i < 8; i++ {
		b[i] = byte(uint64(x) >> (8 * i))
	}
	return sql.Value{Val: b, Typ: query.Type_INT64}
}

// C26-N2 CompareNullValues(NULL,value)/flag and (value,NULL)/flag: the helper reports
// has-null=false when exactly one operand is NULL, so every CompareValue falls through into the
// value conversion of a NULL. The sibling Compare answers without error for the same operands.
func TestC26CompareNullValuesFlag(t *testing.T) {
	_, ctx := newEngine(t)
	vt := types.Int64.(sql.ValueType)
	five := c26Int64Value(5)
	if c, err := vt.CompareValue(ctx, five, five); err != nil || c != 0 {
		t.Fatalf("sanity: CompareValue(5,5) = %d, %v", c, err)
	}
	has, _ := types.CompareNullValues(sql.NullValue, five)
	if !has {
		t.Errorf("CompareNullValues(NULL, 5) has-null flag = false, want true (CompareNulls(nil, 5) reports true)")
	}
	has, _ = types.CompareNullValues(five, sql.NullValue)
	if !has {
		t.Errorf("CompareNullValues(5, NULL) has-null flag = false, want true")
	}
	for _, x := range []int64{5, -5} {
		v := c26Int64Value(x)
		func() {
			defer func() {
				if r := recover(); r != nil {
					t.Errorf("BIGINT.CompareValue(NULL, %d) panicked: %v", x, r)
				}
			}()
			lo, err := vt.CompareValue(ctx, sql.NullValue, v)
			if err != nil || !(lo < 0) {
				t.Errorf("BIGINT.CompareValue(NULL, %d) = %d, err=%v; want < 0 and no error", x, lo, err)
			}
			hi, err := vt.CompareValue(ctx, v, sql.NullValue)
			if err != nil || !(hi > 0) {
				t.Errorf("BIGINT.CompareValue(%d, NULL) = %d, err=%v; want > 0 and no error", x, hi, err)
			}
		}()
	}
}

// C26-X1 compareIntToFloat/int64(float64number)/hi and compareUintToFloat/uint64(float64number)/hi:
// the JSON number order compares a Go integer with a float64 after converting the float to the
// integer type; a float at or above 2^63 (resp. exactly 2^64) is outside the target type, the
// conversion result is implementation-defined (MinInt64 / 0 on amd64) and the integer compares
// GREATER than a far larger float. Together with the int/int and float/float paths this makes
// the order intransitive: 5 < 7, 7 < 1e30 (float/float), but 5 > 1e30.
func TestC26JSONIntVsLargeFloat(t *testing.T) {
	_, ctx := newEngine(t)
	cases := []struct {
		name string
		a, b any
		want int
	}{
		{"int64 5 vs float 1e30", int64(5), float64(1e30), -1},
		{"int64 5 vs float 2^63", int64(5), float64(9223372036854775808), -1},
		{"float 1e30 vs int64 5", float64(1e30), int64(5), 1},
		{"int64 max vs float 2^63", int64(math.MaxInt64), float64(9223372036854775808), -1},
		{"uint64 max vs float 2^64", uint64(math.MaxUint64), float64(18446744073709551616), -1},
		{"float 2^64 vs uint64 max", float64(18446744073709551616), uint64(math.MaxUint64), 1},
		// controls: in-range floats and the guarded sides (uint64(2^64) happens to saturate on this toolchain)
		{"uint64 5 vs float 2^64", uint64(5), float64(18446744073709551616), -1},
		{"int64 5 vs float 7.5", int64(5), float64(7.5), -1},
		{"int64 5 vs float -1e30", int64(5), float64(-1e30), 1},
		{"uint64 5 vs float 1e30", uint64(5), float64(1e30), -1},
		{"float 7 vs float 1e30", float64(7), float64(1e30), -1},
	}
	for _, tc := range cases {
		got, err := types.CompareJSON(ctx, tc.a, tc.b)
		if err != nil {
			t.Fatalf("%s: %v", tc.name, err)
		}
		if got != tc.want {
			t.Errorf("CompareJSON(%s) = %d, want %d", tc.name, got, tc.want)
		}
	}
}

// The same through SQL: CAST(5 AS JSON) holds int64 5, a JSON literal holds float64.
func TestC26SqlJSONIntVsLargeFloat(t *testing.T) {
	e, ctx := newEngine(t)
	for _, q := range []struct {
		q    string
		want string
	}{
		{"SELECT CAST(5 AS JSON) < CAST('1e30' AS JSON)", "[[true]]"},
		{"SELECT CAST('1e30' AS JSON) > CAST(5 AS JSON)", "[[true]]"},
		{"SELECT CAST(18446744073709551615 AS JSON) < CAST('18446744073709551616' AS JSON)", "[[true]]"},
		{"SELECT CAST(18446744073709551615 AS JSON) = CAST('18446744073709551616' AS JSON)", "[[false]]"},
		{"SELECT CAST(5 AS JSON) < CAST('7.5' AS JSON)", "[[true]]"},
	} {
		rows := mustRun(t, e, ctx, q.q)
		if show(rows) != q.want {
			t.Errorf("%s = %s, want %s", q.q, show(rows), q.want)
		}
	}
}
