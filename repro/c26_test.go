package verifrepro

import (
	"testing"

	"github.com/dolthub/vitess/go/vt/proto/query"

	"github.com/dolthub/go-mysql-server/sql"
	"github.com/dolthub/go-mysql-server/sql/types"
)

// C26-N2 CompareNulls(NULL,value)/sign and CompareNulls(value,NULL)/sign: the property (and
// the helper's own comment) say NULL sorts before every non-NULL value, so
// Type.Compare(NULL, x) must be negative and Type.Compare(x, NULL) positive, for every type
// built on types.CompareNulls.
func TestC26CompareNullsOrdersNullFirst(t *testing.T) {
	_, ctx := newEngine(t)
	cases := []struct {
		name string
		typ  sql.Type
		v    any
	}{
		{"BIGINT", types.Int64, int64(5)},
		{"VARCHAR", types.Text, "abc"},
		{"DECIMAL", types.MustCreateDecimalType(10, 2), "1.50"},
		{"YEAR", types.Year, int16(2001)},
		{"DATETIME", types.Datetime, "2020-01-01 00:00:00"},
	}
	for _, tc := range cases {
		lo, err := tc.typ.Compare(ctx, nil, tc.v)
		if err != nil {
			t.Fatalf("%s: %v", tc.name, err)
		}
		hi, err := tc.typ.Compare(ctx, tc.v, nil)
		if err != nil {
			t.Fatalf("%s: %v", tc.name, err)
		}
		if !(lo < 0) {
			t.Errorf("%s.Compare(NULL, %v) = %d, want < 0 (NULL sorts before non-NULL)", tc.name, tc.v, lo)
		}
		if !(hi > 0) {
			t.Errorf("%s.Compare(%v, NULL) = %d, want > 0", tc.name, tc.v, hi)
		}
	}
}

func c26Int64Value(x int64) sql.Value {
	b := make([]byte, 8)
	for i := 0; i < 8; i++ {
		b[i] = byte(uint64(x) >> (8 * i))
	}
	return sql.Value{Val: b, Typ: query.Type_INT64}
}

// C26-N2 CompareNullValues(NULL,value)/flag and (value,NULL)/flag: the helper reports
// has-null=false when exactly one operand is NULL, so every CompareValue falls through into the
// value conversion of a NULL. The sibling Compare answers without error for the same operands.
func TestC26CompareNullValuesFlag(t *testing.T) {
	_, ctx := newEngine(t)
	vt := types.Int64.(sql.ValueType)
	five := c26Int64Value(5)
	if c, err := vt.CompareValue(ctx, five, five); err != nil || c != 0 {
		t.Fatalf("sanity: CompareValue(5,5) = %d, %v", c, err)
	}
	has, _ := types.CompareNullValues(sql.NullValue, five)
	if !has {
		t.Errorf("CompareNullValues(NULL, 5) has-null flag = false, want true (CompareNulls(nil, 5) reports true)")
	}
	has, _ = types.CompareNullValues(five, sql.NullValue)
	if !has {
		t.Errorf("CompareNullValues(5, NULL) has-null flag = false, want true")
	}
	for _, x := range []int64{5, -5} {
		v := c26Int64Value(x)
		func() {
			defer func() {
				if r := recover(); r != nil {
					t.Errorf("BIGINT.CompareValue(NULL, %d) panicked: %v", x, r)
				}
			}()
			lo, err := vt.CompareValue(ctx, sql.NullValue, v)
			if err != nil || !(lo < 0) {
				t.Errorf("BIGINT.CompareValue(NULL, %d) = %d, err=%v; want < 0 and no error", x, lo, err)
			}
			hi, err := vt.CompareValue(ctx, v, sql.NullValue)
			if err != nil || !(hi > 0) {
				t.Errorf("BIGINT.CompareValue(%d, NULL) = %d, err=%v; want > 0 and no error", x, hi, err)
			}
		}()
	}
}
