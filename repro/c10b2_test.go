package verifrepro

import (
	"fmt"
	"strings"
	"testing"

	"golang.org/x/text/language"
	"golang.org/x/text/language/display"
	"golang.org/x/text/message"
	"golang.org/x/text/number"
)

// c10b2Query runs one statement through Engine.Query and the row iterator; a panic anywhere on
// that path (the defect) is reported as a test failure instead of killing the test binary.
func c10b2Query(t *testing.T, q string) (out string, crashed bool) {
	t.Helper()
	e, ctx := newEngine(t)
	noPanic(t, q, func() {
		crashed = true
		rows, err := run(t, e, ctx, q)
		crashed = false
		out = fmt.Sprintf("rows=%v err=%v", rows, err)
		t.Logf("%s -> %s", q, out)
	})
	return out, crashed
}

// C10-B2 Locate.Eval/str[position - 1:]: the guard `position <= 0 || (len(str) > 0 && position >
// len(str))` lets every position through when the searched string is empty, so LOCATE('a', ”, 5)
// slices ""[4:]. MySQL returns 0.
func TestC10B2LocateEmptyStringWithPosition(t *testing.T) {
	for _, q := range []string{
		"SELECT LOCATE('a', '', 5)",
		"SELECT LOCATE('a', '', 2)",
		"SELECT LOCATE('abc', '', 2147483647)",
	} {
		if out, crashed := c10b2Query(t, q); !crashed && out != "rows=[[0]] err=<nil>" {
			t.Errorf("%s: want 0, got %s", q, out)
		}
	}
	// the neighbours that already work
	for q, want := range map[string]string{
		"SELECT LOCATE('a', '', 1)":    "rows=[[0]] err=<nil>",
		"SELECT LOCATE('', '', 1)":     "rows=[[1]] err=<nil>",
		"SELECT LOCATE('', '', 3)":     "rows=[[0]] err=<nil>",
		"SELECT LOCATE('b', 'abc', 2)": "rows=[[2]] err=<nil>",
		"SELECT LOCATE('b', 'abc', 9)": "rows=[[0]] err=<nil>",
	} {
		if out, _ := c10b2Query(t, q); out != want {
			t.Errorf("%s: want %s, got %s", q, want, out)
		}
	}
}

// C10-B2 Substring.Eval/text[startIdx:startIdx + length]: the clamp `if startIdx+length >
// runeCount` is computed in int64; for a length near MaxInt64 the sum wraps negative, the clamp is
// skipped and the slice expression gets a negative upper bound.
func TestC10B2SubstringHugeLength(t *testing.T) {
	for _, q := range []string{
		"SELECT SUBSTRING('abc', 2, 9223372036854775807)",
		"SELECT SUBSTR('abcdef', 3, 9223372036854775806)",
		"SELECT MID('abc', -1, 9223372036854775807)",
	} {
		c10b2Query(t, q)
	}
	for q, want := range map[string]string{
		"SELECT SUBSTRING('abc', 2, 9223372036854775807)": "rows=[[bc]] err=<nil>",
		"SELECT SUBSTRING('abc', 1, 9223372036854775807)": "rows=[[abc]] err=<nil>",
		"SELECT SUBSTRING('abc', 2, 1)":                   "rows=[[b]] err=<nil>",
		"SELECT SUBSTRING('abc', -2, 5)":                  "rows=[[bc]] err=<nil>",
		"SELECT SUBSTRING('abc', 4, 5)":                   "rows=[[]] err=<nil>",
	} {
		if out, crashed := c10b2Query(t, q); !crashed && out != want {
			t.Errorf("%s: want %s, got %s", q, want, out)
		}
	}
}

// C10-B2 Insert.Eval/s[endIdx:]: endIdx = startIdx + l is computed before it is compared with
// len(s); for a length near MaxInt64 it wraps negative, the clamp is skipped and s[endIdx:] panics.
func TestC10B2InsertHugeLength(t *testing.T) {
	for q, want := range map[string]string{
		"SELECT INSERT('abc', 2, 9223372036854775807, 'x')":    "rows=[[ax]] err=<nil>",
		"SELECT INSERT('abcdef', 3, 9223372036854775806, 'x')": "rows=[[abx]] err=<nil>",
		"SELECT INSERT('abc', 1, 9223372036854775807, 'x')":    "rows=[[x]] err=<nil>",
		"SELECT INSERT('abc', 2, 1, 'x')":                      "rows=[[axc]] err=<nil>",
		"SELECT INSERT('abc', 2, -1, 'x')":                     "rows=[[ax]] err=<nil>",
		"SELECT INSERT('abc', 2, 100, 'x')":                    "rows=[[ax]] err=<nil>",
		"SELECT INSERT('abc', 4, 1, 'x')":                      "rows=[[abc]] err=<nil>",
	} {
		if out, crashed := c10b2Query(t, q); !crashed && out != want {
			t.Errorf("%s: want %s, got %s", q, want, out)
		}
	}
}

// ---- the named exceptions of C10-B2, checked against the engine (these pass) ----

// Exception Format.Eval/decimalChar[1:2]: the decimal separator is cut out of the locale's
// rendering of 1.5. The slice is in range iff that rendering has at least two bytes; it has at
// least three (digit, separator, digit) for every locale x/text knows, and language.Parse maps
// everything else to one of them or fails (Format then falls back to English).
func TestC10B2FormatDecimalCharAllLocales(t *testing.T) {
	tags := append([]language.Tag{language.Und, language.English}, display.Supported.Tags()...)
	for _, s := range []string{"ar", "ar-EG", "fa", "hi", "bn", "my", "ne", "de-CH", "fr", "ps", "ur", "mr", "dz", "ckb", "ks", "und-u-nu-arab", "en-u-nu-deva", "th-u-nu-thai", "zh-u-nu-hanidec", "en-u-nu-fullwide", "x-private", "tlh", "zz"} {
		if tag, err := language.Parse(s); err == nil {
			tags = append(tags, tag)
		}
	}
	min := 1 << 30
	for _, tag := range tags {
		s := message.NewPrinter(tag).Sprintf("%v", number.Decimal(1.5))
		if len(s) < min {
			min = len(s)
		}
		if len(s) < 3 {
			t.Errorf("locale %v renders 1.5 as %q (%d bytes): decimalChar[1:2] needs 2", tag, s, len(s))
		}
	}
	t.Logf("%d locales, shortest rendering of 1.5 has %d bytes", len(tags), min)
	for _, q := range []string{"SELECT FORMAT(1234.5, 2, 'ar_EG')", "SELECT FORMAT(1234.5, 2, 'hi_IN')", "SELECT FORMAT(-0.5, 3, 'de_CH')", "SELECT FORMAT(1.5, 1, 'no-such-locale')"} {
		c10b2Query(t, q)
	}
}

// Exceptions padString/{padStr[:rem], result[:length], result[len(result)-length:]}: the padded
// string has exactly the requested length, so both result slices are the whole string, and rem is
// a remainder by len(padStr).
func TestC10B2PadKeepsRequestedLength(t *testing.T) {
	e, ctx := newEngine(t)
	for _, str := range []string{"", "a", "abc", "abcdefg"} {
		for _, pad := range []string{"x", "xy", "xyz", "0123456789"} {
			for length := 1; length <= 25; length++ {
				for _, fn := range []string{"LPAD", "RPAD"} {
					q := fmt.Sprintf("SELECT %s('%s', %d, '%s')", fn, str, length, pad)
					noPanic(t, q, func() {
						rows, err := run(t, e, ctx, q)
						if err != nil || len(rows) != 1 || len(rows[0][0].(string)) != length {
							t.Errorf("%s -> %v %v: want a string of length %d", q, rows, err, length)
							return
						}
						got := rows[0][0].(string)
						if (fn == "LPAD" && !strings.HasSuffix(got, str[:min(len(str), length)])) || (fn == "RPAD" && !strings.HasPrefix(got, str[:min(len(str), length)])) {
							t.Errorf("%s -> %q", q, got)
						}
					})
				}
			}
		}
	}
}

// Exception ConcatWithSeparator.Eval/parts[1:]: parts always holds the separator when the loop ends.
func TestC10B2ConcatWsSeparatorAlwaysPresent(t *testing.T) {
	for q, want := range map[string]string{
		"SELECT CONCAT_WS(',')":                 "rows=[[]] err=<nil>",
		"SELECT CONCAT_WS(',', NULL)":           "rows=[[]] err=<nil>",
		"SELECT CONCAT_WS(',', NULL, NULL)":     "rows=[[]] err=<nil>",
		"SELECT CONCAT_WS(NULL, 'a', 'b')":      "rows=[[<nil>]] err=<nil>",
		"SELECT CONCAT_WS('', 'a', NULL, 'b')":  "rows=[[ab]] err=<nil>",
		"SELECT CONCAT_WS(',', 'a', NULL, 'b')": "rows=[[a,b]] err=<nil>",
		"SELECT CONCAT_WS(1, 2, 3)":             "rows=[[213]] err=<nil>",
	} {
		if out, crashed := c10b2Query(t, q); !crashed && out != want {
			t.Errorf("%s: want %s, got %s", q, want, out)
		}
	}
	if out, _ := c10b2Query(t, "SELECT CONCAT_WS()"); !strings.Contains(out, "err=") || strings.Contains(out, "err=<nil>") {
		t.Errorf("CONCAT_WS() must be rejected, got %s", out)
	}
}
