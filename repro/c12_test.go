package verifrepro

import (
	"testing"
)

// C12: a prepared statement must keep behaving like its text, also when it is re-executed and
// after schema changes. The session caches the parsed statement; the planbuilder wrote into
// that tree while building, so a later EXECUTE no longer built the statement that was prepared.

// C12-A1 Builder.buildUsingJoin/JoinTableExpr.Condition.Using: the common columns of a NATURAL
// JOIN found at the first execution were stored into the cached JoinTableExpr; after a schema
// change the list was stale.
func TestC12NaturalJoinAfterSchemaChange(t *testing.T) {
	e, ctx := newEngine(t)
	for _, q := range []string{
		"CREATE TABLE t1 (a int primary key, b int)",
		"CREATE TABLE t2 (a int primary key, c int)",
		"INSERT INTO t1 VALUES (1,10),(2,20)",
		"INSERT INTO t2 VALUES (1,100),(2,200)",
		"PREPARE s FROM 'SELECT t1.a FROM t1 NATURAL JOIN t2 ORDER BY 1'",
	} {
		mustRun(t, e, ctx, q)
	}
	text := "SELECT t1.a FROM t1 NATURAL JOIN t2 ORDER BY 1"
	if got, want := show(mustRun(t, e, ctx, "EXECUTE s")), show(mustRun(t, e, ctx, text)); got != want {
		t.Fatalf("first execution: prepared %s, text %s", got, want)
	}
	mustRun(t, e, ctx, "ALTER TABLE t2 ADD COLUMN b int")
	mustRun(t, e, ctx, "UPDATE t2 SET b = 10")
	want := show(mustRun(t, e, ctx, text)) // joins on a and b now: only a=1
	got := show(mustRun(t, e, ctx, "EXECUTE s"))
	t.Logf("text: %s prepared: %s", want, got)
	if got != want {
		t.Errorf("after ALTER TABLE: EXECUTE returns %s, the same text returns %s", got, want)
	}
}

// C12-A1 Builder.buildUnaryScalar/UnaryExpr.Expr: for `_charset'…' COLLATE x` the CollateExpr was
// cut out of the cached tree; the second execution had lost COLLATE.
func TestC12IntroducerCollateReexecution(t *testing.T) {
	e, ctx := newEngine(t)
	text := "SELECT COLLATION(_utf8mb4'a' COLLATE utf8mb4_general_ci)"
	mustRun(t, e, ctx, "PREPARE s FROM \""+text+"\"")
	want := show(mustRun(t, e, ctx, text))
	first := show(mustRun(t, e, ctx, "EXECUTE s"))
	second := show(mustRun(t, e, ctx, "EXECUTE s"))
	t.Logf("text %s first %s second %s", want, first, second)
	if first != want || second != want {
		t.Errorf("text gives %s; first EXECUTE %s, second EXECUTE %s", want, first, second)
	}
}

// C12-B1 Engine.bindExecuteQueryNode/variable bound as stored: EXECUTE … USING @v converted the
// variable's value with the promoted approximate type before binding it; a POINT arrived as a
// byte string, while the inline @v works.
func TestC12ExecuteUsingPointVariable(t *testing.T) {
	e, ctx := newEngine(t)
	mustRun(t, e, ctx, "SET @p = POINT(1,2)")
	want := show(mustRun(t, e, ctx, "SELECT ST_X(@p)"))
	mustRun(t, e, ctx, "PREPARE s FROM 'SELECT ST_X(?)'")
	rows, err := run(t, e, ctx, "EXECUTE s USING @p")
	t.Logf("text %s prepared %v err %v", want, rows, err)
	if err != nil || show(rows) != want {
		t.Errorf("EXECUTE s USING @p: %v %v; SELECT ST_X(@p) gives %s", rows, err, want)
	}
	// LIMIT/OFFSET and INSERT through user variables keep working without the conversion
	mustRun(t, e, ctx, "CREATE TABLE t (a int primary key)")
	mustRun(t, e, ctx, "INSERT INTO t VALUES (1),(2),(3)")
	mustRun(t, e, ctx, "PREPARE l FROM 'SELECT a FROM t ORDER BY a LIMIT ? OFFSET ?'")
	mustRun(t, e, ctx, "SET @l = 2, @o = 1")
	if got := show(mustRun(t, e, ctx, "EXECUTE l USING @l, @o")); got != "[[2] [3]]" {
		t.Errorf("LIMIT ? OFFSET ? through user variables: %s", got)
	}
}

// Not a finding (kept as the evidence for the named exception of C12-A1
// Builder.tableSpecToSchema/ColumnDefinition.Type.Collate): the collation written into the cached
// CREATE TABLE comes from the statement's own options, so re-execution after the database default
// changed still equals the text.
func TestC12CreateTableCollationReexecution(t *testing.T) {
	e, ctx := newEngine(t)
	mustRun(t, e, ctx, "PREPARE s FROM 'CREATE TABLE tc (a varchar(10))'")
	mustRun(t, e, ctx, "EXECUTE s")
	mustRun(t, e, ctx, "DROP TABLE tc")
	mustRun(t, e, ctx, "ALTER DATABASE mydb COLLATE utf8mb4_general_ci")
	mustRun(t, e, ctx, "CREATE TABLE tc (a varchar(10))")
	want := show(mustRun(t, e, ctx, "SHOW CREATE TABLE tc"))
	mustRun(t, e, ctx, "DROP TABLE tc")
	mustRun(t, e, ctx, "EXECUTE s")
	got := show(mustRun(t, e, ctx, "SHOW CREATE TABLE tc"))
	if got != want {
		t.Errorf("after ALTER DATABASE: EXECUTE creates %s, the same text creates %s", got, want)
	}
}
