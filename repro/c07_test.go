package verifrepro

import (
	"io"
	"testing"

	"github.com/dolthub/go-mysql-server/sql"
	"github.com/dolthub/go-mysql-server/sql/expression"
	"github.com/dolthub/go-mysql-server/sql/plan"
	"github.com/dolthub/go-mysql-server/sql/rowexec"
	"github.com/dolthub/go-mysql-server/sql/types"
)

func c07Setup(t *testing.T) (func(q string) []sql.Row, *sql.Context) {
	e, ctx := newEngine(t)
	for _, q := range []string{
		"CREATE TABLE t1 (c varchar(10) COLLATE utf8mb4_0900_ai_ci)",
		"CREATE TABLE t2 (c varchar(10) COLLATE utf8mb4_0900_ai_ci)",
		"CREATE TABLE tt (c varchar(10) COLLATE utf8mb4_0900_ai_ci)",
		"INSERT INTO t1 VALUES ('a')", "INSERT INTO t2 VALUES ('A')", "INSERT INTO tt VALUES ('a'), ('A')",
	} {
		mustRun(t, e, ctx, q)
	}
	return func(q string) []sql.Row { return mustRun(t, e, ctx, q) }, ctx
}

// Reference: '=' and GROUP BY (which hashes with its key schema) collapse 'a' and 'A'.
func TestC07ReferenceEquality(t *testing.T) {
	q, _ := c07Setup(t)
	if got := show(q("SELECT COUNT(*) FROM tt WHERE c = 'A'")); got != "[[2]]" {
		t.Fatalf("'=' under utf8mb4_0900_ai_ci: %s", got)
	}
	if got := len(q("SELECT c FROM tt GROUP BY c")); got != 1 {
		t.Fatalf("GROUP BY groups: %d", got)
	}
}

// C07-H1 sql/plan.DistinctHasher.HashOf/HashOf(nil, row)
func TestC07Distinct(t *testing.T) {
	q, _ := c07Setup(t)
	if got := len(q("SELECT DISTINCT c FROM tt")); got != 1 {
		t.Errorf("SELECT DISTINCT c keeps %d rows for 'a','A' under utf8mb4_0900_ai_ci; '=' and GROUP BY make them one value", got)
	}
	if got := len(q("SELECT c FROM t1 UNION SELECT c FROM t2")); got != 1 {
		t.Errorf("UNION keeps %d rows for 'a' and 'A'", got)
	}
}

// C07-H1 sql/iters.IntersectIter.Next (both sites: the cache of the right side and the probe of the left side)
func TestC07Intersect(t *testing.T) {
	q, _ := c07Setup(t)
	if got := len(q("SELECT c FROM t1 INTERSECT SELECT c FROM t2")); got != 1 {
		t.Errorf("'a' INTERSECT 'A' returns %d rows, want 1 (the values are equal under the column collation)", got)
	}
}

// C07-H1 sql/iters.ExceptIter.Next (both sites)
func TestC07Except(t *testing.T) {
	q, _ := c07Setup(t)
	if got := len(q("SELECT c FROM t1 EXCEPT SELECT c FROM t2")); got != 0 {
		t.Errorf("'a' EXCEPT 'A' returns %d rows, want 0", got)
	}
}

// C07-H1 sql/rowexec.recursiveCteIter.Next
func TestC07RecursiveCteUnionDistinct(t *testing.T) {
	q, _ := c07Setup(t)
	rows := q("WITH RECURSIVE r(c) AS (SELECT c FROM t1 UNION SELECT t2.c FROM t2 JOIN r ON t2.c = r.c) SELECT c FROM r")
	if len(rows) != 1 {
		t.Errorf("recursive CTE with UNION (distinct) returns %v: the recursive step's 'A' equals the seed 'a' and must be dropped as a duplicate", rows)
	}
}

// C07-H1 sql/plan.DistinctHasher.HashOf/HashOf(nil, hashingRow): the DISTINCT ON path (no MySQL syntax reaches it;
// integrators build plan.NewDistinct(child, exprs...)), executed through the row-exec builder.
func TestC07DistinctOnExpressions(t *testing.T) {
	_, ctx := newEngine(t)
	typ := types.MustCreateString(types.Text.Type(), 10, sql.Collation_utf8mb4_0900_ai_ci)
	sch := sql.Schema{{Name: "c", Type: typ, Source: "v"}}
	vals := plan.NewValues([][]sql.Expression{{expression.NewLiteral("a", typ)}, {expression.NewLiteral("A", typ)}})
	_ = sch
	d := plan.NewDistinct(vals, expression.NewGetField(0, typ, "c", false))
	iter, err := rowexec.NewBuilder(nil, sql.EngineOverrides{}).Build(ctx, d, nil)
	if err != nil {
		t.Fatal(err)
	}
	n := 0
	for {
		_, err := iter.Next(ctx)
		if err == io.EOF {
			break
		}
		if err != nil {
			t.Fatal(err)
		}
		n++
	}
	if n != 1 {
		t.Errorf("Distinct ON (c) keeps %d rows for 'a','A' under utf8mb4_0900_ai_ci", n)
	}
}
