package verifrepro

import (
	"io"
	"testing"
)

// C09-E1 function.LastInsertId: IsNullable() is the constant false, Eval returns (nil, nil) when
// the argument converts to NULL. The result column is announced NOT NULL and carries NULL; a
// table created from it gets a NOT NULL column holding NULL.
func TestC09LastInsertIdNullable(t *testing.T) {
	e, ctx := newEngine(t)
	sch, iter, _, err := e.Query(ctx, "SELECT LAST_INSERT_ID(NULL) AS x")
	if err != nil {
		t.Fatal(err)
	}
	row, err := iter.Next(ctx)
	if err != nil && err != io.EOF {
		t.Fatal(err)
	}
	iter.Close(ctx)
	t.Logf("schema column %q nullable=%v, value=%v", sch[0].Name, sch[0].Nullable, row[0])
	if row[0] == nil && !sch[0].Nullable {
		t.Errorf("SELECT LAST_INSERT_ID(NULL): column reported NOT NULL (Nullable=false) but the value is NULL")
	}
	// the wrong nullability is visible to DDL: the derived column is declared NOT NULL, so the statement
	// is rejected (MySQL creates a nullable column holding NULL)
	if _, err := run(t, e, ctx, "CREATE TABLE li AS SELECT LAST_INSERT_ID(NULL) AS x"); err != nil {
		t.Errorf("CREATE TABLE ... AS SELECT LAST_INSERT_ID(NULL): %v", err)
	}
}
