package verifrepro

import (
	"fmt"
	"sync"
	"testing"
	"time"

	"github.com/dolthub/go-mysql-server/memory"
	"github.com/dolthub/go-mysql-server/sql"
	"github.com/dolthub/go-mysql-server/sql/expression"
	"github.com/dolthub/go-mysql-server/sql/types"
)

// A minimal driver index / index driver, enough to drive sql.IndexRegistry through its public API.
type c36Index struct {
	db, table, id string
	exprs         []string
}

func (i *c36Index) ID() string                                  { return i.id }
func (i *c36Index) Database() string                            { return i.db }
func (i *c36Index) Table() string                               { return i.table }
func (i *c36Index) Expressions() []string                       { return i.exprs }
func (i *c36Index) IsUnique() bool                              { return false }
func (i *c36Index) IsSpatial() bool                             { return false }
func (i *c36Index) IsFullText() bool                            { return false }
func (i *c36Index) IsVector() bool                              { return false }
func (i *c36Index) Comment() string                             { return "" }
func (i *c36Index) IndexType() string                           { return "BTREE" }
func (i *c36Index) IsGenerated() bool                           { return false }
func (i *c36Index) CanSupport(*sql.Context, ...sql.Range) bool  { return false }
func (i *c36Index) CanSupportOrderBy(sql.Expression) bool       { return false }
func (i *c36Index) CoversColumns([]string) bool                 { return false }
func (i *c36Index) PrefixLengths() []uint16                     { return nil }
func (i *c36Index) Driver() string                              { return "c36" }
func (i *c36Index) ColumnExpressionTypes(*sql.Context) []sql.ColumnExpressionType {
	return nil
}

type c36Driver struct{}

func (c36Driver) ID() string { return "c36" }
func (c36Driver) Create(db, table, id string, e []sql.Expression, cfg map[string]string) (sql.DriverIndex, error) {
	return &c36Index{db: db, table: table, id: id}, nil
}
func (c36Driver) LoadAll(ctx *sql.Context, db, table string) ([]sql.DriverIndex, error) {
	return []sql.DriverIndex{&c36Index{db: db, table: table, id: "idx_" + table, exprs: []string{table + ".a"}}}, nil
}
func (c36Driver) Save(*sql.Context, sql.DriverIndex, sql.PartitionIndexKeyValueIter) error { return nil }
func (c36Driver) Delete(sql.DriverIndex, sql.PartitionIter) error                          { return nil }

func c36Within(t *testing.T, d time.Duration, what string, f func()) {
	t.Helper()
	done := make(chan struct{})
	go func() { f(); close(done) }()
	select {
	case <-done:
	case <-time.After(d):
		t.Fatalf("%s did not finish within %v: the registry's lock was never released", what, d)
	}
}

// C36-G3 IndexRegistry.DeleteIndex/mut: DeleteIndex on an empty registry returns with mut still
// read-locked; the next writer (AddIndex) blocks forever.
func TestC36DeleteIndexOnEmptyRegistryReleasesLock(t *testing.T) {
	r := sql.NewIndexRegistry()
	if _, err := r.DeleteIndex("db", "nope", false); err == nil {
		t.Fatal("expected an error for a missing index")
	}
	c36Within(t, 3*time.Second, "AddIndex after a failed DeleteIndex", func() {
		if _, _, err := r.AddIndex(&c36Index{db: "db", table: "t", id: "i1", exprs: []string{"t.a"}}); err != nil {
			t.Error(err)
		}
	})
}

// The three tests below are demonstrations for `go test -race`: they fail with "DATA RACE" on the
// defective code and are silent without the race detector.

// C36-G1 IndexRegistry.HasIndexes/{indexes,drivers}(r): HasIndexes (called by every query's
// analysis) reads both maps without a lock while AddIndex / RegisterIndexDriver write them.
func TestC36RaceHasIndexesVsWriters(t *testing.T) {
	r := sql.NewIndexRegistry()
	var wg sync.WaitGroup
	wg.Add(2)
	go func() {
		defer wg.Done()
		for i := 0; i < 200; i++ {
			_ = r.HasIndexes()
		}
	}()
	go func() {
		defer wg.Done()
		r.RegisterIndexDriver(c36Driver{})
		for i := 0; i < 50; i++ {
			id := fmt.Sprintf("i%d", i)
			if _, _, err := r.AddIndex(&c36Index{db: "db", table: "t", id: id, exprs: []string{"t." + id}}); err != nil {
				t.Error(err)
			}
		}
	}()
	wg.Wait()
}

// C36-G2 IndexRegistry.DeleteIndex/call setStatus: DeleteIndex changes the index status while it
// holds only the read lock, so it races with every reader of the statuses (CanUseIndex).
func TestC36RaceDeleteIndexStatusUnderReadLock(t *testing.T) {
	r := sql.NewIndexRegistry()
	var idxs []*c36Index
	for i := 0; i < 20; i++ {
		idx := &c36Index{db: "db", table: "t", id: fmt.Sprintf("i%d", i), exprs: []string{fmt.Sprintf("t.c%d", i)}}
		created, ready, err := r.AddIndex(idx)
		if err != nil {
			t.Fatal(err)
		}
		close(created)
		<-ready
		idxs = append(idxs, idx)
	}
	var wg sync.WaitGroup
	wg.Add(2)
	go func() {
		defer wg.Done()
		for n := 0; n < 50; n++ {
			for _, idx := range idxs {
				_ = r.CanUseIndex(idx)
			}
		}
	}()
	go func() {
		defer wg.Done()
		for _, idx := range idxs {
			if _, err := r.DeleteIndex("db", idx.id, true); err != nil {
				t.Error(err)
			}
		}
	}()
	wg.Wait()
}

// C36-G1 IndexRegistry.registerIndexesForTable/indexLoaders, IndexRegistry.LoadIndexes$lit
// (indexes, indexOrder, statuses), IndexRegistry.MarkOutdated: lazy index loading runs under read
// locks only, so two read-only queries that look for a matching index mutate the registry's maps
// concurrently.
func TestC36RaceLazyIndexLoadingUnderReadLocks(t *testing.T) {
	db := memory.NewDatabase("db")
	pro := memory.NewDBProvider(db)
	newCtx := func() *sql.Context {
		return sql.NewContext(t.Context(), sql.WithSession(memory.NewSession(sql.NewBaseSession(), pro)))
	}
	ctx := newCtx()
	var exprs []sql.Expression
	for i := 0; i < 30; i++ {
		name := fmt.Sprintf("t%d", i)
		sch := sql.NewPrimaryKeySchema(sql.Schema{{Name: "a", Type: types.Int64, Source: name}})
		db.AddTable(name, memory.NewTable(ctx, db, name, sch, nil))
		exprs = append(exprs, expression.NewGetFieldWithTable(i, 0, types.Int64, "db", name, "a", false))
	}
	r := sql.NewIndexRegistry()
	r.RegisterIndexDriver(c36Driver{})
	// every second table reports a checksum that differs from its index's: the loader then calls MarkOutdated
	if err := r.LoadIndexes(ctx, []sql.Database{c36DB{db}}); err != nil {
		t.Fatal(err)
	}
	var wg sync.WaitGroup
	for g := 0; g < 2; g++ {
		wg.Add(1)
		go func(g int) {
			defer wg.Done()
			gctx := newCtx() // one session per goroutine, like two client connections
			for i := range exprs {
				e := exprs[i]
				if g == 1 {
					e = exprs[len(exprs)-1-i]
				}
				if _, _, err := r.MatchingIndex(gctx, "db", e); err != nil {
					t.Error(err)
				}
			}
		}(g)
	}
	wg.Wait()
}

// c36DB hands out tables that implement sql.Checksumable for every second table.
type c36DB struct{ *memory.Database }

type c36ChecksumTable struct{ sql.Table }

func (c36ChecksumTable) Checksum() (string, error) { return "table-v2", nil }

func (d c36DB) GetTableInsensitive(ctx *sql.Context, name string) (sql.Table, bool, error) {
	t, ok, err := d.Database.GetTableInsensitive(ctx, name)
	if err != nil || !ok {
		return t, ok, err
	}
	if len(name)%2 == 0 {
		return c36ChecksumTable{t}, true, nil
	}
	return t, true, nil
}

func (i *c36Index) Checksum() (string, error) { return "index-v1", nil }
