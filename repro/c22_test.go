package verifrepro

import (
	"strings"
	"testing"
)

// C22-F1 ForeignKeyConstraint.ParentDatabase: SHOW CREATE TABLE never reads the parent database of a foreign key, so a
// cross-database reference is printed without its qualifier and the printed statement recreates a different object.
func TestC22ShowCreateKeepsCrossDatabaseForeignKeyParent(t *testing.T) {
	e, ctx := newEngine(t)
	for _, q := range []string{
		"CREATE DATABASE db2",
		"CREATE TABLE db2.parent (id int primary key)",
		"INSERT INTO db2.parent VALUES (1)",
		"CREATE TABLE parent (id int primary key)", // a different table with the same name in the current database
		"INSERT INTO parent VALUES (2)",
		"CREATE TABLE child (id int primary key, pid int, CONSTRAINT fk1 FOREIGN KEY (pid) REFERENCES db2.parent (id))",
	} {
		mustRun(t, e, ctx, q)
	}
	// the original object references db2.parent: 1 is a valid parent key, 2 is not
	mustRun(t, e, ctx, "INSERT INTO child VALUES (1, 1)")
	if _, err := run(t, e, ctx, "INSERT INTO child VALUES (2, 2)"); err == nil {
		t.Fatal("setup: the original foreign key should reference db2.parent and reject pid=2")
	}
	rows := mustRun(t, e, ctx, "SHOW CREATE TABLE child")
	stmt := rows[0][1].(string)
	t.Logf("SHOW CREATE TABLE child:\n%s", stmt)
	if !strings.Contains(stmt, "db2") {
		t.Errorf("the printed statement does not mention the parent database db2")
	}
	// recreate the object from the printed statement
	mustRun(t, e, ctx, "DROP TABLE child")
	if _, err := run(t, e, ctx, stmt); err != nil {
		t.Fatalf("the printed statement cannot be executed: %v", err)
	}
	_, err1 := run(t, e, ctx, "INSERT INTO child VALUES (1, 1)")
	_, err2 := run(t, e, ctx, "INSERT INTO child VALUES (2, 2)")
	t.Logf("recreated table: insert pid=1 (key of db2.parent) -> %v; insert pid=2 (key of mydb.parent) -> %v", err1, err2)
	if err1 != nil || err2 == nil {
		t.Errorf("the recreated table behaves differently: it references mydb.parent instead of db2.parent")
	}
}
