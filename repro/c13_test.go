package verifrepro

import (
	"testing"

	"github.com/dolthub/vitess/go/mysql"

	"github.com/dolthub/go-mysql-server/sql"
	"github.com/dolthub/go-mysql-server/sql/types"
)

func c13Ok(t *testing.T, rows []sql.Row) types.OkResult {
	t.Helper()
	if len(rows) != 1 || len(rows[0]) != 1 {
		t.Fatalf("expected a single OkResult row, got %v", rows)
	}
	ok, isOk := rows[0][0].(types.OkResult)
	if !isOk {
		t.Fatalf("expected an OkResult, got %T", rows[0][0])
	}
	return ok
}

// MySQL (REPLACE statement, reference manual): "The REPLACE statement returns a count to
// indicate the number of rows affected. This is the sum of the rows deleted and inserted. ...
// it is possible for a single row to replace more than one old row if the table contains
// multiple unique indexes and the new row duplicates values for different old rows in
// different unique indexes."  One new row that collides with two different existing rows
// deletes both: 2 deleted + 1 inserted = 3.
func TestC13ReplaceCountsEveryDeletedRow(t *testing.T) {
	e, ctx := newEngine(t)
	mustRun(t, e, ctx, "CREATE TABLE r (pk INT PRIMARY KEY, u INT, UNIQUE KEY (u))")
	mustRun(t, e, ctx, "INSERT INTO r VALUES (1, 10), (2, 20)")
	ok := c13Ok(t, mustRun(t, e, ctx, "REPLACE INTO r VALUES (1, 20)"))
	rows := mustRun(t, e, ctx, "SELECT * FROM r ORDER BY pk")
	if len(rows) != 1 {
		t.Fatalf("table should hold one row after the REPLACE, has %s", show(rows))
	}
	if ok.RowsAffected != 3 {
		t.Fatalf("REPLACE deleted 2 rows and inserted 1: affected rows must be 3, engine reports %d", ok.RowsAffected)
	}
}

// MySQL (mysql_affected_rows): "For UPDATE statements, the affected-rows value by default is
// the number of rows actually changed. If you specify the CLIENT_FOUND_ROWS flag ... the
// affected-rows value is the number of rows found; that is, matched by the WHERE clause."
// The single-table UPDATE honours the flag; the multi-table UPDATE must, too.
func TestC13UpdateJoinHonoursClientFoundRows(t *testing.T) {
	e, ctx := newEngine(t)
	mustRun(t, e, ctx, "CREATE TABLE a (pk INT PRIMARY KEY, v INT)")
	mustRun(t, e, ctx, "CREATE TABLE b (pk INT PRIMARY KEY, w INT)")
	mustRun(t, e, ctx, "INSERT INTO a VALUES (1, 5), (2, 5), (3, 7)")
	mustRun(t, e, ctx, "INSERT INTO b VALUES (1, 0), (2, 0), (3, 0)")
	cl := ctx.Client()
	cl.Capabilities |= mysql.CapabilityClientFoundRows
	ctx.Session.SetClient(cl)

	// control: the single-table statement reports the matched rows under the flag (no row changes)
	ok := c13Ok(t, mustRun(t, e, ctx, "UPDATE a SET v = v WHERE pk <= 3"))
	if ok.RowsAffected != 3 {
		t.Fatalf("single-table UPDATE under CLIENT_FOUND_ROWS: want 3 (matched), got %d", ok.RowsAffected)
	}
	// three rows of a are matched, one of them changes
	ok = c13Ok(t, mustRun(t, e, ctx, "UPDATE a JOIN b ON a.pk = b.pk SET a.v = 5"))
	if ok.RowsAffected != 3 {
		t.Fatalf("UPDATE ... JOIN under CLIENT_FOUND_ROWS: 3 rows matched, 1 changed; affected rows must be 3 (found rows), engine reports %d (info %v)", ok.RowsAffected, ok.Info)
	}
}
