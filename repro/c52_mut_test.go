package verifrepro

import (
	"testing"
)

// C52-M1 ConvexHull.Eval: collectPoints returns the Points slice of a LINESTRING / MULTIPOINT operand itself and
// convexHull sorts and de-duplicates that slice in place. For a stored geometry the slice is the one held by the row of
// the in-memory table: SELECT ST_ConvexHull(g) reorders the points of the stored g.
func TestC52ConvexHullKeepsOperand(t *testing.T) {
	for _, g := range []string{"LINESTRING(3 0,0 0,3 3,1 1,0 3)", "MULTIPOINT(3 0,0 0,3 3,1 1,0 3)"} {
		e, ctx := newEngine(t)
		mustRun(t, e, ctx, "CREATE TABLE s (pk int primary key, g geometry)")
		mustRun(t, e, ctx, "INSERT INTO s VALUES (1, ST_GeomFromText('"+g+"'))")
		before := show(mustRun(t, e, ctx, "SELECT ST_AsText(g) FROM s"))
		if before == "" {
			t.Fatalf("stored %s, reads back %s", g, before)
		}
		hull := show(mustRun(t, e, ctx, "SELECT ST_AsText(ST_ConvexHull(g)) FROM s"))
		if hull != "[[POLYGON((0 0,3 0,3 3,0 3,0 0))]]" {
			t.Errorf("hull of %s = %s", g, hull)
		}
		if after := show(mustRun(t, e, ctx, "SELECT ST_AsText(g) FROM s")); after != before {
			t.Errorf("stored geometry changed by SELECT ST_ConvexHull(g): %s -> %s", before, after)
		}
		if wkb := show(mustRun(t, e, ctx, "SELECT ST_AsText(ST_GeomFromWKB(ST_AsWKB(g))) FROM s")); wkb != before {
			t.Errorf("WKB round trip of the stored geometry after ST_ConvexHull = %s, want %s", wkb, before)
		}
	}
}
