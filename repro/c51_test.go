package verifrepro

import (
	"strings"
	"testing"
)

// C51-F2 TableEditor.Delete/word-length filter: fulltext.TableEditor.Insert skips every word longer
// than maxWordLength (84 bytes) in all three word loops (position, document count, global count);
// TableEditor.Delete applies the filter only in the position loop. For a document that contains such
// a word, Delete asks the doc-count editor to delete a row whose `word` does not fit the VARCHAR(84)
// key column: the sub-editor rejects the row, so DELETE and UPDATE of that parent row fail (and the
// index tables can never be brought back in step with the table by DML).
func TestC51LongWordRowCanBeDeletedAndUpdated(t *testing.T) {
	long := strings.Repeat("a", 100)
	for _, stmt := range []string{
		"DELETE FROM t WHERE pk = 1",
		"UPDATE t SET doc = 'plain words only' WHERE pk = 1",
	} {
		e, ctx := newEngine(t)
		mustRun(t, e, ctx, "CREATE TABLE t (pk int primary key, doc text, FULLTEXT idx (doc))")
		mustRun(t, e, ctx, "INSERT INTO t VALUES (1, 'hello "+long+" world'), (2, 'other world')")
		if got, want := show(mustRun(t, e, ctx, "SELECT pk FROM t WHERE MATCH(doc) AGAINST ('hello') ORDER BY pk")), "[[1]]"; got != want {
			t.Fatalf("setup: MATCH hello = %s, want %s", got, want)
		}
		if _, err := run(t, e, ctx, stmt); err != nil {
			t.Errorf("%s: the row was inserted without complaint, but now: %v", stmt, err)
			continue
		}
		if got, want := show(mustRun(t, e, ctx, "SELECT pk FROM t WHERE MATCH(doc) AGAINST ('hello') ORDER BY pk")), "[]"; got != want {
			t.Errorf("%s: MATCH hello = %s afterwards, want %s", stmt, got, want)
		}
		if got, want := show(mustRun(t, e, ctx, "SELECT pk FROM t WHERE MATCH(doc) AGAINST ('world') ORDER BY pk")), "[[2]]"; got != want {
			t.Errorf("%s: MATCH world = %s afterwards, want %s", stmt, got, want)
		}
		if strings.HasPrefix(stmt, "UPDATE") {
			if got, want := show(mustRun(t, e, ctx, "SELECT pk FROM t WHERE MATCH(doc) AGAINST ('plain') ORDER BY pk")), "[[1]]"; got != want {
				t.Errorf("%s: MATCH plain = %s afterwards, want %s", stmt, got, want)
			}
		}
	}
}

// Duplicate-row regime (keyless table, two identical rows): Insert's duplicate branch skips the long
// word when it bumps the global counts, Delete's duplicate branch does not filter. Decrementing a
// word that was never counted is a no-op in updateGlobalCount, so this history stays consistent;
// the test documents that (it PASSES on the pinned code) so that the two deviations are told apart.
func TestC51LongWordDuplicateRowsStayConsistent(t *testing.T) {
	long := strings.Repeat("b", 100)
	e, ctx := newEngine(t)
	mustRun(t, e, ctx, "CREATE TABLE t (id int, doc text, FULLTEXT idx (doc))")
	mustRun(t, e, ctx, "INSERT INTO t VALUES (1, 'hello "+long+" world'), (1, 'hello "+long+" world'), (1, 'hello "+long+" world')")
	mustRun(t, e, ctx, "DELETE FROM t LIMIT 1")
	if got, want := show(mustRun(t, e, ctx, "SELECT count(*) FROM t WHERE MATCH(doc) AGAINST ('hello')")), "[[2]]"; got != want {
		t.Errorf("after deleting one duplicate: %s rows match, want %s", got, want)
	}
}

// C51-R BaseBuilder.buildRenameColumn/ModifyColumn: ALTER TABLE … RENAME COLUMN goes through
// AlterableTable.ModifyColumn and returns without the full-text rebuild that every other column
// change of the executor performs. This test PASSES on the pinned code: a pure rename changes no
// stored row, position or key, and the backend renames the index expressions, which is why the
// site is a named exception of C51-R and not a finding. (Renaming the PRIMARY KEY column is left
// out: with any secondary index, FULLTEXT or not, the next INSERT panics in memory.Index.ExtendedExprs —
// a backend defect that has nothing to do with the full-text rebuild, see TestC51SidePkRenamePanics.)
func TestC51RenameColumnKeepsFullTextUsable(t *testing.T) {
	for _, rename := range []string{
		"ALTER TABLE t RENAME COLUMN doc TO body", // the indexed column
		"ALTER TABLE t RENAME COLUMN n TO m",      // another column
	} {
		e, ctx := newEngine(t)
		mustRun(t, e, ctx, "CREATE TABLE t (pk int primary key, n int, doc text, FULLTEXT idx (doc))")
		mustRun(t, e, ctx, "INSERT INTO t VALUES (1, 1, 'hello world'), (2, 2, 'goodbye world')")
		if _, err := run(t, e, ctx, rename); err != nil {
			t.Errorf("%s: %v", rename, err)
			continue
		}
		col := "doc"
		if rename == "ALTER TABLE t RENAME COLUMN doc TO body" {
			col = "body"
		}
		func() {
			defer func() {
				if r := recover(); r != nil {
					t.Errorf("%s: later statement panics: %v", rename, r)
				}
			}()
			if _, err := run(t, e, ctx, "INSERT INTO t VALUES (3, 3, 'hello again')"); err != nil {
				t.Errorf("%s: INSERT afterwards: %v", rename, err)
			}
			rows, err := run(t, e, ctx, "SELECT * FROM t WHERE MATCH("+col+") AGAINST ('hello')")
			if err != nil {
				t.Errorf("%s: MATCH afterwards: %v", rename, err)
			} else if len(rows) != 2 {
				t.Errorf("%s: MATCH hello = %s, want rows 1 and 3", rename, show(rows))
			}
			if _, err := run(t, e, ctx, "DELETE FROM t WHERE "+map[bool]string{true: "id", false: "pk"}[strings.Contains(rename, "pk TO id")]+" = 2"); err != nil {
				t.Errorf("%s: DELETE afterwards: %v", rename, err)
			}
			rows, err = run(t, e, ctx, "SELECT * FROM t WHERE MATCH("+col+") AGAINST ('world')")
			if err != nil {
				t.Errorf("%s: MATCH afterwards: %v", rename, err)
			} else if len(rows) != 1 {
				t.Errorf("%s: MATCH world = %s, want row 1 only", rename, show(rows))
			}
		}()
	}
}

// Side observation, not a C51 finding (no C51 rule reports it): after ALTER TABLE … RENAME COLUMN of
// the primary-key column of a memory table that has any secondary index, the next INSERT panics with
// "index out of range [-1]" in memory.(*Index).ExtendedExprs (the index keeps resolving the old key
// column name). FAILS on the pinned code; the same happens with a plain KEY, so the missing
// full-text rebuild in buildRenameColumn is not the cause.
func TestC51SidePkRenamePanics(t *testing.T) {
	for _, create := range []string{
		"CREATE TABLE t (pk int primary key, doc varchar(100), KEY idx (doc))",
		"CREATE TABLE t (pk int primary key, doc text, FULLTEXT idx (doc))",
	} {
		e, ctx := newEngine(t)
		mustRun(t, e, ctx, create)
		mustRun(t, e, ctx, "INSERT INTO t VALUES (1, 'hello world')")
		mustRun(t, e, ctx, "ALTER TABLE t RENAME COLUMN pk TO id")
		func() {
			defer func() {
				if r := recover(); r != nil {
					t.Errorf("%s; RENAME COLUMN pk TO id; INSERT panics: %v", create, r)
				}
			}()
			if _, err := run(t, e, ctx, "INSERT INTO t VALUES (2, 'hello again')"); err != nil {
				t.Errorf("%s: INSERT after the rename: %v", create, err)
			}
		}()
	}
}
