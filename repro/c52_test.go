package verifrepro

import (
	"testing"

	"github.com/dolthub/go-mysql-server/server"
)

// c52Wire evaluates q and renders its single value the way the MySQL wire handler does.
func c52Wire(t *testing.T, q string) (string, string, error) {
	e, ctx := newEngine(t)
	sch, iter, _, err := e.Query(ctx, q)
	if err != nil {
		return "", "", err
	}
	row, err := iter.Next(ctx)
	if err != nil {
		return "", "", err
	}
	defer iter.Close(ctx)
	declared := sch[0].Type.String()
	t.Logf("%s -> Go value %T, declared type %s", q, row[0], declared)
	vals, err := server.RowToSQL(ctx, sch, row, nil, nil)
	if err != nil {
		return "", declared, err
	}
	return vals[0].ToString(), declared, nil
}

// C52-F1 MPolyFromWKB.Eval: ST_MPolyFromWKB tells EvalGeomFromWKB to expect WKBPolyID, so the WKB of a
// MULTIPOLYGON is rejected and the WKB of a POLYGON is accepted.
func TestC52MPolyFromWKBRoundTrip(t *testing.T) {
	e, ctx := newEngine(t)
	const mp = "MULTIPOLYGON(((0 0,0 1,1 1,0 0)))"
	rows, err := run(t, e, ctx, "SELECT ST_AsText(ST_MPolyFromWKB(ST_AsWKB(ST_GeomFromText('"+mp+"'))))")
	if err != nil {
		t.Errorf("ST_MPolyFromWKB(ST_AsWKB(<multipolygon>)) fails: %v", err)
	} else if show(rows) != "[["+mp+"]]" {
		t.Errorf("round trip gives %s, want %s", show(rows), mp)
	}
	rows, err = run(t, e, ctx, "SELECT ST_AsText(ST_MPolyFromWKB(ST_AsWKB(ST_GeomFromText('POLYGON((0 0,0 1,1 1,0 0))'))))")
	if err == nil {
		t.Errorf("ST_MPolyFromWKB accepts the WKB of a POLYGON and returns %s", show(rows))
	}
}

// C52-F1 MLineFromWKB.Eval: ST_MLineFromWKB declares PolygonType for a MultiLineString value. PolygonType.SQL cannot
// convert the value and sends an empty value: the client loses the geometry.
func TestC52MLineFromWKBDeclaredType(t *testing.T) {
	const g = "ST_GeomFromText('MULTILINESTRING((0 0,1 1))')"
	want, _, err := c52Wire(t, "SELECT "+g)
	if err != nil {
		t.Fatal(err)
	}
	got, declared, err := c52Wire(t, "SELECT ST_MLineFromWKB(ST_AsWKB("+g+"))")
	if err != nil {
		t.Errorf("the MultiLineString returned by ST_MLineFromWKB cannot be sent to a client under its declared type %s: %v", declared, err)
	}
	if got != want {
		t.Errorf("wire value of ST_MLineFromWKB(ST_AsWKB(g)) is %d bytes %q, the wire value of g itself is %d bytes: declared SQL type %q", len(got), got, len(want), declared)
	}
}

// C52-F1 GeomFromWKB.Eval: ST_GeomFromWKB accepts any geometry but declares PointType; same loss on the wire.
func TestC52GeomFromWKBDeclaredType(t *testing.T) {
	const g = "ST_GeomFromText('LINESTRING(0 0,1 1)')"
	want, _, err := c52Wire(t, "SELECT "+g)
	if err != nil {
		t.Fatal(err)
	}
	got, declared, err := c52Wire(t, "SELECT ST_GeomFromWKB(ST_AsWKB("+g+"))")
	if err != nil {
		t.Errorf("the LineString returned by ST_GeomFromWKB cannot be sent to a client under its declared type %s: %v", declared, err)
	}
	if got != want {
		t.Errorf("wire value of ST_GeomFromWKB(ST_AsWKB(g)) is %d bytes %q, the wire value of g itself is %d bytes: declared SQL type %q", len(got), got, len(want), declared)
	}
}
