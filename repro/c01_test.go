package verifrepro

import "testing"

// C01: AsLookup/AsMerge map LeftOuterExcludeNulls to a type that is not IsExcludeNulls.
func TestC01NotInPlanIndependent(t *testing.T) {
	e, ctx := newEngine(t)
	for _, q := range []string{
		"CREATE TABLE a (x int primary key, y int, key(y))",
		"CREATE TABLE b (x int primary key, y int, key(y))",
		"INSERT INTO a VALUES (1,1),(2,NULL),(3,3)",
		"INSERT INTO b VALUES (1,1),(2,NULL)",
	} {
		mustRun(t, e, ctx, q)
	}
	base := show(mustRun(t, e, ctx, "SELECT * FROM a WHERE y NOT IN (SELECT y FROM b) ORDER BY x"))
	for _, hint := range []string{"LOOKUP_JOIN(a,b)", "MERGE_JOIN(a,b)", "HASH_JOIN(a,b)", "LEFT_OUTER_LOOKUP_JOIN(a,b)"} {
		q := "SELECT /*+ " + hint + " */ * FROM a WHERE y NOT IN (SELECT y FROM b) ORDER BY x"
		got := show(mustRun(t, e, ctx, q))
		plan := show(mustRun(t, e, ctx, "EXPLAIN FORMAT=TREE "+q))
		t.Logf("%s -> %s\n%s", hint, got, plan)
		if got != base {
			t.Errorf("%s: got %s, unhinted plan gives %s", hint, got, base)
		}
	}
}
