package verifrepro

import (
	"testing"

	"github.com/dolthub/vitess/go/mysql"

	"github.com/dolthub/go-mysql-server/sql/mysql_db"
)

type c40Plugin struct{}

func (c40Plugin) Authenticate(db *mysql_db.MySQLDb, user string, userEntry *mysql_db.User, pass string) (bool, error) {
	return pass == "right", nil
}

// C40-U1 extendedAuthPlainTextStorage.UserEntryWithPassword: the extended (mysql_clear_password +
// registered plugin) authentication path never tests userEntry.Locked; its three siblings do. A locked
// account whose plugin accepts the password is logged in.
func TestC40LockedAccountAcceptedByExtendedAuth(t *testing.T) {
	db := mysql_db.CreateEmptyMySQLDb()
	db.SetPlugins(map[string]mysql_db.PlaintextAuthPlugin{"authplugin": c40Plugin{}})
	ed := db.Editor()
	db.AddSuperUser(ed, "bob", "localhost", "")
	u := db.GetUser(ed, "bob", "localhost", false)
	if u == nil {
		t.Fatal("user not created")
	}
	u.Plugin = "authplugin"
	u.Locked = true
	ed.PutUser(u)
	ed.Close()

	var clear mysql.AuthMethod
	for _, m := range db.AuthMethods() {
		if m.Name() == mysql.MysqlClearPassword {
			clear = m
		}
	}
	if clear == nil {
		t.Fatal("no mysql_clear_password method")
	}
	// wrong password: rejected either way
	if g, err := clear.HandleAuthPluginData(nil, "bob", nil, []byte("wrong\x00"), c10Addr{}); err == nil {
		t.Errorf("wrong password accepted: %v", g)
	}
	// right password, but the account is locked: must be rejected
	g, err := clear.HandleAuthPluginData(nil, "bob", nil, []byte("right\x00"), c10Addr{})
	if err == nil {
		t.Errorf("locked account bob@localhost was authenticated through the extended auth path: %v", g)
	} else {
		t.Logf("rejected: %v", err)
	}
	// control: the same account unlocked is accepted
	ed = db.Editor()
	u = db.GetUser(ed, "bob", "localhost", false)
	u.Locked = false
	ed.PutUser(u)
	ed.Close()
	if _, err := clear.HandleAuthPluginData(nil, "bob", nil, []byte("right\x00"), c10Addr{}); err != nil {
		t.Errorf("unlocked account rejected: %v", err)
	}
}

// C40-U2 (= C10-B1) validateMysqlNativePassword/authResponse[i]: see TestC10NativePasswordShortAuthResponse.
func TestC40NativePasswordShortAuthResponse(t *testing.T) { TestC10NativePasswordShortAuthResponse(t) }
