package verifrepro

import (
	"testing"

	sqle "github.com/dolthub/go-mysql-server"
	"github.com/dolthub/go-mysql-server/sql"
	"github.com/dolthub/go-mysql-server/sql/variables"
)

func c37Counter(t *testing.T, name string) uint64 {
	t.Helper()
	_, v, ok := sql.StatusVariables.GetGlobal(name)
	if !ok {
		t.Fatalf("status variable %s not found", name)
	}
	u, ok := v.(uint64)
	if !ok {
		t.Fatalf("%s has type %T", name, v)
	}
	return u
}

func c37Ctx(t *testing.T, id uint32, pid uint64) *sql.Context {
	sess := sql.NewBaseSessionWithClientServer("srv", sql.Client{Address: "127.0.0.1:1", User: "u"}, id)
	return sql.NewContext(t.Context(), sql.WithSession(sess), sql.WithPid(pid))
}

// C37-Q2 ProcessList.BeginQuery/Threads_running: the counter is incremented before the two
// error returns, so a rejected BeginQuery leaves Threads_running one too high for ever.
func TestC37RejectedBeginQueryDoesNotCountAsRunning(t *testing.T) {
	variables.InitStatusVariables()
	pl := sqle.NewProcessList()

	// (a) connection not registered with the process list
	before := c37Counter(t, "Threads_running")
	if _, err := pl.BeginQuery(c37Ctx(t, 7, 70), "SELECT 1"); err == nil {
		t.Fatalf("expected BeginQuery on an unregistered connection to fail")
	}
	if got := c37Counter(t, "Threads_running"); got != before {
		t.Errorf("unregistered connection: BeginQuery failed but Threads_running went %d -> %d", before, got)
	}

	// (b) pid already in use
	pl.AddConnection(1, "127.0.0.1:1")
	pl.AddConnection(2, "127.0.0.1:2")
	ctx1, err := pl.BeginQuery(c37Ctx(t, 1, 100), "SELECT SLEEP(1)")
	if err != nil {
		t.Fatal(err)
	}
	before = c37Counter(t, "Threads_running")
	if _, err := pl.BeginQuery(c37Ctx(t, 2, 100), "SELECT 2"); err == nil {
		t.Fatalf("expected BeginQuery with a pid in use to fail")
	}
	if got := c37Counter(t, "Threads_running"); got != before {
		t.Errorf("pid in use: BeginQuery failed but Threads_running went %d -> %d", before, got)
	}
	pl.EndQuery(ctx1)
	if got := c37Counter(t, "Threads_running"); got != 0 {
		t.Errorf("no query is running but Threads_running = %d", got)
	}
}

// C37-Q2 ProcessList.RemoveConnection/Threads_running: removing a connection whose query is
// still registered never decrements Threads_running (RemoveConnection does not, and the later
// EndQuery no longer finds the process).
func TestC37RemoveConnectionWithRunningQueryDecrements(t *testing.T) {
	variables.InitStatusVariables()
	pl := sqle.NewProcessList()
	pl.AddConnection(1, "127.0.0.1:1")
	ctx, err := pl.BeginQuery(c37Ctx(t, 1, 100), "SELECT SLEEP(10)")
	if err != nil {
		t.Fatal(err)
	}
	if got := c37Counter(t, "Threads_running"); got != 1 {
		t.Fatalf("Threads_running = %d after one BeginQuery", got)
	}
	pl.RemoveConnection(1) // client went away while the query runs (Handler.ConnectionClosed)
	pl.EndQuery(ctx)       // the handler's deferred EndQuery
	if got := c37Counter(t, "Threads_running"); got != 0 {
		t.Errorf("connection removed and query ended, but Threads_running = %d (want 0)", got)
	}
	if got := c37Counter(t, "Threads_connected"); got != 0 {
		t.Errorf("Threads_connected = %d (want 0)", got)
	}
	if n := len(pl.Processes()); n != 0 {
		t.Errorf("%d processes left", n)
	}
}
