package verifrepro

import (
	"math"
	"testing"

	"github.com/dolthub/go-mysql-server/sql"
	"github.com/dolthub/go-mysql-server/sql/types"
)

// C27-V1: conversions that report sql.InRange for a value they changed. Subtest = construct.
func TestC27InRangeMeansUnchanged(t *testing.T) {
	_, ctx := newEngine(t)
	bit64 := types.MustCreateBitType(64)
	cases := []struct {
		name string
		typ  sql.Type
		in   any
		want string // the only acceptable in-range result
	}{
		{"BitType_.Convert/uint64(int)", bit64, int(-1), ""},
		{"BitType_.Convert/uint64(int8)", bit64, int8(-1), ""},
		{"BitType_.Convert/uint64(int16)", bit64, int16(-1), ""},
		{"BitType_.Convert/uint64(int32)", bit64, int32(-1), ""},
		{"BitType_.Convert/uint64(int64)", bit64, int64(-1), ""},
		{"BitType_.Convert/uint64(float64)", bit64, float64(1e30), ""},
		{"convertToInt64/int64(uint)", types.Int64, uint(math.MaxUint64), ""},
		{"convertToInt64/int64(math.Round(float64))", types.Int64, float64(9223372036854775808), ""},
		{"convertToInt64/int64(math.Round(float64(float32)))", types.Int64, float32(9223372036854775808), ""},
		// controls: representable inputs must come back unchanged and in range
		{"control/bit", bit64, int64(5), "5"},
		{"control/bigint-float", types.Int64, float64(9223372036854774784), "9223372036854774784"},
		{"control/bigint-uint", types.Int64, uint(7), "7"},
	}
	for _, tc := range cases {
		t.Run(tc.name, func(t *testing.T) {
			got, inRange, err := tc.typ.Convert(ctx, tc.in)
			if tc.want != "" {
				if err != nil || inRange != sql.InRange || show([]sql.Row{{got}}) != "[["+tc.want+"]]" {
					t.Errorf("%s.Convert(%T %v) = %v, %v, %v; want %s in range", tc.typ, tc.in, tc.in, got, inRange, err, tc.want)
				}
				return
			}
			// the input is not representable in the target type: anything but "in range without error" is acceptable
			if err == nil && inRange == sql.InRange {
				t.Errorf("%s.Convert(%T %v) = %v reported sql.InRange without error: the value is not representable, a different value would be stored silently", tc.typ, tc.in, tc.in, got)
			}
		})
	}
}

// The same defect through SQL: a DOUBLE literal equal to 2^63 and -1 are stored in BIGINT / BIT(64)
// columns as different values without error or warning.
func TestC27SqlBigintFloatBoundary(t *testing.T) {
	e, ctx := newEngine(t)
	mustRun(t, e, ctx, "CREATE TABLE t (id int primary key, x bigint, b bit(64))")
	if _, err := run(t, e, ctx, "INSERT INTO t(id, x) VALUES (1, 9223372036854775808e0)"); err == nil {
		rows := mustRun(t, e, ctx, "SELECT x FROM t WHERE id = 1")
		if show(rows) != "[[9223372036854775807]]" { // MySQL (non-strict) clamps; strict mode rejects
			t.Errorf("INSERT 9223372036854775808e0 INTO bigint succeeded and stored %v", rows)
		}
	}
}

func TestC27SqlBit64Negative(t *testing.T) {
	e, ctx := newEngine(t)
	mustRun(t, e, ctx, "CREATE TABLE t (id int primary key, x bigint, b bit(64))")
	if _, err := run(t, e, ctx, "INSERT INTO t(id, b) VALUES (2, -1)"); err == nil {
		rows := mustRun(t, e, ctx, "SELECT b+0 FROM t WHERE id = 2")
		t.Errorf("INSERT -1 INTO bit(64) succeeded and stored %v (MySQL: out of range)", rows)
	}
}

// C27-V0 JsonType.Convert: every other data type's Convert maps a nil input to (nil, InRange, nil).
func TestC27ConvertNilIsNil(t *testing.T) {
	_, ctx := newEngine(t)
	for name, typ := range map[string]sql.Type{"BIGINT": types.Int64, "TEXT": types.Text, "DECIMAL": types.MustCreateDecimalType(10, 2), "DATETIME": types.Datetime, "JSON": types.JSON} {
		got, inRange, err := typ.Convert(ctx, nil)
		if got != nil || inRange != sql.InRange || err != nil {
			t.Errorf("%s.Convert(nil) = %#v, %v, %v; want nil, InRange, nil", name, got, inRange, err)
		}
	}
}
