package verifrepro

import (
	"testing"
	"time"

	sqle "github.com/dolthub/go-mysql-server"
	"github.com/dolthub/go-mysql-server/eventscheduler"
	"github.com/dolthub/go-mysql-server/memory"
	"github.com/dolthub/go-mysql-server/sql"
)

// C42-R1 Engine.executeEvent/Build(definitionNode): the event scheduler executes an event body
// through ExecBuilder.Build without Engine.readOnlyCheck. Once the engine is switched to read-only
// (a replica, a maintenance window) every client write is rejected, but scheduled events keep writing.
func TestC42ScheduledEventWritesOnReadOnlyEngine(t *testing.T) {
	db := memory.NewDatabase("mydb")
	pro := memory.NewDBProvider(db)
	e := sqle.NewDefault(pro)
	defer e.Close()
	newCtx := func() (*sql.Context, error) {
		sess := memory.NewSession(sql.NewBaseSession(), pro)
		ctx := sql.NewContext(t.Context(), sql.WithSession(sess))
		ctx.SetCurrentDatabase("mydb")
		return ctx, nil
	}
	ctx, _ := newCtx()
	if err := e.InitializeEventScheduler(newCtx, eventscheduler.SchedulerOn, 1); err != nil {
		t.Fatal(err)
	}
	mustRun(t, e, ctx, "CREATE TABLE t (a int primary key auto_increment, b int)")
	mustRun(t, e, ctx, "CREATE EVENT ev ON SCHEDULE EVERY 1 SECOND DO INSERT INTO t (b) VALUES (1)")
	count := func() int64 {
		rows := mustRun(t, e, ctx, "SELECT COUNT(*) FROM t")
		return rows[0][0].(int64)
	}
	deadline := time.Now().Add(10 * time.Second)
	for count() == 0 && time.Now().Before(deadline) {
		time.Sleep(200 * time.Millisecond)
	}
	if count() == 0 {
		t.Skip("the event never fired while the engine was writable")
	}

	e.ReadOnly.Store(true)
	if _, err := run(t, e, ctx, "INSERT INTO t (b) VALUES (2)"); err == nil {
		t.Fatalf("client insert accepted on a read-only engine")
	}
	time.Sleep(1200 * time.Millisecond) // let an execution that started before the switch finish
	before := count()
	time.Sleep(3500 * time.Millisecond)
	after := count()
	if after != before {
		t.Errorf("the read-only engine's table grew from %d to %d rows in 3.5 s: scheduled events still write", before, after)
	}
}
