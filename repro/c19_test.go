package verifrepro

import "testing"

// The C19-D exception insertIter.handleOnDuplicateKeyUpdate/…/nullability: ON DUPLICATE KEY UPDATE
// does not re-run validateNullability on the merged row. This test PASSES on the pinned code: it
// documents that the property still holds, because the in-memory editor's own checkRow rejects nil
// in a NOT NULL column and the statement fails without effect. (A CHECK violation on the same path
// is rejected by the iterator itself: evaluateChecks dominates the Update.)
func TestC19OnDuplicateKeyUpdateNullIsRejected(t *testing.T) {
	e, ctx := newEngine(t)
	mustRun(t, e, ctx, "CREATE TABLE t (a int primary key, b int NOT NULL, CHECK (b < 100))")
	mustRun(t, e, ctx, "INSERT INTO t VALUES (1, 10)")
	_, err := run(t, e, ctx, "INSERT INTO t VALUES (1, 20) ON DUPLICATE KEY UPDATE b = NULL")
	t.Logf("ODKU b = NULL -> %v", err)
	if err == nil {
		t.Errorf("ON DUPLICATE KEY UPDATE b = NULL on a NOT NULL column succeeded")
	}
	if got, want := show(mustRun(t, e, ctx, "SELECT * FROM t")), "[[1 10]]"; got != want {
		t.Errorf("row is %s, want %s", got, want)
	}
	_, err = run(t, e, ctx, "INSERT INTO t VALUES (1, 20) ON DUPLICATE KEY UPDATE b = 500")
	t.Logf("ODKU b = 500 -> %v", err)
	if err == nil {
		t.Errorf("ON DUPLICATE KEY UPDATE violating CHECK (b < 100) succeeded")
	}
	if got, want := show(mustRun(t, e, ctx, "SELECT * FROM t")), "[[1 10]]"; got != want {
		t.Errorf("row is %s, want %s", got, want)
	}
}

// Finding C19-G3 insertIter.applyUpdates/loop/repair-from-accumulator: under INSERT IGNORE … ON
// DUPLICATE KEY UPDATE an assignment whose value cannot be converted is "repaired" in the row that
// was proposed for insertion, and that row then takes the place of the row being updated. Columns the
// statement does not assign are overwritten with the proposed values, assignments made earlier in the
// list are lost, and VALUES() can no longer be resolved by later assignments. The plain UPDATE IGNORE
// path repairs a copy of the row being updated (checked last, as the reference). FAILS on the
// defective code.
func TestC19OnDupKeyUpdateIgnoreKeepsTheRowBeingUpdated(t *testing.T) {
	e, ctx := newEngine(t)
	mustRun(t, e, ctx, "CREATE TABLE t (pk int primary key, a int, b varchar(10), g int generated always as (a + 10) stored)")
	reset := func() {
		mustRun(t, e, ctx, "DELETE FROM t")
		mustRun(t, e, ctx, "INSERT INTO t (pk,a,b) VALUES (1, 5, 'old')")
	}
	for _, c := range []struct{ stmt, want, why string }{
		{"INSERT IGNORE INTO t (pk,a,b) VALUES (1, 7, 'new') ON DUPLICATE KEY UPDATE a = 'xyz'",
			"[[1 0 old 10]]", "b is not assigned and must keep its stored value"},
		{"INSERT IGNORE INTO t (pk,a,b) VALUES (1, 7, 'new') ON DUPLICATE KEY UPDATE b = 'kept', a = 'xyz'",
			"[[1 0 kept 10]]", "the assignment to b precedes the failing one and must survive"},
		{"INSERT IGNORE INTO t (pk,a,b) VALUES (1, 7, 'new') ON DUPLICATE KEY UPDATE a = 'xyz', b = concat(values(b), '!')",
			"[[1 0 new! 10]]", "VALUES(b) must still resolve after the failing assignment"},
		{"UPDATE IGNORE t SET b = 'kept', a = 'xyz'",
			"[[1 0 kept 10]]", "reference: the UPDATE IGNORE path"},
	} {
		reset()
		if _, err := run(t, e, ctx, c.stmt); err != nil {
			t.Errorf("%s: %v", c.stmt, err)
			continue
		}
		if got := show(mustRun(t, e, ctx, "SELECT * FROM t")); got != c.want {
			t.Errorf("%s\n  stored row %s, want %s (%s)", c.stmt, got, c.want, c.why)
		}
	}
}
