package verifrepro

import "testing"

// The C19-D exception insertIter.handleOnDuplicateKeyUpdate/…/nullability: ON DUPLICATE KEY UPDATE
// does not re-run validateNullability on the merged row. This test PASSES on the pinned code: it
// documents that the property still holds, because the in-memory editor's own checkRow rejects nil
// in a NOT NULL column and the statement fails without effect. (A CHECK violation on the same path
// is rejected by the iterator itself: evaluateChecks dominates the Update.)
func TestC19OnDuplicateKeyUpdateNullIsRejected(t *testing.T) {
	e, ctx := newEngine(t)
	mustRun(t, e, ctx, "CREATE TABLE t (a int primary key, b int NOT NULL, CHECK (b < 100))")
	mustRun(t, e, ctx, "INSERT INTO t VALUES (1, 10)")
	_, err := run(t, e, ctx, "INSERT INTO t VALUES (1, 20) ON DUPLICATE KEY UPDATE b = NULL")
	t.Logf("ODKU b = NULL -> %v", err)
	if err == nil {
		t.Errorf("ON DUPLICATE KEY UPDATE b = NULL on a NOT NULL column succeeded")
	}
	if got, want := show(mustRun(t, e, ctx, "SELECT * FROM t")), "[[1 10]]"; got != want {
		t.Errorf("row is %s, want %s", got, want)
	}
	_, err = run(t, e, ctx, "INSERT INTO t VALUES (1, 20) ON DUPLICATE KEY UPDATE b = 500")
	t.Logf("ODKU b = 500 -> %v", err)
	if err == nil {
		t.Errorf("ON DUPLICATE KEY UPDATE violating CHECK (b < 100) succeeded")
	}
	if got, want := show(mustRun(t, e, ctx, "SELECT * FROM t")), "[[1 10]]"; got != want {
		t.Errorf("row is %s, want %s", got, want)
	}
}
