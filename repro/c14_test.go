package verifrepro

import (
	"strings"
	"testing"
)

// C14-K1 memory.pkTableEditAccumulator.getRowKey: the pending-edit maps of a statement are keyed by the
// undelimited concatenation of the %v renderings of the primary-key cells. (1,23) and (12,3) both give
// "123": a statement that creates no duplicate is rejected as one.
func TestC14CompositeKeyNoFalseDuplicate(t *testing.T) {
	e, ctx := newEngine(t)
	mustRun(t, e, ctx, "CREATE TABLE pk2 (a int, b int, PRIMARY KEY(a,b))")
	if _, err := run(t, e, ctx, "INSERT INTO pk2(a,b) VALUES (1,23),(12,3)"); err != nil {
		t.Errorf("distinct keys (1,23) and (12,3) rejected: %v", err)
	}
	mustRun(t, e, ctx, "CREATE TABLE sk (a varchar(10), b varchar(10), PRIMARY KEY(a,b))")
	if _, err := run(t, e, ctx, "INSERT INTO sk VALUES ('ab','c'),('a','bc')"); err != nil {
		t.Errorf("distinct keys ('ab','c') and ('a','bc') rejected: %v", err)
	}
}

// C14-K1, the other direction: the formatted key ignores the collation, so two rows of ONE statement
// whose keys are equal under the column's collation are both accepted into the pending edits (and the
// second then silently overwrites the first when the edits are applied).
func TestC14CaseInsensitiveDuplicateInOneStatement(t *testing.T) {
	e, ctx := newEngine(t)
	mustRun(t, e, ctx, "CREATE TABLE ci2 (s varchar(10) COLLATE utf8mb4_0900_ai_ci PRIMARY KEY)")
	_, err := run(t, e, ctx, "INSERT INTO ci2 VALUES ('b'),('B')")
	rows := show(mustRun(t, e, ctx, "SELECT s FROM ci2 ORDER BY s"))
	t.Logf("error %v, rows %s", err, rows)
	if err == nil {
		t.Errorf("'b' and 'B' are equal under utf8mb4_0900_ai_ci, but INSERT … VALUES ('b'),('B') succeeded; table is %s", rows)
	}
}

// C14-K2 memory.columnsMatch: stored key cells are compared with Go's != on interface values, so keys
// that are equal under the column's collation are not recognised as duplicates across statements —
// for the primary key and for a unique index.
func TestC14CaseInsensitiveDuplicateAcrossStatements(t *testing.T) {
	e, ctx := newEngine(t)
	mustRun(t, e, ctx, "CREATE TABLE ci (s varchar(10) COLLATE utf8mb4_0900_ai_ci PRIMARY KEY)")
	mustRun(t, e, ctx, "INSERT INTO ci VALUES ('a')")
	if _, err := run(t, e, ctx, "INSERT INTO ci VALUES ('A')"); err == nil || !strings.Contains(err.Error(), "duplicate") {
		t.Errorf("primary key: second insert of 'A' after 'a' under utf8mb4_0900_ai_ci gave %v; table is %s, SELECT count(*) WHERE s='a' = %s",
			err, show(mustRun(t, e, ctx, "SELECT s FROM ci")), show(mustRun(t, e, ctx, "SELECT count(*) FROM ci WHERE s = 'a'")))
	}
	mustRun(t, e, ctx, "CREATE TABLE cu (id int primary key, s varchar(10) COLLATE utf8mb4_0900_ai_ci, UNIQUE KEY (s))")
	mustRun(t, e, ctx, "INSERT INTO cu VALUES (1,'a')")
	if _, err := run(t, e, ctx, "INSERT INTO cu VALUES (2,'A')"); err == nil || !strings.Contains(err.Error(), "duplicate") {
		t.Errorf("unique index: second insert of 'A' after 'a' gave %v; table is %s", err, show(mustRun(t, e, ctx, "SELECT * FROM cu")))
	}
}
