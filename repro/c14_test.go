package verifrepro

import (
	"strings"
	"testing"
)

// C14-K1 memory.pkTableEditAccumulator.getRowKey: the pending-edit maps of a statement are keyed by the
// undelimited concatenation of the %v renderings of the primary-key cells. (1,23) and (12,3) both give
// "123": a statement that creates no duplicate is rejected as one.
func TestC14CompositeKeyNoFalseDuplicate(t *testing.T) {
	e, ctx := newEngine(t)
	mustRun(t, e, ctx, "CREATE TABLE pk2 (a int, b int, PRIMARY KEY(a,b))")
	if _, err := run(t, e, ctx, "INSERT INTO pk2(a,b) VALUES (1,23),(12,3)"); err != nil {
		t.Errorf("distinct keys (1,23) and (12,3) rejected: %v", err)
	}
	mustRun(t, e, ctx, "CREATE TABLE sk (a varchar(10), b varchar(10), PRIMARY KEY(a,b))")
	if _, err := run(t, e, ctx, "INSERT INTO sk VALUES ('ab','c'),('a','bc')"); err != nil {
		t.Errorf("distinct keys ('ab','c') and ('a','bc') rejected: %v", err)
	}
}

// C14-K1, the other direction: the formatted key ignores the collation, so two rows of ONE statement
// whose keys are equal under the column's collation are both accepted into the pending edits (and the
// second then silently overwrites the first when the edits are applied).
func TestC14CaseInsensitiveDuplicateInOneStatement(t *testing.T) {
	e, ctx := newEngine(t)
	mustRun(t, e, ctx, "CREATE TABLE ci2 (s varchar(10) COLLATE utf8mb4_0900_ai_ci PRIMARY KEY)")
	_, err := run(t, e, ctx, "INSERT INTO ci2 VALUES ('b'),('B')")
	rows := show(mustRun(t, e, ctx, "SELECT s FROM ci2 ORDER BY s"))
	t.Logf("error %v, rows %s", err, rows)
	if err == nil {
		t.Errorf("'b' and 'B' are equal under utf8mb4_0900_ai_ci, but INSERT … VALUES ('b'),('B') succeeded; table is %s", rows)
	}
}

// C14-K2 memory.columnsMatch: stored key cells are compared with Go's != on interface values, so keys
// that are equal under the column's collation are not recognised as duplicates across statements —
// for the primary key and for a unique index.
func TestC14CaseInsensitiveDuplicateAcrossStatements(t *testing.T) {
	e, ctx := newEngine(t)
	mustRun(t, e, ctx, "CREATE TABLE ci (s varchar(10) COLLATE utf8mb4_0900_ai_ci PRIMARY KEY)")
	mustRun(t, e, ctx, "INSERT INTO ci VALUES ('a')")
	if _, err := run(t, e, ctx, "INSERT INTO ci VALUES ('A')"); err == nil || !strings.Contains(err.Error(), "duplicate") {
		t.Errorf("primary key: second insert of 'A' after 'a' under utf8mb4_0900_ai_ci gave %v; table is %s, SELECT count(*) WHERE s='a' = %s",
			err, show(mustRun(t, e, ctx, "SELECT s FROM ci")), show(mustRun(t, e, ctx, "SELECT count(*) FROM ci WHERE s = 'a'")))
	}
	mustRun(t, e, ctx, "CREATE TABLE cu (id int primary key, s varchar(10) COLLATE utf8mb4_0900_ai_ci, UNIQUE KEY (s))")
	mustRun(t, e, ctx, "INSERT INTO cu VALUES (1,'a')")
	if _, err := run(t, e, ctx, "INSERT INTO cu VALUES (2,'A')"); err == nil || !strings.Contains(err.Error(), "duplicate") {
		t.Errorf("unique index: second insert of 'A' after 'a' gave %v; table is %s", err, show(mustRun(t, e, ctx, "SELECT * FROM cu")))
	}
}

// ---- C14-P memory.pkTableEditAccumulator.GetByCols/latest-edit-wins -------------------------
// GetByCols consults the pending deletes before the pending adds: a row that was rewritten earlier in the
// same statement (Delete + Insert) hides its own unique value from the duplicate check of later rows.
// A multi-row UPDATE that rewrites row 1 (its unique value 10 stays) and then moves row 2 onto
// the same unique value must fail with a duplicate-key error.
func TestC14UniqueKeyAfterRewriteInSameStatement(t *testing.T) {
	e, ctx := newEngine(t)
	mustRun(t, e, ctx, "CREATE TABLE t (pk INT PRIMARY KEY, u INT, v INT, UNIQUE KEY uk (u))")
	mustRun(t, e, ctx, "INSERT INTO t VALUES (1,10,0),(2,20,0)")
	_, err := run(t, e, ctx, "UPDATE t SET v = v + 1, u = 10")
	rows := mustRun(t, e, ctx, "SELECT pk, u, v FROM t ORDER BY pk")
	if err == nil {
		t.Fatalf("UPDATE producing two rows with u = 10 under UNIQUE KEY(u) succeeded; table now: %s", show(rows))
	}
	t.Logf("rejected as expected: %v; table: %s", err, show(rows))
}

// INSERT ... ON DUPLICATE KEY UPDATE: the first tuple rewrites row 1 in place (u stays 10), the
// second tuple is a new row with the same unique value.
func TestC14UniqueKeyAfterODKUInSameStatement(t *testing.T) {
	e, ctx := newEngine(t)
	mustRun(t, e, ctx, "CREATE TABLE t (pk INT PRIMARY KEY, u INT, v INT, UNIQUE KEY uk (u))")
	mustRun(t, e, ctx, "INSERT INTO t VALUES (1,10,0)")
	_, err := run(t, e, ctx, "INSERT INTO t VALUES (1,10,1) ON DUPLICATE KEY UPDATE v = 7")
	if err != nil {
		t.Fatalf("single ODKU: %v", err)
	}
	_, err = run(t, e, ctx, "INSERT INTO t VALUES (1,10,1),(2,10,5) ON DUPLICATE KEY UPDATE v = v + 100")
	rows := mustRun(t, e, ctx, "SELECT pk, u, v FROM t ORDER BY pk")
	cnt := mustRun(t, e, ctx, "SELECT count(*) FROM t WHERE u + 0 = 10")
	t.Logf("err=%v table=%s count(u=10)=%s", err, show(rows), show(cnt))
	if len(rows) > 1 && rows[0][1] == rows[1][1] {
		t.Fatalf("two rows share the unique value: %s", show(rows))
	}
}
