package verifrepro

import "testing"

// C23-L insertIter.Next/row-width:doubled-make — REPLACE returns deleted||inserted (two rows wide, for the row-count
// accumulator) from the insert iterator. The AFTER INSERT executor above it hands that row to a trigger body that was
// resolved against a one-table-wide scope (NEW only), so NEW.x reads the first half: the deleted row, or NULLs when
// nothing was deleted.
func TestC23ReplaceAfterInsertTriggerSeesInsertedRow(t *testing.T) {
	e, ctx := newEngine(t)
	mustRun(t, e, ctx, "CREATE TABLE t (a INT PRIMARY KEY, b INT)")
	mustRun(t, e, ctx, "CREATE TABLE log (a INT, b INT)")
	mustRun(t, e, ctx, "CREATE TRIGGER tr AFTER INSERT ON t FOR EACH ROW INSERT INTO log VALUES (NEW.a, NEW.b)")
	mustRun(t, e, ctx, "INSERT INTO t VALUES (1, 10)")
	mustRun(t, e, ctx, "REPLACE INTO t VALUES (2, 20)")
	mustRun(t, e, ctx, "REPLACE INTO t VALUES (1, 11)")
	got := show(mustRun(t, e, ctx, "SELECT a, b FROM log ORDER BY 1, 2"))
	t.Logf("log -> %s", got)
	if got != "[[1 10] [1 11] [2 20]]" {
		t.Errorf("log = %s, want [[1 10] [1 11] [2 20]] (AFTER INSERT must see the inserted row as NEW)", got)
	}
}

// C23-L insertIter.handleOnDuplicateKeyUpdate/row-width:concat — on the duplicate path INSERT … ON DUPLICATE KEY UPDATE
// returns old||new from the insert iterator; the AFTER INSERT trigger then runs with NEW bound to the first half, i.e.
// the row as it was before the statement: neither the values of the INSERT nor what is stored.
func TestC23OnDuplicateKeyAfterInsertTriggerDoesNotSeeOldRowAsNew(t *testing.T) {
	e, ctx := newEngine(t)
	mustRun(t, e, ctx, "CREATE TABLE t (a INT PRIMARY KEY, b INT)")
	mustRun(t, e, ctx, "CREATE TABLE log (a INT, b INT)")
	mustRun(t, e, ctx, "CREATE TRIGGER ai AFTER INSERT ON t FOR EACH ROW INSERT INTO log VALUES (NEW.a, NEW.b)")
	mustRun(t, e, ctx, "INSERT INTO t VALUES (1, 10)")
	mustRun(t, e, ctx, "DELETE FROM log")
	mustRun(t, e, ctx, "INSERT INTO t VALUES (1, 99) ON DUPLICATE KEY UPDATE b = 11")
	got := show(mustRun(t, e, ctx, "SELECT a, b FROM log"))
	t.Logf("t -> %s, log -> %s", show(mustRun(t, e, ctx, "SELECT * FROM t")), got)
	// MySQL does not fire AFTER INSERT on the duplicate path at all ([]); if it is fired, NEW must at least not be the old row.
	if got == "[[1 10]]" {
		t.Errorf("log = %s: the AFTER INSERT trigger saw the pre-statement row (1,10) as NEW (inserted values (1,99), stored row (1,11))", got)
	}
}

// C23-T3 insertIter/RowUpdater.Update — the duplicate path of INSERT … ON DUPLICATE KEY UPDATE updates an existing row
// through RowUpdater.Update, but an InsertInto statement only selects INSERT triggers: the row's UPDATE triggers never run
// (MySQL: BEFORE INSERT, BEFORE UPDATE, AFTER UPDATE).
func TestC23OnDuplicateKeyUpdateFiresUpdateTriggers(t *testing.T) {
	e, ctx := newEngine(t)
	mustRun(t, e, ctx, "CREATE TABLE t (a INT PRIMARY KEY, b INT)")
	mustRun(t, e, ctx, "CREATE TABLE log (ev VARCHAR(20), a INT, b INT)")
	mustRun(t, e, ctx, "CREATE TRIGGER au AFTER UPDATE ON t FOR EACH ROW INSERT INTO log VALUES ('au', NEW.a, NEW.b)")
	mustRun(t, e, ctx, "INSERT INTO t VALUES (1, 10)")
	mustRun(t, e, ctx, "INSERT INTO t VALUES (1, 99) ON DUPLICATE KEY UPDATE b = 11")
	got := show(mustRun(t, e, ctx, "SELECT ev, a, b FROM log"))
	t.Logf("t -> %s, log -> %s", show(mustRun(t, e, ctx, "SELECT * FROM t")), got)
	if got != "[[au 1 11]]" {
		t.Errorf("log = %s, want [[au 1 11]] (row (1,10) was updated to (1,11): its UPDATE trigger must run once)", got)
	}
}

// C23-T3 insertIter/RowDeleter.Delete — REPLACE deletes the conflicting row through RowDeleter.Delete, but an InsertInto
// statement only selects INSERT triggers: the deleted row's DELETE triggers never run (MySQL fires them).
func TestC23ReplaceFiresDeleteTriggers(t *testing.T) {
	e, ctx := newEngine(t)
	mustRun(t, e, ctx, "CREATE TABLE t (a INT PRIMARY KEY, b INT)")
	mustRun(t, e, ctx, "CREATE TABLE log (ev VARCHAR(20), a INT, b INT)")
	mustRun(t, e, ctx, "CREATE TRIGGER ad AFTER DELETE ON t FOR EACH ROW INSERT INTO log VALUES ('ad', OLD.a, OLD.b)")
	mustRun(t, e, ctx, "INSERT INTO t VALUES (1, 10)")
	mustRun(t, e, ctx, "REPLACE INTO t VALUES (1, 11)")
	got := show(mustRun(t, e, ctx, "SELECT ev, a, b FROM log"))
	t.Logf("t -> %s, log -> %s", show(mustRun(t, e, ctx, "SELECT * FROM t")), got)
	if got != "[[ad 1 10]]" {
		t.Errorf("log = %s, want [[ad 1 10]] (REPLACE deleted row (1,10): its DELETE trigger must run once)", got)
	}
}

func c23MixedSetup(t *testing.T, body string) (func(q string) ([]string, error), func() string) {
	e, ctx := newEngine(t)
	mustRun(t, e, ctx, "CREATE TABLE t (a INT PRIMARY KEY)")
	mustRun(t, e, ctx, "CREATE TABLE t2 (a INT PRIMARY KEY, b INT)")
	mustRun(t, e, ctx, "CREATE TABLE t3 (a INT PRIMARY KEY, b INT)")
	mustRun(t, e, ctx, "CREATE TABLE log (ev VARCHAR(20), a INT)")
	mustRun(t, e, ctx, "INSERT INTO t2 VALUES (100, 0), (200, 0)")
	mustRun(t, e, ctx, "CREATE TRIGGER t2_ai AFTER INSERT ON t2 FOR EACH ROW INSERT INTO log VALUES ('t2 insert', NEW.a)")
	mustRun(t, e, ctx, "CREATE TRIGGER t2_au AFTER UPDATE ON t2 FOR EACH ROW INSERT INTO log VALUES ('t2 update', NEW.a)")
	mustRun(t, e, ctx, "CREATE TRIGGER t2_ad AFTER DELETE ON t2 FOR EACH ROW INSERT INTO log VALUES ('t2 delete', OLD.a)")
	mustRun(t, e, ctx, "CREATE TRIGGER t_ai AFTER INSERT ON t FOR EACH ROW\nBEGIN\n"+body+"\nEND")
	return func(q string) ([]string, error) {
			rows, err := run(t, e, ctx, q)
			return []string{show(rows)}, err
		}, func() string {
			return show(mustRun(t, e, ctx, "SELECT ev, a FROM log ORDER BY 1, 2"))
		}
}

// C23-T3 applyTrigger/InsertInto/trigger-matches-node — applyTriggers detects ONE event for the whole analysed subtree (the
// last DML node it meets wins) and applyTrigger then places every selected trigger on every DML node of the subtree, whatever
// the node's own event. With an IF whose branches hold an INSERT and an UPDATE of the same table, the UPDATE trigger is placed
// on the INSERT (and the INSERT trigger is never selected).
func TestC23UpdateTriggerIsNotPlacedOnInsertNode(t *testing.T) {
	q, log := c23MixedSetup(t, `  IF NEW.a > 0 THEN
    INSERT INTO t2 VALUES (NEW.a, 0);
  ELSE
    UPDATE t2 SET b = b + 1 WHERE a = 100;
  END IF;`)
	_, err := q("INSERT INTO t VALUES (1)")
	t.Logf("INSERT INTO t VALUES (1) -> err=%v, log=%s", err, log())
	if err != nil || log() != "[[t2 insert 1]]" {
		t.Errorf("err=%v log=%s, want no error and [[t2 insert 1]] (only t2's INSERT trigger runs for the row inserted into t2)", err, log())
	}
}

// C23-T3 applyTrigger/Update/trigger-matches-node — same with the branches the other way round: the INSERT trigger is placed on the UPDATE.
func TestC23InsertTriggerIsNotPlacedOnUpdateNode(t *testing.T) {
	q, log := c23MixedSetup(t, `  IF NEW.a > 0 THEN
    UPDATE t2 SET b = b + 1 WHERE a = 100;
  ELSE
    INSERT INTO t2 VALUES (NEW.a, 0);
  END IF;`)
	_, err := q("INSERT INTO t VALUES (1)")
	t.Logf("INSERT INTO t VALUES (1) -> err=%v, log=%s", err, log())
	if err != nil || log() != "[[t2 update 100]]" {
		t.Errorf("err=%v log=%s, want no error and [[t2 update 100]]", err, log())
	}
}

// C23-T3 applyTrigger/DeleteFrom/trigger-matches-node — the INSERT trigger is placed on the DELETE.
func TestC23InsertTriggerIsNotPlacedOnDeleteNode(t *testing.T) {
	q, log := c23MixedSetup(t, `  IF NEW.a > 0 THEN
    DELETE FROM t2 WHERE a = 200;
  ELSE
    INSERT INTO t2 VALUES (NEW.a, 0);
  END IF;`)
	_, err := q("INSERT INTO t VALUES (1)")
	t.Logf("INSERT INTO t VALUES (1) -> err=%v, log=%s", err, log())
	if err != nil || log() != "[[t2 delete 200]]" {
		t.Errorf("err=%v log=%s, want no error and [[t2 delete 200]]", err, log())
	}
}

// Same root cause along the table dimension: the affected tables are the union over the subtree, and a selected trigger is
// placed on every node of the kind, whatever table the node writes: t2's INSERT trigger also fires for rows inserted into t3.
func TestC23TriggerIsNotPlacedOnNodeOfOtherTable(t *testing.T) {
	q, log := c23MixedSetup(t, `  IF NEW.a > 0 THEN
    INSERT INTO t3 VALUES (NEW.a, 0);
  ELSE
    INSERT INTO t2 VALUES (NEW.a, 0);
  END IF;`)
	_, err := q("INSERT INTO t VALUES (1)")
	t.Logf("INSERT INTO t VALUES (1) -> err=%v, log=%s", err, log())
	if err != nil || log() != "[]" {
		t.Errorf("err=%v log=%s, want no error and [] (t3 has no triggers; t2's trigger must not run for t3's row)", err, log())
	}
}
