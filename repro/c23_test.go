package verifrepro

import "testing"

// C23-L insertIter.Next/row-width:doubled-make — REPLACE returns deleted||inserted (two rows wide, for the row-count
// accumulator) from the insert iterator. The AFTER INSERT executor above it hands that row to a trigger body that was
// resolved against a one-table-wide scope (NEW only), so NEW.x reads the first half: the deleted row, or NULLs when
// nothing was deleted.
func TestC23ReplaceAfterInsertTriggerSeesInsertedRow(t *testing.T) {
	e, ctx := newEngine(t)
	mustRun(t, e, ctx, "CREATE TABLE t (a INT PRIMARY KEY, b INT)")
	mustRun(t, e, ctx, "CREATE TABLE log (a INT, b INT)")
	mustRun(t, e, ctx, "CREATE TRIGGER tr AFTER INSERT ON t FOR EACH ROW INSERT INTO log VALUES (NEW.a, NEW.b)")
	mustRun(t, e, ctx, "INSERT INTO t VALUES (1, 10)")
	mustRun(t, e, ctx, "REPLACE INTO t VALUES (2, 20)")
	mustRun(t, e, ctx, "REPLACE INTO t VALUES (1, 11)")
	got := show(mustRun(t, e, ctx, "SELECT a, b FROM log ORDER BY 1, 2"))
	t.Logf("log -> %s", got)
	if got != "[[1 10] [1 11] [2 20]]" {
		t.Errorf("log = %s, want [[1 10] [1 11] [2 20]] (AFTER INSERT must see the inserted row as NEW)", got)
	}
}

// C23-L insertIter.handleOnDuplicateKeyUpdate/row-width:concat — on the duplicate path INSERT … ON DUPLICATE KEY UPDATE
// returns old||new from the insert iterator; the AFTER INSERT trigger then runs with NEW bound to the first half, i.e.
// the row as it was before the statement: neither the values of the INSERT nor what is stored.
func TestC23OnDuplicateKeyAfterInsertTriggerDoesNotSeeOldRowAsNew(t *testing.T) {
	e, ctx := newEngine(t)
	mustRun(t, e, ctx, "CREATE TABLE t (a INT PRIMARY KEY, b INT)")
	mustRun(t, e, ctx, "CREATE TABLE log (a INT, b INT)")
	mustRun(t, e, ctx, "CREATE TRIGGER ai AFTER INSERT ON t FOR EACH ROW INSERT INTO log VALUES (NEW.a, NEW.b)")
	mustRun(t, e, ctx, "INSERT INTO t VALUES (1, 10)")
	mustRun(t, e, ctx, "DELETE FROM log")
	mustRun(t, e, ctx, "INSERT INTO t VALUES (1, 99) ON DUPLICATE KEY UPDATE b = 11")
	got := show(mustRun(t, e, ctx, "SELECT a, b FROM log"))
	t.Logf("t -> %s, log -> %s", show(mustRun(t, e, ctx, "SELECT * FROM t")), got)
	// MySQL does not fire AFTER INSERT on the duplicate path at all ([]); if it is fired, NEW must at least not be the old row.
	if got == "[[1 10]]" {
		t.Errorf("log = %s: the AFTER INSERT trigger saw the pre-statement row (1,10) as NEW (inserted values (1,99), stored row (1,11))", got)
	}
}

// C23-T3 insertIter/RowUpdater.Update — the duplicate path of INSERT … ON DUPLICATE KEY UPDATE updates an existing row
// through RowUpdater.Update, but an InsertInto statement only selects INSERT triggers: the row's UPDATE triggers never run
// (MySQL: BEFORE INSERT, BEFORE UPDATE, AFTER UPDATE).
func TestC23OnDuplicateKeyUpdateFiresUpdateTriggers(t *testing.T) {
	e, ctx := newEngine(t)
	mustRun(t, e, ctx, "CREATE TABLE t (a INT PRIMARY KEY, b INT)")
	mustRun(t, e, ctx, "CREATE TABLE log (ev VARCHAR(20), a INT, b INT)")
	mustRun(t, e, ctx, "CREATE TRIGGER au AFTER UPDATE ON t FOR EACH ROW INSERT INTO log VALUES ('au', NEW.a, NEW.b)")
	mustRun(t, e, ctx, "INSERT INTO t VALUES (1, 10)")
	mustRun(t, e, ctx, "INSERT INTO t VALUES (1, 99) ON DUPLICATE KEY UPDATE b = 11")
	got := show(mustRun(t, e, ctx, "SELECT ev, a, b FROM log"))
	t.Logf("t -> %s, log -> %s", show(mustRun(t, e, ctx, "SELECT * FROM t")), got)
	if got != "[[au 1 11]]" {
		t.Errorf("log = %s, want [[au 1 11]] (row (1,10) was updated to (1,11): its UPDATE trigger must run once)", got)
	}
}

// C23-T3 insertIter/RowDeleter.Delete — REPLACE deletes the conflicting row through RowDeleter.Delete, but an InsertInto
// statement only selects INSERT triggers: the deleted row's DELETE triggers never run (MySQL fires them).
func TestC23ReplaceFiresDeleteTriggers(t *testing.T) {
	e, ctx := newEngine(t)
	mustRun(t, e, ctx, "CREATE TABLE t (a INT PRIMARY KEY, b INT)")
	mustRun(t, e, ctx, "CREATE TABLE log (ev VARCHAR(20), a INT, b INT)")
	mustRun(t, e, ctx, "CREATE TRIGGER ad AFTER DELETE ON t FOR EACH ROW INSERT INTO log VALUES ('ad', OLD.a, OLD.b)")
	mustRun(t, e, ctx, "INSERT INTO t VALUES (1, 10)")
	mustRun(t, e, ctx, "REPLACE INTO t VALUES (1, 11)")
	got := show(mustRun(t, e, ctx, "SELECT ev, a, b FROM log"))
	t.Logf("t -> %s, log -> %s", show(mustRun(t, e, ctx, "SELECT * FROM t")), got)
	if got != "[[ad 1 10]]" {
		t.Errorf("log = %s, want [[ad 1 10]] (REPLACE deleted row (1,10): its DELETE trigger must run once)", got)
	}
}
