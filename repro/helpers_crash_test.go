package verifrepro

import (
	"net"
	"testing"
)

// noPanic runs f and reports a panic as a test failure (the defect) instead of crashing the
// test binary. Shared by the C10/C32/C40 demonstrations.
func noPanic(t *testing.T, what string, f func()) {
	t.Helper()
	defer func() {
		if r := recover(); r != nil {
			t.Errorf("%s panicked: %v", what, r)
		}
	}()
	f()
}

// c10Addr is the client address used by the authentication demonstrations (C10, C40).
type c10Addr struct{}

func (c10Addr) Network() string { return "tcp" }
func (c10Addr) String() string  { return "127.0.0.1:54321" }

var _ net.Addr = c10Addr{}
