package verifrepro

import "testing"

// C29-T1 latin7_general_ci/t: the weight table of this case-insensitive collation gives 't' 182 and 'T' 183
// (every other ASCII case pair shares its weight), so 't' and 'T' do not compare equal, do not group together
// and hash differently.
func TestC29Latin7GeneralCiCasePairs(t *testing.T) {
	e, ctx := newEngine(t)
	mustRun(t, e, ctx, "CREATE TABLE l7 (c varchar(10) CHARACTER SET latin7 COLLATE latin7_general_ci)")
	mustRun(t, e, ctx, "INSERT INTO l7 VALUES ('t'), ('T'), ('s'), ('S')")
	if got := show(mustRun(t, e, ctx, "SELECT COUNT(*) FROM l7 WHERE c = 's'")); got != "[[2]]" {
		t.Fatalf("control: 's' = 'S' under latin7_general_ci: %s", got)
	}
	if got := show(mustRun(t, e, ctx, "SELECT COUNT(*) FROM l7 WHERE c = 't'")); got != "[[2]]" {
		t.Errorf("latin7_general_ci: c = 't' matches %s rows of ('t','T'), want 2 (case-insensitive collation)", got)
	}
	if got := len(mustRun(t, e, ctx, "SELECT c FROM l7 GROUP BY c")); got != 2 {
		t.Errorf("latin7_general_ci: GROUP BY forms %d groups for t,T,s,S, want 2", got)
	}
}
