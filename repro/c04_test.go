package verifrepro

import "testing"

// C04: for a set operation with ORDER BY + LIMIT + OFFSET, rowexec.buildSetOp applies the
// OFFSET before the sort (offsetIter is wrapped by the TopRows/Sort iterator), so the rows
// skipped are the first m in arrival order, not the first m of the ordering.
func TestC04UnionOrderLimitOffset(t *testing.T) {
	e, ctx := newEngine(t)
	mustRun(t, e, ctx, "CREATE TABLE u (x int primary key)")
	mustRun(t, e, ctx, "INSERT INTO u VALUES (5),(4),(3),(2),(1)")
	got := show(mustRun(t, e, ctx, "SELECT x FROM u UNION ALL SELECT x+10 FROM u ORDER BY x LIMIT 3 OFFSET 2"))
	want := "[[3] [4] [5]]"
	if got != want {
		t.Errorf("UNION ALL … ORDER BY x LIMIT 3 OFFSET 2: got %s, want %s", got, want)
	}
	got = show(mustRun(t, e, ctx, "SELECT x FROM u UNION ALL SELECT x+10 FROM u ORDER BY x DESC LIMIT 2 OFFSET 1"))
	want = "[[14] [13]]"
	if got != want {
		t.Errorf("UNION ALL … ORDER BY x DESC LIMIT 2 OFFSET 1: got %s, want %s", got, want)
	}
}
