package verifrepro

import (
	"testing"

	"github.com/dolthub/vitess/go/sqltypes"
	querypb "github.com/dolthub/vitess/go/vt/proto/query"
	"github.com/dolthub/vitess/go/vt/sqlparser"

	sqle "github.com/dolthub/go-mysql-server"
	"github.com/dolthub/go-mysql-server/memory"
	"github.com/dolthub/go-mysql-server/sql"
	"github.com/dolthub/go-mysql-server/sql/encodings"
	"github.com/dolthub/go-mysql-server/sql/mysql_db"
)

// C10-B1 RangeMap.Encode/str[:encodedRuneLen]: Encode slices str[:n] for n = 1..len(inputEntries)
// without the `n <= len(str)` test its siblings Decode and EncodeReplaceUnknown have: a truncated
// multi-byte sequence at the end of the input is sliced out of range.
func TestC10RangeMapEncodeTruncatedInput(t *testing.T) {
	for _, in := range [][]byte{{0xE2}, {'a', 0xE2, 0x82}, {0xF0, 0x9F}} {
		noPanic(t, "latin1.Encode of a truncated UTF-8 sequence", func() {
			out, ok := encodings.Latin1.Encode(in)
			t.Logf("Encode(%x) = %x, %v", in, out, ok)
			if ok {
				t.Errorf("Encode(%x) must report failure", in)
			}
		})
	}
}

// C10-B1 RangeMap.Encode/str[encodedRuneLen:]: when the input slice has spare capacity, str[:n]
// silently reads past len(str) (the bytes of the next value in the buffer), a rune is "found"
// there, and str[n:] is then out of range.
func TestC10RangeMapEncodeReadsPastLen(t *testing.T) {
	buf := []byte{0xC3, 0xA9} // "é"; only the first byte belongs to the input
	noPanic(t, "latin1.Encode(buf[:1]) with cap 2", func() {
		out, ok := encodings.Latin1.Encode(buf[:1])
		t.Logf("Encode(%x) = %x, %v", buf[:1], out, ok)
		if ok {
			t.Errorf("Encode of the truncated sequence c3 succeeded with %x: it consumed a byte beyond the end of its input", out)
		}
	})
}

// C10-B1 RangeMap.DecodeRune/EncodeRune: an empty rune indexes bucket len(r)-1 = -1.
func TestC10RangeMapRuneEmptyInput(t *testing.T) {
	noPanic(t, "latin1.DecodeRune(nil)", func() {
		if _, ok := encodings.Latin1.DecodeRune(nil); ok {
			t.Errorf("DecodeRune(nil) must report failure")
		}
	})
	noPanic(t, "latin1.EncodeRune([]byte{})", func() {
		if _, ok := encodings.Latin1.EncodeRune([]byte{}); ok {
			t.Errorf("EncodeRune(empty) must report failure")
		}
	})
}

// C10-B1 / C40-U2 validateMysqlNativePassword/authResponse[i]: a client that answers the
// mysql_native_password challenge with fewer than 20 bytes makes the server index past the end
// of the response (only len == 0 is tested). Reached through the exported auth entry points.
func TestC10NativePasswordShortAuthResponse(t *testing.T) {
	db := mysql_db.CreateEmptyMySQLDb()
	ed := db.Editor()
	db.AddSuperUser(ed, "alice", "localhost", "secret")
	ed.Close()
	salt := make([]byte, 20)
	for i := range salt {
		salt[i] = byte(i + 1)
	}
	noPanic(t, "MySQLDb.ValidateHash with a 3-byte auth response", func() {
		g, err := db.ValidateHash(salt, "alice", []byte{1, 2, 3}, c10Addr{})
		if err == nil {
			t.Errorf("short response accepted: %v", g)
		}
	})
	// the path the server takes: vitess' mysql_native_password method -> nativePasswordHashStorage.UserEntryWithHash
	noPanic(t, "mysql_native_password HandleAuthPluginData with a 3-byte auth response", func() {
		for _, m := range db.AuthMethods() {
			if string(m.Name()) != "mysql_native_password" {
				continue
			}
			g, err := m.HandleAuthPluginData(nil, "alice", append(append([]byte{}, salt...), 0), []byte{1, 2, 3}, c10Addr{})
			if err == nil {
				t.Errorf("short response accepted: %v", g)
			}
		}
	})
}

// C10-T1 "parseErr: sqle.Engine.* -> planbuilder.Builder.SetBindings": SetBindings builds the bound
// values with buildScalar outside any frame that recovers planbuilder's parseErr exception, so a
// binding that cannot be built panics out of Engine.QueryWithBindings. The conversion below is the
// one server.Handler applies to the parameters of a COM_STMT_EXECUTE packet (bindingsToExprs):
// a DECIMAL parameter is client-supplied text.
func TestC10MalformedBindingPanicsOutOfQueryWithBindings(t *testing.T) {
	e, ctx := newEngine(t)
	bv := &querypb.BindVariable{Type: querypb.Type_DECIMAL, Value: []byte("1e")}
	val, err := sqltypes.BindVariableToValue(bv)
	if err != nil {
		t.Fatal(err)
	}
	expr, err := sqlparser.ExprFromValue(val)
	if err != nil {
		t.Fatal(err)
	}
	noPanic(t, "QueryWithBindings(SELECT ?, DECIMAL '1e')", func() {
		_, _, _, err := e.QueryWithBindings(ctx, "SELECT ?", nil, map[string]sqlparser.Expr{"v1": expr}, nil)
		if err == nil {
			t.Errorf("a malformed DECIMAL parameter must be an error")
		}
		t.Logf("err = %v", err)
	})
	// the session stays usable
	if rows, err := run(t, e, ctx, "SELECT 1"); err != nil || len(rows) != 1 {
		t.Errorf("session unusable afterwards: %v %v", rows, err)
	}
}

// c10BrokenStoredExpr replaces the stored default/generated expression of a column by an
// unresolved expression string that no longer resolves — the form in which an integrator's
// storage (sql.NewUnresolvedColumnDefaultValue) hands persisted expressions to the engine.
func c10BrokenStoredExpr(t *testing.T, ddl []string, table, column string, generated bool) (*sqle.Engine, *sql.Context) {
	db := memory.NewDatabase("mydb")
	pro := memory.NewDBProvider(db)
	e := sqle.NewDefault(pro)
	sess := memory.NewSession(sql.NewBaseSession(), pro)
	ctx := sql.NewContext(t.Context(), sql.WithSession(sess))
	ctx.SetCurrentDatabase("mydb")
	for _, q := range ddl {
		mustRun(t, e, ctx, q)
	}
	tb, ok, err := db.GetTableInsensitive(ctx, table)
	if err != nil || !ok {
		t.Fatalf("table %s: %v", table, err)
	}
	for _, c := range tb.Schema(ctx) {
		if c.Name == column {
			if generated {
				c.Generated = sql.NewUnresolvedColumnDefaultValue("(nosuch + 1)")
			} else {
				c.Default = sql.NewUnresolvedColumnDefaultValue("(nosuch + 1)")
			}
		}
	}
	return e, ctx
}

// C10-T1 "parseErr: analyzer.resolveSchemaColumnExpressions -> planbuilder.Builder.ResolveSchemaDefaults":
// the foreign-key planning of a statement on the PARENT table resolves the CHILD table's stored
// default expressions outside any frame that recovers parseErr: an unresolvable stored default
// panics out of Engine.Query instead of being reported as an error.
func TestC10UnresolvableChildDefaultPanicsOnParentDelete(t *testing.T) {
	e, ctx := c10BrokenStoredExpr(t, []string{
		"CREATE TABLE parent (id int primary key)",
		"CREATE TABLE child (id int primary key, pid int, d int default (pid + 1), FOREIGN KEY (pid) REFERENCES parent(id) ON DELETE CASCADE ON UPDATE CASCADE)",
		"INSERT INTO parent VALUES (1),(2)",
		"INSERT INTO child (id, pid) VALUES (1,1),(2,2)",
	}, "child", "d", false)
	for _, q := range []string{"DELETE FROM parent WHERE id = 2", "UPDATE parent SET id = 10 WHERE id = 1"} {
		noPanic(t, q, func() {
			_, err := run(t, e, ctx, q)
			t.Logf("%s -> %v", q, err)
		})
	}
}

// C10-T1 "parseErr: rowexec.BaseBuilder.storedGeneratedColumnReferences -> planbuilder.Builder.ResolveSchemaDefaults":
// ADD FOREIGN KEY resolves the table's stored generated columns at execution time, outside any frame.
func TestC10UnresolvableStoredGeneratedPanicsOnAddForeignKey(t *testing.T) {
	e, ctx := c10BrokenStoredExpr(t, []string{
		"CREATE TABLE parent (id int primary key)",
		"CREATE TABLE t (a int primary key, b int, s int GENERATED ALWAYS AS (b + 1) STORED)",
	}, "t", "s", true)
	q := "ALTER TABLE t ADD CONSTRAINT fk1 FOREIGN KEY (b) REFERENCES parent(id) ON DELETE SET NULL"
	noPanic(t, q, func() {
		_, err := run(t, e, ctx, q)
		t.Logf("%s -> %v", q, err)
	})
}

// Not findings (recorded as named exceptions of C10-T1): the ALTER statements that reach
// rowexec.addColumnIter.rewriteTable / rowexec.resolveGeneratedColumns and every statement that
// reaches analyzer.resolveTableSchema resolve the same stored expressions during their own
// planning under Builder.Parse's frame, so an unresolvable expression is an error there.
func TestC10AlterStatementsReportUnresolvableGeneratedAsError(t *testing.T) {
	e, ctx := c10BrokenStoredExpr(t, []string{
		"CREATE TABLE t (a int not null, b int, v int GENERATED ALWAYS AS (b + 1) VIRTUAL)",
	}, "t", "v", true)
	for _, q := range []string{"ALTER TABLE t ADD PRIMARY KEY (a)", "ALTER TABLE t ADD COLUMN x int", "ALTER TABLE t MODIFY COLUMN b bigint",
		"ALTER TABLE t DROP COLUMN b", "ALTER TABLE t RENAME COLUMN b TO c", "SELECT * FROM t"} {
		noPanic(t, q, func() {
			if _, err := run(t, e, ctx, q); err == nil {
				t.Errorf("%s: expected an error", q)
			}
		})
	}
}
