package verifrepro

import "testing"

// C33-G8: canBeCached walks each argument tree but asks the *root* of the walk - not the node being
// visited - whether it is non-deterministic. An argument that merely contains a non-deterministic
// call (CONCAT('x', UUID())) is therefore taken for a constant: the result computed for the first
// row is kept and handed out for every later row, while the same expression outside REGEXP_*, and
// REGEXP_* over the bare UUID(), are evaluated per row.
func TestC33NestedNonDeterministicArgumentIsEvaluatedPerRow(t *testing.T) {
	e, ctx := newEngine(t)
	mustRun(t, e, ctx, "CREATE TABLE t (pk int primary key)")
	mustRun(t, e, ctx, "INSERT INTO t VALUES (1),(2),(3)")
	distinct := func(q string) int {
		rows := mustRun(t, e, ctx, q)
		seen := map[any]bool{}
		for _, r := range rows {
			seen[r[0]] = true
		}
		if len(rows) != 3 {
			t.Fatalf("%s: %d rows", q, len(rows))
		}
		return len(seen)
	}
	// sanity: the expression itself differs per row, and so does REGEXP_SUBSTR over the bare call
	if n := distinct("SELECT CONCAT('x', UUID()) FROM t"); n != 3 {
		t.Fatalf("CONCAT('x', UUID()) gave %d distinct values over 3 rows", n)
	}
	if n := distinct("SELECT REGEXP_SUBSTR(UUID(), '[0-9a-f-]+$') FROM t"); n != 3 {
		t.Fatalf("REGEXP_SUBSTR(UUID(), ...) gave %d distinct values over 3 rows", n)
	}
	for _, q := range []string{
		"SELECT REGEXP_SUBSTR(CONCAT('x', UUID()), '[0-9a-f-]+$') FROM t",
		"SELECT REGEXP_REPLACE(CONCAT('x', UUID()), '^x', '') FROM t",
		"SELECT REGEXP_INSTR(CONCAT(REPEAT('y', pk), 'x', UUID()), 'x') FROM t",
	} {
		if n := distinct(q); n != 3 {
			t.Errorf("%s: %d distinct values over 3 rows, want 3 (the first row's result was reused)", q, n)
		}
	}
}
