package verifrepro

import (
	"strings"
	"testing"
)

// C25-K1: each subtest evaluates one integer operation of the arithmetic kernel at a boundary
// operand. The property demands the exact value or an out-of-range error; the engine returns a
// silently wrapped value. Subtest name = the construct the rule reports.
func TestC25ExactOrOutOfRange(t *testing.T) {
	cases := []struct {
		name, query, exact string
	}{
		{"plus/ADD_int64", "SELECT 9223372036854775807 + 1", "9223372036854775808"},
		{"plus/ADD_uint64", "SELECT d + d FROM u", "18446744073709551626"},
		{"minus/SUB_int64", "SELECT e - 1 FROM u", "-9223372036854775809"},
		{"minus/SUB_uint64", "SELECT a - b FROM u", "-39800"},
		{"mult/MUL_int64", "SELECT 9223372036854775807 * 2", "18446744073709551614"},
		{"mult/MUL_uint64", "SELECT d * d FROM u", "85070591730234616058219687805831530969"},
		{"UnaryMinus/CONV_int8_uint8", "SELECT -a FROM u", "-200"},
		{"UnaryMinus/CONV_int16_uint16", "SELECT -b FROM u", "-40000"},
		{"UnaryMinus/CONV_int32_uint32", "SELECT -c FROM u", "-3000000000"},
		{"UnaryMinus/CONV_int64_uint64", "SELECT -d FROM u", "-9223372036854775813"},
		{"intDiv/QUO_int64", "SELECT e DIV -1 FROM u", "9223372036854775808"},
		{"intDiv/CONV_int64_float64", "SELECT '1e30' DIV 1", "1000000000000000000000000000000"},
		// controls: guarded or exact-by-width operations of the same kernel
		{"control/NEG_int64_min", "SELECT -e FROM u", "9223372036854775808"},
		{"control/NEG_int8", "SELECT -f FROM u", "128"},
	}
	e, ctx := newEngine(t)
	mustRun(t, e, ctx, "CREATE TABLE u (a tinyint unsigned, b smallint unsigned, c int unsigned, d bigint unsigned, e bigint, f tinyint)")
	mustRun(t, e, ctx, "INSERT INTO u VALUES (200, 40000, 3000000000, 9223372036854775813, -9223372036854775808, -128)")
	for _, tc := range cases {
		t.Run(tc.name, func(t *testing.T) {
			rows, err := run(t, e, ctx, tc.query)
			if err != nil {
				if strings.Contains(err.Error(), "out of range") {
					return // reporting out-of-range is acceptable
				}
				t.Fatalf("%s: unexpected error %v", tc.query, err)
			}
			if got := strings.Trim(show(rows), "[]"); got != tc.exact {
				t.Errorf("%s = %s, want the exact value %s or an out-of-range error", tc.query, got, tc.exact)
			}
		})
	}
}
