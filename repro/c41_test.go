package verifrepro

import (
	"testing"

	sqle "github.com/dolthub/go-mysql-server"
	"github.com/dolthub/go-mysql-server/memory"
	"github.com/dolthub/go-mysql-server/sql"
)

// C41: RoleEdge.WithAdminOption is written by serializeRoleEdge and never read by LoadRoleEdge,
// so GRANT role ... WITH ADMIN OPTION does not survive persist -> load into a fresh engine.

type c41Persister struct{ data []byte }

func (p *c41Persister) Persist(ctx *sql.Context, data []byte) error {
	p.data = append([]byte(nil), data...)
	return nil
}

func c41Engine(t *testing.T) (*sqle.Engine, func(user string) *sql.Context) {
	db := memory.NewDatabase("mydb")
	pro := memory.NewDBProvider(db)
	e := sqle.NewDefault(pro)
	e.Analyzer.Catalog.MySQLDb.AddRootAccount()
	mk := func(user string) *sql.Context {
		base := sql.NewBaseSessionWithClientServer("server", sql.Client{User: user, Address: "localhost"}, 1)
		ctx := sql.NewContext(t.Context(), sql.WithSession(memory.NewSession(base, pro)))
		ctx.SetCurrentDatabase("mydb")
		return ctx
	}
	return e, mk
}

func TestC41WithAdminOptionSurvivesReload(t *testing.T) {
	e1, mk1 := c41Engine(t)
	p := &c41Persister{}
	e1.Analyzer.Catalog.MySQLDb.SetPersister(p)
	root1 := mk1("root")
	for _, q := range []string{
		"CREATE USER u1@localhost",
		"CREATE USER u2@localhost",
		"CREATE ROLE r1",
		"GRANT r1 TO u1@localhost WITH ADMIN OPTION",
	} {
		mustRun(t, e1, root1, q)
	}
	if len(p.data) == 0 {
		t.Fatal("nothing was persisted")
	}
	before := show(mustRun(t, e1, root1, "SELECT FROM_USER, TO_USER, WITH_ADMIN_OPTION FROM mysql.role_edges"))

	// fresh engine, load the persisted state
	e2, mk2 := c41Engine(t)
	e2.Analyzer.Catalog.MySQLDb.SetPersister(&c41Persister{})
	root2 := mk2("root")
	loaded := append([]byte(nil), p.data...)
	if err := e2.Analyzer.Catalog.MySQLDb.LoadData(root2, loaded); err != nil {
		t.Fatal(err)
	}
	after := show(mustRun(t, e2, root2, "SELECT FROM_USER, TO_USER, WITH_ADMIN_OPTION FROM mysql.role_edges"))
	t.Logf("role_edges before persist: %s, after reload: %s", before, after)
	if before != after {
		t.Errorf("mysql.role_edges differs after reload: before %s, after %s", before, after)
	}

	// the allow/deny decision that depends on it: u1 may grant r1 to others only WITH ADMIN OPTION
	_, err1 := run(t, e1, mk1("u1"), "GRANT r1 TO u2@localhost")
	_, err2 := run(t, e2, mk2("u1"), "GRANT r1 TO u2@localhost")
	t.Logf("GRANT r1 TO u2 as u1: original engine err=%v, reloaded engine err=%v", err1, err2)
	if (err1 == nil) != (err2 == nil) {
		t.Errorf("allow/deny decision changed by reload: before err=%v, after err=%v", err1, err2)
	}
}
