package verifrepro

import (
	"strings"
	"testing"

	sqle "github.com/dolthub/go-mysql-server"
	"github.com/dolthub/go-mysql-server/memory"
	"github.com/dolthub/go-mysql-server/sql"
)

// C41: RoleEdge.WithAdminOption is written by serializeRoleEdge and never read by LoadRoleEdge,
// so GRANT role ... WITH ADMIN OPTION does not survive persist -> load into a fresh engine.

type c41Persister struct{ data []byte }

func (p *c41Persister) Persist(ctx *sql.Context, data []byte) error {
	p.data = append([]byte(nil), data...)
	return nil
}

func c41Engine(t *testing.T) (*sqle.Engine, func(user string) *sql.Context) {
	db := memory.NewDatabase("mydb")
	pro := memory.NewDBProvider(db)
	e := sqle.NewDefault(pro)
	e.Analyzer.Catalog.MySQLDb.AddRootAccount()
	mk := func(user string) *sql.Context {
		base := sql.NewBaseSessionWithClientServer("server", sql.Client{User: user, Address: "localhost"}, 1)
		ctx := sql.NewContext(t.Context(), sql.WithSession(memory.NewSession(base, pro)))
		ctx.SetCurrentDatabase("mydb")
		return ctx
	}
	return e, mk
}

func TestC41WithAdminOptionSurvivesReload(t *testing.T) {
	e1, mk1 := c41Engine(t)
	p := &c41Persister{}
	e1.Analyzer.Catalog.MySQLDb.SetPersister(p)
	root1 := mk1("root")
	for _, q := range []string{
		"CREATE USER u1@localhost",
		"CREATE USER u2@localhost",
		"CREATE ROLE r1",
		"GRANT r1 TO u1@localhost WITH ADMIN OPTION",
	} {
		mustRun(t, e1, root1, q)
	}
	if len(p.data) == 0 {
		t.Fatal("nothing was persisted")
	}
	before := show(mustRun(t, e1, root1, "SELECT FROM_USER, TO_USER, WITH_ADMIN_OPTION FROM mysql.role_edges"))

	// fresh engine, load the persisted state
	e2, mk2 := c41Engine(t)
	e2.Analyzer.Catalog.MySQLDb.SetPersister(&c41Persister{})
	root2 := mk2("root")
	loaded := append([]byte(nil), p.data...)
	if err := e2.Analyzer.Catalog.MySQLDb.LoadData(root2, loaded); err != nil {
		t.Fatal(err)
	}
	after := show(mustRun(t, e2, root2, "SELECT FROM_USER, TO_USER, WITH_ADMIN_OPTION FROM mysql.role_edges"))
	t.Logf("role_edges before persist: %s, after reload: %s", before, after)
	if before != after {
		t.Errorf("mysql.role_edges differs after reload: before %s, after %s", before, after)
	}

	// the allow/deny decision that depends on it: u1 may grant r1 to others only WITH ADMIN OPTION
	_, err1 := run(t, e1, mk1("u1"), "GRANT r1 TO u2@localhost")
	_, err2 := run(t, e2, mk2("u1"), "GRANT r1 TO u2@localhost")
	t.Logf("GRANT r1 TO u2 as u1: original engine err=%v, reloaded engine err=%v", err1, err2)
	if (err1 == nil) != (err2 == nil) {
		t.Errorf("allow/deny decision changed by reload: before err=%v, after err=%v", err1, err2)
	}
}

// ---- container coverage of the privilege-set tree (C41-P1c, C41-P4) ------------------------------------------

func c41Grants(t *testing.T, e *sqle.Engine, ctx *sql.Context, user string) string {
	rows := mustRun(t, e, ctx, "SHOW GRANTS FOR "+user)
	var out []string
	for _, r := range rows {
		out = append(out, r[0].(string))
	}
	return strings.Join(out, " / ")
}

// C41-P1c PrivilegeSet.RemoveDatabase: after removing the requested database-level privileges it deletes the whole
// database entry when `len(dbSet.privs) == 0`, without looking at the tables and routines stored underneath it. So
// revoking one database-level privilege also revokes every table- and routine-level grant in that database.
func TestC41RevokeDbPrivKeepsTableGrants(t *testing.T) {
	e, mk := c41Engine(t)
	e.Analyzer.Catalog.MySQLDb.SetPersister(&c41Persister{})
	root := mk("root")
	for _, q := range []string{
		"CREATE TABLE t (a int primary key)",
		"INSERT INTO t VALUES (1)",
		"CREATE USER u1@localhost",
		"GRANT SELECT ON mydb.t TO u1@localhost",
		"GRANT INSERT ON mydb.* TO u1@localhost",
	} {
		mustRun(t, e, root, q)
	}
	before := c41Grants(t, e, root, "u1@localhost")
	_, errBefore := run(t, e, mk("u1"), "SELECT * FROM mydb.t")
	mustRun(t, e, root, "REVOKE INSERT ON mydb.* FROM u1@localhost")
	after := c41Grants(t, e, root, "u1@localhost")
	_, errAfter := run(t, e, mk("u1"), "SELECT * FROM mydb.t")
	t.Logf("before: %s", before)
	t.Logf("after REVOKE INSERT ON mydb.*: %s", after)
	t.Logf("SELECT * FROM mydb.t as u1: before err=%v, after err=%v", errBefore, errAfter)
	if !strings.Contains(after, "GRANT SELECT ON `mydb`.`t`") {
		t.Errorf("the table-level grant disappeared with the revoke of a database-level privilege: %s", after)
	}
	if errBefore == nil && errAfter != nil {
		t.Errorf("SELECT on the table flipped from allowed to denied: %v", errAfter)
	}
}

// C41-P4 PrivilegeSet.RemoveRoutine: routine entries are stored under the lower-cased name (getUseableRoutine), the
// cleanup after the last privilege is removed deletes with the name as given. For a routine whose name has an upper-case
// letter the emptied entry stays, and SHOW GRANTS keeps printing a line for it; for a lower-case name it does not.
func TestC41RevokeRoutineMixedCase(t *testing.T) {
	e, mk := c41Engine(t)
	e.Analyzer.Catalog.MySQLDb.SetPersister(&c41Persister{})
	root := mk("root")
	for _, q := range []string{
		"CREATE PROCEDURE MyProc() SELECT 1",
		"CREATE PROCEDURE lowerproc() SELECT 1",
		"CREATE USER u1@localhost",
		"GRANT SELECT ON mydb.* TO u1@localhost",
		"GRANT EXECUTE ON PROCEDURE mydb.MyProc TO u1@localhost",
		"GRANT EXECUTE ON PROCEDURE mydb.lowerproc TO u1@localhost",
	} {
		mustRun(t, e, root, q)
	}
	before := c41Grants(t, e, root, "u1@localhost")
	mustRun(t, e, root, "REVOKE EXECUTE ON PROCEDURE mydb.lowerproc FROM u1@localhost")
	mustRun(t, e, root, "REVOKE EXECUTE ON PROCEDURE mydb.MyProc FROM u1@localhost")
	after := c41Grants(t, e, root, "u1@localhost")
	t.Logf("before: %s", before)
	t.Logf("after both revokes: %s", after)
	if strings.Contains(after, "lowerproc") {
		t.Errorf("control: a line for the lower-case routine is still shown: %s", after)
	}
	if strings.Contains(after, "MyProc") {
		t.Errorf("a grant line for mydb.MyProc is still shown after its only privilege was revoked: %s", after)
	}
}
