package verifrepro

// C35 — clients receive exactly the engine's results over the wire. Demonstrations of the two
// findings of the C35 rules against the real server.Handler (not checks; see helpers_test.go).

import (
	"context"
	"errors"
	"fmt"
	"io"
	"net"
	"os"
	"os/exec"
	"runtime/debug"
	"strings"
	"testing"

	"github.com/dolthub/vitess/go/mysql"
	"github.com/dolthub/vitess/go/sqltypes"

	sqle "github.com/dolthub/go-mysql-server"
	"github.com/dolthub/go-mysql-server/memory"
	"github.com/dolthub/go-mysql-server/server"
	"github.com/dolthub/go-mysql-server/sql"
	"github.com/dolthub/go-mysql-server/sql/types"
)

type c35NetConn struct{ net.Conn }

func (c35NetConn) Close() error         { return nil }
func (c35NetConn) RemoteAddr() net.Addr { return &net.TCPAddr{IP: net.IPv4(127, 0, 0, 1), Port: 34567} }
func (c35NetConn) LocalAddr() net.Addr  { return &net.TCPAddr{IP: net.IPv4(127, 0, 0, 1), Port: 3306} }

// c35Handler builds the real *server.Handler the way server.NewServer does (the handler is handed to
// the HandlerWrapper before the listener is created) over a memory database `test` with a table
// test(c1 int primary key) holding 0..n-1. sessPro is the provider the *sessions* commit against.
func c35Handler(t testing.TB, n int, sessPro func(*memory.DbProvider) sql.DatabaseProvider) (*server.Handler, *sqle.Engine, *memory.DbProvider) {
	db := memory.NewDatabase("test")
	pro := memory.NewDBProvider(db)
	e := sqle.NewDefault(pro)
	ctx := sql.NewContext(context.Background(), sql.WithSession(memory.NewSession(sql.NewBaseSession(), pro)))
	tbl := memory.NewTable(ctx, db, "test", sql.NewPrimaryKeySchema(sql.Schema{{Name: "c1", Type: types.Int32, Source: "test", PrimaryKey: true}}), nil)
	for i := 0; i < n; i++ {
		if err := tbl.Insert(ctx, sql.NewRow(int32(i))); err != nil {
			t.Fatal(err)
		}
	}
	db.AddTable("test", tbl)
	sb := func(ctx context.Context, c *mysql.Conn, addr string) (sql.Session, error) {
		base := sql.NewBaseSessionWithClientServer(addr, sql.Client{Address: "127.0.0.1:34567", User: c.User, Capabilities: c.Capabilities}, c.ConnectionID)
		return memory.NewSession(base, sessPro(pro)), nil
	}
	var h *server.Handler
	s, err := server.NewServerWithHandler(server.Config{Protocol: "tcp", Address: "localhost:0"}, e, sql.NewContext, sb, nil,
		func(mh mysql.Handler) (mysql.Handler, error) { h = mh.(*server.Handler); return mh, nil })
	if err != nil {
		t.Fatal(err)
	}
	t.Cleanup(func() { s.Close() })
	return h, e, pro
}

func c35Conn(h *server.Handler, id uint32, flags uint16) *mysql.Conn {
	c := &mysql.Conn{ConnectionID: id, Conn: c35NetConn{}, StatusFlags: flags}
	h.NewConnection(c)
	h.ComInitDB(c, "test")
	return c
}

// Findings 1 and 2 (C35-W1, C35-B1): with SERVER_STATUS_CURSOR_EXISTS set on the connection,
// resultForDefaultIter / resultForValueRowIter replace `callback` by a closure that calls `callback`
// — i.e. itself (W1). The first full batch of 128 rows recurses until the goroutine stack is
// exhausted, which kills the whole server process (a stack overflow is fatal, not a recoverable
// panic). The child process below therefore dies on the unmodified tree:
//
//	fatal error: stack overflow
//
// The same wrapper is also wrong in a second, independent way (B1): it resets the shared,
// unsynchronised *sql.ByteBuffer from the delivering goroutine while the batching goroutine keeps
// encoding the rows of the next batches into it. That cannot execute while W1 kills the process
// first; with only the recursion removed (fixes/C35-wrapper-naive-unrecurse.patch.not-applied:
// `spool := callback` … `return spool(r, more)`) this very test fails 3 runs out of 3 with
//
//	row 512 is "592"        (rows of queued batches overwritten by later rows)
//
// With fixes/C35-drop-buffer-reset-wrapper.patch (the wrapper removed; doQuery resets the buffer
// once the whole result has been sent) it passes. Run in a child process so that the parent can
// report a normal test failure.
func TestC35CursorCallbackWrapperTerminates(t *testing.T) {
	if os.Getenv("C35_CHILD") == "1" {
		debug.SetMaxStack(16 << 20) // fail fast instead of growing to 1 GB
		h, _, _ := c35Handler(t, 5000, func(p *memory.DbProvider) sql.DatabaseProvider { return p })
		c := c35Conn(h, 1, uint16(mysql.ServerCursorExists))
		var got []string
		err := h.ComQuery(context.Background(), c, "select c1 from test order by c1", func(r *sqltypes.Result, more bool) error {
			for _, row := range r.Rows {
				got = append(got, row[0].ToString())
			}
			return nil
		})
		if err != nil {
			t.Fatal(err)
		}
		if len(got) != 5000 {
			t.Fatalf("client received %d rows, engine produced 5000", len(got))
		}
		for i, s := range got {
			if s != fmt.Sprint(i) {
				t.Fatalf("row %d is %q", i, s)
			}
		}
		return
	}
	cmd := exec.Command(os.Args[0], "-test.run", "^TestC35CursorCallbackWrapperTerminates$")
	cmd.Env = append(os.Environ(), "C35_CHILD=1")
	out, err := cmd.CombinedOutput()
	if err != nil {
		lines := strings.Split(string(out), "\n")
		if len(lines) > 14 {
			lines = lines[:14]
		}
		t.Fatalf("a 5000-row SELECT on a connection with SERVER_STATUS_CURSOR_EXISTS did not deliver the engine's rows (or killed the server process): %v\n%s", err, strings.Join(lines, "\n"))
	}
}

// c35FailingProvider makes every commit of a session that touched a table fail
// (memory.Session.CommitTransaction looks its databases up through the session's provider).
type c35FailingProvider struct{ sql.DatabaseProvider }

var errC35Commit = errors.New("c35: commit failed")

func (c35FailingProvider) Database(*sql.Context, string) (sql.Database, error) {
	return nil, errC35Commit
}

// Finding 3 (C35-E1): resultForMax1RowIter closes the iterator with `defer iter.Close(ctx)` and drops
// the error. Closing the top iterator is what commits the autocommit transaction, so a failed commit
// is reported by the in-process engine (RowIter.Close returns it) and by the other four resultFor*
// siblings, but a client running an at-most-one-row statement (primary-key point lookup) is told OK.
func TestC35Max1RowCloseErrorReachesClient(t *testing.T) {
	h, e, _ := c35Handler(t, 10, func(p *memory.DbProvider) sql.DatabaseProvider { return c35FailingProvider{p} })

	// the engine's own result for the statement: one row, then Close reports the failed commit
	inproc := func(q string) error {
		sess := memory.NewSession(sql.NewBaseSession(), c35FailingProvider{})
		ctx := sql.NewContext(context.Background(), sql.WithSession(sess))
		ctx.SetCurrentDatabase("test")
		_, iter, _, err := e.Query(ctx, q)
		if err != nil {
			return err
		}
		for {
			if _, err := iter.Next(ctx); err == io.EOF {
				break
			} else if err != nil {
				iter.Close(ctx)
				return err
			}
		}
		return iter.Close(ctx)
	}
	wire := func(id uint32, q string) error {
		c := c35Conn(h, id, 0)
		return h.ComQuery(context.Background(), c, q, func(*sqltypes.Result, bool) error { return nil })
	}
	for i, q := range []string{
		"select c1 from test where c1 < 3", // resultForDefaultIter: control, error is delivered
		"select c1 from test where c1 = 5", // resultForMax1RowIter
	} {
		ie, we := inproc(q), wire(uint32(10+i), q)
		t.Logf("%s: engine error = %v, client error = %v", q, ie, we)
		if ie == nil {
			t.Fatalf("%s: setup: the in-process engine did not report the failing commit", q)
		}
		if we == nil {
			t.Errorf("%s: the engine reports %q, the client is told the statement succeeded", q, ie)
		}
	}
}
