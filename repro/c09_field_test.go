package verifrepro

import (
	"io"
	"testing"
)

// C09-E3 function.DateFormat: Eval returns the literal NULL as soon as one operand is absent/NULL, but IsNullable
// returns the nullability of the OTHER operand only: `if IsNull(Left) { ...; return Right.IsNullable() }; return
// Left.IsNullable()`. A NULL date with a literal format, and a NOT NULL date with a nullable (or NULL) format, are
// announced NOT NULL and carry NULL.
func TestC09DateFormatNullable(t *testing.T) {
	e, ctx := newEngine(t)
	mustRun(t, e, ctx, "CREATE TABLE df (id int primary key, d datetime NOT NULL, f varchar(20))")
	mustRun(t, e, ctx, "INSERT INTO df VALUES (1, '2020-01-02 03:04:05', NULL), (2, '2021-01-02 03:04:05', '%Y')")
	for _, q := range []string{
		"SELECT DATE_FORMAT(NULL, '%Y') AS x",
		"SELECT DATE_FORMAT(d, NULL) AS x FROM df ORDER BY id",
		"SELECT DATE_FORMAT(d, f) AS x FROM df ORDER BY id",
	} {
		sch, iter, _, err := e.Query(ctx, q)
		if err != nil {
			t.Fatalf("%s: %v", q, err)
		}
		for i := 0; ; i++ {
			row, err := iter.Next(ctx)
			if err == io.EOF {
				break
			}
			if err != nil {
				t.Fatalf("%s: %v", q, err)
			}
			t.Logf("%s: row %d value=%v, column nullable=%v", q, i, row[0], sch[0].Nullable)
			if row[0] == nil && !sch[0].Nullable {
				t.Errorf("%s: row %d is NULL but the column is reported NOT NULL (Nullable=false)", q, i)
			}
		}
		iter.Close(ctx)
	}
	// control: a NOT NULL date with a literal format is rightly NOT NULL
	sch, iter, _, err := e.Query(ctx, "SELECT DATE_FORMAT(d, '%Y') AS x FROM df ORDER BY id")
	if err != nil {
		t.Fatal(err)
	}
	iter.Close(ctx)
	if sch[0].Nullable {
		t.Logf("control: DATE_FORMAT(NOT NULL, literal) reported nullable")
	}
}
