package verifrepro

import (
	"testing"
)

// C25-M1 Ceil.Eval / Floor.Eval: CEIL(d) and FLOOR(d) use the evaluated DECIMAL operand itself as the destination of
// apd's Ceil/Floor. For a DECIMAL column that operand is the pointer held by the stored row of the in-memory table:
// a read-only SELECT rewrites the table, and the operand read next to it in the same row is already changed.
func TestC25CeilFloorKeepOperand(t *testing.T) {
	for _, fn := range []string{"CEIL", "FLOOR"} {
		t.Run(fn, func(t *testing.T) {
			e, ctx := newEngine(t)
			mustRun(t, e, ctx, "CREATE TABLE d (pk int primary key, v decimal(10,3))")
			mustRun(t, e, ctx, "INSERT INTO d VALUES (1, 1.250), (2, -7.750)")
			before := show(mustRun(t, e, ctx, "SELECT v FROM d ORDER BY pk"))
			want := map[string]string{"CEIL": "[[2 1.250] [-7 -7.750]]", "FLOOR": "[[1 1.250] [-8 -7.750]]"}[fn]
			if got := show(mustRun(t, e, ctx, "SELECT "+fn+"(v), v FROM d ORDER BY pk")); got != want {
				t.Errorf("SELECT %s(v), v = %s, want %s", fn, got, want)
			}
			if after := show(mustRun(t, e, ctx, "SELECT v FROM d ORDER BY pk")); after != before {
				t.Errorf("stored column changed by SELECT %s(v): %s -> %s", fn, before, after)
			}
		})
	}
}

// C25-M1 DecimalTruncate: the destination of Quantize is new(*val), a struct copy of the operand. For a coefficient
// above 128 bits (DECIMAL with 39..65 digits) the copy shares the heap big.Int of the operand, and Quantize divides
// it in place: TRUNCATE(d, 2) and d / x corrupt the stored value.
func TestC25TruncateKeepsWideOperand(t *testing.T) {
	e, ctx := newEngine(t)
	mustRun(t, e, ctx, "CREATE TABLE w (pk int primary key, v decimal(65,6))")
	mustRun(t, e, ctx, "INSERT INTO w VALUES (1, 1234567890123456789012345678901234567890123456789.123456)")
	before := show(mustRun(t, e, ctx, "SELECT v FROM w"))
	if got, want := show(mustRun(t, e, ctx, "SELECT TRUNCATE(v, 2) FROM w")), "[[1234567890123456789012345678901234567890123456789.12]]"; got != want {
		t.Errorf("TRUNCATE(v, 2) = %s, want %s", got, want)
	}
	if after := show(mustRun(t, e, ctx, "SELECT v FROM w")); after != before {
		t.Errorf("stored column changed by SELECT TRUNCATE(v, 2): %s -> %s", before, after)
	}
	// control: a 38-digit value lives in the inline words of the coefficient and is copied by the struct copy
	mustRun(t, e, ctx, "CREATE TABLE n (pk int primary key, v decimal(40,6))")
	mustRun(t, e, ctx, "INSERT INTO n VALUES (1, 12345678901234567890123456789012.123456)")
	b2 := show(mustRun(t, e, ctx, "SELECT v FROM n"))
	mustRun(t, e, ctx, "SELECT TRUNCATE(v, 2) FROM n")
	if a2 := show(mustRun(t, e, ctx, "SELECT v FROM n")); a2 != b2 {
		t.Errorf("control: 38-digit value changed: %s -> %s", b2, a2)
	}
}
