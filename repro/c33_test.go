package verifrepro

import (
	"fmt"
	"testing"

	"github.com/dolthub/go-mysql-server/sql"
	"github.com/dolthub/go-mysql-server/sql/expression"
	"github.com/dolthub/go-mysql-server/sql/expression/function"
	"github.com/dolthub/go-mysql-server/sql/types"
	"github.com/dolthub/go-mysql-server/test"
)

// C33-S1: the four REGEXP_* functions must derive the subject string the same way. A TEXT value
// that arrives as a lazily loaded sql.StringWrapper (out-of-band storage; the repository's own
// test.MockStringWrapper stands in for it, as in regexp_replace_test.go) is returned unchanged by
// types.LongText.Convert. REGEXP_LIKE and REGEXP_REPLACE unwrap it; REGEXP_INSTR and
// REGEXP_SUBSTR assert `.(string)` on it and panic inside Expression.Eval.

func c33Eval(t *testing.T, mk func(*sql.Context, ...sql.Expression) (sql.Expression, error), args ...sql.Expression) (res any, err error, panicked any) {
	ctx := sql.NewEmptyContext()
	f, e := mk(ctx, args...)
	if e != nil {
		t.Fatal(e)
	}
	if d, ok := f.(sql.Disposable); ok {
		defer d.Dispose(ctx)
	}
	defer func() {
		if r := recover(); r != nil {
			panicked = r
		}
	}()
	row := sql.NewRow(test.NewMockStringWrapper("abc def ghi"))
	res, err = f.Eval(ctx, row)
	return res, err, nil
}

func TestC33WrappedSubjectAgreement(t *testing.T) {
	subject := expression.NewGetField(0, types.LongText, "t", true)
	pat := expression.NewLiteral("d[a-z]f", types.LongText)

	like, err, p := c33Eval(t, function.NewRegexpLike, subject, pat)
	if p != nil || err != nil {
		t.Fatalf("REGEXP_LIKE on a wrapped TEXT value: err=%v panic=%v", err, p)
	}
	if fmt.Sprint(like) != "1" {
		t.Fatalf("REGEXP_LIKE = %v, want 1", like)
	}
	repl, err, p := c33Eval(t, function.NewRegexpReplace, subject, pat, expression.NewLiteral("X", types.LongText))
	if p != nil || err != nil {
		t.Fatalf("REGEXP_REPLACE on a wrapped TEXT value: err=%v panic=%v", err, p)
	}
	if repl != "abc X ghi" {
		t.Fatalf("REGEXP_REPLACE = %q", repl)
	}

	instr, err, p := c33Eval(t, function.NewRegexpInstr, subject, pat)
	if p != nil {
		t.Errorf("REGEXP_INSTR panics on the subject REGEXP_LIKE matches: %v", p)
	} else if err != nil || fmt.Sprint(instr) != "5" {
		t.Errorf("REGEXP_INSTR = %v, %v; want 5 (REGEXP_LIKE reports a match)", instr, err)
	}
	substr, err, p := c33Eval(t, function.NewRegexpSubstr, subject, pat)
	if p != nil {
		t.Errorf("REGEXP_SUBSTR panics on the subject REGEXP_LIKE matches: %v", p)
	} else if err != nil || substr != "def" {
		t.Errorf("REGEXP_SUBSTR = %v, %v; want \"def\"", substr, err)
	}
}
