package verifrepro

import (
	"testing"

	"github.com/dolthub/go-mysql-server/sql"
	"github.com/dolthub/go-mysql-server/sql/types"
)

// C28-T1 VectorType.SQL: every sql.Type.SQL answers a NULL value with sqltypes.NULL (the
// server's RowToSQL shortcut does the same), VECTOR sends it into ConvertToBytes and returns
// "unable to convert ... to SQL" — e.g. for a NULL cell of a VECTOR column served through a
// caller without its own nil shortcut (server/golden proxy, integrators calling Type.SQL).
func TestC28NullToSQLNull(t *testing.T) {
	_, ctx := newEngine(t)
	vec, err := types.CreateVectorType(3)
	if err != nil {
		t.Fatal(err)
	}
	cases := []struct {
		name string
		typ  sql.Type
	}{
		{"BIGINT", types.Int64}, {"TEXT", types.Text}, {"BLOB", types.Blob}, {"JSON", types.JSON},
		{"DATETIME", types.Datetime}, {"GEOMETRY", types.GeometryType{}}, {"VECTOR(3)", vec},
	}
	for _, tc := range cases {
		v, err := tc.typ.SQL(ctx, nil, nil)
		if err != nil {
			t.Errorf("%s.SQL(NULL): error %v, want the SQL NULL value", tc.name, err)
			continue
		}
		if !v.IsNull() {
			t.Errorf("%s.SQL(NULL) = %v, want NULL", tc.name, v)
		}
	}
}
