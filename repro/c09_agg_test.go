package verifrepro

import (
	"io"
	"testing"
)

// C09-E2: aggregations that declare IsNullable() == false although their buffers evaluate to
// NULL for an empty input. The result column is announced NOT NULL and carries NULL; CREATE
// TABLE ... AS SELECT is rejected because the derived column is declared NOT NULL.
func TestC09AggregateNullable(t *testing.T) {
	for name, f := range map[string]string{
		"Max": "MAX(a)", "Min": "MIN(a)", "Sum": "SUM(a)", "First": "FIRST(a)", "Last": "LAST(a)",
		"StdDevPop": "STD(a)", "StdDevSamp": "STDDEV_SAMP(a)", "VarPop": "VAR_POP(a)", "VarSamp": "VAR_SAMP(a)",
		// conforming siblings (never NULL): must stay NOT NULL and non-NULL
		"Count": "COUNT(a)", "BitOr": "BIT_OR(a)",
	} {
		t.Run(name, func(t *testing.T) {
			e, ctx := newEngine(t)
			mustRun(t, e, ctx, "CREATE TABLE t (a int)")
			sch, iter, _, err := e.Query(ctx, "SELECT "+f+" AS x FROM t")
			if err != nil {
				t.Fatal(err)
			}
			row, err := iter.Next(ctx)
			if err != nil && err != io.EOF {
				t.Fatal(err)
			}
			iter.Close(ctx)
			if row[0] == nil && !sch[0].Nullable {
				t.Errorf("SELECT %s FROM <empty table>: value is NULL but the column is reported NOT NULL", f)
			}
			if _, err := run(t, e, ctx, "CREATE TABLE c AS SELECT "+f+" AS x FROM t"); err != nil {
				t.Errorf("CREATE TABLE c AS SELECT %s FROM <empty table>: %v", f, err)
			}
		})
	}
}
