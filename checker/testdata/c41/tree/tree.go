// Package tree is the C41 fixture for the container-coverage rules (C41-P*): a small privilege-set tree
// Set -> DbSet -> {TabSet, ProcSet} in which one operation of each kind forgets a collection.
package tree

import (
	"sort"
	"strings"

	"vchk/testdata/c41/tree/serial"
)

type Set struct {
	global map[int]struct{}
	named  map[string]bool
	dbs    map[string]DbSet
}

type DbSet struct {
	privs map[int]struct{}
	tabs  map[string]TabSet
	procs map[string]ProcSet
	name  string
}

type TabSet struct {
	privs map[int]struct{}
	name  string
}

type ProcSet struct {
	privs map[int]struct{}
	name  string
}

// ---- emptiness predicates -----------------------------------------------------------------------------

// BAD (P1a): && instead of ||: a set holding only global (or only named) privileges counts as empty.
func (s Set) NonEmpty() bool {
	if len(s.global) > 0 && len(s.named) > 0 {
		return true
	}
	for _, d := range s.dbs {
		if d.NonEmpty() {
			return true
		}
	}
	return false
}

// BAD (P1a): forgets procs.
func (d DbSet) NonEmpty() bool {
	if len(d.privs) > 0 {
		return true
	}
	for _, tb := range d.tabs {
		if tb.NonEmpty() {
			return true
		}
	}
	return false
}

func (tb TabSet) NonEmpty() bool { return len(tb.privs) > 0 }
func (p ProcSet) NonEmpty() bool { return !(len(p.privs) == 0) }

func (d DbSet) Count() int   { return len(d.privs) }
func (tb TabSet) Count() int { return len(tb.privs) }

// ---- listers --------------------------------------------------------------------------------------------

// BAD (P1b): the filter forgets procs although the whole child is passed on.
func (s Set) list() []DbSet {
	var out []DbSet
	for _, d := range s.dbs {
		if len(d.privs) > 0 || len(d.tabList()) > 0 {
			out = append(out, d)
		}
	}
	sort.Slice(out, func(i, j int) bool { return out[i].name < out[j].name })
	return out
}

// good: covers all three collections, written with a negated conjunction and a continue.
func (s Set) listAll() []DbSet {
	var out []DbSet
	for _, d := range s.dbs {
		if len(d.privs) == 0 && !(len(d.tabs) > 0) && 0 == len(d.procs) {
			continue
		}
		out = append(out, d)
	}
	return out
}

// good: the guarded code only reads the level's own privileges, which the filter covers.
func (s Set) rows() [][]int {
	var out [][]int
	for _, d := range s.dbs {
		if d.Count() == 0 {
			continue
		}
		out = append(out, d.ints())
	}
	return out
}

func (d DbSet) tabList() []TabSet {
	var out []TabSet
	for _, tb := range d.tabs {
		if tb.Count() > 0 {
			out = append(out, tb)
		}
	}
	return out
}

func (d DbSet) ints() []int {
	var out []int
	for p := range d.privs {
		out = append(out, p)
	}
	sort.Ints(out)
	return out
}

func (tb TabSet) ints() []int {
	var out []int
	for p := range tb.privs {
		out = append(out, p)
	}
	sort.Ints(out)
	return out
}

func (s Set) ints() []int {
	var out []int
	for p := range s.global {
		out = append(out, p)
	}
	sort.Ints(out)
	return out
}

// ---- accessors, add/remove -------------------------------------------------------------------------------

func (s Set) useDb(name string) DbSet {
	d, ok := s.dbs[name]
	if !ok {
		d = DbSet{name: name, privs: map[int]struct{}{}, tabs: map[string]TabSet{}, procs: map[string]ProcSet{}}
		s.dbs[name] = d
	}
	return d
}

func (d DbSet) useTab(name string) TabSet {
	tb, ok := d.tabs[name]
	if !ok {
		tb = TabSet{name: name, privs: map[int]struct{}{}}
		d.tabs[name] = tb
	}
	return tb
}

// routine names are case-insensitive: entries live under the lower-cased name
func (d DbSet) useProc(name string) ProcSet {
	key := strings.ToLower(name)
	p, ok := d.procs[key]
	if !ok {
		p = ProcSet{name: name, privs: map[int]struct{}{}}
		d.procs[key] = p
	}
	return p
}

func (s Set) AddDb(db string, privs ...int) {
	d := s.useDb(db)
	for _, p := range privs {
		d.privs[p] = struct{}{}
	}
}

// BAD (P1c): drops the whole database entry, tables and routines included, once its own privileges are gone.
func (s Set) RemoveDb(db string, privs ...int) {
	d := s.useDb(db)
	for _, p := range privs {
		delete(d.privs, p)
	}
	if d.Count() == 0 {
		delete(s.dbs, db)
	}
}

func (s Set) AddTab(db, tab string, privs ...int) {
	tb := s.useDb(db).useTab(tab)
	for _, p := range privs {
		tb.privs[p] = struct{}{}
	}
}

// BAD (P3): deletes from the database's own privileges instead of the table's.
func (s Set) RemoveTab(db, tab string, privs ...int) {
	d := s.useDb(db)
	for _, p := range privs {
		delete(d.privs, p)
	}
}

func (s Set) AddProc(db, proc string, privs ...int) {
	pr := s.useDb(db).useProc(proc)
	for _, p := range privs {
		pr.privs[p] = struct{}{}
	}
}

func (s Set) RemoveProc(db, proc string, privs ...int) {
	pr := s.useDb(db).useProc(proc)
	for _, p := range privs {
		delete(pr.privs, p)
	}
	// BAD (P4): the entry was stored under the lower-cased name. (P1c is satisfied: a ProcSet has one collection.)
	if len(pr.privs) == 0 {
		delete(s.useDb(db).procs, proc)
	}
}

// ---- set operations ----------------------------------------------------------------------------------------

func (s Set) Union(o Set) {
	for p := range o.global {
		s.global[p] = struct{}{}
	}
	for p, w := range o.named {
		s.named[p] = s.named[p] || w
	}
	for _, od := range o.dbs {
		s.useDb(od.name).union(od)
	}
}

// BAD (P2b): the copy lacks the named privileges.
func (s Set) Clone() Set {
	n := Set{global: map[int]struct{}{}, named: map[string]bool{}, dbs: map[string]DbSet{}}
	for p := range s.global {
		n.global[p] = struct{}{}
	}
	for _, d := range s.dbs {
		n.useDb(d.name).union(d)
	}
	return n
}

// BAD (P2b): forgets procs.
func (d DbSet) union(o DbSet) {
	for p := range o.privs {
		d.privs[p] = struct{}{}
	}
	for _, ot := range o.tabs {
		d.useTab(ot.name).union(ot)
	}
}

func (tb TabSet) union(o TabSet) {
	for p := range o.privs {
		tb.privs[p] = struct{}{}
	}
}

func (p ProcSet) union(o ProcSet) {
	for x := range o.privs {
		p.privs[x] = struct{}{}
	}
}

// BAD (P2c): leaves tabs and procs, and ClearDb keeps the entry.
func (d DbSet) clear() {
	for p := range d.privs {
		delete(d.privs, p)
	}
}

func (tb TabSet) clear() {
	for p := range tb.privs {
		delete(tb.privs, p)
	}
}

func (s Set) ClearDb(db string) {
	if d, ok := s.dbs[db]; ok {
		d.clear()
	}
}

// ---- persistence (procs is dropped on both sides: P2a) -----------------------------------------------------

type Store struct{ set Set }

func toInt32(in []int) []int32 {
	out := make([]int32, len(in))
	for i, v := range in {
		out[i] = int32(v)
	}
	return out
}

func serializeTabs(b *serial.Builder, tabs []TabSet) []*serial.TabT {
	var out []*serial.TabT
	for _, tb := range tabs {
		name := []byte(tb.name)
		privs := toInt32(tb.ints())
		serial.TabTStart(b)
		serial.TabTAddName(b, name)
		serial.TabTAddPrivs(b, privs)
		out = append(out, serial.TabTEnd(b))
	}
	return out
}

func serializeDbs(b *serial.Builder, dbs []DbSet) []*serial.DbT {
	var out []*serial.DbT
	for _, d := range dbs {
		name := []byte(d.name)
		privs := toInt32(d.ints())
		tabs := serializeTabs(b, d.tabList())
		serial.DbTStart(b)
		serial.DbTAddName(b, name)
		serial.DbTAddPrivs(b, privs)
		serial.DbTAddTabs(b, tabs)
		out = append(out, serial.DbTEnd(b))
	}
	return out
}

func serializeSet(b *serial.Builder, set *Set) *serial.SetT {
	global := toInt32(set.ints())
	var named [][]byte
	for n := range set.named {
		named = append(named, []byte(n))
	}
	dbs := serializeDbs(b, set.listAll())
	serial.SetTStart(b)
	serial.SetTAddGlobal(b, global)
	serial.SetTAddNamed(b, named)
	serial.SetTAddDbs(b, dbs)
	return serial.SetTEnd(b)
}

func (st *Store) Persist() *serial.SetT {
	return serializeSet(&serial.Builder{}, &st.set)
}

func loadInts(n int, f func(int) int32) map[int]struct{} {
	out := map[int]struct{}{}
	for i := 0; i < n; i++ {
		out[int(f(i))] = struct{}{}
	}
	return out
}

func loadTab(s *serial.TabT) *TabSet {
	return &TabSet{name: string(s.Name()), privs: loadInts(s.PrivsLength(), s.Privs)}
}

func loadDb(s *serial.DbT) *DbSet {
	tabs := map[string]TabSet{}
	for i := 0; i < s.TabsLength(); i++ {
		stb := new(serial.TabT)
		if !s.Tabs(stb, i) {
			continue
		}
		tb := loadTab(stb)
		tabs[tb.name] = *tb
	}
	return &DbSet{name: string(s.Name()), privs: loadInts(s.PrivsLength(), s.Privs), tabs: tabs}
}

func loadSet(in *serial.SetT) *Set {
	dbs := map[string]DbSet{}
	for i := 0; i < in.DbsLength(); i++ {
		sd := new(serial.DbT)
		if !in.Dbs(sd, i) {
			continue
		}
		d := loadDb(sd)
		dbs[d.name] = *d
	}
	named := map[string]bool{}
	for i := 0; i < in.NamedLength(); i++ {
		named[string(in.Named(i))] = true
	}
	return &Set{global: loadInts(in.GlobalLength(), in.Global), named: named, dbs: dbs}
}

func (st *Store) LoadData(in *serial.SetT) {
	st.set = *loadSet(in)
}
