// Package serial mimics flatbuffer-generated code for the C41 tree fixture: tables SetT, DbT, TabT.
// There is no field for the routine-like collection DbSet.procs at all (dropped on both sides).
package serial

type Builder struct{ slots map[int]any }

type SetT struct{ slots map[int]any }
type DbT struct{ slots map[int]any }
type TabT struct{ slots map[int]any }

func (s *SetT) Global(j int) int32 { v, _ := s.slots[0].([]int32); return v[j] }
func (s *SetT) GlobalLength() int  { v, _ := s.slots[0].([]int32); return len(v) }
func (s *SetT) Named(j int) []byte { v, _ := s.slots[1].([][]byte); return v[j] }
func (s *SetT) NamedLength() int   { v, _ := s.slots[1].([][]byte); return len(v) }
func (s *SetT) Dbs(obj *DbT, j int) bool {
	v, _ := s.slots[2].([]*DbT)
	if j >= len(v) {
		return false
	}
	*obj = *v[j]
	return true
}
func (s *SetT) DbsLength() int { v, _ := s.slots[2].([]*DbT); return len(v) }

func SetTStart(b *Builder)                { b.slots = map[int]any{} }
func SetTAddGlobal(b *Builder, v []int32) { b.slots[0] = v }
func SetTAddNamed(b *Builder, v [][]byte) { b.slots[1] = v }
func SetTAddDbs(b *Builder, v []*DbT)     { b.slots[2] = v }
func SetTEnd(b *Builder) *SetT            { return &SetT{slots: b.slots} }

func (s *DbT) Name() []byte      { v, _ := s.slots[0].([]byte); return v }
func (s *DbT) Privs(j int) int32 { v, _ := s.slots[1].([]int32); return v[j] }
func (s *DbT) PrivsLength() int  { v, _ := s.slots[1].([]int32); return len(v) }
func (s *DbT) TabsLength() int   { v, _ := s.slots[2].([]*TabT); return len(v) }
func (s *DbT) Tabs(obj *TabT, j int) bool {
	v, _ := s.slots[2].([]*TabT)
	if j >= len(v) {
		return false
	}
	*obj = *v[j]
	return true
}

func DbTStart(b *Builder)               { b.slots = map[int]any{} }
func DbTAddName(b *Builder, v []byte)   { b.slots[0] = v }
func DbTAddPrivs(b *Builder, v []int32) { b.slots[1] = v }
func DbTAddTabs(b *Builder, v []*TabT)  { b.slots[2] = v }
func DbTEnd(b *Builder) *DbT            { return &DbT{slots: b.slots} }

func (s *TabT) Name() []byte      { v, _ := s.slots[0].([]byte); return v }
func (s *TabT) Privs(j int) int32 { v, _ := s.slots[1].([]int32); return v[j] }
func (s *TabT) PrivsLength() int  { v, _ := s.slots[1].([]int32); return len(v) }

func TabTStart(b *Builder)               { b.slots = map[int]any{} }
func TabTAddName(b *Builder, v []byte)   { b.slots[0] = v }
func TabTAddPrivs(b *Builder, v []int32) { b.slots[1] = v }
func TabTEnd(b *Builder) *TabT           { return &TabT{slots: b.slots} }
