// Package db is the C41 fixture: the loader swaps From/To, never restores Admin, and reads
// Note which the writer never stores.
package db

import "vchk/testdata/c41/db/serial"

type Edge struct {
	From, To string
	Admin    bool
	Note     string
}

type Store struct{ edges []*Edge }

func serializeEdge(b *serial.Builder, e *Edge) *serial.Edge {
	from := []byte(e.From)
	to := []byte(e.To)
	serial.EdgeStart(b)
	serial.EdgeAddFrom(b, from)
	serial.EdgeAddTo(b, to)
	serial.EdgeAddAdmin(b, e.Admin)
	return serial.EdgeEnd(b)
}

func loadEdge(s *serial.Edge) *Edge {
	return &Edge{
		From: string(s.To()),
		To:   string(s.From()),
		Note: string(s.Note()),
	}
}

func (st *Store) Persist() []*serial.Edge {
	var out []*serial.Edge
	for _, e := range st.edges {
		out = append(out, serializeEdge(&serial.Builder{}, e))
	}
	return out
}

func (st *Store) LoadData(in []*serial.Edge) {
	for _, s := range in {
		st.edges = append(st.edges, loadEdge(s))
	}
}
