// Package serial mimics flatbuffer-generated code: table Edge with fields From, To, Admin, Note.
package serial

type Builder struct{ slots map[int]any }

type Edge struct{ slots map[int]any }

func (e *Edge) From() []byte { b, _ := e.slots[0].([]byte); return b }
func (e *Edge) To() []byte   { b, _ := e.slots[1].([]byte); return b }
func (e *Edge) Admin() bool  { b, _ := e.slots[2].(bool); return b }
func (e *Edge) Note() []byte { b, _ := e.slots[3].([]byte); return b }

func EdgeStart(b *Builder)             { b.slots = map[int]any{} }
func EdgeAddFrom(b *Builder, v []byte) { b.slots[0] = v }
func EdgeAddTo(b *Builder, v []byte)   { b.slots[1] = v }
func EdgeAddAdmin(b *Builder, v bool)  { b.slots[2] = v }
func EdgeAddNote(b *Builder, v []byte) { b.slots[3] = v }
func EdgeEnd(b *Builder) *Edge         { return &Edge{slots: b.slots} }
