// Package mem is the checker fixture for C51-A (attachment of the full-text editor).
package mem

import (
	"vchk/testdata/c51/ft"
	"vchk/testdata/c51/sql"
)

type tableEditor struct{ t *Table }

func (e *tableEditor) StatementBegin(ctx *sql.Context)                     {}
func (e *tableEditor) DiscardChanges(ctx *sql.Context, cause error) error  { return nil }
func (e *tableEditor) StatementComplete(ctx *sql.Context) error            { return nil }
func (e *tableEditor) Insert(ctx *sql.Context, r sql.Row) error            { return nil }
func (e *tableEditor) Update(ctx *sql.Context, o sql.Row, n sql.Row) error { return nil }
func (e *tableEditor) Delete(ctx *sql.Context, r sql.Row) error            { return nil }
func (e *tableEditor) Close(ctx *sql.Context) error                        { return nil }

type Table struct {
	name    string
	indexes []sql.Index
	side    map[string]ft.EditableTable
	config  ft.EditableTable
}

func (t *Table) Name() string { return t.name }

func (t *Table) newEditor(ctx *sql.Context) sql.TableEditor { return &tableEditor{t: t} }

func (t *Table) wrap(ctx *sql.Context, parent sql.TableEditor, sets []ft.TableSet) sql.TableEditor {
	fte, err := ft.CreateEditor(ctx, t.config, sets...)
	if err != nil {
		panic(err)
	}
	parent, err = ft.CreateMultiTableEditor(ctx, parent, fte)
	if err != nil {
		panic(err)
	}
	return parent
}

func (t *Table) tableSets(ctx *sql.Context) ([]ft.TableSet, error) {
	var sets []ft.TableSet
	for _, idx := range t.indexes {
		if !idx.IsFullText() {
			continue
		}
		if idx.IsUnique() {
			continue // BAD: a FULLTEXT index is skipped
		}
		sets = append(sets, ft.TableSet{
			Index:       idx,
			Position:    t.side[idx.ID()+"p"],
			DocCount:    t.side[idx.ID()+"d"],
			GlobalCount: t.side[idx.ID()+"g"],
			// BAD: RowCount missing
		})
	}
	return sets, nil
}

func (t *Table) getEditor(ctx *sql.Context) sql.TableEditor {
	editor := t.newEditor(ctx)
	sets, err := t.tableSets(ctx)
	if err != nil {
		panic(err)
	}
	if len(sets) > 0 {
		editor = t.wrap(ctx, editor, sets)
	}
	return editor
}

func (t *Table) rewriteEditor(ctx *sql.Context, keepIndexes bool) sql.TableEditor {
	editor := t.newEditor(ctx)
	if !keepIndexes {
		return editor // BAD: a table with FULLTEXT indexes gets the bare editor
	}
	sets, _ := t.tableSets(ctx)
	if len(sets) == 0 {
		return editor
	}
	return t.wrap(ctx, editor, sets)
}

func (t *Table) Inserter(ctx *sql.Context) sql.TableEditor { return t.getEditor(ctx) }

// BAD: hands out a bare editor
func (t *Table) Updater(ctx *sql.Context) sql.TableEditor { return &tableEditor{t: t} }
