// Package exec is the checker fixture for C51-R (rebuild after bulk mutations) and the reader side of C51-T/K.
package exec

import (
	"fmt"

	"vchk/testdata/c51/ft"
	"vchk/testdata/c51/sql"
)

type indexed interface{ Indexes() []sql.Index }

func hasFT(ctx *sql.Context, t sql.Table) bool {
	if it, ok := t.(indexed); ok {
		for _, idx := range it.Indexes() {
			if idx.IsFullText() {
				return true
			}
		}
	}
	return false
}

func rebuildFT(ctx *sql.Context, t sql.Table) error {
	if t == nil {
		return fmt.Errorf("no table")
	}
	return ft.RebuildTables(ctx, t)
}

// good: guarded rebuild after the change
func dropColumn(ctx *sql.Context, t sql.AlterableTable, name string) error {
	has := hasFT(ctx, t)
	if err := t.DropColumn(ctx, name); err != nil {
		return err
	}
	if has {
		if err := rebuildFT(ctx, t); err != nil {
			return err
		}
	}
	return nil
}

// BAD: the rebuild only happens for a default value
func addColumn(ctx *sql.Context, t sql.AlterableTable, name string, hasDefault bool) error {
	has := hasFT(ctx, t)
	if err := t.AddColumn(ctx, name); err != nil {
		return err
	}
	if !hasDefault {
		return nil
	}
	if has {
		return rebuildFT(ctx, t)
	}
	return nil
}

// BAD: no rebuild at all
func truncate(ctx *sql.Context, t sql.TruncateableTable) (int, error) {
	n, err := t.Truncate(ctx)
	if err != nil {
		return 0, err
	}
	return n, nil
}

// good: direct predicate call, negated
func dropPk(ctx *sql.Context, t sql.PrimaryKeyAlterableTable) error {
	err := t.DropPrimaryKey(ctx)
	if err != nil {
		return err
	}
	if !hasFT(ctx, t) {
		return nil
	}
	return rebuildFT(ctx, t)
}

type Reader struct {
	DocCount ft.EditableTable
	KeyCols  ft.KeyColumns
}

func (r *Reader) Match(ctx *sql.Context, row sql.Row, words string) (bool, error) {
	parser, err := ft.NewOtherParser(ctx, ft.CollationOf(r.DocCount), words) // BAD: not the writer's tokenizer
	if err != nil {
		return false, err
	}
	var keys []interface{}
	if !r.KeyCols.Keyless {
		for i := range r.KeyCols.Positions {
			keys = append(keys, row[i]) // BAD: position in the key list, not the key column's position
		}
	} else {
		h, err := ft.HashRow(ctx, row)
		if err != nil {
			return false, err
		}
		keys = append(keys, h)
	}
	w, end := parser.Next()
	return !end && len(w) > 0 && len(keys) > 0, nil
}
