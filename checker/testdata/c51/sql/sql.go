// Package sql is the checker fixture stand-in for the engine's sql package (see c51.go).
package sql

type Context struct{}

type Row []interface{}

type CollationID uint16

type EditOpenerCloser interface {
	StatementBegin(ctx *Context)
	DiscardChanges(ctx *Context, errorEncountered error) error
	StatementComplete(ctx *Context) error
}

type TableEditor interface {
	EditOpenerCloser
	Insert(*Context, Row) error
	Update(ctx *Context, old Row, new Row) error
	Delete(*Context, Row) error
	Close(*Context) error
}

type Index interface {
	ID() string
	IsFullText() bool
	IsUnique() bool
}

type Table interface{ Name() string }

type AlterableTable interface {
	Table
	AddColumn(ctx *Context, name string) error
	DropColumn(ctx *Context, name string) error
	ModifyColumn(ctx *Context, name string, newName string) error
}

type PrimaryKeyAlterableTable interface {
	Table
	CreatePrimaryKey(ctx *Context, cols []string) error
	DropPrimaryKey(ctx *Context) error
}

type TruncateableTable interface {
	Table
	Truncate(*Context) (int, error)
}
