// Package ft is the checker fixture for C51: a copy of the shape of sql/fulltext with one planted
// defect per clause (marked BAD).
package ft

import (
	"errors"

	"vchk/testdata/c51/sql"
)

const maxWordLength = 84

type KeyColumns struct {
	Positions []int
	Keyless   bool
}

type EditableTable interface {
	Name() string
	Editor(ctx *sql.Context) sql.TableEditor
	Collation() sql.CollationID
}

type TableSet struct {
	Index       sql.Index
	Position    EditableTable
	DocCount    EditableTable
	GlobalCount EditableTable
	RowCount    EditableTable
}

type IndexSingleEditor struct {
	Editor sql.TableEditor
}

type IndexEditors struct {
	Position    IndexSingleEditor
	DocCount    IndexSingleEditor
	GlobalCount IndexSingleEditor
	RowCount    IndexSingleEditor
	SourceCols  []int
	KeyCols     KeyColumns
	Collation   sql.CollationID
}

type TableEditor struct {
	Config  IndexSingleEditor
	Indexes []IndexEditors
}

var _ sql.TableEditor = TableEditor{}

func CollationOf(t EditableTable) sql.CollationID { return t.Collation() }

func DefaultCollation() sql.CollationID { return 0 }

func CreateEditor(ctx *sql.Context, config EditableTable, sets ...TableSet) (TableEditor, error) {
	out := make([]IndexEditors, len(sets))
	for i, s := range sets {
		out[i] = IndexEditors{
			Position:    IndexSingleEditor{Editor: s.Position.Editor(ctx)},
			DocCount:    IndexSingleEditor{Editor: s.DocCount.Editor(ctx)},
			GlobalCount: IndexSingleEditor{Editor: s.GlobalCount.Editor(ctx)},
			RowCount:    IndexSingleEditor{Editor: s.RowCount.Editor(ctx)},
			Collation:   CollationOf(s.DocCount),
		}
	}
	return TableEditor{Config: IndexSingleEditor{Editor: config.Editor(ctx)}, Indexes: out}, nil
}

func (e TableEditor) StatementBegin(ctx *sql.Context) {
	e.Config.Editor.StatementBegin(ctx)
	for _, ix := range e.Indexes {
		ix.Position.Editor.StatementBegin(ctx)
		ix.DocCount.Editor.StatementBegin(ctx)
		ix.GlobalCount.Editor.StatementBegin(ctx)
		ix.RowCount.Editor.StatementBegin(ctx)
	}
}

func (e TableEditor) DiscardChanges(ctx *sql.Context, cause error) error {
	err := e.Config.Editor.DiscardChanges(ctx, cause)
	for _, ix := range e.Indexes {
		if nErr := ix.Position.Editor.DiscardChanges(ctx, cause); err == nil {
			err = nErr
		}
		if nErr := ix.DocCount.Editor.DiscardChanges(ctx, cause); err == nil {
			err = nErr
		}
		if nErr := ix.GlobalCount.Editor.DiscardChanges(ctx, cause); nErr != nil {
			err = nErr
			continue // BAD: the row-count editor of this index is not discarded
		}
		if nErr := ix.RowCount.Editor.DiscardChanges(ctx, cause); err == nil {
			err = nErr
		}
	}
	return err
}

func (e TableEditor) StatementComplete(ctx *sql.Context) error {
	err := e.Config.Editor.StatementComplete(ctx)
	for _, ix := range e.Indexes {
		if nErr := ix.Position.Editor.StatementComplete(ctx); err == nil {
			err = nErr
		}
		if nErr := ix.DocCount.Editor.StatementComplete(ctx); err == nil {
			err = nErr
		}
		if nErr := ix.GlobalCount.Editor.StatementComplete(ctx); err == nil {
			err = nErr
		}
		if nErr := ix.RowCount.Editor.StatementComplete(ctx); err == nil {
			err = nErr
		}
	}
	return err
}

func (e TableEditor) Close(ctx *sql.Context) error {
	err := e.Config.Editor.Close(ctx)
	for _, ix := range e.Indexes {
		if nErr := ix.Position.Editor.Close(ctx); err == nil {
			err = nErr
		}
		// BAD: DocCount is never closed
		if nErr := ix.GlobalCount.Editor.Close(ctx); err == nil {
			err = nErr
		}
		if nErr := ix.RowCount.Editor.Close(ctx); err == nil {
			err = nErr
		}
	}
	return err
}

func HashRow(ctx *sql.Context, row sql.Row) (string, error) { return "", nil }

type Parser struct {
	words []string
	i     int
}

func NewParser(ctx *sql.Context, coll sql.CollationID, vals ...interface{}) (Parser, error) {
	return Parser{}, nil
}

func NewOtherParser(ctx *sql.Context, coll sql.CollationID, vals ...interface{}) (Parser, error) {
	return Parser{words: []string{"x"}}, nil
}

func (p *Parser) Next() (string, bool) {
	if p.i >= len(p.words) {
		return "", true
	}
	p.i++
	return p.words[p.i-1], false
}

func (TableEditor) count(ctx *sql.Context, ie IndexEditors, hash string) (uint64, error) {
	return 0, nil
}

func (TableEditor) bump(ctx *sql.Context, ie IndexEditors, word string, up bool) error {
	if err := ie.GlobalCount.Editor.Delete(ctx, sql.Row{word}); err != nil {
		return err
	}
	if up {
		return ie.GlobalCount.Editor.Insert(ctx, sql.Row{word})
	}
	return nil
}

func (e TableEditor) Insert(ctx *sql.Context, row sql.Row) error {
	hash, err := HashRow(ctx, row)
	if err != nil {
		return err
	}
	for _, ix := range e.Indexes {
		src := make([]interface{}, len(ix.SourceCols))
		for i, sc := range ix.SourceCols {
			src[i] = row[sc]
		}
		n, err := e.count(ctx, ix, hash)
		if err != nil {
			return err
		}
		if n >= 1 {
			if err = ix.RowCount.Editor.Update(ctx, sql.Row{hash, n}, sql.Row{hash, n + 1}); err != nil {
				return err
			}
			parser, err := NewParser(ctx, ix.Collation, src...)
			if err != nil {
				return err
			}
			for word, end := parser.Next(); !end; word, end = parser.Next() {
				if len(word) > maxWordLength {
					continue
				}
				if err = e.bump(ctx, ix, word, true); err != nil {
					return err
				}
			}
			continue
		}
		parser, err := NewParser(ctx, ix.Collation, src...)
		if err != nil {
			return err
		}
		if err = ix.RowCount.Editor.Insert(ctx, sql.Row{hash, uint64(1)}); err != nil {
			return err
		}
		var keys []interface{}
		if !ix.KeyCols.Keyless {
			keys = make([]interface{}, len(ix.KeyCols.Positions))
			for i, p := range ix.KeyCols.Positions {
				keys[i] = row[p]
			}
		} else {
			keys = []interface{}{hash}
		}
		for word, end := parser.Next(); !end; word, end = parser.Next() {
			if len(word) > maxWordLength {
				continue
			}
			if err = ix.Position.Editor.Insert(ctx, append(sql.Row{word}, keys...)); err != nil {
				return err
			}
			if err = ix.DocCount.Editor.Insert(ctx, append(sql.Row{word}, keys...)); err != nil {
				return err
			}
			if err = e.bump(ctx, ix, word, true); err != nil {
				return err
			}
		}
	}
	return nil
}

func (e TableEditor) Update(ctx *sql.Context, old sql.Row, new sql.Row) error {
	if err := e.Delete(ctx, new); err != nil { // BAD: deletes the words of the new row
		return err
	}
	return e.Insert(ctx, new)
}

func (e TableEditor) Delete(ctx *sql.Context, row sql.Row) error {
	hash, err := HashRow(ctx, row)
	if err != nil {
		return err
	}
	for _, ix := range e.Indexes {
		src := make([]interface{}, len(ix.SourceCols))
		for i, sc := range ix.SourceCols {
			src[i] = row[sc]
		}
		n, err := e.count(ctx, ix, hash)
		if err != nil {
			return err
		}
		if n == 0 {
			continue
		}
		if n > 1 {
			if err = ix.RowCount.Editor.Update(ctx, sql.Row{hash, n}, sql.Row{hash, n - 1}); err != nil {
				return err
			}
			parser, err := NewParser(ctx, DefaultCollation(), src...) // BAD: not the index collation
			if err != nil {
				return err
			}
			for word, end := parser.Next(); !end; word, end = parser.Next() {
				// BAD: no word-length skip
				if err = e.bump(ctx, ix, word, true); err != nil { // BAD: counts up while deleting
					return err
				}
			}
			continue
		}
		if err = ix.RowCount.Editor.Delete(ctx, sql.Row{hash, uint64(1)}); err != nil {
			return err
		}
		var keys []interface{}
		if !ix.KeyCols.Keyless {
			keys = make([]interface{}, len(ix.KeyCols.Positions))
			for i, p := range ix.KeyCols.Positions {
				keys[i] = row[p]
			}
		} else {
			keys = []interface{}{hash}
		}
		parser, err := NewParser(ctx, ix.Collation, src...)
		if err != nil {
			return err
		}
		for word, end := parser.Next(); !end; word, end = parser.Next() {
			if len(word) > maxWordLength {
				continue
			}
			// BAD: the position table is not undone
			if err = ix.DocCount.Editor.Delete(ctx, append(sql.Row{word}, keys...)); err != nil {
				return err
			}
			if err = e.bump(ctx, ix, word, false); err != nil {
				return err
			}
		}
	}
	return nil
}

// ---- the forwarding wrapper ----

type MultiTableEditor struct {
	primary     sql.TableEditor
	secondaries []sql.TableEditor
}

var _ sql.TableEditor = MultiTableEditor{}

func CreateMultiTableEditor(ctx *sql.Context, primary sql.TableEditor, secondaries ...sql.TableEditor) (sql.TableEditor, error) {
	if primary == nil {
		return nil, errors.New("no primary")
	}
	return MultiTableEditor{primary: primary, secondaries: secondaries}, nil
}

func (m MultiTableEditor) StatementBegin(ctx *sql.Context) {
	for _, s := range m.secondaries {
		s.StatementBegin(ctx)
	}
	m.primary.StatementBegin(ctx)
}

func (m MultiTableEditor) DiscardChanges(ctx *sql.Context, cause error) error {
	var err error
	for _, s := range m.secondaries {
		if nErr := s.DiscardChanges(ctx, cause); err == nil {
			err = nErr
		}
	}
	if nErr := m.primary.DiscardChanges(ctx, cause); err == nil {
		err = nErr
	}
	return err
}

func (m MultiTableEditor) StatementComplete(ctx *sql.Context) error {
	var err error
	for _, s := range m.secondaries {
		if err != nil {
			break // BAD: the remaining secondaries never complete
		}
		err = s.StatementComplete(ctx)
	}
	if nErr := m.primary.StatementComplete(ctx); err == nil {
		err = nErr
	}
	return err
}

func (m MultiTableEditor) Insert(ctx *sql.Context, row sql.Row) error {
	for _, s := range m.secondaries {
		if err := s.Insert(ctx, row); err != nil {
			return err
		}
	}
	return m.primary.Insert(ctx, row)
}

func (m MultiTableEditor) Update(ctx *sql.Context, old sql.Row, new sql.Row) error {
	for _, s := range m.secondaries {
		if err := s.Update(ctx, old, new); err != nil {
			return err
		}
	}
	return m.primary.Update(ctx, old, new)
}

func (m MultiTableEditor) Delete(ctx *sql.Context, row sql.Row) error {
	return m.primary.Delete(ctx, row) // BAD: the secondaries keep the row's words
}

func (m MultiTableEditor) Close(ctx *sql.Context) error {
	var err error
	for _, s := range m.secondaries {
		if nErr := s.Close(ctx); err == nil {
			err = nErr
		}
	}
	if nErr := m.primary.Close(ctx); err == nil {
		err = nErr
	}
	return err
}

func RebuildTables(ctx *sql.Context, t sql.Table) error { return nil }
