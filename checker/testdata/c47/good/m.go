// Package good is a checker fixture: the reference IndexedSet/MultiMap shapes. No C47 rule may fire.
package good

type MultiMap[V any] struct {
	Equals  func(v1, v2 V) bool
	entries map[any][]V
}

func NewMultiMap[V any](f func(v1, v2 V) bool) MultiMap[V] {
	return MultiMap[V]{f, make(map[any][]V)}
}

func (m MultiMap[V]) GetMany(k any) []V {
	if vs, ok := m.entries[k]; ok {
		cp := make([]V, len(vs))
		copy(cp, vs)
		return cp
	}
	return nil
}

func (m MultiMap[V]) Put(k any, v V) { m.entries[k] = append(m.entries[k], v) }

func (m MultiMap[V]) Clear() {
	for k := range m.entries {
		delete(m.entries, k)
	}
}

func (m MultiMap[V]) Remove(k any, v V) (res V, found bool) {
	if vs, ok := m.entries[k]; ok {
		var newvs []V
		for _, vp := range vs {
			if !m.Equals(v, vp) {
				newvs = append(newvs, vp)
			} else {
				res, found = v, true
			}
		}
		if len(newvs) > 0 {
			m.entries[k] = newvs
		} else {
			delete(m.entries, k)
		}
	}
	return
}

func (m MultiMap[V]) Len() int { return len(m.entries) }

type Keyer[V any] interface{ GetKey(V) any }

type IndexedSet[V any] struct {
	Keyers  []Keyer[V]
	Indexes []MultiMap[V]
}

func NewIndexedSet[V any](eqf func(V, V) bool, keyers []Keyer[V]) IndexedSet[V] {
	cp := make([]Keyer[V], len(keyers))
	copy(cp, keyers)
	idxs := make([]MultiMap[V], len(keyers))
	for i := range idxs {
		idxs[i] = NewMultiMap[V](eqf)
	}
	return IndexedSet[V]{Keyers: cp, Indexes: idxs}
}

func (is IndexedSet[V]) Put(v V) {
	for i := range is.Indexes {
		is.Indexes[i].Put(is.Keyers[i].GetKey(v), v)
	}
}

func (is IndexedSet[V]) Remove(v V) (res V, found bool) {
	for i, keyer := range is.Keyers {
		k := keyer.GetKey(v)
		if fv, ok := is.Indexes[i].Remove(k, v); ok {
			res, found = fv, true
		}
	}
	return
}

func (is IndexedSet[V]) GetMany(keyer Keyer[V], k any) []V {
	for i, x := range is.Keyers {
		if x == keyer {
			return is.Indexes[i].GetMany(k)
		}
	}
	return nil
}

func (is IndexedSet[V]) First(v V) []V {
	k := is.Keyers[0].GetKey(v)
	return is.Indexes[0].GetMany(k)
}

func (is IndexedSet[V]) Clear() {
	for _, ix := range is.Indexes {
		ix.Clear()
	}
}

func (is IndexedSet[V]) Size() int {
	if len(is.Indexes) == 0 {
		return 0
	}
	return is.Indexes[0].Len()
}
