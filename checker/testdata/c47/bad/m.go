// Package bad is a checker fixture with one planted defect per C47 rule (see c47.go).
package bad

type MultiMap[V any] struct {
	Equals  func(v1, v2 V) bool
	entries map[any][]V
}

func NewMultiMap[V any](f func(v1, v2 V) bool) MultiMap[V] {
	return MultiMap[V]{f, make(map[any][]V)}
}

// M3: returns the stored slice itself.
func (m MultiMap[V]) GetMany(k any) []V {
	if vs, ok := m.entries[k]; ok {
		return vs
	}
	return nil
}

// M2/append: overwrites the bucket.
func (m MultiMap[V]) Put(k any, v V) { m.entries[k] = []V{v} }

func (m MultiMap[V]) Clear() {
	for k := range m.entries {
		delete(m.entries, k)
	}
}

// M2: deletes under the value, not the key (type-checks: key type is any).
func (m MultiMap[V]) Remove(k any, v V) (res V, found bool) {
	if _, ok := m.entries[k]; ok {
		delete(m.entries, v)
		return v, true
	}
	return
}

// M1: a writer outside the frozen set; and the map escapes.
func (m MultiMap[V]) Poke(k any) { m.entries[k] = nil }
func (m MultiMap[V]) Raw() map[any][]V { return m.entries }

type Keyer[V any] interface{ GetKey(V) any }

type IndexedSet[V any] struct {
	Keyers  []Keyer[V]
	Indexes []MultiMap[V]
}

func NewIndexedSet[V any](eqf func(V, V) bool, keyers []Keyer[V]) IndexedSet[V] {
	cp := make([]Keyer[V], len(keyers))
	copy(cp, keyers)
	idxs := make([]MultiMap[V], len(keyers))
	for i := range idxs {
		idxs[i] = NewMultiMap[V](eqf)
	}
	return IndexedSet[V]{cp, idxs}
}

// I4: built outside the constructor.
func Leak[V any](k []Keyer[V]) IndexedSet[V] { return IndexedSet[V]{Keyers: k} }

// I1: only the primary index is updated.
func (is IndexedSet[V]) Put(v V) {
	k := is.Keyers[0].GetKey(v)
	is.Indexes[0].Put(k, v)
}

// I1: stops at the first index that did not contain v.
func (is IndexedSet[V]) Remove(v V) (res V, found bool) {
	for i, keyer := range is.Keyers {
		k := keyer.GetKey(v)
		fv, ok := is.Indexes[i].Remove(k, v)
		if !ok {
			break
		}
		res, found = fv, true
	}
	return
}

// I1: every index is filed under the first keyer's key.
func (is IndexedSet[V]) Replace(v V) {
	for i := range is.Keyers {
		is.Indexes[i].Put(is.Keyers[0].GetKey(v), v)
	}
}

// I3: reads the index after the matching one.
func (is IndexedSet[V]) GetMany(keyer Keyer[V], k any) []V {
	for i := range is.Keyers {
		return is.Indexes[i].GetMany(k)
	}
	return nil
}

// I2: re-slices the index list.
func (is *IndexedSet[V]) Drop() { is.Indexes = is.Indexes[:1] }
