// Package good is a checker fixture: gated plan-level caches in their reference shape.
package good

import (
	"errors"
	"io"
	"sync"
)

type Node interface{ Children() []Node }
type Statement interface{ stmt() }

type Table struct{}

func (*Table) Children() []Node { return nil }

type ColSet struct{ n int }

func (c ColSet) Empty() bool { return c.n == 0 }

type Subquery struct {
	correlated    ColSet
	volatile      bool
	cache         []any
	resultsCached bool
	mu            sync.Mutex
}

func (s *Subquery) canCache() bool { return s.correlated.Empty() && !s.volatile }

func (s *Subquery) WithCorrelated(c ColSet) *Subquery { r := *s; r.correlated = c; return &r }
func (s *Subquery) WithVolatile() *Subquery           { r := *s; r.volatile = true; return &r }

func build(corr ColSet, vol bool) *Subquery {
	s := (&Subquery{}).WithCorrelated(corr)
	if vol {
		s = s.WithVolatile()
	}
	return s
}

func (s *Subquery) eval() ([]any, error) { return nil, nil }

func (s *Subquery) Eval() ([]any, error) {
	s.mu.Lock()
	cached := s.resultsCached
	s.mu.Unlock()
	if cached {
		return s.cache, nil
	}
	rows, err := s.eval()
	if err != nil {
		return nil, err
	}
	if s.canCache() {
		s.mu.Lock()
		if !s.resultsCached {
			s.cache, s.resultsCached = rows, true
		}
		s.mu.Unlock()
	}
	return rows, nil
}

type Alias struct {
	Correlated ColSet
	Volatile   bool
	Child      Node
}

func (a *Alias) Children() []Node       { return []Node{a.Child} }
func (a *Alias) CanCacheResults() bool { return a.Correlated.Empty() && !a.Volatile }

type CachedResults struct {
	Child     Node
	rows      [][]any
	finalized bool
}

func (c *CachedResults) Children() []Node   { return []Node{c.Child} }
func NewCachedResults(n Node) *CachedResults { return &CachedResults{Child: n} }
func (c *CachedResults) Set(r [][]any)       { c.rows = r; c.finalized = true }
func (c *CachedResults) Get() [][]any        { return c.rows }
func (c *CachedResults) IsFinalized() bool   { return c.finalized }

func cacheInJoins(n Node, inJoin bool) Node {
	var cacheable bool
	switch n := n.(type) {
	case *Alias:
		cacheable = n.CanCacheResults() && inJoin
	}
	doCache := cacheable && inJoin
	if doCache {
		return NewCachedResults(n)
	}
	return n
}

type rowIter interface{ Next() ([]any, error) }

type iter struct {
	node  *CachedResults
	child rowIter
	rows  [][]any
}

func (i *iter) save() { i.node.Set(i.rows) }

func (i *iter) Next() ([]any, error) {
	r, err := i.child.Next()
	if err != nil {
		if errors.Is(err, io.EOF) {
			i.save()
		}
		return nil, err
	}
	i.rows = append(i.rows, r)
	return r, nil
}

func buildIter(n *CachedResults, child rowIter) (any, error) {
	if n.IsFinalized() {
		return n.Get(), nil
	}
	return &iter{node: n, child: child}, nil
}

type BaseSession struct {
	prepared map[string]Statement
}

type Session interface {
	GetPrepared(q string) (Statement, bool)
}
