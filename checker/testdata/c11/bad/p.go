// Package bad is a checker fixture: one planted defect per C11 rule (see c11.go for the expectations).
package bad

import (
	"io"
	"sync"
)

type Node interface{ Children() []Node }

type Table struct{}

func (*Table) Children() []Node { return nil }

type ColSet struct{ n int }

func (c ColSet) Empty() bool { return c.n == 0 }

type Subquery struct {
	correlated    ColSet
	volatile      bool
	cache         []any
	resultsCached bool
	mu            sync.Mutex
}

// G2: the volatile test is missing.
func (s *Subquery) canCache() bool { return s.correlated.Empty() }

func (s *Subquery) WithCorrelated(c ColSet) *Subquery { r := *s; r.correlated = c; return &r }
func (s *Subquery) WithVolatile() *Subquery           { r := *s; r.volatile = true; return &r }

func build(corr ColSet, vol bool) *Subquery {
	s := (&Subquery{}).WithCorrelated(corr)
	if vol {
		s = s.WithVolatile()
	}
	return s
}

func (s *Subquery) eval() ([]any, error) { return nil, nil }

// G1a: caches whatever the subquery is.
func (s *Subquery) Eval() ([]any, error) {
	s.mu.Lock()
	cached := s.resultsCached
	s.mu.Unlock()
	if cached {
		return s.cache, nil
	}
	rows, err := s.eval()
	if err != nil {
		return nil, err
	}
	s.mu.Lock()
	s.cache, s.resultsCached = rows, true
	s.mu.Unlock()
	return rows, nil
}

// G1b: serves the cache without looking at the flag.
func (s *Subquery) Peek() []any { return s.cache }

type Alias struct {
	Correlated ColSet
	Volatile   bool
	Child      Node
}

func (a *Alias) Children() []Node       { return []Node{a.Child} }
func (a *Alias) CanCacheResults() bool { return a.Correlated.Empty() && !a.Volatile }

type CachedResults struct {
	Child     Node
	rows      [][]any
	finalized bool
}

func (c *CachedResults) Children() []Node   { return []Node{c.Child} }
func NewCachedResults(n Node) *CachedResults { return &CachedResults{Child: n} }
func (c *CachedResults) Set(r [][]any)       { c.rows = r; c.finalized = true }
func (c *CachedResults) Get() [][]any        { return c.rows }
func (c *CachedResults) IsFinalized() bool   { return c.finalized }

// G6: a second writer of the flag.
func (c *CachedResults) Reset() { c.finalized = false }

// G4: caches every alias in a join, cacheable or not.
func cacheInJoins(n Node, inJoin bool) Node {
	if inJoin {
		return NewCachedResults(n)
	}
	return n
}

// G4: a foreign constructor call.
func other(n Node) Node { return NewCachedResults(n) }

type rowIter interface{ Next() ([]any, error) }

type iter struct {
	node  *CachedResults
	child rowIter
	rows  [][]any
}

// G6: saves whatever was read when the child fails.
func (i *iter) Next() ([]any, error) {
	r, err := i.child.Next()
	if err != nil {
		if err != io.EOF {
			i.node.Set(i.rows)
		}
		return nil, err
	}
	i.rows = append(i.rows, r)
	return r, nil
}

// G6: serves the rows without asking whether they are complete.
func build2(n *CachedResults) [][]any { return n.Get() }

// G3: the session keeps analysed plans.
type BaseSession struct {
	prepared map[string]Node
}

type Session interface {
	GetPrepared(q string) (Node, bool)
}
