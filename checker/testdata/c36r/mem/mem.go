// Package mem is a checker fixture for C36-R: tables whose read paths do / do not own the row
// slices they mutate.
package mem

import (
	"io"
	"sort"

	"vchk/testdata/c36r/sorters"
	"vchk/testdata/c36r/sql"
)

type TableData struct {
	partitions map[string][]sql.Row
}

type rowsIter struct {
	rows []sql.Row
	pos  int
}

func (i *rowsIter) Next() (sql.Row, error) {
	if i.pos >= len(i.rows) {
		return nil, io.EOF
	}
	i.pos++
	return i.rows[i.pos-1], nil
}

func (i *rowsIter) Close() error { return nil }

// ---- good: copies before it sorts -----------------------------------------------------------------

type GoodTable struct{ data *TableData }

func (t *GoodTable) Name() string { return "good" }

func (t *GoodTable) PartitionRows(key string) (sql.RowIter, error) {
	rows := t.data.partitions[key]
	own := make([]sql.Row, len(rows))
	copy(own, rows)
	sort.Stable(sorters.New(own))
	more := append([]sql.Row{}, rows...) // append to a fresh slice copies as well
	sort.Slice(more, func(i, j int) bool { return len(more[i]) < len(more[j]) })
	return &rowsIter{rows: own}, nil
}

func (t *GoodTable) RowCount() (uint64, error) {
	n := 0
	for _, p := range t.data.partitions {
		n += len(p)
	}
	return uint64(n), nil
}

// ---- bad: hands a capacity-limited alias to an iterator that a wrapper sorts ------------------------

type AliasTable struct{ data *TableData }

func (t *AliasTable) Name() string { return "alias" }

func (t *AliasTable) PartitionRows(key string) (sql.RowIter, error) {
	rows := t.data.partitions[key]
	return &rowsIter{rows: rows[:len(rows):len(rows)]}, nil // BUG: alias of the stored slice
}

type SortedTable struct{ *AliasTable }

func (t *SortedTable) PartitionRows(key string) (sql.RowIter, error) {
	it, err := t.AliasTable.PartitionRows(key)
	if err != nil {
		return nil, err
	}
	if ri, ok := it.(*rowsIter); ok {
		sort.Stable(sorters.New(ri.rows)) // sorts whatever the iterator holds
	}
	return it, nil
}

// ---- bad: sorts the stored slice directly; appends into its spare capacity ---------------------------

type DirectTable struct{ data *TableData }

func (t *DirectTable) Name() string { return "direct" }

func (t *DirectTable) PartitionRows(key string) (sql.RowIter, error) {
	rows := t.data.partitions[key]
	sort.Slice(rows, func(i, j int) bool { return len(rows[i]) < len(rows[j]) }) // BUG
	return &rowsIter{rows: append(rows, sql.Row{"sentinel"})}, nil               // BUG
}

// ---- bad: a statistics read compacts the stored map ---------------------------------------------------

type StatsTable struct{ data *TableData }

func (t *StatsTable) Name() string                                  { return "stats" }
func (t *StatsTable) PartitionRows(key string) (sql.RowIter, error) { return &rowsIter{}, nil }
func (t *StatsTable) RowCount() (uint64, error)                     { return t.data.count(), nil }

func (d *TableData) count() uint64 {
	n := 0
	for k, p := range d.partitions {
		if len(p) == 0 {
			delete(d.partitions, k) // BUG: a read drops empty partitions from the stored map
		}
		n += len(p)
	}
	return uint64(n)
}

// ---- not a read path: an editor may mutate its own table data ----------------------------------------

type editor struct{ data *TableData }

func (e *editor) insert(key string, r sql.Row) {
	e.data.partitions[key] = append(e.data.partitions[key], r)
	sort.Stable(sorters.New(e.data.partitions[key]))
}

var _ = (*editor).insert
