// Package sorters is a checker fixture for C36-R: a sort.Interface over rows that swaps in place.
package sorters

import "vchk/testdata/c36r/sql"

type RowSorter struct{ rows []sql.Row }

func New(rows []sql.Row) *RowSorter { return &RowSorter{rows: rows} }

func (s *RowSorter) Len() int           { return len(s.rows) }
func (s *RowSorter) Less(i, j int) bool { return len(s.rows[i]) < len(s.rows[j]) }
func (s *RowSorter) Swap(i, j int)      { s.rows[i], s.rows[j] = s.rows[j], s.rows[i] }
