// Package sql is a checker fixture for C36-R: the read interfaces of a table.
package sql

type Row []any

type RowIter interface {
	Next() (Row, error)
	Close() error
}

type Table interface {
	Name() string
	PartitionRows(key string) (RowIter, error)
}

type StatisticsTable interface {
	RowCount() (uint64, error)
}
