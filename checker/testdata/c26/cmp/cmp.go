// Package cmp is a checker fixture for C26: a miniature Type interface with a NULL helper whose
// table is wrong in two entries and four Compare implementations that break the NULL discipline
// or compute their result by subtraction. Good is the conforming sibling.
package cmp

type Type interface {
	Compare(ctx int, a, b any) (int, error)
}

// CompareNulls: (NULL,value) has the wrong sign, (value,NULL) the wrong flag.
func CompareNulls(a, b any) (bool, int) {
	aIsNull := a == nil
	bIsNull := b == nil
	if aIsNull && bIsNull {
		return true, 0
	} else if aIsNull && !bIsNull {
		return true, 1
	} else if !aIsNull && bIsNull {
		return false, 1
	}
	return false, 0
}

type Good struct{}

func (Good) Compare(ctx int, a, b any) (int, error) {
	if hasNulls, res := CompareNulls(a, b); hasNulls {
		return res, nil
	}
	if s, ok := a.(string); ok {
		if s < b.(string) {
			return -1, nil
		}
		return 1, nil
	}
	x, y := a.(int), b.(int)
	if x < y {
		return -1, nil
	} else if x > y {
		return 1, nil
	}
	return 0, nil
}

// Delegating hands a and b to a sibling: conforming.
type Delegating struct{}

func (Delegating) Compare(ctx int, a, b any) (int, error) {
	return Good{}.Compare(ctx, a, b)
}

// NoGuard asserts the operands without deciding NULLs.
type NoGuard struct{}

func (NoGuard) Compare(ctx int, a, b any) (int, error) {
	x, y := a.(int), b.(int)
	if x < y {
		return -1, nil
	} else if x > y {
		return 1, nil
	}
	return 0, nil
}

// WrongReturn tests for NULL but answers 0 instead of the helper's result.
type WrongReturn struct{}

func (WrongReturn) Compare(ctx int, a, b any) (int, error) {
	if hasNulls, _ := CompareNulls(a, b); hasNulls {
		return 0, nil
	}
	x, y := a.(int), b.(int)
	if x < y {
		return -1, nil
	}
	return 1, nil
}

// LateGuard converts a before the NULL decision.
type LateGuard struct{}

func (LateGuard) Compare(ctx int, a, b any) (int, error) {
	x := a.(int)
	if hasNulls, res := CompareNulls(a, b); hasNulls {
		return res, nil
	}
	if x < b.(int) {
		return -1, nil
	}
	return 1, nil
}

// Subtract returns a raw difference.
type Subtract struct{}

func (Subtract) Compare(ctx int, a, b any) (int, error) {
	if hasNulls, res := CompareNulls(a, b); hasNulls {
		return res, nil
	}
	return a.(int) - b.(int), nil
}
