// Package numcmp is a checker fixture for C26-X: mixed-kind number comparison kernels. The Good*
// functions guard every value-changing conversion; the Bad* ones drop a guard (X1) or compare only
// rounded / truncated images of an operand (X2).
package numcmp

import (
	"cmp"
	"math"
)

type i64 int64
type u64 uint64
type f64 float64

// GoodIntUint: both guards present.
func GoodIntUint(i i64, u u64) int {
	if i < 0 {
		return -1
	}
	if u > math.MaxInt64 {
		return -1
	}
	return cmp.Compare(int64(i), int64(u))
}

// GoodUintInt delegates: the operands reach a comparator call unchanged.
func GoodUintInt(u u64, i i64) int {
	return -GoodIntUint(i, u)
}

// GoodSignTest uses the converted value only as a sign test (int64(u) < 0 means u > MaxInt64).
func GoodSignTest(i i64, u u64) int {
	if i < 0 || int64(u) < 0 {
		return -1
	}
	if uint64(i) < uint64(u) {
		return -1
	}
	if uint64(i) > uint64(u) {
		return 1
	}
	return 0
}

// GoodIntFloat: float decided first when outside int64, rounded comparison backed by an exact one.
func GoodIntFloat(i i64, f f64) int {
	if f >= math.MaxInt64 {
		return -1
	}
	if f < math.MinInt64 {
		return 1
	}
	if float64(i) > float64(f) || int64(i) > int64(f) {
		return 1
	}
	if float64(i) < float64(f) || int64(i) < int64(f) {
		return -1
	}
	return 0
}

// GoodSmallIntFloat: an int32 is exact as float64.
func GoodSmallIntFloat(i int32, f float64) int {
	return cmp.Compare(float64(i), f)
}

// BadIntUint: the u > MaxInt64 guard is missing (X1 hi).
func BadIntUint(i i64, u u64) int {
	if i < 0 {
		return -1
	}
	return cmp.Compare(int64(i), int64(u))
}

// BadUintFloat: 2^64 itself passes the upper guard (X1 hi). There is no f < 0 guard, and none is needed:
// uint64(f) is evaluated only where float64(u) > f is false, so f >= float64(u) >= 0 (lo is ok).
func BadUintFloat(u u64, f f64) int {
	if f > math.MaxUint64 {
		return -1
	}
	if float64(u) > float64(f) || uint64(u) > uint64(f) {
		return 1
	}
	if float64(u) < float64(f) || uint64(u) < uint64(f) {
		return -1
	}
	return 0
}

// BadRounded compares the float64 image of the integer only (X2 on the integer operand).
func BadRounded(i i64, f f64) int {
	return cmp.Compare(float64(i), float64(f))
}

// BadTruncated compares the truncated float only (X2 on the float operand, X1 on the conversion).
func BadTruncated(i i64, f f64) int {
	if f >= math.MaxInt64 {
		return -1
	}
	if f < math.MinInt64 {
		return 1
	}
	return cmp.Compare(int64(i), int64(f))
}

// BadIntUnsigned compares in the unsigned domain without the i < 0 guard (X1 lo).
func BadIntUnsigned(i i64, u u64) int {
	if u > math.MaxInt64 {
		return -1
	}
	return cmp.Compare(uint64(i), uint64(u))
}
