// Package classes: a dispatched comparison whose class-precedence table is not antisymmetric
// (str vs obj) for the C26-J fixture.
package classes

import "strings"

type Arr []any
type Obj map[string]any

func Compare(a, b any) (int, error) {
	switch a := a.(type) {
	case bool:
		return cmpBool(a, b)
	case Arr:
		return cmpArr(a, b)
	case Obj:
		return cmpObj(a, b)
	case string:
		return cmpStr(a, b)
	}
	return 0, nil
}

func cmpBool(a bool, b any) (int, error) {
	switch b := b.(type) {
	case bool:
		if a == b {
			return 0, nil
		}
		if a {
			return 1, nil
		}
		return -1, nil
	default:
		return 1, nil
	}
}

func cmpArr(a Arr, b any) (int, error) {
	switch b := b.(type) {
	case bool:
		return -1, nil
	case Arr:
		if len(a) < len(b) {
			return -1, nil
		}
		return 0, nil
	default:
		return 1, nil
	}
}

func cmpObj(a Obj, b any) (int, error) {
	switch b := b.(type) {
	case bool, Arr:
		return -1, nil
	case Obj:
		if len(a) < len(b) {
			return -1, nil
		}
		return 0, nil
	default:
		return 1, nil
	}
}

// cmpStr forgets that objects outrank strings.
func cmpStr(a string, b any) (int, error) {
	switch b := b.(type) {
	case bool, Arr:
		return -1, nil
	case string:
		return strings.Compare(a, b), nil
	default:
		return 1, nil
	}
}
