// Package sql is the C22 fixture: Column.Invisible and Index.Comment are definitional but never printed.
package sql

import "fmt"

type Column struct {
	Name      string
	Type      string
	Comment   string
	Source    string
	Invisible bool
}

type Index interface {
	ID() string
	IsUnique() bool
	Comment() string
}

type SchemaFormatter interface {
	ColumnDefinition(col *Column) string
	IndexDefinition(unique bool, id string) string
}

type MySqlSchemaFormatter struct{}

func (m *MySqlSchemaFormatter) ColumnDefinition(col *Column) string {
	s := fmt.Sprintf("`%s` %s", col.Name, col.Type)
	if col.Comment != "" {
		s += " COMMENT '" + col.Comment + "'"
	}
	return s
}

func (m *MySqlSchemaFormatter) IndexDefinition(unique bool, id string) string {
	if unique {
		return "UNIQUE KEY " + id
	}
	return "KEY " + id
}
