// Package exec is the C22 fixture root.
package exec

import (
	"strings"

	"vchk/testdata/c22/sql"
)

type iter struct {
	formatter sql.SchemaFormatter
	indexes   []sql.Index
}

func (i *iter) produce(schema []*sql.Column) string {
	var parts []string
	for _, col := range schema {
		parts = append(parts, i.formatter.ColumnDefinition(col))
	}
	for _, idx := range i.indexes {
		parts = append(parts, i.formatter.IndexDefinition(idx.IsUnique(), idx.ID()))
	}
	return strings.Join(parts, ",\n")
}
