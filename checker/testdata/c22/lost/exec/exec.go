// Package exec is the C22-L fixture's executor: it reads the node's fields.
package exec

import "vchk/testdata/c22/lost/plan"

type iter struct {
	child   plan.Node
	isView  bool
	indexes []string
	checks  []string
	target  []string
	key     []int
	order   []int
	hint    string
}

func build(n *plan.Show) *iter {
	return &iter{
		child:   n.Child,
		isView:  n.IsView,
		indexes: n.Indexes,
		checks:  n.Checks(),
		target:  n.Target(),
		key:     n.Key,
		order:   n.Order,
		hint:    n.Hint,
	}
}

var _ = build
