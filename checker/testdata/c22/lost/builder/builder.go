// Package builder is the C22-L fixture's planner.
package builder

import "vchk/testdata/c22/lost/plan"

type scope struct{ node plan.Node }

type Builder struct{ all []plan.Node }

// modifyTarget hands n to the copying WithTarget through an interface, like modifySchemaTarget.
func (b *Builder) modifyTarget(n plan.Target, t []string) plan.Node {
	ret, err := n.WithTarget(t)
	if err != nil {
		panic(err)
	}
	return ret
}

// keep retains the node: stores after it are observable.
func (b *Builder) keep(n plan.Node) { b.all = append(b.all, n) }

// buildGood: every store precedes the last copying call. Silent.
func (b *Builder) buildGood(child plan.Node, checks []string, key []int) *scope {
	out := &scope{}
	show := plan.NewShow(child, false)
	out.node = show
	show = show.WithChecks(checks).(*plan.Show)
	show.Indexes = []string{"i"}
	if len(key) > 0 {
		show.Key = key
	}
	out.node = b.modifyTarget(show, []string{"t"})
	return out
}

// buildShared: the node is retained before the store, so the late store is visible. Silent.
func (b *Builder) buildShared(child plan.Node, key []int) *scope {
	out := &scope{}
	show := plan.NewShow(child, false)
	b.keep(show)
	out.node = b.modifyTarget(show, nil)
	show.Key = key
	return out
}

// buildStale: Order is written on the original after the copy was taken. C22-L1 (and Order loses its
// only provider: C22-L2).
func (b *Builder) buildStale(child plan.Node, order []int) *scope {
	out := &scope{}
	show := plan.NewShow(child, false)
	show = show.WithChecks(nil).(*plan.Show)
	out.node = b.modifyTarget(show, []string{"t"})
	if len(order) > 0 {
		show.Order = order
	}
	return out
}

// buildDropped: the copy returned by WithKey is dropped. C22-L3.
func (b *Builder) buildDropped(scopes []*scope, key []int) {
	for _, s := range scopes {
		if kt, ok := s.node.(plan.KeyTarget); ok {
			s.node = b.modifyTarget(kt, nil)
			kt.WithKey(key)
		}
	}
}

// buildKept: the copy is used. Silent.
func (b *Builder) buildKept(s *scope, key []int) {
	if kt, ok := s.node.(plan.KeyTarget); ok {
		n, err := kt.WithKey(key)
		if err == nil {
			s.node = n
		}
	}
}
