// Package plan is the C22-L fixture's node package: a SHOW CREATE style node built by copy-on-write
// With* methods mixed with plain field stores.
package plan

type Node interface{ Children() []Node }

// Target is implemented by nodes that can take a target schema; the method returns a copy.
type Target interface {
	WithTarget(t []string) (Node, error)
}

// KeyTarget additionally takes a key order; the method returns a copy.
type KeyTarget interface {
	Target
	WithKey(k []int) (Node, error)
}

type Unary struct{ Child Node }

func (u *Unary) Children() []Node { return []Node{u.Child} }

type Show struct {
	*Unary
	Key     []int
	Order   []int
	Indexes []string
	checks  []string
	target  []string
	IsView  bool
	Hint    string
}

func NewShow(child Node, isView bool) *Show {
	return &Show{Unary: &Unary{child}, IsView: isView}
}

func (s *Show) Checks() []string { return s.checks }
func (s *Show) Target() []string { return s.target }

// WithChecks copies through a pointer receiver.
func (s *Show) WithChecks(c []string) Node {
	ret := *s
	ret.checks = c
	return &ret
}

// WithTarget copies through a value receiver.
func (s Show) WithTarget(t []string) (Node, error) {
	s.target = t
	return &s, nil
}

func (s Show) WithKey(k []int) (Node, error) {
	s.Key = k
	return &s, nil
}

// SetHintInPlace is never called: Hint has no live provider.
func (s *Show) SetHintInPlace(h string) { s.Hint = h }

// Leaf is a node without fields of interest.
type Leaf struct{ Name string }

func (l *Leaf) Children() []Node { return nil }
