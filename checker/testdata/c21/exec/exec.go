// Package exec is a checker fixture: one correct and four broken table rewrites.
package exec

import (
	"errors"

	"vchk/testdata/c21/sql"
)

func Convert(r sql.Row) (sql.Row, error) {
	if len(r) == 0 {
		return nil, errors.New("empty")
	}
	return r, nil
}

// rewriteGood follows the protocol.
func rewriteGood(t sql.RewritableTable) error {
	ins, err := t.RewriteInserter("s")
	if err != nil {
		return err
	}
	rows, err := t.Rows()
	if err != nil {
		_ = ins.DiscardChanges(err)
		_ = ins.Close()
		return err
	}
	for _, r := range rows {
		r, err = Convert(r)
		if err != nil {
			_ = ins.DiscardChanges(err)
			_ = ins.Close()
			return err
		}
		if err = ins.Insert(r); err != nil {
			_ = ins.DiscardChanges(err)
			_ = ins.Close()
			return err
		}
	}
	return ins.Close()
}

// rewriteLeaky forgets the release on one exit.
func rewriteLeaky(t sql.RewritableTable) error {
	ins, err := t.RewriteInserter("s")
	if err != nil {
		return err
	}
	rows, err := t.Rows()
	if err != nil {
		_ = ins.DiscardChanges(err)
		_ = ins.Close()
		return err
	}
	for _, r := range rows {
		r, err = Convert(r)
		if err != nil {
			return err // BUG
		}
		if err = ins.Insert(r); err != nil {
			_ = ins.DiscardChanges(err)
			_ = ins.Close()
			return err
		}
	}
	err = ins.Close()
	if err != nil {
		return err
	}
	return nil
}

// rewriteCloseFirst closes (publishes) before discarding.
func rewriteCloseFirst(t sql.RewritableTable) error {
	ins, err := t.RewriteInserter("s")
	if err != nil {
		return err
	}
	rows, _ := t.Rows()
	for _, r := range rows {
		if err = ins.Insert(r); err != nil {
			_ = ins.Close() // BUG: publishes the half-written table
			_ = ins.DiscardChanges(err)
			return err
		}
	}
	return ins.Close()
}

// rewriteNoClose reports success without publishing.
func rewriteNoClose(t sql.RewritableTable) error {
	ins, err := t.RewriteInserter("s")
	if err != nil {
		return err
	}
	rows, _ := t.Rows()
	if len(rows) == 0 {
		return nil // BUG: inserter never closed
	}
	for _, r := range rows {
		if err = ins.Insert(r); err != nil {
			_ = ins.DiscardChanges(err)
			_ = ins.Close()
			return err
		}
	}
	return ins.Close()
}

// rewriteDropsCloseErr ignores the error of the publishing Close.
func rewriteDropsCloseErr(t sql.RewritableTable) error {
	ins, err := t.RewriteInserter("s")
	if err != nil {
		return err
	}
	rows, _ := t.Rows()
	for _, r := range rows {
		if err = ins.Insert(r); err != nil {
			_ = ins.DiscardChanges(err)
			_ = ins.Close()
			return err
		}
	}
	_ = ins.Close() // BUG
	return nil
}

var _ = []any{rewriteGood, rewriteLeaky, rewriteCloseFirst, rewriteNoClose, rewriteDropsCloseErr}
