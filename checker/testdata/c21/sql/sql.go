// Package sql is a checker fixture: the rewrite-inserter interfaces.
package sql

type Row []any

type EditOpenerCloser interface {
	StatementBegin()
	DiscardChanges(cause error) error
	StatementComplete() error
}

type RowInserter interface {
	EditOpenerCloser
	Insert(r Row) error
	Close() error
}

type RewritableTable interface {
	RewriteInserter(newSchema string) (RowInserter, error)
	Rows() ([]Row, error)
}
