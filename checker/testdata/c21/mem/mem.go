// Package mem is a checker fixture: a backend whose acquisition already publishes.
package mem

import "vchk/testdata/c21/sql"

type Session struct{ tables map[string][]sql.Row }

func (s *Session) putTable(name string, rows []sql.Row) { s.tables[name] = rows }

type Table struct {
	name string
	sess *Session
	side string
}

type editor struct {
	t    *Table
	rows []sql.Row
	drop bool
}

func (e *editor) StatementBegin()                  {}
func (e *editor) DiscardChanges(cause error) error { e.drop = true; return nil }
func (e *editor) StatementComplete() error         { return nil }
func (e *editor) Insert(r sql.Row) error           { e.rows = append(e.rows, r); return nil }
func (e *editor) Close() error {
	if !e.drop {
		e.t.sess.putTable(e.t.name, e.rows)
	}
	return nil
}

func (t *Table) prepare() {
	t.sess.putTable(t.side, nil) // BUG: side table emptied at acquisition time
}

func (t *Table) RewriteInserter(newSchema string) (sql.RowInserter, error) {
	t.prepare()
	return &editor{t: t}, nil
}

func (t *Table) Rows() ([]sql.Row, error) { return t.sess.tables[t.name], nil }
