package is

// C43-N1 fixture: cutting one object's run out of a list of all objects' elements.

type elem struct{ Source, DB string }

// RunGood ends the run on the negation of the start test.
func RunGood(all []elem, table, db string) []elem {
	start, end := -1, -1
	for i, e := range all {
		same := e.Source == table
		if start < 0 && same && e.DB == db {
			start = i
		} else if start >= 0 && !(same && e.DB == db) {
			end = i
			break
		}
	}
	if start < 0 {
		return nil
	}
	if end < 0 {
		end = len(all)
	}
	return all[start:end]
}

// RunBad forgets the database in the end test: the run continues into a same-named table of the next database.
func RunBad(all []elem, table, db string) []elem {
	start, end := -1, -1
	for i, e := range all {
		same := e.Source == table
		if start < 0 && same && e.DB == db {
			start = i
		} else if start >= 0 && !same {
			end = i
			break
		}
	}
	if start < 0 {
		return nil
	}
	if end < 0 {
		end = len(all)
	}
	return all[start:end]
}
