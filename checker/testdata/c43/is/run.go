package is

// C43-N1 fixture: cutting one object's run out of a list of all objects' elements.

type elem struct{ Source, DB string }

// RunGood ends the run on the negation of the start test.
func RunGood(all []elem, table, db string) []elem {
	start, end := -1, -1
	for i, e := range all {
		same := e.Source == table
		if start < 0 && same && e.DB == db {
			start = i
		} else if start >= 0 && !(same && e.DB == db) {
			end = i
			break
		}
	}
	if start < 0 {
		return nil
	}
	if end < 0 {
		end = len(all)
	}
	return all[start:end]
}

// RunBad forgets the database in the end test: the run continues into a same-named table of the next database.
func RunBad(all []elem, table, db string) []elem {
	start, end := -1, -1
	for i, e := range all {
		same := e.Source == table
		if start < 0 && same && e.DB == db {
			start = i
		} else if start >= 0 && !same {
			end = i
			break
		}
	}
	if start < 0 {
		return nil
	}
	if end < 0 {
		end = len(all)
	}
	return all[start:end]
}

// C43-S2 fixture: sorting objects into class accumulators.

func SortGood(all []elem) (b, a []elem) {
	var beforeU, afterU []elem
	for _, e := range all {
		if e.DB == "before" {
			beforeU = append(beforeU, e)
		} else {
			afterU = append(afterU, e)
		}
	}
	return beforeU, afterU
}

// SortBad grows the AFTER accumulator from the BEFORE one.
func SortBad(all []elem) (b, a []elem) {
	var beforeU, afterU []elem
	for _, e := range all {
		if e.DB == "before" {
			beforeU = append(beforeU, e)
		} else if e.DB == "after" {
			afterU = append(afterU, e)
		} else {
			afterU = append(beforeU, e)
		}
	}
	return beforeU, afterU
}
