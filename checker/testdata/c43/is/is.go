// Package is is the fixture stand-in for sql/information_schema (C43). Every planted defect is named in the
// comment of the construct; the constructs without such a comment must stay silent.
package is

import (
	"strings"

	"vchk/testdata/c43/sql"
	"vchk/testdata/c43/types"
)

const (
	TablesName      = "tables"
	ShortName       = "short"
	SwappedName     = "swapped"
	MisnamedName    = "misnamed"
	NoReaderName    = "noreader"
	WrongSourceName = "wrongsource"
	Shared1Name     = "shared1"
	Shared2Name     = "shared2"
	MemoName        = "memo"
	GoodMemoName    = "goodmemo"
	IndexesName     = "indexes"
	CurrentName     = "currentonly"
	SwallowName     = "swallow"
	EmptyName       = "empty"
	EmptiedName     = "emptied"
)

type Table struct {
	catalog  sql.Catalog
	Name     string
	Schema   sql.Schema
	Reader   func(*sql.Context, sql.Catalog) (sql.RowIter, error)
	lastRows int
}

func (t *Table) AssignCatalog(c sql.Catalog) *Table {
	t.catalog = c
	return t
}

// Rows writes a field outside the frozen set (M1 field/Table.lastRows).
func (t *Table) Rows(ctx *sql.Context) (sql.RowIter, error) {
	t.lastRows++
	return t.Reader(ctx, t.catalog)
}

// memoTable memoises the column list and is served from the registry (M1 memo/memoTable.cols).
type memoTable struct {
	catalog sql.Catalog
	cols    sql.Schema
	name    string
	schema  sql.Schema
	reader  func(*sql.Context, sql.Catalog) (sql.RowIter, error)
}

func (m *memoTable) AssignCatalog(c sql.Catalog) { m.catalog = c }

func (m *memoTable) AllCols(ctx *sql.Context) sql.Schema {
	if len(m.cols) > 0 {
		return m.cols
	}
	m.cols = sql.Schema{{Name: "X", Type: types.Text, Source: MemoName}}
	return m.cols
}

// goodMemo memoises too, but the database hands out a fresh one per lookup.
type goodMemo struct {
	catalog sql.Catalog
	cols    sql.Schema
	name    string
	schema  sql.Schema
	reader  func(*sql.Context, sql.Catalog) (sql.RowIter, error)
}

func (m *goodMemo) AssignCatalog(c sql.Catalog) { m.catalog = c }

func (m *goodMemo) AllCols(ctx *sql.Context) sql.Schema {
	if len(m.cols) > 0 {
		return m.cols
	}
	m.cols = sql.Schema{{Name: "X", Type: types.Text, Source: GoodMemoName}}
	return m.cols
}

func newGoodMemo() *goodMemo {
	return &goodMemo{name: GoodMemoName, schema: goodMemoSchema, reader: emptyReader}
}

var NewGoodMemo = newGoodMemo

var tablesSchema = sql.Schema{
	{Name: "SCHEMA", Type: types.Text, Source: TablesName},
	{Name: "NAME", Type: types.Text, Source: TablesName},
	{Name: "ROWS", Type: types.Int64, Source: TablesName},
}

var shortSchema = sql.Schema{
	{Name: "SCHEMA", Type: types.Text, Source: ShortName},
	{Name: "NAME", Type: types.Text, Source: ShortName},
}

var swappedSchema = sql.Schema{
	{Name: "COUNT", Type: types.Int64, Source: SwappedName},
	{Name: "SCHEMA", Type: types.Text, Source: SwappedName},
}

var misnamedSchema = sql.Schema{{Name: "A", Type: types.Text, Source: MisnamedName}}
var noReaderSchema = sql.Schema{{Name: "A", Type: types.Text, Source: NoReaderName}}

// wrongSourceSchema: the column claims to belong to another table (R1 wrongsource).
var wrongSourceSchema = sql.Schema{{Name: "A", Type: types.Text, Source: TablesName}}
var shared1Schema = sql.Schema{{Name: "A", Type: types.Text, Source: Shared1Name}}
var shared2Schema = sql.Schema{{Name: "A", Type: types.Text, Source: Shared2Name}}
var memoSchema = sql.Schema{{Name: "A", Type: types.Text, Source: MemoName}}
var goodMemoSchema = sql.Schema{{Name: "A", Type: types.Text, Source: GoodMemoName}}
var indexesSchema = sql.Schema{
	{Name: "TABLE", Type: types.Text, Source: IndexesName},
	{Name: "INDEX", Type: types.Text, Source: IndexesName},
}
var currentSchema = sql.Schema{{Name: "NAME", Type: types.Text, Source: CurrentName}}
var swallowSchema = sql.Schema{{Name: "INDEX", Type: types.Text, Source: SwallowName}}
var emptiedSchema = sql.Schema{{Name: "SCHEMA", Type: types.Text, Source: EmptiedName}}
var emptySchema = sql.Schema{{Name: "A", Type: types.Text, Source: EmptyName}}

// orphanSchema is declared but never registered (R1 schema/orphanSchema).
var orphanSchema = sql.Schema{{Name: "A", Type: types.Text, Source: "orphan"}}

type DbWithNames struct {
	Database sql.Database
	Schema   string
}

var AllDatabasesWithNames = allDatabasesWithNames

func allDatabasesWithNames(ctx *sql.Context, cat sql.Catalog, unwrap bool) ([]DbWithNames, error) {
	var out []DbWithNames
	for _, db := range cat.AllDatabases(ctx) {
		out = append(out, DbWithNames{db, db.Name()})
	}
	return out, nil
}

// nameCache is filled by a function (M1 var/nameCache).
var nameCache = map[string][]string{}

func cachedNames(ctx *sql.Context, db sql.Database) ([]string, error) {
	if ns, ok := nameCache[db.Name()]; ok {
		return ns, nil
	}
	ns, err := db.GetTableNames(ctx)
	if err != nil {
		return nil, err
	}
	nameCache[db.Name()] = ns
	return ns, nil
}

// tablesRowIter: nrows is declared outside the loop and assigned on one path only (S1 tablesRowIter/nrows).
func tablesRowIter(ctx *sql.Context, cat sql.Catalog) (sql.RowIter, error) {
	var rows []sql.Row
	var nrows int
	var kind string
	dbs, err := AllDatabasesWithNames(ctx, cat, false)
	if err != nil {
		return nil, err
	}
	for _, db := range dbs {
		names, err := db.Database.GetTableNames(ctx)
		if err != nil {
			return nil, err
		}
		for _, n := range names {
			kind = "BASE"
			if strings.HasPrefix(n, "big") {
				nrows = len(n)
			}
			rows = append(rows, sql.Row{db.Schema, n + kind, nrows})
		}
	}
	return sql.RowsToRowIter(rows...), nil
}

// shortRowIter builds one element for a two-column schema (L1).
func shortRowIter(ctx *sql.Context, cat sql.Catalog) (sql.RowIter, error) {
	var rows []sql.Row
	dbs, err := AllDatabasesWithNames(ctx, cat, false)
	if err != nil {
		return nil, err
	}
	for _, db := range dbs {
		rows = append(rows, sql.Row{db.Database.Name()})
	}
	return sql.RowsToRowIter(rows...), nil
}

// swappedRowIter puts the name under COUNT and the count under SCHEMA (L2).
func swappedRowIter(ctx *sql.Context, cat sql.Catalog) (sql.RowIter, error) {
	var rows []sql.Row
	dbs, err := AllDatabasesWithNames(ctx, cat, false)
	if err != nil {
		return nil, err
	}
	for _, db := range dbs {
		rows = append(rows, sql.Row{db.Database.Name(), len(dbs)})
	}
	return sql.RowsToRowIter(rows...), nil
}

func oneRow(s string) sql.Row { return sql.NewRow(s) }

func misnamedRowIter(ctx *sql.Context, cat sql.Catalog) (sql.RowIter, error) {
	return sql.RowsToRowIter(oneRow("a")), nil
}

func wrongSourceRowIter(ctx *sql.Context, cat sql.Catalog) (sql.RowIter, error) {
	return sql.RowsToRowIter(oneRow("a")), nil
}

// sharedRowIter is registered for two table names (R2).
func sharedRowIter(ctx *sql.Context, cat sql.Catalog) (sql.RowIter, error) {
	return sql.RowsToRowIter(oneRow("a")), nil
}

// orphanRowIter has a reader signature but no entry (R2).
func orphanRowIter(ctx *sql.Context, cat sql.Catalog) (sql.RowIter, error) {
	return sql.RowsToRowIter(oneRow("a")), nil
}

// indexesRowIter reads the indexes of the first database only, outside the loop (E1), and drops the error of the
// table lookup (X1 indexesRowIter/Database.GetTableInsensitive).
func indexesRowIter(ctx *sql.Context, cat sql.Catalog) (sql.RowIter, error) {
	var rows []sql.Row
	dbs, err := AllDatabasesWithNames(ctx, cat, false)
	if err != nil {
		return nil, err
	}
	var first []sql.Index
	if len(dbs) > 0 {
		tbl, _, _ := dbs[0].Database.GetTableInsensitive(ctx, "t")
		if it, ok := tbl.(sql.IndexAddressable); ok {
			first, err = it.GetIndexes(ctx)
			if err != nil {
				return nil, err
			}
		}
	}
	for _, db := range dbs {
		for _, idx := range first {
			rows = append(rows, sql.Row{db.Schema, idx.ID()})
		}
	}
	return sql.RowsToRowIter(rows...), nil
}

// currentOnlyRowIter looks at one database only (E1) and passes another visibility argument than its siblings (E2).
func currentOnlyRowIter(ctx *sql.Context, cat sql.Catalog) (sql.RowIter, error) {
	var rows []sql.Row
	dbs, err := AllDatabasesWithNames(ctx, cat, true)
	if err != nil {
		return nil, err
	}
	if len(dbs) == 0 {
		return sql.RowsToRowIter(), nil
	}
	names, err := cachedNames(ctx, dbs[0].Database)
	if err != nil {
		return nil, err
	}
	for _, n := range names {
		rows = append(rows, sql.Row{n})
	}
	return sql.RowsToRowIter(rows...), nil
}

// swallowRowIter tests the error of GetIndexes and then ignores it (X1).
func swallowRowIter(ctx *sql.Context, cat sql.Catalog) (sql.RowIter, error) {
	var rows []sql.Row
	dbs, err := AllDatabasesWithNames(ctx, cat, false)
	if err != nil {
		return nil, err
	}
	for _, db := range dbs {
		names, err := db.Database.GetTableNames(ctx)
		if err != nil {
			return nil, err
		}
		for _, n := range names {
			tbl, ok, err := db.Database.GetTableInsensitive(ctx, n)
			if err != nil {
				return nil, err
			}
			if !ok {
				continue
			}
			if it, ok := tbl.(sql.IndexAddressable); ok {
				idxs, ierr := it.GetIndexes(ctx)
				if ierr != nil {
				}
				for _, idx := range idxs {
					rows = append(rows, sql.Row{idx.ID()})
				}
			}
		}
	}
	return sql.RowsToRowIter(rows...), nil
}

func emptyReader(ctx *sql.Context, cat sql.Catalog) (sql.RowIter, error) {
	return sql.RowsToRowIter(), nil
}

func newTablesTable() *Table {
	return &Table{Name: TablesName, Schema: tablesSchema, Reader: tablesRowIter}
}

var NewTablesTable = newTablesTable

func GetTables() map[string]interface{} {
	return map[string]interface{}{
		TablesName:      NewTablesTable(),
		ShortName:       &Table{Name: ShortName, Schema: shortSchema, Reader: shortRowIter},
		SwappedName:     &Table{Name: SwappedName, Schema: swappedSchema, Reader: swappedRowIter},
		MisnamedName:    &Table{Name: "other", Schema: misnamedSchema, Reader: misnamedRowIter}, // R1 misnamed
		NoReaderName:    &Table{Name: NoReaderName, Schema: noReaderSchema, Reader: nil},        // R1 noreader
		WrongSourceName: &Table{Name: WrongSourceName, Schema: wrongSourceSchema, Reader: wrongSourceRowIter},
		Shared1Name:     &Table{Name: Shared1Name, Schema: shared1Schema, Reader: sharedRowIter},
		Shared2Name:     &Table{Name: Shared2Name, Schema: shared2Schema, Reader: sharedRowIter},
		MemoName:        &memoTable{name: MemoName, schema: memoSchema, reader: emptyReader},
		GoodMemoName:    NewGoodMemo(),
		IndexesName:     &Table{Name: IndexesName, Schema: indexesSchema, Reader: indexesRowIter},
		CurrentName:     &Table{Name: CurrentName, Schema: currentSchema, Reader: currentOnlyRowIter},
		EmptyName:       &Table{Name: EmptyName, Schema: emptySchema, Reader: emptyReader},
		EmptiedName:     &Table{Name: EmptiedName, Schema: emptiedSchema, Reader: emptiedRowIter},
	}
}

type isDatabase struct {
	tables map[string]interface{}
}

func NewDatabase() *isDatabase {
	db := &isDatabase{tables: GetTables()}
	db.tables[SwallowName] = &Table{Name: SwallowName, Schema: swallowSchema, Reader: swallowRowIter}
	return db
}

func (db *isDatabase) GetTableInsensitive(ctx *sql.Context, name string) (interface{}, bool) {
	if strings.ToLower(name) == GoodMemoName {
		return NewGoodMemo(), true
	}
	t, ok := db.tables[strings.ToLower(name)]
	return t, ok
}

// emptiedRowIter enumerates the table names and lists nothing (E1 rows): the arm that built the rows was emptied.
func emptiedRowIter(ctx *sql.Context, cat sql.Catalog) (sql.RowIter, error) {
	var rows []sql.Row
	dbs, err := AllDatabasesWithNames(ctx, cat, false)
	if err != nil {
		return nil, err
	}
	for _, db := range dbs {
		names, err := db.Database.GetTableNames(ctx)
		if err != nil {
			return nil, err
		}
		for range names {
		}
		rows = append(rows, sql.Row{db.Schema})
	}
	return sql.RowsToRowIter(rows...), nil
}
