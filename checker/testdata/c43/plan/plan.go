// Package plan is the fixture stand-in for sql/plan (C43).
package plan

import (
	"vchk/testdata/c43/sql"
	"vchk/testdata/c43/types"
)

// ShowThings: one column, two with Full.
type ShowThings struct {
	Full bool
	Db   sql.Database
}

func (p *ShowThings) Schema(ctx *sql.Context) sql.Schema {
	sch := sql.Schema{
		{Name: "Thing", Type: types.Text},
	}
	if p.Full {
		sch = append(sch, &sql.Column{Name: "Kind", Type: types.Text})
	}
	return sch
}

var showIdxSchema = sql.Schema{
	&sql.Column{Name: "Seq", Type: types.Int64},
	&sql.Column{Name: "Name", Type: types.Text},
}

type ShowIdx struct{ Names []string }

func (*ShowIdx) Schema(ctx *sql.Context) sql.Schema { return showIdxSchema }

// ShowGood: executor and schema agree under both values of the flag.
type ShowGood struct{ Full bool }

var showGoodSchema = sql.Schema{{Name: "A", Type: types.Text}}
var showGoodFullSchema = sql.Schema{{Name: "A", Type: types.Text}, {Name: "N", Type: types.Int64}, {Name: "At", Type: types.Datetime}}

func (s *ShowGood) Schema(ctx *sql.Context) sql.Schema {
	if s.Full {
		return showGoodFullSchema
	}
	return showGoodSchema
}
