// Package sql is the fixture stand-in for the engine's sql package (C43).
package sql

type Context struct{}

type Row []interface{}

func NewRow(values ...interface{}) Row { return Row(values) }

type Type interface{ String() string }

type StringType interface {
	Type
	MaxLen() int
}

type NumberType interface {
	Type
	IsNumber()
}

type DatetimeType interface {
	Type
	IsTime()
}

type Column struct {
	Name     string
	Type     Type
	Source   string
	Nullable bool
}

type Schema []*Column

type RowIter interface {
	Next(ctx *Context) (Row, error)
	Close(ctx *Context) error
}

type sliceIter struct{ rows []Row }

func (s *sliceIter) Next(*Context) (Row, error) { return nil, nil }
func (s *sliceIter) Close(*Context) error       { return nil }

func RowsToRowIter(rows ...Row) RowIter { return &sliceIter{rows} }

type Table interface{ Name() string }

type Index interface{ ID() string }

type IndexAddressable interface {
	Table
	GetIndexes(ctx *Context) ([]Index, error)
}

type Database interface {
	Name() string
	GetTableNames(ctx *Context) ([]string, error)
	GetTableInsensitive(ctx *Context, name string) (Table, bool, error)
}

type Catalog interface {
	AllDatabases(ctx *Context) []Database
}
