// Package types is the fixture stand-in for sql/types (C43).
package types

import "vchk/testdata/c43/sql"

type strT struct{}

func (strT) String() string { return "text" }
func (strT) MaxLen() int    { return 0 }

type numT struct{}

func (numT) String() string { return "bigint" }
func (numT) IsNumber()      {}

type timeT struct{}

func (timeT) String() string { return "datetime" }
func (timeT) IsTime()        {}

var (
	Text     sql.StringType   = strT{}
	Int64    sql.NumberType   = numT{}
	Datetime sql.DatetimeType = timeT{}
)
