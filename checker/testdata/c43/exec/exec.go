// Package exec is the fixture stand-in for the SHOW executors of sql/rowexec (C43).
package exec

import (
	"time"

	"vchk/testdata/c43/plan"
	"vchk/testdata/c43/sql"
)

type Builder struct{}

var showCache []sql.Row

// buildShowThings: under Full the row gets two more elements, the schema one more column (L1);
// it also keeps the rows in a package-level variable (M1).
func (b *Builder) buildShowThings(ctx *sql.Context, n *plan.ShowThings, _ sql.Row) (sql.RowIter, error) {
	names, err := n.Db.GetTableNames(ctx)
	if err != nil {
		return nil, err
	}
	var rows []sql.Row
	for _, name := range names {
		row := sql.Row{name}
		if n.Full {
			row = append(row, "BASE", "EXTRA")
		}
		rows = append(rows, row)
	}
	showCache = rows
	return sql.RowsToRowIter(rows...), nil
}

type idxIter struct {
	names []string
	name  string
	pos   int
}

// Next puts the name under the integer column and the position under the text column (L2).
func (i *idxIter) Next(ctx *sql.Context) (sql.Row, error) {
	if i.pos >= len(i.names) {
		return nil, nil
	}
	i.name = i.names[i.pos]
	i.pos++
	return sql.NewRow(i.name, i.pos), nil
}

func (i *idxIter) Close(*sql.Context) error { return nil }

func (b *Builder) buildShowIdx(ctx *sql.Context, n *plan.ShowIdx, _ sql.Row) (sql.RowIter, error) {
	return &idxIter{names: n.Names}, nil
}

// buildShowGood agrees with its schema under both values of the flag.
func (b *Builder) buildShowGood(ctx *sql.Context, n *plan.ShowGood, _ sql.Row) (sql.RowIter, error) {
	var row sql.Row
	if n.Full {
		row = sql.Row{"a", 1, time.Now()}
	} else {
		row = sql.Row{"a"}
	}
	return sql.RowsToRowIter(row), nil
}
