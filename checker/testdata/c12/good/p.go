// Package good is a checker fixture: the binding path and the read-only syntax tree in their
// reference shape. Every rule of C12 must be silent here.
package good

import (
	"errors"
	"fmt"

	"vchk/testdata/c12/ast"
)

type Expression interface{ Eval() any }

type literal struct{ v any }

func (l literal) Eval() any { return l.v }

type BindVar struct{ Name string }

func (b *BindVar) Eval() any { return nil }

func NewBindVar(name string) *BindVar { return &BindVar{Name: name} }

type Wire struct {
	Kind int
	Val  []byte
}

type Prepare struct {
	Stmt     string
	BindVars map[string]*Wire
}

type BindvarContext struct {
	Bindings    map[string]Expression
	used        map[string]struct{}
	resolveOnly bool
}

func (bv *BindvarContext) GetSubstitute(s string) (Expression, bool) {
	if bv.Bindings != nil {
		ret, ok := bv.Bindings[s]
		bv.used[s] = struct{}{}
		return ret, ok
	}
	return nil, false
}

func (bv *BindvarContext) UnusedBindings() []string {
	var out []string
	for k := range bv.Bindings {
		if _, ok := bv.used[k]; !ok {
			out = append(out, k)
		}
	}
	return out
}

type Builder struct {
	bindCtx *BindvarContext
}

type parseErr struct{ err error }

func (b *Builder) handleErr(err error) {
	panic(parseErr{err})
}

func (b *Builder) buildScalar(e ast.Expr) Expression {
	switch v := e.(type) {
	case *ast.Lit:
		return literal{v.Val}
	case *ast.Arg:
		return b.convertArg(v)
	}
	b.handleErr(errors.New("unsupported"))
	return nil
}

func (b *Builder) SetBindings(bindings map[string]ast.Expr) {
	exprs := make(map[string]Expression)
	for k, bv := range bindings {
		exprs[k] = b.buildScalar(bv)
	}
	b.bindCtx = &BindvarContext{Bindings: exprs, used: map[string]struct{}{}}
}

func (b *Builder) SetBindingsWithExpr(bindings map[string]Expression) {
	b.bindCtx = &BindvarContext{Bindings: bindings, used: map[string]struct{}{}}
}

func (b *Builder) Reset() { b.bindCtx = nil }

func (b *Builder) buildPrepare(stmt *ast.Select) {
	old := b.bindCtx
	defer func() { b.bindCtx = old }()
	b.bindCtx = &BindvarContext{resolveOnly: true}
	b.build(stmt)
}

func (b *Builder) normalizeArg(e *ast.Arg) (Expression, bool) {
	if b.bindCtx == nil {
		return nil, false
	}
	name := e.Name
	if b.bindCtx.Bindings == nil {
		b.handleErr(fmt.Errorf("bind variable not provided: %s", name))
	}
	bv, ok := b.bindCtx.GetSubstitute(name)
	if !ok {
		b.handleErr(fmt.Errorf("bind variable not provided: %s", name))
	}
	return bv, true
}

func (b *Builder) shouldAssignType(e *ast.Arg) bool {
	return e != nil && (b.bindCtx == nil || b.bindCtx.resolveOnly)
}

func (b *Builder) convertArg(v *ast.Arg) Expression {
	if b.bindCtx != nil {
		if b.bindCtx.resolveOnly {
			return NewBindVar(v.Name)
		}
		repl, ok := b.normalizeArg(v)
		if ok {
			return repl
		}
	}
	return NewBindVar(v.Name)
}

func (b *Builder) buildInsert(v *ast.Arg) Expression {
	if b.shouldAssignType(v) {
		return NewBindVar(v.Name)
	}
	return b.buildScalar(v)
}

// build reads the tree; what it writes is its own.
func (b *Builder) build(stmt *ast.Select) Expression {
	using := stmt.Using
	if len(using) == 0 {
		using = nil
		using = append(using, "a")
	}
	fresh := &ast.Select{}
	fresh.Using = using
	fresh.Where = &ast.Where{}
	fresh.Where.Expr = ast.NewLit("x")
	fresh.SetWhere(stmt.GetWhere())
	lit := ast.NewLit("y")
	lit.Val = "z"
	local := make([]ast.Expr, 2)
	local[0] = lit
	auth := stmt.Auth
	auth.Kind = 1 // a private copy of the struct
	clearKind(&auth)
	handleAuth(stmt.Auth)
	if stmt.Where != nil {
		return b.buildScalar(stmt.Where.Expr)
	}
	return nil
}

func handleAuth(auth ast.Auth) { clearKind(&auth) }

// clearKind writes through a pointer that every caller fills with the address of its own copy.
func clearKind(auth *ast.Auth) { auth.Kind = 0 }

// ---- converters and forwarding -------------------------------------------------------------

func toValue(w *Wire) (string, error) {
	if w == nil {
		return "", errors.New("nil binding")
	}
	return string(w.Val), nil
}

func exprFromValue(s string) (ast.Expr, error) { return ast.NewLit(s), nil }

func bindingsToExprs(bindings map[string]*Wire) (map[string]ast.Expr, error) {
	res := make(map[string]ast.Expr, len(bindings))
	for name, bv := range bindings {
		val, err := toValue(bv)
		if err != nil {
			return nil, err
		}
		expr, err := exprFromValue(val)
		if err != nil {
			return nil, err
		}
		res[name] = expr
	}
	return res, nil
}

type Engine struct{}

func (e *Engine) QueryWithBindings(q string, bindings map[string]ast.Expr) (Expression, error) {
	b := &Builder{}
	e.prepared(b, bindings)
	return b.build(parse(q)), nil
}

func (e *Engine) prepared(b *Builder, bindings map[string]ast.Expr) {
	b.SetBindings(bindings)
}

func (e *Engine) Query(q string) (Expression, error) { return e.QueryWithBindings(q, nil) }

func parse(q string) *ast.Select { return &ast.Select{} }

type Handler struct{ e *Engine }

type executor func(q string, bindings map[string]*Wire) (Expression, error)

func (h *Handler) ComStmtExecute(p *Prepare) error {
	_, err := h.doQuery(p.Stmt, h.executeQuery, p.BindVars)
	return err
}

func (h *Handler) doQuery(q string, exec executor, bindings map[string]*Wire) (Expression, error) {
	return exec(q, bindings)
}

func (h *Handler) executeQuery(q string, bindings map[string]*Wire) (Expression, error) {
	exprs, err := bindingsToExprs(bindings)
	if err != nil {
		return nil, err
	}
	return h.e.QueryWithBindings(q, exprs)
}
