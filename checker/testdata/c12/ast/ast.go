// Package ast is a checker fixture: a miniature parser tree (stands in for vitess sqlparser).
package ast

type Node interface{ node() }

type Expr interface{ Node }

type Exprs []Expr

type Auth struct {
	Extra any
	Kind  int
	Names []string
}

type Select struct {
	Where *Where
	Using []string
	Exprs Exprs
	Auth  Auth
}

type Where struct{ Expr Expr }

type Lit struct{ Val string }

type Arg struct{ Name string }

func (*Select) node() {}
func (*Where) node()  {}
func (*Lit) node()    {}
func (*Arg) node()    {}
func (Exprs) node()   {}

// SetWhere stores into its receiver.
func (s *Select) SetWhere(w *Where) { s.Where = w }

// GetWhere only reads.
func (s *Select) GetWhere() *Where { return s.Where }

func NewLit(v string) *Lit { return &Lit{Val: v} }
