// Package sess: a session's prepared-statement cache for the C12-K1 fixture.
package sess

import (
	"strings"

	"vchk/testdata/c12/ast"
)

type Session struct {
	prepared map[string]ast.Node
	folded   map[string]ast.Node
}

func (s *Session) Put(query string, n ast.Node) { s.prepared[query] = n }
func (s *Session) Get(query string) (ast.Node, bool) {
	key := query
	n, ok := s.prepared[key]
	return n, ok
}
func (s *Session) Drop(query string) { delete(s.prepared, query) }

// The folded cache conflates texts that differ in letter case.
func (s *Session) PutFolded(query string, n ast.Node) { s.folded[strings.ToLower(query)] = n }
func (s *Session) GetFolded(query string) (ast.Node, bool) {
	n, ok := s.folded[strings.TrimSpace(query)]
	return n, ok
}
