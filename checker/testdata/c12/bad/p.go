// Package bad is a checker fixture: one planted defect per clause of C12.
package bad

import (
	"errors"
	"fmt"

	"vchk/testdata/c12/ast"
)

type Expression interface{ Eval() any }

type literal struct{ v any }

func (l literal) Eval() any { return l.v }

type BindVar struct{ Name string }

func (b *BindVar) Eval() any { return nil }

func NewBindVar(name string) *BindVar { return &BindVar{Name: name} }

type Wire struct {
	Kind int
	Val  []byte
}

type Prepare struct {
	Stmt     string
	BindVars map[string]*Wire
}

type BindvarContext struct {
	Bindings    map[string]Expression
	used        map[string]struct{}
	resolveOnly bool
}

// defect: a missing binding is reported as found
func (bv *BindvarContext) GetSubstitute(s string) (Expression, bool) {
	if bv.Bindings != nil {
		ret, _ := bv.Bindings[s]
		bv.used[s] = struct{}{}
		return ret, true
	}
	return nil, false
}

func (bv *BindvarContext) UnusedBindings() []string {
	var out []string
	for k := range bv.Bindings {
		if _, ok := bv.used[k]; !ok {
			out = append(out, k)
		}
	}
	return out
}

type Builder struct {
	bindCtx *BindvarContext
}

type parseErr struct{ err error }

// defect: the error helper returns for "soft" errors
func (b *Builder) handleErr(err error) {
	if err == nil {
		return
	}
	panic(parseErr{err})
}

func (b *Builder) buildScalar(e ast.Expr) Expression {
	switch v := e.(type) {
	case *ast.Lit:
		return literal{v.Val}
	case *ast.Arg:
		return b.convertArg(v)
	}
	return nil
}

func (b *Builder) quickLiteral(e ast.Expr) Expression { return literal{e} }

// defects: entry stored under another name, built by another builder; the nil binding is skipped
func (b *Builder) SetBindings(bindings map[string]ast.Expr) {
	exprs := make(map[string]Expression)
	for k, bv := range bindings {
		if bv == nil {
			continue
		}
		exprs["v"+k] = b.quickLiteral(bv)
	}
	b.bindCtx = &BindvarContext{Bindings: exprs, used: map[string]struct{}{}}
}

func (b *Builder) SetBindingsWithExpr(bindings map[string]Expression) {
	b.bindCtx = &BindvarContext{Bindings: bindings, used: map[string]struct{}{}}
}

func (b *Builder) Reset() { b.bindCtx = nil }

// defect: the resolve-only context carries values
func (b *Builder) buildPrepare(stmt *ast.Select) {
	old := b.bindCtx
	defer func() { b.bindCtx = old }()
	b.bindCtx = &BindvarContext{resolveOnly: true, Bindings: map[string]Expression{}}
	b.build(stmt)
}

// defect: a third function installs a context; and one patches the value map afterwards
func (b *Builder) withDefaults(d map[string]Expression) {
	b.bindCtx = &BindvarContext{Bindings: d}
}

func (b *Builder) patch(k string, v Expression) {
	b.bindCtx.Bindings[k] = v
}

// defect: absent binding falls through to a default instead of aborting
func (b *Builder) normalizeArg(e *ast.Arg) (Expression, bool) {
	if b.bindCtx == nil {
		return nil, false
	}
	name := e.Name
	bv, ok := b.bindCtx.GetSubstitute(name)
	if !ok {
		return literal{nil}, true
	}
	return bv, true
}

// defect: a second place that substitutes, reading the map itself
func (b *Builder) limitArg(e *ast.Arg) Expression {
	if v, ok := b.bindCtx.Bindings[e.Name]; ok {
		return v
	}
	v, _ := b.bindCtx.GetSubstitute(e.Name)
	return v
}

// defect: no longer implies "no bindings"
func (b *Builder) shouldAssignType(e *ast.Arg) bool {
	return e != nil || b.bindCtx == nil
}

// defect: the substitution's answer is ignored
func (b *Builder) convertArg(v *ast.Arg) Expression {
	if b.bindCtx != nil {
		if b.bindCtx.resolveOnly {
			return NewBindVar(v.Name)
		}
		b.normalizeArg(v)
	}
	return NewBindVar(v.Name)
}

// defects: stores into the tree it was given
func (b *Builder) build(stmt *ast.Select) Expression {
	if len(stmt.Using) == 0 {
		stmt.Using = append(stmt.Using, "a")
	}
	stmt.Exprs[0] = ast.NewLit("x")
	if w := stmt.GetWhere(); w != nil {
		w.Expr = ast.NewLit("1")
	}
	stmt.SetWhere(&ast.Where{})
	rename(&stmt.Auth)
	names := stmt.Auth.Names
	names[0] = "x"
	return nil
}

// the pointer comes from the tree, not from a private copy
func rename(auth *ast.Auth) { auth.Kind = 0 }

// ---- converters and forwarding -------------------------------------------------------------

func toValue(w *Wire) (string, error) {
	if w == nil {
		return "", errors.New("nil binding")
	}
	return string(w.Val), nil
}

func exprFromValue(s string) (ast.Expr, error) { return ast.NewLit(s), nil }

// defects: a kind is skipped; one error is discarded; one error is tested but ignored; one value is a constant;
// one path leaves with (nil, nil)
func bindingsToExprs(bindings map[string]*Wire) (map[string]ast.Expr, error) {
	res := make(map[string]ast.Expr, len(bindings))
	for name, bv := range bindings {
		if bv.Kind == 7 {
			continue
		}
		if bv.Kind == 8 {
			return nil, nil
		}
		if bv.Kind == 9 {
			res[name] = ast.NewLit("0")
			continue
		}
		val, _ := toValue(bv)
		expr, err := exprFromValue(val)
		if err != nil {
			fmt.Println(err)
		}
		res[name] = expr
	}
	return res, nil
}

type Engine struct{}

func (e *Engine) QueryWithBindings(q string, bindings map[string]ast.Expr) (Expression, error) {
	b := &Builder{}
	e.prepared(b, bindings)
	return b.build(parse(q)), nil
}

// defect: bindings are dropped when the statement was seen before
func (e *Engine) prepared(b *Builder, bindings map[string]ast.Expr) {
	b.SetBindings(nil)
}

func parse(q string) *ast.Select { return &ast.Select{} }

type Handler struct{ e *Engine }

type executor func(q string, bindings map[string]*Wire) (Expression, error)

// defect: the wire bindings are not handed on
func (h *Handler) ComStmtExecute(p *Prepare) error {
	_, err := h.doQuery(p.Stmt, h.executeQuery, nil)
	return err
}

func (h *Handler) doQuery(q string, exec executor, bindings map[string]*Wire) (Expression, error) {
	return exec(q, bindings)
}

func (h *Handler) executeQuery(q string, bindings map[string]*Wire) (Expression, error) {
	exprs, err := bindingsToExprs(bindings)
	if err != nil {
		return nil, err
	}
	return h.e.QueryWithBindings(q, exprs)
}
