// Package strs is a checker fixture: a reduced copy of the JSON quoting kernels with seeded
// defects. It is never executed.
package strs

import (
	"bytes"
	"encoding/hex"
	"fmt"
	"unicode/utf8"
)

const hexDigits = "0123456789abcdef"

// defects: '\n' is written as `\r` (Q1); the backslash itself is not escaped (Q1s).
var quoteEscape = func() (t [256]string) {
	for c := 0; c < 0x20; c++ {
		t[c] = `\u00` + string([]byte{hexDigits[c>>4], hexDigits[c&0xf]})
	}
	t['"'] = `\"`
	t['\n'] = `\r`
	t['\r'] = `\r`
	t['\t'] = `\t`
	return t
}()

// defect: the guard before s[i+1:i+5] is off by one (Q2).
func Unquote(s string) (string, error) {
	ret := new(bytes.Buffer)
	for i := 0; i < len(s); i++ {
		if s[i] == '\\' {
			i++
			if i == len(s) {
				ret.WriteByte('\\')
				break
			}
			switch s[i] {
			case '"':
				ret.WriteByte('"')
			case 'n':
				ret.WriteByte('\n')
			case 'r':
				ret.WriteByte('\r')
			case 't':
				ret.WriteByte('\t')
			case 'u':
				if i+4 > len(s) {
					return "", fmt.Errorf("invalid unicode: %s", s[i+1:])
				}
				char, size, err := decodeEscapedUnicode([]byte(s[i+1 : i+5]))
				if err != nil {
					return "", err
				}
				ret.Write(char[0:size])
				i += 4
			default:
				ret.WriteByte(s[i])
			}
		} else {
			ret.WriteByte(s[i])
		}
	}
	str := ret.String()
	if n := len(str); n > 1 && str[0] == '"' && str[n-1] == '"' {
		return str[1 : n-1], nil
	}
	return str, nil
}

// defects: arm 'n' writes '\r' and arm 't' is missing (Q1r); after a trailing backslash the
// code falls through to b[i] (Q2).
func UnquoteBytes(b []byte) ([]byte, error) {
	outIdx := 0
	for i := 0; i < len(b); i++ {
		if b[i] == '\\' {
			i++
			if i == len(b) {
				b[outIdx] = '\\'
			}
			switch b[i] {
			case '"':
				b[outIdx] = '"'
			case 'n':
				b[outIdx] = '\r'
			case 'r':
				b[outIdx] = '\r'
			case 'u':
				if i+4 >= len(b) {
					return nil, fmt.Errorf("invalid unicode: %s", b[i+1:])
				}
				char, size, err := decodeEscapedUnicode(b[i+1 : i+5])
				if err != nil {
					return nil, err
				}
				for j, c := range char[:size] {
					b[outIdx+j] = c
				}
				i += 4
			default:
				b[outIdx] = b[i]
			}
		} else {
			b[outIdx] = b[i]
		}
		outIdx++
	}
	return b[:outIdx], nil
}

// defect: utf8.RuneLen may return -1 (Q2).
func decodeEscapedUnicode(s []byte) (char [4]byte, size int, err error) {
	size, err = hex.Decode(char[0:2], s)
	if err != nil || size != 2 {
		return char, 0, err
	}
	r := rune(char[0])<<8 | rune(char[1])
	size = utf8.RuneLen(r)
	utf8.EncodeRune(char[0:size], r)
	return
}

// Quote is correct.
func Quote(s string) string {
	ret := new(bytes.Buffer)
	ret.WriteByte('"')
	for i := 0; i < len(s); i++ {
		if esc := quoteEscape[s[i]]; esc != "" {
			ret.WriteString(esc)
		} else {
			ret.WriteByte(s[i])
		}
	}
	ret.WriteByte('"')
	return ret.String()
}
