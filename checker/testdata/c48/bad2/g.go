// Package bad2 is a checker fixture. The deferred function stores an error only when the panic
// value is itself an error (panic("x") is swallowed), and fn's result is wrapped.
package bad2

import "fmt"

type Group struct{ errs []error }

func (g *Group) Go(f func() error) { go func() { g.errs = append(g.errs, f()) }() }

func wrap(err error) error {
	if err == nil {
		return nil
	}
	return fmt.Errorf("wrapped: %w", err)
}

func Go(g *Group, fn func() error) {
	g.Go(func() (err error) {
		defer func() {
			if r := recover(); r != nil {
				if e, ok := r.(error); ok {
					err = fmt.Errorf("panic recovered: %w", e)
				}
			}
		}()
		return wrap(fn())
	})
}

func RecoverAndLog(what string) {
	if r := recover(); r != nil {
		_ = what
	}
}
