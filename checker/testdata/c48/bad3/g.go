// Package bad3 is a checker fixture. The literal's result is unnamed: the deferred function
// assigns a local that nobody returns. RecoverAndLog re-panics.
package bad3

import "fmt"

type Group struct{ errs []error }

func (g *Group) Go(f func() error) { go func() { g.errs = append(g.errs, f()) }() }

func Go(g *Group, fn func() error) {
	g.Go(func() error {
		var err error
		_ = err
		defer func() {
			if r := recover(); r != nil {
				err = fmt.Errorf("panic recovered: %v", r)
			}
		}()
		return fn()
	})
}

func RecoverAndLog(what string) {
	if r := recover(); r != nil {
		panic(fmt.Sprint(what, r))
	}
}
