// Package good is a checker fixture: the reference shape of a guarded spawn. No C48 rule may fire.
package good

import (
	"fmt"
	"log"
)

type Group struct{ errs []error }

func (g *Group) Go(f func() error) { go func() { g.errs = append(g.errs, f()) }() }

func Go(g *Group, fn func() error) {
	g.Go(func() (err error) {
		defer func() {
			if r := recover(); r != nil {
				err = fmt.Errorf("panic recovered: %v", r)
			}
		}()
		return fn()
	})
}

func RecoverAndLog(what string) {
	if r := recover(); r != nil {
		log.Printf("panic recovered in %s: %v", what, r)
	}
}

func user(g *Group) {
	go func() {
		defer RecoverAndLog("user")
	}()
	Go(g, func() error { return nil })
}
