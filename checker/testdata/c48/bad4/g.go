// Package bad4 is a checker fixture. A call that can panic runs before the defer is registered;
// the spawn is conditional; the deferred function only recovers when a flag is set.
package bad4

import "fmt"

type Group struct{ errs []error }

func (g *Group) Go(f func() error) { go func() { g.errs = append(g.errs, f()) }() }

var Enabled = true

func prepare() {}

func Go(g *Group, fn func() error) {
	if !Enabled {
		return
	}
	g.Go(func() (err error) {
		prepare()
		defer func() {
			if r := recover(); r != nil {
				err = fmt.Errorf("panic recovered: %v", r)
			}
		}()
		return fn()
	})
}

func RecoverAndLog(what string) {
	if !Enabled {
		return
	}
	if r := recover(); r != nil {
		_ = what
	}
}
