// Package bad1 is a checker fixture. Go: recover() sits in a nested literal (returns nil there),
// fn is called from a nested literal. RecoverAndLog: recover() in a nested literal. user: wraps
// RecoverAndLog in another deferred function and spawns in the group directly.
package bad1

import (
	"fmt"
	"log"
)

type Group struct{ errs []error }

func (g *Group) Go(f func() error) { go func() { g.errs = append(g.errs, f()) }() }

func Go(g *Group, fn func() error) {
	g.Go(func() (err error) {
		defer func() {
			func() {
				if r := recover(); r != nil {
					err = fmt.Errorf("panic recovered: %v", r)
				}
			}()
		}()
		func() { err = fn() }()
		return err
	})
}

func RecoverAndLog(what string) {
	func() {
		if r := recover(); r != nil {
			log.Printf("panic recovered in %s: %v", what, r)
		}
	}()
}

func user(g *Group) {
	defer func() {
		RecoverAndLog("user")
	}()
	g.Go(func() error { return nil })
}
