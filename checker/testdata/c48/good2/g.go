// Package good2 is a checker fixture: behaviour-preserving variants (named helper receiving
// &err, result assigned then bare return, a harmless declaration before the defer). No rule may fire.
package good2

import (
	"errors"
	"log"
)

type Group struct{ errs []error }

func (g *Group) Go(f func() error) { go func() { g.errs = append(g.errs, f()) }() }

func recoverInto(errp *error) {
	r := recover()
	if r == nil {
		return
	}
	*errp = errors.New("panic recovered")
}

func Go(g *Group, fn func() error) {
	g.Go(func() (err error) {
		var unused int
		defer recoverInto(&err)
		err = fn()
		_ = unused
		return
	})
}

func RecoverAndLog(what string) {
	r := recover()
	if r != nil {
		log.Printf("panic recovered in %s: %v", what, r)
	}
}
