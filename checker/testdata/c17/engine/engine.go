// Package engine is a checker fixture: transaction entry/exit protocol with seeded bugs.
package engine

import (
	"errors"

	"vchk/testdata/c17/sql"
)

type Engine struct{}

func IsSessionAutocommit(ctx *sql.Context) (bool, error) { return true, nil }

func clearAutocommitOnError(ctx *sql.Context, err *error) {
	if *err == nil {
		return
	}
	if cErr := clearAutocommitTransaction(ctx); cErr != nil {
		*err = errors.Join(*err, cErr)
	}
}

func clearAutocommitTransaction(ctx *sql.Context) error {
	if ctx.GetIgnoreAutoCommit() {
		return nil
	}
	autocommit, err := IsSessionAutocommit(ctx)
	if err != nil {
		return err
	}
	if autocommit {
		ctx.SetTransaction(nil)
	}
	return nil
}

func (e *Engine) beginTransaction(ctx *sql.Context) error {
	if ctx.GetTransaction() != nil {
		return nil
	}
	if ts, ok := ctx.Session.(sql.TransactionSession); ok {
		tx, err := ts.StartTransaction(ctx, false)
		if err != nil {
			return err
		}
		ctx.SetTransaction(tx)
	}
	return nil
}

func bind(q string) (string, error) {
	if q == "" {
		return "", errors.New("empty")
	}
	return q, nil
}

// Query follows the protocol.
func (e *Engine) Query(ctx *sql.Context, q string) (plan string, err error) {
	defer clearAutocommitOnError(ctx, &err)
	err = e.beginTransaction(ctx)
	if err != nil {
		return "", err
	}
	return bind(q)
}

// Prepare drops the begin error and never clears. BUG.
func (e *Engine) Prepare(ctx *sql.Context, q string) (string, error) {
	e.beginTransaction(ctx)
	return bind(q)
}

type TransactionCommittingIter struct {
	childIter      sql.RowIter
	autoCommit     bool
	implicitCommit bool
}

// good: the decision fields are stored by the constructor and by copy-and-modify
func NewTransactionCommittingIter(child sql.RowIter, autoCommit, implicitCommit bool) *TransactionCommittingIter {
	return &TransactionCommittingIter{childIter: child, autoCommit: autoCommit, implicitCommit: implicitCommit}
}

func (t *TransactionCommittingIter) WithChildIter(child sql.RowIter) *TransactionCommittingIter {
	nt := *t
	nt.childIter = child
	return &nt
}

func wrapNoAutoCommit(child sql.RowIter) *TransactionCommittingIter {
	it := NewTransactionCommittingIter(child, true, false)
	it.autoCommit = false // still under construction: the object is the constructor's fresh result
	return it
}

// BUG (P2w): a failed statement turns autocommit off, Close then neither commits nor clears
func (t *TransactionCommittingIter) Next(ctx *sql.Context) (sql.Row, error) {
	row, err := t.childIter.Next(ctx)
	if err != nil {
		t.autoCommit = false
	}
	return row, err
}

// BUG (P2w): an existing iterator is overwritten as a whole; the address of a decision field escapes
func (t *TransactionCommittingIter) Reset(o *TransactionCommittingIter) { *t = *o }
func (t *TransactionCommittingIter) implicitFlag() *bool                { return &t.implicitCommit }

func (t *TransactionCommittingIter) Close(ctx *sql.Context) error {
	err := t.childIter.Close(ctx)
	if err != nil {
		return err
	}
	tx := ctx.GetTransaction()
	if tx == nil {
		return nil
	}
	// BUG: the explicit-transaction test is missing (GetIgnoreAutoCommit)
	if !t.implicitCommit && !t.autoCommit {
		return nil
	}
	ts, ok := ctx.Session.(sql.TransactionSession)
	if !ok {
		return nil
	}
	if err := ts.CommitTransaction(ctx, tx); err != nil {
		return err
	}
	if t.implicitCommit {
		return nil // BUG: transaction not cleared on this exit
	}
	ctx.SetTransaction(nil)
	return nil
}

func buildCommit(ctx *sql.Context) error {
	ts, ok := ctx.Session.(sql.TransactionSession)
	if !ok {
		return nil
	}
	tx := ctx.GetTransaction()
	if tx == nil {
		return nil
	}
	err := ts.CommitTransaction(ctx, tx)
	if err != nil {
		return err
	}
	// BUG: SetIgnoreAutoCommit(false) missing: the session stays in "explicit transaction" mode
	ctx.SetTransaction(nil)
	return nil
}

func buildStartTransaction(ctx *sql.Context) error {
	ts, ok := ctx.Session.(sql.TransactionSession)
	if !ok {
		return nil
	}
	// BUG: an open transaction is not committed first
	tx, err := ts.StartTransaction(ctx, false)
	if err != nil {
		return err
	}
	ctx.SetTransaction(tx)
	ctx.SetIgnoreAutoCommit(true)
	return nil
}

type Session struct {
	tables map[string][]sql.Row
	edits  map[string][]sql.Row
}

func (s *Session) ID() int { return 1 }

func (s *Session) StartTransaction(ctx *sql.Context, readOnly bool) (sql.Transaction, error) {
	s.tables = map[string][]sql.Row{}
	s.edits = map[string][]sql.Row{}
	return nil, nil
}

func (s *Session) CommitTransaction(ctx *sql.Context, tx sql.Transaction) error { return nil }

// Rollback forgets the pending edits. BUG.
func (s *Session) Rollback(ctx *sql.Context, tx sql.Transaction) error {
	s.tables = map[string][]sql.Row{}
	return nil
}
