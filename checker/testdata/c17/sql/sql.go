// Package sql is a checker fixture: context, session and transaction interfaces.
package sql

type Row []any

type Transaction interface{ String() string }

type Session interface{ ID() int }

type TransactionSession interface {
	Session
	StartTransaction(ctx *Context, readOnly bool) (Transaction, error)
	CommitTransaction(ctx *Context, tx Transaction) error
	Rollback(ctx *Context, tx Transaction) error
}

type RowIter interface {
	Next(ctx *Context) (Row, error)
	Close(ctx *Context) error
}

type Context struct {
	Session Session
	tx      Transaction
	ignore  bool
}

func (c *Context) GetTransaction() Transaction   { return c.tx }
func (c *Context) SetTransaction(tx Transaction) { c.tx = tx }
func (c *Context) GetIgnoreAutoCommit() bool     { return c.ignore }
func (c *Context) SetIgnoreAutoCommit(b bool)    { c.ignore = b }
