// Package mem is a checker fixture: table rows plus an index storage whose rows end in the row position.
package mem

import "vchk/testdata/c16/sql"

type indexName string

type Index struct{ name string }

type TableData struct {
	partitions            map[string][]sql.Row
	secondaryIndexStorage map[indexName][]sql.Row
	indexes               map[string]*Index
}

// copy is the statement snapshot: rows of the index storage are shared (builtin copy). This is what makes
// in-place writes to index rows visible in the snapshot.
func (td TableData) copy() *TableData {
	parts := make(map[string][]sql.Row, len(td.partitions))
	for k, v := range td.partitions {
		data := make([]sql.Row, len(v))
		for i := range v {
			data[i] = v[i].Copy()
		}
		parts[k] = data
	}
	idx := make(map[indexName][]sql.Row, len(td.secondaryIndexStorage))
	for k, v := range td.secondaryIndexStorage {
		data := make([]sql.Row, len(v))
		copy(data, v)
		idx[k] = data
	}
	td.partitions, td.secondaryIndexStorage = parts, idx
	return &td
}

// reset replaces the rows but keeps the index storage. BUG.
func (td *TableData) reset() {
	td.partitions = map[string][]sql.Row{"0": {}}
}

// truncate replaces both.
func (td *TableData) truncate() {
	td.partitions = map[string][]sql.Row{"0": {}}
	td.secondaryIndexStorage = map[indexName][]sql.Row{}
}

// addToIndexes skips indexes whose name starts with '_'. BUG (not all indexes maintained).
func addToIndexes(td *TableData, row sql.Row, part string, pos int) {
	for _, idx := range td.indexes {
		if idx.name[0] == '_' {
			continue
		}
		td.secondaryIndexStorage[indexName(idx.name)] = append(td.secondaryIndexStorage[indexName(idx.name)], sql.Row{row[0], part, pos})
	}
}

// shiftLocations rewrites the position cell of shared index rows in place. BUG (aliasing with the snapshot).
func shiftLocations(td *TableData, part string, pos int) {
	for _, idx := range td.indexes {
		st := td.secondaryIndexStorage[indexName(idx.name)]
		for _, idxRow := range st {
			if idxRow[1] == any(part) && idxRow[2].(int) > pos {
				idxRow[2] = idxRow[2].(int) - 1
			}
		}
		td.secondaryIndexStorage[indexName(idx.name)] = st
	}
}

// insertRow is the correct coupling.
func insertRow(td *TableData, row sql.Row) {
	td.partitions["0"] = append(td.partitions["0"], row)
	addToIndexes(td, row, "0", len(td.partitions["0"])-1)
}

// removeRow forgets the indexes when the row is the last one. BUG.
func removeRow(td *TableData, pos int) {
	p := td.partitions["0"]
	td.partitions["0"] = append(p[:pos], p[pos+1:]...)
	if pos == len(p)-1 {
		return
	}
	shiftLocations(td, "0", pos)
}

// widen rebuilds every partition with the same length: positions are kept.
func widen(td *TableData) {
	for k, p := range td.partitions {
		np := make([]sql.Row, len(p))
		for i, r := range p {
			np[i] = append(r.Copy(), nil)
		}
		td.partitions[k] = np
	}
}

// swapLocations re-points, in every index, the two entries of two swapped rows; it stops scanning an index once both
// were found. The counter is declared per index: correct.
func swapLocations(td *TableData, part string, a, b int) {
	for _, rows := range td.secondaryIndexStorage {
		found := 0
		for _, idxRow := range rows {
			if idxRow[1] == any(part) && idxRow[2] == any(a) {
				idxRow[2] = b
				found++
			} else if idxRow[1] == any(part) && idxRow[2] == any(b) {
				idxRow[2] = a
				found++
			}
			if found >= 2 {
				break
			}
		}
	}
}

// swapLocationsReset: the same optimisation with the counter declared outside but reset for every index: correct.
func swapLocationsReset(td *TableData, part string, a, b int) {
	var found int
	for _, rows := range td.secondaryIndexStorage {
		found = 0
		for _, idxRow := range rows {
			if found >= 2 {
				break
			}
			if idxRow[1] == any(part) && idxRow[2] == any(a) {
				idxRow[2] = b
				found++
			} else if idxRow[1] == any(part) && idxRow[2] == any(b) {
				idxRow[2] = a
				found++
			}
		}
	}
}

// swapLocationsResetAfter: the counter is put back to its initial constant after each index: correct.
func swapLocationsResetAfter(td *TableData, part string, a, b int) {
	found := 0
	for _, rows := range td.secondaryIndexStorage {
		for _, idxRow := range rows {
			if idxRow[1] == any(part) && idxRow[2] == any(a) {
				idxRow[2] = b
				found++
			} else if idxRow[1] == any(part) && idxRow[2] == any(b) {
				idxRow[2] = a
				found++
			}
			if found >= 2 {
				break
			}
		}
		found = 0
	}
}

// swapLocationsCarried: the counter lives across the indexes: every index after the first stops after one entry. BUG.
func swapLocationsCarried(td *TableData, part string, a, b int) {
	found := 0
	for _, rows := range td.secondaryIndexStorage {
		for _, idxRow := range rows {
			if idxRow[1] == any(part) && idxRow[2] == any(a) {
				idxRow[2] = b
				found++
			} else if idxRow[1] == any(part) && idxRow[2] == any(b) {
				idxRow[2] = a
				found++
			}
			if found >= 2 {
				break
			}
		}
	}
}

// dropFromIndexes removes the entries of one row; a flag remembered across the indexes guards the write itself. BUG.
func dropFromIndexes(td *TableData, part string, pos int) {
	done := false
	for _, idx := range td.indexes {
		st := td.secondaryIndexStorage[indexName(idx.name)]
		for i := len(st) - 1; i >= 0; i-- {
			if !done && st[i][1] == any(part) && st[i][2] == any(pos) {
				st = append(st[:i], st[i+1:]...)
				done = true
			}
		}
		td.secondaryIndexStorage[indexName(idx.name)] = st
	}
}

var _ = []any{insertRow, removeRow, widen, swapLocations, swapLocationsReset, swapLocationsResetAfter, swapLocationsCarried, dropFromIndexes}
