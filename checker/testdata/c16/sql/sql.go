// Package sql is a checker fixture: rows.
package sql

type Row []any

func (r Row) Copy() Row { return append(Row{}, r...) }
