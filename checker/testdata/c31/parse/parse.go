// Package parse is the C31 fixture parser: 'z' has no formatter twin; parse calls a table value
// without testing it for nil, parseGood reports it.
package parse

import "errors"

type parser func(s string) (string, error)

var specifiers = map[byte]parser{
	'a': func(s string) (string, error) { return s, nil },
	'd': func(s string) (string, error) { return s, nil },
	'Q': nil,
	'm': nil,
	'z': func(s string) (string, error) { return s, nil },
	'%': func(s string) (string, error) { return s, nil },
}

func parse(spec byte, s string) (string, error) {
	p, ok := specifiers[spec]
	if !ok {
		return "", errors.New("unknown specifier")
	}
	return p(s)
}

func parseGood(spec byte, s string) (string, error) {
	p, ok := specifiers[spec]
	if !ok {
		return "", errors.New("unknown specifier")
	}
	if p == nil {
		return "", errors.New("specifier not supported")
	}
	return p(s)
}

// parseAll skips unsupported specifiers silently.
func parseAll(specs []byte, s string) (string, error) {
	for _, spec := range specs {
		p, ok := specifiers[spec]
		if !ok {
			return "", errors.New("unknown specifier")
		}
		if p == nil {
			continue
		}
		var err error
		if s, err = p(s); err != nil {
			return "", err
		}
	}
	return s, nil
}
