// Package tconv: date conversions carrying a pending "truncated" report, for the C31-K4 fixture.
package tconv

import (
	"errors"
	"time"
)

var errTruncated = errors.New("truncated")

func parse(s string) (time.Time, error) { return time.Time{}, errTruncated }

// Good keeps the pending report.
func Good(s string) (time.Time, error) {
	t, err := parse(s)
	if err != nil && !errors.Is(err, errTruncated) {
		return time.Time{}, err
	}
	if t.Year() > 9999 {
		return time.Time{}, errors.New("out of range")
	}
	return t, err
}

// Drops answers nil on the range-checked path.
func Drops(s string) (time.Time, error) {
	t, err := parse(s)
	if err != nil && !errors.Is(err, errTruncated) {
		return time.Time{}, err
	}
	if t.Year() < 1000 {
		return t, nil
	}
	return t, err
}
