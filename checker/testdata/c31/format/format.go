// Package format is the C31 fixture formatter: 'q' has no parser twin, 'Q' is delegated (nil) but the
// library has no default for it, and register uses the ranged value without a nil test.
package format

import "vchk/testdata/c31/lib"

var specToFunc = map[byte]func() string{
	'a': nil,
	'd': nil,
	'Q': nil,
	'm': func() string { return "m" },
	'q': func() string { return "q" },
}

var registered = map[byte]func() string{}

func register() {
	for spec, fn := range specToFunc {
		registered[spec] = wrap(fn)
	}
}

func registerGood() {
	for spec, fn := range specToFunc {
		if fn != nil {
			registered[spec] = wrap(fn)
		} else {
			registered[spec] = lib.Default(spec)
		}
	}
}

func wrap(f func() string) func() string { return func() string { return f() } }
