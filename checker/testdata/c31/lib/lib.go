// Package lib stands for the strftime library in the C31 fixture.
package lib

var defaults = map[byte]func() string{
	'a': func() string { return "a" },
	'd': func() string { return "d" },
}

func Default(b byte) func() string { return defaults[b] }
