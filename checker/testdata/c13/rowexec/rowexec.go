// Package rowexec is a fixture for C13: a miniature of the row-count accumulator with planted
// defects (marked DEFECT). Everything else mirrors the shape of the real executor.
package rowexec

import (
	"errors"
	"io"
	"sync"
)

type Context struct{}
type Row []interface{}
type Schema []string

func (r Row) Equals(ctx *Context, o Row, s Schema) (bool, error) {
	if len(r) != len(o) {
		return false, nil
	}
	for i := range r {
		if r[i] != o[i] {
			return false, nil
		}
	}
	return true, nil
}

type RowIter interface {
	Next(ctx *Context) (Row, error)
	Close(ctx *Context) error
}

type RowReplacer interface {
	Insert(ctx *Context, r Row) error
	Delete(ctx *Context, r Row) error
}

type UpdateInfo struct{ Matched, Updated, Warnings int }

type OkResult struct {
	RowsAffected uint64
	InsertID     uint64
	Info         interface{}
}

func NewOkResult(n int) OkResult { return OkResult{RowsAffected: uint64(n)} }

type IgnorableError struct{ OffendingRow Row }

func (e IgnorableError) Error() string { return "ignorable" }

var errDup = errors.New("duplicate")

func splitRow(r Row, s Schema) map[string]Row { return map[string]Row{} }

// ---- handlers -------------------------------------------------------------------------------------

type accumulatorRowHandler interface {
	handleRowUpdate(ctx *Context, row Row) error
	okResult() OkResult
}

type updateIgnoreAccumulatorRowHandler interface {
	accumulatorRowHandler
	handleRowUpdateWithIgnore(ctx *Context, row Row, ignore bool) error
}

type matchingAccumulator interface{ RowsMatched() int64 }

type insertRowHandler struct{ rowsAffected int }

func (i *insertRowHandler) handleRowUpdate(ctx *Context, row Row) error { i.rowsAffected++; return nil }
func (i *insertRowHandler) okResult() OkResult                          { return NewOkResult(i.rowsAffected) }

type replaceRowHandler struct{ rowsAffected int }

// DEFECT (N1): a replaced row counts 1, not 2
func (r *replaceRowHandler) handleRowUpdate(ctx *Context, row Row) error {
	r.rowsAffected++
	return nil
}
func (r *replaceRowHandler) okResult() OkResult { return NewOkResult(r.rowsAffected) }

type onDuplicateUpdateHandler struct {
	schema       Schema
	rowsAffected int
	foundRows    bool
}

func (o *onDuplicateUpdateHandler) handleRowUpdate(ctx *Context, row Row) error {
	if len(row) == len(o.schema) {
		o.rowsAffected++
		return nil
	}
	oldRow, newRow := row[:len(row)/2], row[len(row)/2:]
	equals, err := oldRow.Equals(ctx, newRow, o.schema)
	if err != nil {
		return err
	}
	if !equals {
		o.rowsAffected += 2
	} else if o.foundRows {
		o.rowsAffected++
	}
	return nil
}
func (o *onDuplicateUpdateHandler) okResult() OkResult { return NewOkResult(o.rowsAffected) }

type updateRowHandler struct {
	schema       Schema
	rowsMatched  int
	rowsAffected int
	foundRows    bool
}

func (u *updateRowHandler) handleRowUpdate(ctx *Context, row Row) error {
	u.rowsMatched++
	oldRow := row[:len(row)/2]
	newRow := row[len(row)/2:]
	equals, err := oldRow.Equals(ctx, newRow, u.schema)
	if err != nil {
		return err
	}
	if !equals {
		u.rowsAffected++
	}
	return nil
}
func (u *updateRowHandler) handleRowUpdateWithIgnore(ctx *Context, row Row, ignore bool) error {
	if !ignore {
		return u.handleRowUpdate(ctx, row)
	}
	u.rowsMatched++
	return nil
}
func (u *updateRowHandler) okResult() OkResult {
	affected := u.rowsAffected
	if u.foundRows {
		affected = u.rowsMatched
	}
	return OkResult{RowsAffected: uint64(affected), Info: UpdateInfo{Matched: u.rowsMatched, Updated: u.rowsAffected}}
}
func (u *updateRowHandler) RowsMatched() int64 { return int64(u.rowsMatched) }

type updateJoinRowHandler struct {
	tableMap     map[string]Schema
	updaterMap   map[string]int
	joinSchema   Schema
	rowsMatched  int
	rowsAffected int
}

func (u *updateJoinRowHandler) handleRowMatched() { u.rowsMatched += 1 }
func (u *updateJoinRowHandler) handleRowUpdate(ctx *Context, row Row) error {
	oldJoinRow := row[:len(row)/2]
	newJoinRow := row[len(row)/2:]
	tableToOldRow := splitRow(oldJoinRow, u.joinSchema)
	tableToNewRow := splitRow(newJoinRow, u.joinSchema)
	for tableName := range u.updaterMap {
		o, n := tableToOldRow[tableName], tableToNewRow[tableName]
		if equals, err := o.Equals(ctx, n, u.tableMap[tableName]); err == nil {
			if !equals {
				u.rowsAffected++
			}
		} else {
			return err
		}
	}
	return nil
}

// (no found-rows variant: reported by N1, as on the engine)
func (u *updateJoinRowHandler) okResult() OkResult {
	return OkResult{RowsAffected: uint64(u.rowsAffected), Info: UpdateInfo{Matched: u.rowsMatched, Updated: u.rowsAffected}}
}
func (u *updateJoinRowHandler) RowsMatched() int64 { return int64(u.rowsMatched) }

type deleteRowHandler struct{ rowsAffected int }

func (d *deleteRowHandler) handleRowUpdate(ctx *Context, row Row) error { d.rowsAffected++; return nil }
func (d *deleteRowHandler) okResult() OkResult                          { return NewOkResult(d.rowsAffected) }

// ---- iterators ------------------------------------------------------------------------------------

type tableEditorIter struct{ inner RowIter }

func (t *tableEditorIter) Next(ctx *Context) (Row, error) { return t.inner.Next(ctx) }
func (t *tableEditorIter) Close(ctx *Context) error       { return t.inner.Close(ctx) }
func (t *tableEditorIter) InnerIter() RowIter             { return t.inner }

func NewTableEditorIter(inner RowIter) RowIter              { return &tableEditorIter{inner: inner} }
func NewCheckpointingTableEditorIter(inner RowIter) RowIter { return &tableEditorIter{inner: inner} }

type blockIter struct{ repIter RowIter }

func (b *blockIter) Next(ctx *Context) (Row, error) { return b.repIter.Next(ctx) }
func (b *blockIter) Close(ctx *Context) error       { return nil }

type insertIter struct {
	rowSource RowIter
	replacer  RowReplacer
	updater   interface{}
	schema    Schema
}

func (i *insertIter) Next(ctx *Context) (Row, error) {
	row, err := i.rowSource.Next(ctx)
	if err != nil {
		return nil, err
	}
	if i.replacer != nil {
		toReturn := make(Row, len(row)*2)
		copy(toReturn[len(row):], row)
		// DEFECT (N4): several existing rows can be deleted for one emitted row
		for {
			if err := i.replacer.Insert(ctx, row); err != nil {
				if err != errDup {
					return nil, err
				}
				if err = i.replacer.Delete(ctx, row); err != nil {
					return nil, err
				}
				copy(toReturn, row)
			} else {
				break
			}
		}
		return toReturn, nil
	}
	return row, nil
}
func (i *insertIter) Close(ctx *Context) error { return nil }

type updateIter struct {
	childIter RowIter
	schema    Schema
}

func (u *updateIter) Next(ctx *Context) (Row, error) { return u.childIter.Next(ctx) }
func (u *updateIter) Close(ctx *Context) error       { return nil }

type updateJoinIter struct {
	src         RowIter
	updaters    map[string]int
	joinSchema  Schema
	accumulator *updateJoinRowHandler
	cache       KeyValueCache
}

type KeyValueCache interface {
	Put(uint64, interface{}) error
	Get(uint64) (interface{}, error)
}

var errKeyNotFound = errors.New("not found")

func (u *updateJoinIter) Next(ctx *Context) (Row, error) {
	for {
		row, err := u.src.Next(ctx)
		if err != nil {
			return nil, err
		}
		for range u.updaters {
			_, err = u.cache.Get(uint64(len(row)))
			if err == errKeyNotFound {
				u.cache.Put(uint64(len(row)), struct{}{})
				if u.accumulator != nil {
					u.accumulator.handleRowMatched()
				}
				continue
			} else if err != nil {
				return nil, err
			}
			// DEFECT (N5): a row that was seen before is counted as matched again
			if u.accumulator != nil {
				u.accumulator.handleRowMatched()
			}
		}
		return row, nil
	}
}
func (u *updateJoinIter) Close(ctx *Context) error       { return nil }

type deleteIter struct{ childIter RowIter }

func (d *deleteIter) Next(ctx *Context) (Row, error) { return d.childIter.Next(ctx) }
func (d *deleteIter) Close(ctx *Context) error       { return nil }

type loadIter struct{ childIter RowIter }

func (d *loadIter) Next(ctx *Context) (Row, error) { return d.childIter.Next(ctx) }
func (d *loadIter) Close(ctx *Context) error       { return nil }

func build(src RowIter) []RowIter {
	return []RowIter{
		NewTableEditorIter(&insertIter{rowSource: src}),
		NewCheckpointingTableEditorIter(&updateIter{childIter: src}),
		NewTableEditorIter(&deleteIter{childIter: src}),
		// DEFECT (N2 total): wrapped in an editor, but the choosing function has no arm for it
		NewTableEditorIter(&loadIter{childIter: src}),
	}
}

// ---- choosing the handler -------------------------------------------------------------------------

func getRowHandler(clientFoundRowsToggled bool, iter RowIter) accumulatorRowHandler {
	switch i := iter.(type) {
	case *tableEditorIter:
		return getRowHandler(clientFoundRowsToggled, i.InnerIter())
	case *blockIter:
		// DEFECT (N2 forward): the flag is dropped below this wrapper
		return getRowHandler(false, i.repIter)
	case *updateIter:
		rowHandler := getRowHandler(clientFoundRowsToggled, i.childIter)
		if rowHandler != nil {
			return rowHandler
		}
		// DEFECT (N2 flag): foundRows is not set from the parameter
		return &updateRowHandler{schema: i.schema}
	case *updateJoinIter:
		rowHandler := &updateJoinRowHandler{joinSchema: i.joinSchema, updaterMap: i.updaters}
		i.accumulator = rowHandler
		return rowHandler
	case *insertIter:
		if i.replacer != nil {
			return &replaceRowHandler{}
		}
		if i.updater != nil {
			return &onDuplicateUpdateHandler{schema: i.schema, foundRows: clientFoundRowsToggled}
		}
		return &insertRowHandler{}
	case *deleteIter:
		// DEFECT (N2 choice): a DELETE is counted by the INSERT handler
		return &insertRowHandler{}
	default:
		return nil
	}
}

// ---- the accumulator ------------------------------------------------------------------------------

type accumulatorIter struct {
	iter             RowIter
	updateRowHandler accumulatorRowHandler
	once             sync.Once
}

func (a *accumulatorIter) Next(ctx *Context) (r Row, err error) {
	run := false
	a.once.Do(func() { run = true })
	if !run {
		return nil, io.EOF
	}
	for {
		row, err := a.iter.Next(ctx)
		ignorableErr, isIgnorableErr := err.(IgnorableError)
		if err == io.EOF {
			res := a.updateRowHandler.okResult()
			return Row{res}, nil
		} else if isIgnorableErr {
			if ui, ok := a.updateRowHandler.(updateIgnoreAccumulatorRowHandler); ok {
				err = ui.handleRowUpdateWithIgnore(ctx, ignorableErr.OffendingRow, true)
				if err != nil {
					return nil, err
				}
			}
		} else if err != nil {
			// DEFECT (N3 exits): the child's error is swallowed and the statement ends without a result
			return nil, nil
		} else {
			err = a.updateRowHandler.handleRowUpdate(ctx, row)
			if err != nil {
				return nil, err
			}
			// DEFECT (N3 handle-once): wide rows are counted twice
			if len(row) > 4 {
				_ = a.updateRowHandler.handleRowUpdate(ctx, row)
			}
		}
	}
}

func (a *accumulatorIter) Close(ctx *Context) error { return nil }

const capabilityClientFoundRows = 1 << 1

type client struct{ Capabilities uint32 }

func defaultAccumulatorIter(cl client, iter RowIter) RowIter {
	clientFoundRowsToggled := (cl.Capabilities & capabilityClientFoundRows) > 0
	rowHandler := getRowHandler(clientFoundRowsToggled, iter)
	if rowHandler == nil {
		return iter
	}
	return &accumulatorIter{iter: iter, updateRowHandler: rowHandler}
}
