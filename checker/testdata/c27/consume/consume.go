// Package consume: consumers of a conversion verdict for the C27-U fixture.
package consume

import "errors"

type ConvertInRange int

const (
	InRange ConvertInRange = iota
	Overflow
	Underflow
)

type Ctx struct{ warnings []string }

func (c *Ctx) Warn(code int, msg string) { c.warnings = append(c.warnings, msg) }

var errRange = errors.New("out of range")

func conv(v any) (any, ConvertInRange, error) { return v, InRange, nil }

// Good: verdict tested on the success path.
func Good(row []any, v any) error {
	c, inRange, err := conv(v)
	if err != nil {
		return err
	}
	if inRange != InRange {
		return errRange
	}
	row[0] = c
	return nil
}

// GoodWarn: clamp and warn.
func GoodWarn(ctx *Ctx, row []any, v any) error {
	c, inRange, err := conv(v)
	if err != nil {
		return err
	}
	if inRange != InRange {
		ctx.Warn(1264, "out of range")
	}
	row[0] = c
	return nil
}

// GoodErrVar: the verdict is folded into the error variable first.
func GoodErrVar(row []any, v any) error {
	c, inRange, err := conv(v)
	if err == nil && inRange != InRange {
		err = errors.New("out of range")
	}
	if err != nil {
		return err
	}
	row[0] = c
	return nil
}

// UnreachableGuard: the verdict is only looked at when the conversion already failed.
func UnreachableGuard(row []any, v any) error {
	c, inRange, err := conv(v)
	if err != nil {
		switch {
		case inRange != InRange:
			err = errRange
		}
		return err
	}
	row[0] = c
	return nil
}

// OneSided: only overflow is rejected.
func OneSided(row []any, v any) error {
	c, inRange, err := conv(v)
	if err != nil {
		return err
	}
	if inRange == Overflow {
		return errRange
	}
	row[0] = c
	return nil
}

// Decoration: the verdict is bound and assigned on, never tested.
func Decoration(row []any, v any) error {
	var inRange ConvertInRange
	var c any
	var err error
	c, inRange, err = conv(v)
	_ = inRange
	if err != nil {
		return err
	}
	row[0] = c
	return nil
}
