// Package tables is a checker fixture for C27-T: precision-indexed constant tables and unit
// scalars with one defect of each kind.
package tables

import "time"

const MaxDatetimePrecision = 6

const ZeroDateStr = "0000-00-00"

type datetimeType struct {
	precision int
}

// precisionConversion: the precision-5 entry has a misplaced digit separator (10000).
var precisionConversion = [7]int{
	1, 10, 100, 1_000, 10_000, 100_00, 1_000_000,
}

// shortTable is indexed by something that is not the precision field and misses the last entry.
var shortTable = [6]int{1, 10, 100, 1000, 10000, 100000}

func round(t datetimeType, v time.Time, digits int) time.Time {
	if t.precision < MaxDatetimePrecision {
		return v.Round(time.Second / time.Duration(precisionConversion[t.precision]))
	}
	if digits < 3 {
		return v.Round(time.Second / time.Duration(shortTable[digits]))
	}
	return v.Round(time.Microsecond)
}

// appendMicroseconds: powersOfTen is good here, but one entry is overwritten afterwards.
func appendMicroseconds(microseconds int64, precision int) int64 {
	powersOfTen := []int64{1, 10, 100, 1000, 10000, 100000, 1000000}
	if precision == 0 {
		powersOfTen[0] = 10
	}
	return microseconds / powersOfTen[6-precision]
}

var (
	timespanMinimum           int64 = -3020399000000
	timespanMaximum           int64 = 3020399000001 // one microsecond too much
	microsecondsPerSecond     int64 = 1000000
	microsecondsPerMinute     int64 = 6000000 // a zero short
	microsecondsPerHour       int64 = 3600000000
	nanosecondsPerMicrosecond int64 = 1000
)

func use() int64 {
	nanosecondsPerMicrosecond++ // written
	return timespanMinimum + timespanMaximum + microsecondsPerSecond + microsecondsPerMinute + microsecondsPerHour + nanosecondsPerMicrosecond
}

// ZeroTimestampDatetimeStrs: precision 4 has three digits, and there is no entry for precision 6.
var ZeroTimestampDatetimeStrs = [][]byte{
	[]byte("0000-00-00 00:00:00"),
	[]byte("0000-00-00 00:00:00.0"),
	[]byte("0000-00-00 00:00:00.00"),
	[]byte("0000-00-00 00:00:00.000"),
	[]byte("0000-00-00 00:00:00.000"),
	[]byte("0000-00-00 00:00:00.00000"),
}
