// Package conv is a checker fixture for C27: a miniature number type whose Convert has a wrong
// upper bound (INT16 arm), a missing lower bound (UINT8 arm), a 24-bit arm that checks the 32-bit
// range, a float boundary that lets 2^63 through, and a sibling Convert without the nil clause.
package conv

import "math"

type ConvertInRange byte

const (
	InRange ConvertInRange = iota
	Underflow
	Overflow
)

type BaseType int32

const (
	Int8 BaseType = iota + 1
	Uint8
	Int16
	Uint16
	Int24
	Uint24
	Int32
	Uint32
	Int64
	Uint64
	Float32
	Float64
	Year
)

type Type interface {
	Convert(ctx int, v any) (any, ConvertInRange, error)
}

type T struct{ baseType BaseType }

func toInt64(v any) (int64, ConvertInRange, error) {
	switch v := v.(type) {
	case int64:
		return v, InRange, nil
	case uint64:
		if v > math.MaxInt64 {
			return math.MaxInt64, Overflow, nil
		}
		return int64(v), InRange, nil
	case float64:
		if v > float64(math.MaxInt64) { // 2^63 itself passes
			return math.MaxInt64, Overflow, nil
		}
		if v < float64(math.MinInt64) {
			return math.MinInt64, Underflow, nil
		}
		return int64(math.Round(v)), InRange, nil
	}
	return 0, InRange, nil
}

func (t T) Convert(ctx int, v any) (any, ConvertInRange, error) {
	if v == nil {
		return nil, InRange, nil
	}
	switch t.baseType {
	case Int8: // correct
		num, _, err := toInt64(v)
		if num > math.MaxInt8 {
			return int8(math.MaxInt8), Overflow, nil
		}
		if num < math.MinInt8 {
			return int8(math.MinInt8), Underflow, nil
		}
		return int8(num), InRange, err
	case Int16: // upper bound edited to MaxInt32
		num, _, err := toInt64(v)
		if num > math.MaxInt32 {
			return int16(math.MaxInt16), Overflow, nil
		}
		if num < math.MinInt16 {
			return int16(math.MinInt16), Underflow, nil
		}
		return int16(num), InRange, err
	case Uint8: // lower bound dropped
		num, _, err := toInt64(v)
		if num > math.MaxUint8 {
			return uint8(math.MaxUint8), Overflow, nil
		}
		return uint8(num), InRange, err
	case Int24: // carrier range instead of the 24-bit range
		num, _, err := toInt64(v)
		if num > math.MaxInt32 {
			return int32(math.MaxInt32), Overflow, nil
		}
		if num < math.MinInt32 {
			return int32(math.MinInt32), Underflow, nil
		}
		return int32(num), InRange, err
	case Int64:
		return toInt64(v)
	}
	return nil, InRange, nil
}

type NoNil struct{}

func (NoNil) Convert(ctx int, v any) (any, ConvertInRange, error) {
	return int64(v.(int)), InRange, nil
}

type Delegating struct{ T }

func (d Delegating) Convert(ctx int, v any) (any, ConvertInRange, error) {
	return d.T.Convert(ctx, v)
}
