// Package plan is a checker fixture: a foreign key editor with seeded dispatch bugs.
package plan

import "vchk/testdata/c18/sql"

type RefAction struct{ ForeignKey sql.ForeignKeyConstraint }

type ForeignKeyEditor struct {
	Editor     sql.TableEditor
	RefActions []RefAction
}

func (e *ForeignKeyEditor) OnUpdateRestrict(a RefAction, old, new sql.Row) error   { return nil }
func (e *ForeignKeyEditor) OnUpdateCascade(a RefAction, old, new sql.Row) error    { return nil }
func (e *ForeignKeyEditor) OnUpdateSetNull(a RefAction, old, new sql.Row) error    { return nil }
func (e *ForeignKeyEditor) OnUpdateSetDefault(a RefAction, old, new sql.Row) error { return nil }
func (e *ForeignKeyEditor) OnDeleteRestrict(a RefAction, r sql.Row) error          { return nil }
func (e *ForeignKeyEditor) OnDeleteCascade(a RefAction, r sql.Row) error           { return nil }
func (e *ForeignKeyEditor) OnDeleteSetNull(a RefAction, r sql.Row) error           { return nil }
func (e *ForeignKeyEditor) OnDeleteSetDefault(a RefAction, r sql.Row) error        { return nil }

func (e *ForeignKeyEditor) Update(old, new sql.Row) error {
	for _, a := range e.RefActions {
		switch a.ForeignKey.OnUpdate {
		default:
			if err := e.OnUpdateRestrict(a, old, new); err != nil {
				return err
			}
		case sql.ForeignKeyReferentialAction_Cascade:
		case sql.ForeignKeyReferentialAction_SetNull:
		case sql.ForeignKeyReferentialAction_SetDefault:
		}
	}
	if err := e.Editor.Update(old, new); err != nil {
		return err
	}
	for _, a := range e.RefActions {
		switch a.ForeignKey.OnUpdate {
		case sql.ForeignKeyReferentialAction_Cascade:
			_ = e.OnUpdateCascade(a, old, new) // BUG: error dropped
		case sql.ForeignKeyReferentialAction_SetNull:
			if err := e.OnUpdateSetNull(a, old, new); err != nil {
				return err
			}
		case sql.ForeignKeyReferentialAction_SetDefault:
			// BUG: SET DEFAULT is neither restricted nor acted on
		}
	}
	return nil
}

func (e *ForeignKeyEditor) Delete(r sql.Row) error {
	for _, a := range e.RefActions {
		switch a.ForeignKey.OnDelete {
		default:
			if err := e.OnDeleteRestrict(a, r); err != nil {
				return err
			}
		case sql.ForeignKeyReferentialAction_Cascade:
		case sql.ForeignKeyReferentialAction_SetNull:
		case sql.ForeignKeyReferentialAction_SetDefault:
		}
	}
	if len(r) > 0 { // BUG: the cascade below also runs when nothing was deleted
		if err := e.Editor.Delete(r); err != nil {
			return err
		}
	}
	for _, a := range e.RefActions {
		switch a.ForeignKey.OnDelete {
		case sql.ForeignKeyReferentialAction_Cascade, sql.ForeignKeyReferentialAction_SetNull: // BUG: SET NULL deletes the children
			if err := e.OnDeleteCascade(a, r); err != nil {
				return err
			}
		case sql.ForeignKeyReferentialAction_SetDefault:
			if err := e.OnDeleteSetDefault(a, r); err != nil {
				return err
			}
		}
	}
	return nil
}
