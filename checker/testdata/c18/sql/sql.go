// Package sql is a checker fixture: referential actions and editor interfaces.
package sql

type Row []any

type ForeignKeyReferentialAction string

const (
	ForeignKeyReferentialAction_DefaultAction ForeignKeyReferentialAction = "DEFAULT"
	ForeignKeyReferentialAction_Restrict      ForeignKeyReferentialAction = "RESTRICT"
	ForeignKeyReferentialAction_Cascade       ForeignKeyReferentialAction = "CASCADE"
	ForeignKeyReferentialAction_NoAction      ForeignKeyReferentialAction = "NO ACTION"
	ForeignKeyReferentialAction_SetNull       ForeignKeyReferentialAction = "SET NULL"
	ForeignKeyReferentialAction_SetDefault    ForeignKeyReferentialAction = "SET DEFAULT"
)

func (f ForeignKeyReferentialAction) IsEquivalentToRestrict() bool {
	switch f {
	case ForeignKeyReferentialAction_Cascade, ForeignKeyReferentialAction_SetNull, ForeignKeyReferentialAction_SetDefault:
		return false
	default:
		return true
	}
}

type ForeignKeyConstraint struct {
	OnUpdate ForeignKeyReferentialAction
	OnDelete ForeignKeyReferentialAction
}

type EditOpenerCloser interface {
	StatementBegin()
	DiscardChanges(cause error) error
	StatementComplete() error
}

type TableEditor interface {
	EditOpenerCloser
	Update(old, new Row) error
	Delete(r Row) error
}
