// Package types is part of the C44 fixture: constructors with the shapes of the real ones.
package types

import "vchk/testdata/c44/sql"

type sysType struct{ name string }

func (t sysType) Name() string { return t.name }

func NewSystemBoolType(varName string) sql.Type { return sysType{varName} }
func NewSystemIntType(varName string, lowerbound, upperbound int64, negativeOne bool) sql.Type {
	return sysType{varName}
}
func NewSystemUintType(varName string, lowerbound, upperbound uint64) sql.Type {
	return sysType{varName}
}
func NewSystemDoubleType(varName string, lowerbound, upperbound float64) sql.Type {
	return sysType{varName}
}
func NewSystemEnumType(varName string, values ...string) sql.Type { return sysType{varName} }
func NewSystemSetType(varName string, collation int, values ...string) sql.Type {
	return sysType{varName}
}
func NewSystemStringType(varName string) sql.Type { return sysType{varName} }
