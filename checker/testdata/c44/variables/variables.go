// Package variables is the C44 fixture registry: good entries and one entry per kind of violation.
package variables

import (
	"time"

	"vchk/testdata/c44/sql"
	"vchk/testdata/c44/types"
)

var start = time.Now()

var vars = map[string]sql.SystemVariable{
	"autocommit": &sql.MysqlSystemVariable{Name: "autocommit", Type: types.NewSystemBoolType("autocommit"), Default: int8(1)},
	"port":       &sql.MysqlSystemVariable{Name: "port", Type: types.NewSystemIntType("port", 0, 65535, false), Default: int64(3306)},
	"limit":      &sql.MysqlSystemVariable{Name: "limit", Type: types.NewSystemIntType("limit", 0, 10, true), Default: int64(-1)},
	"engine":     &sql.MysqlSystemVariable{Name: "engine", Type: types.NewSystemEnumType("engine", "OFF", "ON"), Default: "on"},
	// violations
	"Bad_Key":  &sql.MysqlSystemVariable{Name: "bad_key", Type: types.NewSystemStringType("bad_key"), Default: ""},
	"dup":      &sql.MysqlSystemVariable{Name: "dup", Type: types.NewSystemStringType("dup"), Default: ""},
	"renamed":  &sql.MysqlSystemVariable{Name: "renamed", Type: types.NewSystemBoolType("autocommit"), Default: int8(0)},
	"too_big":  &sql.MysqlSystemVariable{Name: "too_big", Type: types.NewSystemUintType("too_big", 1, 100), Default: uint64(101)},
	"mode":     &sql.MysqlSystemVariable{Name: "mode", Type: types.NewSystemEnumType("mode", "FAST", "SAFE"), Default: "SLOW"},
	"inverted": &sql.MysqlSystemVariable{Name: "inverted", Type: types.NewSystemDoubleType("inverted", 10, 1), Default: float64(5)},
	"clock": &sql.MysqlSystemVariable{Name: "clock", Type: types.NewSystemBoolType("autocommit"), Default: int8(1),
		ValueFunction: func() (interface{}, error) { return int(time.Since(start).Seconds()), nil }},
}

var extra = map[string]sql.SystemVariable{
	"dup": &sql.MysqlSystemVariable{Name: "dup", Type: types.NewSystemStringType("dup"), Default: "x"},
}
