// Package sql is part of the C44 fixture.
package sql

type Type interface{ Name() string }

type SystemVariable interface{ GetName() string }

type MysqlSystemVariable struct {
	Type          Type
	Default       interface{}
	ValueFunction func() (interface{}, error)
	Name          string
	Dynamic       bool
}

func (m *MysqlSystemVariable) GetName() string { return m.Name }
