// Package an is the analyzer half of the C06 fixture (planted defects marked BUG).
package an

import (
	"vchk/testdata/c06/expr"
)

type TreeIdentity bool

const (
	SameTree TreeIdentity = true
	NewTree  TreeIdentity = false
)

func transformExpr(ctx *expr.Context, e expr.Expression, f func(*expr.Context, expr.Expression) (expr.Expression, TreeIdentity, error)) (expr.Expression, TreeIdentity, error) {
	return f(ctx, e)
}

func applyHashIn(ctx *expr.Context, filter expr.Expression) (expr.Expression, TreeIdentity, error) {
	return transformExpr(ctx, filter, func(ctx *expr.Context, e expr.Expression) (expr.Expression, TreeIdentity, error) {
		// BUG: the isStatic guard is missing
		if in, ok := e.(*expr.InTuple); ok && hasSingleOutput(ctx, in.Left()) && isConsistentType(ctx, in.Right()) {
			newe, err := expr.NewHashInTuple(ctx, in.Left(), in.Right())
			if err != nil {
				return nil, SameTree, err
			}
			return newe, NewTree, nil
		}
		return e, SameTree, nil
	})
}

func hasSingleOutput(ctx *expr.Context, e expr.Expression) bool  { return true }
func isStatic(ctx *expr.Context, e expr.Expression) bool         { return true }
func isConsistentType(ctx *expr.Context, e expr.Expression) bool { return true }

func pushNotFiltersHelper(ctx *expr.Context, e expr.Expression) (expr.Expression, error) {
	if not, _ := e.(*expr.Not); not != nil {
		if f, _ := not.Child.(*expr.Not); f != nil {
			if expr.IsBoolean(f.Child.Type(ctx)) {
				return pushNotFiltersHelper(ctx, f.Child)
			}
		}
	}
	if not, _ := e.(*expr.Not); not != nil {
		if f, _ := not.Child.(*expr.And); f != nil {
			return pushNotFiltersHelper(ctx, expr.NewOr(expr.NewNot(f.LeftChild), expr.NewNot(f.RightChild)))
		}
	}
	// BUG: NOT(a > b) is a <= b, not a < b
	if not, _ := e.(*expr.Not); not != nil {
		if f, _ := not.Child.(*expr.GreaterThan); f != nil {
			return pushNotFiltersHelper(ctx, expr.NewLessThan(f.Left(), f.Right()))
		}
	}
	if not, _ := e.(*expr.Not); not != nil {
		if f, _ := not.Child.(*expr.Between); f != nil {
			return pushNotFiltersHelper(ctx, expr.NewOr(expr.NewLessThan(f.Val, f.Lower), expr.NewGreaterThan(f.Val, f.Upper)))
		}
	}
	return e, nil
}

func simplifyExpression(ctx *expr.Context, e expr.Expression) (expr.Expression, TreeIdentity, error) {
	return transformExpr(ctx, e, func(ctx *expr.Context, e expr.Expression) (expr.Expression, TreeIdentity, error) {
		switch e := e.(type) {
		case *expr.Or:
			leftIsTrue, leftIsFalse := getDefiniteBoolValues(ctx, e.LeftChild)
			if leftIsTrue {
				return expr.NewTrue(), NewTree, nil
			}
			rightIsTrue, rightIsFalse := getDefiniteBoolValues(ctx, e.RightChild)
			if rightIsTrue {
				return expr.NewTrue(), NewTree, nil
			}
			if leftIsFalse {
				if rightIsFalse {
					return expr.NewFalse(), NewTree, nil
				}
				return e.RightChild, NewTree, nil // BUG: also when the right operand is not boolean
			}
			if rightIsFalse && expr.IsBoolean(e.LeftChild.Type(ctx)) {
				return e.LeftChild, NewTree, nil
			}
			return e, SameTree, nil
		case *expr.And:
			_, leftIsFalse := getDefiniteBoolValues(ctx, e.LeftChild)
			if leftIsFalse {
				return expr.NewFalse(), NewTree, nil
			}
			rightIsTrue, rightIsFalse := getDefiniteBoolValues(ctx, e.RightChild)
			if rightIsFalse {
				return expr.NewFalse(), NewTree, nil
			}
			if rightIsTrue {
				return expr.NewTrue(), NewTree, nil // BUG: p AND TRUE is p
			}
			return e, SameTree, nil
		case *expr.Between:
			lowerField, lowerIsField := e.Lower.(*expr.GetField)
			upperField, upperIsField := e.Upper.(*expr.GetField)
			if lowerIsField && upperIsField && lowerField.IsSameField(upperField) {
				return expr.NewEquals(e.Val, e.Lower), NewTree, nil
			}
			if valField, valIsField := e.Val.(*expr.GetField); valIsField {
				if lowerIsField && lowerField.IsSameField(valField) {
					// BUG: x BETWEEN x AND hi is x <= hi, not x >= hi
					return expr.NewGreaterThanOrEqual(e.Val, e.Upper), NewTree, nil
				}
			}
			return expr.NewAnd(expr.NewGreaterThanOrEqual(e.Val, e.Lower), expr.NewLessThanOrEqual(e.Val, e.Upper)), NewTree, nil
		}
		return e, SameTree, nil
	})
}

func getDefiniteBoolValues(ctx *expr.Context, e expr.Expression) (isTrue, isFalse bool) {
	lit, ok := e.(*expr.Literal)
	if !ok || lit == nil || lit.Value() == nil {
		return false, false
	}
	val, err := expr.ConvertToBool(ctx, lit.Value())
	if err != nil {
		return false, false
	}
	return val, !val
}
