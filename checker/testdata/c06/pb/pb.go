// Package pb is the planbuilder half of the C06 fixture (planted defects marked BUG).
package pb

import (
	"strings"

	"vchk/testdata/c06/expr"
	ast "vchk/testdata/c06/sqlparser"
)

type scope struct{}

type Builder struct {
	ctx  *expr.Context
	errs []error
}

func (b *Builder) handleErr(err error) { b.errs = append(b.errs, err) }

func (b *Builder) typeExpandComparisonLiteral(l, r any) (any, any) { return l, r }

func (b *Builder) buildScalar(inScope *scope, e ast.Expr) (ex any) {
	defer func() { _ = ex }()
	switch v := e.(type) {
	case *ast.ComparisonExpr:
		return b.buildComparison(inScope, v)
	case *ast.RangeCond:
		val := b.buildScalar(inScope, v.Left).(expr.Expression)
		lower := b.buildScalar(inScope, v.From).(expr.Expression)
		upper := b.buildScalar(inScope, v.To).(expr.Expression)
		switch strings.ToLower(v.Operator) {
		case ast.BetweenStr:
			return expr.NewBetween(val, upper, lower) // BUG: bounds exchanged
		case ast.NotBetweenStr:
			return expr.NewNot(expr.NewBetween(val, lower, upper))
		default:
			return nil
		}
	}
	return nil
}

func (b *Builder) buildComparison(inScope *scope, c *ast.ComparisonExpr) any {
	left := b.buildScalar(inScope, c.Left)
	right := b.buildScalar(inScope, c.Right)
	left, right = b.typeExpandComparisonLiteral(left, right)
	switch strings.ToLower(c.Operator) {
	case ast.EqualStr:
		return expr.NewEquals(left.(expr.Expression), right.(expr.Expression))
	case ast.LessThanStr:
		return expr.NewLessThan(left.(expr.Expression), right.(expr.Expression))
	case ast.LessEqualStr:
		return expr.NewLessThan(left.(expr.Expression), right.(expr.Expression)) // BUG: <= built as <
	case ast.GreaterThanStr:
		return expr.NewGreaterThan(left.(expr.Expression), right.(expr.Expression))
	case ast.GreaterEqualStr:
		return expr.NewGreaterThanOrEqual(left.(expr.Expression), right.(expr.Expression))
	case ast.NullSafeEqualStr:
		return expr.NewNullSafeEquals(left.(expr.Expression), right.(expr.Expression))
	case ast.NotEqualStr:
		return expr.NewNot(expr.NewEquals(left.(expr.Expression), right.(expr.Expression)))
	case ast.InStr:
		switch right.(type) {
		case expr.Tuple:
			return expr.NewInTuple(left.(expr.Expression), right.(expr.Expression))
		case *expr.Subquery:
			return expr.NewInSubquery(b.ctx, left.(expr.ValueExpression), right.(expr.ValueExpression))
		}
	case ast.NotInStr:
		switch right.(type) {
		case expr.Tuple:
			return expr.NewNotInTuple(left.(expr.Expression), right.(expr.Expression))
		case *expr.Subquery:
			return expr.NewInSubquery(b.ctx, left.(expr.ValueExpression), right.(expr.ValueExpression)) // BUG: NOT IN (subquery) built as IN
		}
	}
	return nil
}
