// Package expr is the C06 fixture: a miniature of sql, sql/types, sql/hash and sql/expression in one
// package, with planted defects (marked BUG) that the C06 rules must report.
package expr

type Context struct{}
type Row []any

type Type interface{ Name() string }

type nullType struct{}

func (nullType) Name() string { return "null" }

var Null Type = nullType{}

func NumColumns(t Type) int { return 1 }

func IsBoolean(t Type) bool { return t != nil && t.Name() == "boolean" }

type Expression interface {
	Eval(ctx *Context, row Row) (any, error)
	Type(ctx *Context) Type
}

type errKind struct{ msg string }
type kindErr struct{ k *errKind }

func (e *kindErr) Error() string            { return e.k.msg }
func (k *errKind) New(args ...any) *kindErr { return &kindErr{k} }
func (k *errKind) Is(err error) bool {
	ke, ok := err.(*kindErr)
	return ok && ke.k == k
}

var ErrNilOperand = &errKind{"nil operand"}
var ErrUnsupportedInOperand = &errKind{"unsupported IN operand"}

type ConvertInRange byte

const (
	InRange ConvertInRange = iota
	Underflow
	Overflow
)

func HashOfSimple(ctx *Context, v any, t Type) (uint64, ConvertInRange, error) {
	return 0, InRange, nil
}

type Literal struct {
	v any
	t Type
}

func NewLiteral(v any, t Type) *Literal                    { return &Literal{v, t} }
func (l *Literal) Eval(ctx *Context, row Row) (any, error) { return l.v, nil }
func (l *Literal) Type(ctx *Context) Type                  { return l.t }

type Tuple []Expression

func (t Tuple) Eval(ctx *Context, row Row) (any, error) { return nil, nil }
func (t Tuple) Type(ctx *Context) Type                  { return nil }

type BinaryExpressionStub struct{ LeftChild, RightChild Expression }

type boolType struct{}

func (boolType) Name() string { return "boolean" }

// ---- comparisons -------------------------------------------------------------------------

type comparison struct{ BinaryExpressionStub }

func newComparison(l, r Expression) comparison { return comparison{BinaryExpressionStub{l, r}} }

func (c *comparison) Left() Expression       { return c.LeftChild }
func (c *comparison) Right() Expression      { return c.RightChild }
func (c *comparison) Type(ctx *Context) Type { return boolType{} }

func (c *comparison) evalLeftAndRight(ctx *Context, row Row) (any, any, error) {
	l, err := c.LeftChild.Eval(ctx, row)
	if err != nil {
		return nil, nil, err
	}
	r, err := c.RightChild.Eval(ctx, row)
	return l, r, err
}

func (c *comparison) Compare(ctx *Context, row Row) (int, error) {
	left, right, err := c.evalLeftAndRight(ctx, row)
	if err != nil {
		return 0, err
	}
	if left == nil && right == nil { // BUG: one NULL operand is compared as a value
		return 0, ErrNilOperand.New()
	}
	return 1, nil
}

type Equals struct{ comparison }
type GreaterThan struct{ comparison }
type LessThan struct{ comparison }
type GreaterThanOrEqual struct{ comparison }
type LessThanOrEqual struct{ comparison }

func NewEquals(l, r Expression) *Equals           { return &Equals{newComparison(l, r)} }
func NewGreaterThan(l, r Expression) *GreaterThan { return &GreaterThan{newComparison(l, r)} }
func NewLessThan(l, r Expression) *LessThan       { return &LessThan{newComparison(l, r)} }
func NewGreaterThanOrEqual(l, r Expression) *GreaterThanOrEqual {
	return &GreaterThanOrEqual{newComparison(l, r)}
}
func NewLessThanOrEqual(l, r Expression) *LessThanOrEqual {
	return &LessThanOrEqual{newComparison(l, r)}
}

func (e *Equals) Eval(ctx *Context, row Row) (any, error) {
	result, err := e.Compare(ctx, row)
	if err != nil {
		if ErrNilOperand.Is(err) {
			if result != 0 {
				return false, nil
			}
			return nil, nil
		}
		return nil, err
	}
	return result == 0, nil
}

func (e *GreaterThan) Eval(ctx *Context, row Row) (any, error) {
	result, err := e.Compare(ctx, row)
	if err != nil {
		if ErrNilOperand.Is(err) {
			return nil, nil
		}
		return nil, err
	}
	return result == 1, nil
}

func (e *LessThan) Eval(ctx *Context, row Row) (any, error) {
	result, err := e.Compare(ctx, row)
	if err != nil {
		if ErrNilOperand.Is(err) {
			return nil, nil
		}
		return nil, err
	}
	return result == -1, nil
}

func (e *GreaterThanOrEqual) Eval(ctx *Context, row Row) (any, error) {
	result, err := e.Compare(ctx, row)
	if err != nil {
		if ErrNilOperand.Is(err) {
			return nil, nil
		}
		return nil, err
	}
	return result > -1, nil
}

func (e *LessThanOrEqual) Eval(ctx *Context, row Row) (any, error) {
	result, err := e.Compare(ctx, row)
	if err != nil {
		if ErrNilOperand.Is(err) {
			return nil, nil
		}
		return nil, err
	}
	return result < 1, nil
}

// ---- connectives -------------------------------------------------------------------------

type And struct{ BinaryExpressionStub }
type Or struct{ BinaryExpressionStub }
type Not struct{ Child Expression }

func NewAnd(l, r Expression) *And { return &And{BinaryExpressionStub{l, r}} }
func NewOr(l, r Expression) *Or   { return &Or{BinaryExpressionStub{l, r}} }
func NewNot(c Expression) *Not    { return &Not{c} }

func (a *And) Type(ctx *Context) Type { return boolType{} }
func (a *Or) Type(ctx *Context) Type  { return boolType{} }
func (a *Not) Type(ctx *Context) Type { return boolType{} }

func (a *And) Eval(ctx *Context, row Row) (any, error) {
	l, err := a.LeftChild.Eval(ctx, row)
	if err != nil {
		return nil, err
	}
	if l == false {
		return false, nil
	}
	r, err := a.RightChild.Eval(ctx, row)
	if err != nil {
		return nil, err
	}
	if r == false {
		return false, nil
	}
	if l == nil || r == nil {
		return nil, nil
	}
	return true, nil
}

func (a *Or) Eval(ctx *Context, row Row) (any, error) {
	l, err := a.LeftChild.Eval(ctx, row)
	if err != nil {
		return nil, err
	}
	if l == true {
		return true, nil
	}
	r, err := a.RightChild.Eval(ctx, row)
	if err != nil {
		return nil, err
	}
	if r == true {
		return true, nil
	}
	if l == nil || r == nil {
		return nil, nil
	}
	return false, nil
}

func (a *Not) Eval(ctx *Context, row Row) (any, error) {
	v, err := a.Child.Eval(ctx, row)
	if err != nil || v == nil {
		return nil, err
	}
	return v == false, nil
}

// ---- BETWEEN -----------------------------------------------------------------------------

type Between struct{ Val, Lower, Upper Expression }

func NewBetween(v, lo, hi Expression) *Between { return &Between{v, lo, hi} }
func (b *Between) Type(ctx *Context) Type      { return boolType{} }

func (b *Between) Eval(ctx *Context, row Row) (any, error) {
	// BUG: the bounds are swapped (upper <= val AND lower >= val)
	return NewAnd(NewLessThanOrEqual(b.Upper, b.Val), NewGreaterThanOrEqual(b.Lower, b.Val)).Eval(ctx, row)
}

// ---- IN ----------------------------------------------------------------------------------

type InTuple struct{ BinaryExpressionStub }

func NewInTuple(l, r Expression) *InTuple      { return &InTuple{BinaryExpressionStub{l, r}} }
func NewNotInTuple(l, r Expression) Expression { return NewNot(NewInTuple(l, r)) }
func (in *InTuple) Left() Expression           { return in.LeftChild }
func (in *InTuple) Right() Expression          { return in.RightChild }
func (in *InTuple) Type(ctx *Context) Type     { return boolType{} }

func (in *InTuple) Eval(ctx *Context, row Row) (any, error) {
	lVal, err := in.Left().Eval(ctx, row)
	if err != nil {
		return nil, err
	}
	if lVal == nil {
		return nil, nil
	}
	lType := in.Left().Type(ctx)
	lLit := NewLiteral(lVal, lType)
	right, isTuple := in.Right().(Tuple)
	if !isTuple {
		return nil, ErrUnsupportedInOperand.New(right)
	}
	var rHasNull bool
	for _, el := range right {
		rType := el.Type(ctx)
		if rType == Null {
			rHasNull = true
			continue
		}
		rVal, rErr := el.Eval(ctx, row)
		if rErr != nil {
			return nil, rErr
		}
		if rVal == nil {
			continue // BUG: a NULL-valued element is skipped without remembering it
		}
		cmpExpr := newComparison(lLit, NewLiteral(rVal, rType))
		res, cErr := cmpExpr.Compare(ctx, nil)
		if cErr != nil {
			if res == 0 && ErrNilOperand.Is(cErr) {
				rHasNull = true
			}
			continue
		}
		if res == 0 {
			return true, nil
		}
	}
	if rHasNull {
		return nil, nil
	}
	return false, nil
}

type HashInTuple struct {
	in      *InTuple
	cmp     map[uint64]struct{}
	cmpType Type
	hasNull bool
}

func NewHashInTuple(ctx *Context, l, r Expression) (*HashInTuple, error) {
	tup, ok := r.(Tuple)
	if !ok {
		return nil, ErrUnsupportedInOperand.New(r)
	}
	cmp, cmpType, hasNull, err := newInMap(ctx, l.Type(ctx), tup)
	if err != nil {
		return nil, err
	}
	return &HashInTuple{in: NewInTuple(l, r), cmp: cmp, cmpType: cmpType, hasNull: hasNull}, nil
}

func IsEnum(t Type) bool { return false }
func IsSet(t Type) bool  { return false }

func GetCompareType(l, r Type) Type { return l }

func newInMap(ctx *Context, lType Type, right Tuple) (map[uint64]struct{}, Type, bool, error) {
	if lType == Null {
		return nil, nil, true, nil
	}
	if len(right) == 0 {
		return nil, nil, false, nil
	}
	rVals := make([]any, 0, len(right))
	var rHasNull bool
	for _, el := range right {
		rType := el.Type(ctx)
		if rType == Null {
			continue // BUG: a NULL literal in the list does not set the flag
		}
		rVal, err := el.Eval(ctx, nil)
		if err != nil {
			return nil, nil, false, err
		}
		if rVal == nil {
			rHasNull = true
			continue
		}
		rVals = append(rVals, rVal)
	}
	cmpType := GetCompareType(lType, right[0].Type(ctx))
	elements := map[uint64]struct{}{}
	for _, rVal := range rVals {
		key, inRange, err := HashOfSimple(ctx, rVal, cmpType)
		if err != nil {
			return nil, nil, false, err
		}
		if inRange == InRange {
			elements[key] = struct{}{}
		}
	}
	return elements, cmpType, rHasNull, nil
}

func (hit *HashInTuple) Type(ctx *Context) Type { return boolType{} }

func (hit *HashInTuple) Eval(ctx *Context, row Row) (any, error) {
	leftVal, err := hit.in.Left().Eval(ctx, row)
	if err != nil {
		return nil, err
	}
	if leftVal == nil {
		return nil, nil
	}
	key, inRange, err := HashOfSimple(ctx, leftVal, hit.cmpType)
	if err != nil {
		return nil, err
	}
	if inRange != InRange {
		if hit.hasNull {
			return nil, nil
		}
		return false, nil
	}
	if _, ok := hit.cmp[key]; ok {
		return true, nil
	}
	return false, nil // BUG: the NULL flag of the list is ignored
}

// ---- IN (subquery), EXISTS ---------------------------------------------------------------

type ValueType interface {
	Type
	Promote() ValueType
	Convert(ctx *Context, v any) (any, ConvertInRange, error)
	Compare(ctx *Context, a, b any) (int, error)
}

type ValueExpression interface {
	Eval(ctx *Context, row Row) (any, error)
	Type(ctx *Context) ValueType
}

type rowCache struct{ m map[uint64]any }

var errNotFound = &errKind{"not found"}

func (c *rowCache) Size() int { return len(c.m) }
func (c *rowCache) Get(k uint64) (any, error) {
	v, ok := c.m[k]
	if !ok {
		return nil, errNotFound.New()
	}
	return v, nil
}

func HashOf(ctx *Context, v any) (uint64, error) { return 0, nil }

var nilKey, _ = HashOf(nil, nil)

type Subquery struct{ typ ValueType }

func (s *Subquery) Eval(ctx *Context, row Row) (any, error)               { return nil, nil }
func (s *Subquery) Type(ctx *Context) ValueType                           { return s.typ }
func (s *Subquery) HashMultiple(ctx *Context, row Row) (*rowCache, error) { return &rowCache{}, nil }
func (s *Subquery) HasResultRow(ctx *Context, row Row) (bool, error)      { return false, nil }

type InSubquery struct {
	LeftChild, RightChild ValueExpression
}

func NewInSubquery(ctx *Context, l, r ValueExpression) *InSubquery { return &InSubquery{l, r} }
func (in *InSubquery) Type(ctx *Context) Type                      { return boolType{} }
func NewNotInSubquery(ctx *Context, l, r ValueExpression) Expression {
	return NewNot(NewInSubquery(ctx, l, r))
}

func (in *InSubquery) Eval(ctx *Context, row Row) (any, error) {
	typ := in.LeftChild.Type(ctx).Promote()
	left, err := in.LeftChild.Eval(ctx, row)
	if err != nil {
		return nil, err
	}
	leftNull := left == nil
	left, _, err = typ.Convert(ctx, left)
	if err != nil {
		return nil, err
	}
	switch right := in.RightChild.(type) {
	case *Subquery:
		rTyp := right.Type(ctx)
		values, err := right.HashMultiple(ctx, row)
		if err != nil {
			return nil, err
		}
		if leftNull {
			return nil, nil // BUG: NULL IN (no rows) is FALSE
		}
		key, err := HashOf(ctx, left)
		if err != nil {
			return nil, err
		}
		val, notFoundErr := values.Get(key)
		if notFoundErr != nil {
			if _, nilErr := values.Get(nilKey); nilErr == nil {
				return nil, nil
			}
			return false, nil
		}
		cmp, err := rTyp.Compare(ctx, left, val)
		if err != nil {
			return nil, err
		}
		return cmp == 0, nil
	default:
		return nil, ErrUnsupportedInOperand.New(right)
	}
}

type ExistsSubquery struct{ Query *Subquery }

func (e *ExistsSubquery) Type(ctx *Context) Type { return boolType{} }
func (e *ExistsSubquery) Eval(ctx *Context, row Row) (any, error) {
	has, err := e.Query.HasResultRow(ctx, row)
	if err != nil {
		return nil, err
	}
	return has, nil
}

type NullSafeEquals struct{ comparison }

func NewNullSafeEquals(l, r Expression) *NullSafeEquals { return &NullSafeEquals{newComparison(l, r)} }

func (e *NullSafeEquals) Compare(ctx *Context, row Row) (int, error) {
	left, right, err := e.evalLeftAndRight(ctx, row)
	if err != nil {
		return 0, err
	}
	if left == nil && right == nil {
		return 0, nil
	} else if left == nil {
		return 0, nil // BUG: NULL <=> value compares equal
	} else if right == nil {
		return -1, nil
	}
	return 1, nil
}

func (e *NullSafeEquals) Eval(ctx *Context, row Row) (any, error) {
	result, err := e.Compare(ctx, row)
	if err != nil {
		return nil, err
	}
	return result == 0, nil
}

type GetField struct{ table, name string }

func (g *GetField) Eval(ctx *Context, row Row) (any, error) { return nil, nil }
func (g *GetField) Type(ctx *Context) Type                  { return nil }
func (g *GetField) IsSameField(o *GetField) bool            { return g.table == o.table && g.name == o.name }

func (l *Literal) Value() any { return l.v }
func NewTrue() *Literal       { return NewLiteral(true, boolType{}) }
func NewFalse() *Literal      { return NewLiteral(false, boolType{}) }

func ConvertToBool(ctx *Context, v any) (bool, error) {
	b, _ := v.(bool)
	return b, nil
}
