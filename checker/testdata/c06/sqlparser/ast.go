// Package sqlparser is the parser half of the C06 fixture.
package sqlparser

type Expr interface{ isExpr() }

type ComparisonExpr struct {
	Left, Right, Escape Expr
	Operator            string
}

type RangeCond struct {
	Left, From, To Expr
	Operator       string
}

func (*ComparisonExpr) isExpr() {}
func (*RangeCond) isExpr()      {}

const (
	EqualStr         = "="
	LessThanStr      = "<"
	GreaterThanStr   = ">"
	LessEqualStr     = "<="
	GreaterEqualStr  = ">="
	NotEqualStr      = "!="
	NullSafeEqualStr = "<=>"
	InStr            = "in"
	NotInStr         = "not in"
)

const (
	BetweenStr    = "between"
	NotBetweenStr = "not between"
)
