// Package proc is the C24 fixture: a miniature procedure compiler/interpreter with one violation per rule.
package proc

type OpCode uint16

const (
	OpCode_Exec OpCode = iota
	OpCode_Goto
	OpCode_ScopeBegin
	OpCode_ScopeEnd
	OpCode_Halt
)

type InterpreterOperation struct {
	Target string
	Index  int
	OpCode OpCode
}

type InterpreterStack struct {
	labels map[string]int
	depth  int
}

func (s *InterpreterStack) NewLabel(name string, i int) { s.labels[name] = i }
func (s *InterpreterStack) GetLabel(name string) int {
	if i, ok := s.labels[name]; ok {
		return i
	}
	return -1
}
func (s *InterpreterStack) PushScope() { s.depth++ }
func (s *InterpreterStack) PopScope()  { s.depth-- }

type Stmt interface{}
type Block struct {
	Label string
	Stmts []Stmt
	Empty bool
}
type While struct {
	Label string
	Stmts []Stmt
}
type Loop struct {
	Label string
	Stmts []Stmt
}
type If struct{ Stmts []Stmt }
type Iterate struct{ Label string }
type Leave struct{ Label string }
type Halt struct{}

func resolveGoToIndexes(ops *[]*InterpreterOperation, label string, start, end, loopStart, loopEnd int) {
	for idx := start; idx < end; idx++ {
		op := (*ops)[idx]
		switch op.OpCode {
		case OpCode_Goto:
			if op.Target != label {
				continue
			}
			switch op.Index {
			case -1:
				op.Index = loopStart
			case -2:
				op.Index = loopEnd
			}
		}
	}
}

func ConvertStmt(ops *[]*InterpreterOperation, stack *InterpreterStack, stmt Stmt) error {
	switch s := stmt.(type) {
	case *Block:
		startOp := &InterpreterOperation{OpCode: OpCode_ScopeBegin, Target: s.Label}
		*ops = append(*ops, startOp)
		if s.Empty {
			return nil // O3: leaves the arm without the matching ScopeEnd
		}
		for _, ss := range s.Stmts {
			if err := ConvertStmt(ops, stack, ss); err != nil {
				return err
			}
		}
		endOp := &InterpreterOperation{OpCode: OpCode_ScopeEnd, Target: s.Label}
		*ops = append(*ops, endOp)
	case *While: // O5: the label is never registered
		loopStart := len(*ops)
		for _, ss := range s.Stmts {
			if err := ConvertStmt(ops, stack, ss); err != nil {
				return err
			}
		}
		gotoOp := &InterpreterOperation{OpCode: OpCode_Goto, Index: loopStart}
		*ops = append(*ops, gotoOp)
		resolveGoToIndexes(ops, s.Label, loopStart, len(*ops), loopStart, len(*ops))
	case *Loop:
		loopStart := len(*ops)
		if s.Label != "" {
			stack.NewLabel(s.Label, loopStart)
		}
		for _, ss := range s.Stmts {
			if err := ConvertStmt(ops, stack, ss); err != nil {
				return err
			}
		}
		gotoOp := &InterpreterOperation{OpCode: OpCode_Goto, Target: s.Label, Index: loopStart}
		*ops = append(*ops, gotoOp)
		resolveGoToIndexes(ops, s.Label, loopStart, len(*ops), loopStart, len(*ops))
	case *If: // O4: the goto's Index is never set
		gotoOp := &InterpreterOperation{OpCode: OpCode_Goto}
		*ops = append(*ops, gotoOp)
		for _, ss := range s.Stmts {
			if err := ConvertStmt(ops, stack, ss); err != nil {
				return err
			}
		}
	case *Iterate:
		*ops = append(*ops, &InterpreterOperation{OpCode: OpCode_Goto, Target: s.Label, Index: stack.GetLabel(s.Label)})
	case *Leave: // O4: -3 is not a case of the resolver
		*ops = append(*ops, &InterpreterOperation{OpCode: OpCode_Goto, Target: s.Label, Index: -3})
	case *Halt: // O1: not handled by execOp
		*ops = append(*ops, &InterpreterOperation{OpCode: OpCode_Halt})
	default:
		*ops = append(*ops, &InterpreterOperation{OpCode: OpCode_Exec})
	}
	return nil
}

func execOp(stack *InterpreterStack, operation *InterpreterOperation, statements []*InterpreterOperation, counter int) int {
	switch operation.OpCode {
	case OpCode_Exec:
	case OpCode_Goto:
		if counter <= operation.Index {
			for ; counter < operation.Index-1; counter++ {
				switch statements[counter].OpCode {
				case OpCode_ScopeBegin:
					stack.PushScope()
				case OpCode_ScopeEnd:
					stack.PopScope()
				}
			}
		} else {
			for ; counter > operation.Index-1; counter-- {
				switch statements[counter].OpCode {
				case OpCode_ScopeBegin:
					stack.PopScope()
				case OpCode_ScopeEnd:
					stack.PopScope() // O6: must push
				}
			}
		}
	case OpCode_ScopeBegin:
		stack.PushScope()
	case OpCode_ScopeEnd:
		stack.PopScope()
	default:
		panic("unimplemented opcode")
	}
	return counter
}
