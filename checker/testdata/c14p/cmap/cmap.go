// Package cmap is a checker fixture for C14-P: the keyed container of the pending edits.
package cmap

type Map[K comparable, V any] struct{ m map[K]V }

func New[K comparable, V any]() *Map[K, V] { return &Map[K, V]{m: map[K]V{}} }

func (m *Map[K, V]) Set(k K, v V) { m.m[k] = v }

func (m *Map[K, V]) Del(k K) { delete(m.m, k) }

func (m *Map[K, V]) Get(k K) (V, bool) { v, ok := m.m[k]; return v, ok }

func (m *Map[K, V]) Foreach(f func(K, V) error) error {
	for k, v := range m.m {
		if err := f(k, v); err != nil {
			return err
		}
	}
	return nil
}

func (m *Map[K, V]) FindForeach(f func(K, V) bool) (K, V, bool) {
	for k, v := range m.m {
		if f(k, v) {
			return k, v, true
		}
	}
	var k K
	var v V
	return k, v, false
}
