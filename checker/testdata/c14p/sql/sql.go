// Package sql is a checker fixture for C14-P: rows with a typed equality.
package sql

type Row []any

func (r Row) Equals(o Row) (bool, error) { return len(r) == len(o), nil }
