// Package mem is a checker fixture for C14-P: two edit accumulators whose readers disagree with
// their writers about the pending edits.
package mem

import (
	"vchk/testdata/c14p/cmap"
	"vchk/testdata/c14p/sql"
)

type TableData struct {
	partitions map[string][]sql.Row
}

type accumulator interface {
	Insert(r sql.Row) error
	Delete(r sql.Row) error
	Get(r sql.Row) (sql.Row, bool, error)
	GetByCols(r sql.Row, cols []int) (sql.Row, bool, error)
	ApplyEdits() error
}

func columnsMatch(cols []int, a, b sql.Row) bool { return len(a) == len(b) }

// ---- keyed ------------------------------------------------------------------------------------

type keyedAcc struct {
	data    *TableData
	adds    *cmap.Map[string, sql.Row]
	deletes *cmap.Map[string, sql.Row]
}

func (k *keyedAcc) key(r sql.Row) string { return "k" }

func (k *keyedAcc) Insert(r sql.Row) error {
	k.adds.Set(k.key(r), r) // leaves the key in deletes
	return nil
}

func (k *keyedAcc) Delete(r sql.Row) error {
	key := k.key(r)
	k.adds.Del(key)
	k.deletes.Set(key, r)
	return nil
}

// BUG: deletes are consulted first although Insert leaves a re-inserted key in both maps.
func (k *keyedAcc) Get(r sql.Row) (sql.Row, bool, error) {
	key := k.key(r)
	if row, ok := k.deletes.Get(key); ok {
		return row, false, nil
	}
	if row, ok := k.adds.Get(key); ok {
		return row, true, nil
	}
	for _, part := range k.data.partitions {
		for _, row := range part {
			if columnsMatch(nil, row, r) {
				return row, true, nil
			}
		}
	}
	return nil, false, nil
}

func (k *keyedAcc) GetByCols(r sql.Row, cols []int) (sql.Row, bool, error) {
	if _, row, ok := k.adds.FindForeach(func(_ string, x sql.Row) bool { return columnsMatch(cols, x, r) }); ok {
		return row, true, nil
	}
	if _, _, ok := k.deletes.FindForeach(func(_ string, x sql.Row) bool { return columnsMatch(cols, x, r) }); ok {
		return nil, false, nil
	}
	for _, part := range k.data.partitions {
		for _, row := range part {
			if columnsMatch(cols, row, r) {
				return row, true, nil
			}
		}
	}
	return nil, false, nil
}

// BUG: the adds are applied before the deletes, so a re-inserted key ends up deleted.
func (k *keyedAcc) ApplyEdits() error {
	if err := k.adds.Foreach(func(_ string, r sql.Row) error { return k.insertHelper(r) }); err != nil {
		return err
	}
	return k.deletes.Foreach(func(_ string, r sql.Row) error { return k.deleteHelper(r) })
}

func (k *keyedAcc) insertHelper(r sql.Row) error {
	k.data.partitions["p"] = append(k.data.partitions["p"], r)
	return nil
}

func (k *keyedAcc) deleteHelper(r sql.Row) error {
	k.data.partitions["p"] = nil
	return nil
}

// ---- keyless ----------------------------------------------------------------------------------

type listAcc struct {
	data    *TableData
	adds    []sql.Row
	deletes []sql.Row
}

func (l *listAcc) Insert(r sql.Row) error {
	for i, d := range l.deletes {
		if eq, err := r.Equals(d); err != nil {
			return err
		} else if eq {
			l.deletes = append(l.deletes[:i], l.deletes[i+1:]...)
			return nil
		}
	}
	l.adds = append(l.adds, r)
	return nil
}

// BUG: a pending add of the same row is not cancelled, the delete is queued against the stored rows.
func (l *listAcc) Delete(r sql.Row) error {
	l.deletes = append(l.deletes, r)
	return nil
}

func (l *listAcc) Get(r sql.Row) (sql.Row, bool, error) { return nil, false, nil }

func (l *listAcc) GetByCols(r sql.Row, cols []int) (sql.Row, bool, error) {
	n := 0
	for _, d := range l.deletes {
		if columnsMatch(cols, d, r) {
			n++
		}
	}
	for _, part := range l.data.partitions {
		for _, row := range part {
			if columnsMatch(cols, row, r) {
				if n == 0 {
					return row, true, nil
				}
				n--
			}
		}
	}
	for _, a := range l.adds {
		if columnsMatch(cols, a, r) {
			if n == 0 {
				return a, true, nil
			}
			n--
		}
	}
	return nil, false, nil
}

func (l *listAcc) ApplyEdits() error {
	for _, d := range l.deletes {
		if err := l.deleteHelper(d); err != nil {
			return err
		}
	}
	for _, a := range l.adds {
		if err := l.insertHelper(a); err != nil {
			return err
		}
	}
	return nil
}

func (l *listAcc) insertHelper(r sql.Row) error {
	l.data.partitions["p"] = append(l.data.partitions["p"], r)
	return nil
}

func (l *listAcc) deleteHelper(r sql.Row) error { return nil }

var _, _ accumulator = (*keyedAcc)(nil), (*listAcc)(nil)
