// Package exec is a checker fixture: a DML iterator whose stores skip validations.
package exec

import (
	"errors"

	"vchk/testdata/c19/sql"
)

type writer struct {
	src      sql.RowIter
	inserter sql.RowInserter
	updater  sql.RowUpdater
	checks   sql.CheckConstraints
	schema   sql.Schema
	mode     int
}

func NewWriter(src sql.RowIter, ins sql.RowInserter, upd sql.RowUpdater, checks sql.CheckConstraints, sch sql.Schema) *writer {
	return &writer{src: src, inserter: ins, updater: upd, checks: checks, schema: sch}
}

// NewBadWriter forgets the checks. BUG.
func NewBadWriter(src sql.RowIter, ins sql.RowInserter, upd sql.RowUpdater, sch sql.Schema) *writer {
	return &writer{src: src, inserter: ins, updater: upd, schema: sch}
}

func (w *writer) evalChecks(ctx *sql.Context, row sql.Row) error {
	for _, check := range w.checks {
		if !check.Enforced {
			continue
		}
		res, err := sql.EvaluateCondition(ctx, check.Expr, row)
		if err != nil {
			return err
		}
		if sql.IsFalse(res) {
			return errors.New("check violated: " + check.Name)
		}
	}
	return nil
}

// softChecks only notes a FALSE check. BUG (shape).
func (w *writer) softChecks(ctx *sql.Context, row sql.Row) error {
	for _, check := range w.checks {
		res, err := sql.EvaluateCondition(ctx, check.Expr, row)
		if err != nil {
			return err
		}
		if sql.IsFalse(res) {
			continue
		}
	}
	return nil
}

func (w *writer) validateNullability(ctx *sql.Context, sch sql.Schema, row sql.Row) error {
	for i, col := range sch {
		if !col.Nullable && row[i] == nil {
			return errors.New("null in " + col.Name)
		}
	}
	return nil
}

func (w *writer) Next(ctx *sql.Context) (sql.Row, error) {
	row, err := w.src.Next(ctx)
	if err != nil {
		return nil, err
	}
	switch w.mode {
	case 1:
		return w.upsert(ctx, row, row)
	case 2:
		return w.replace(ctx, row)
	case 3:
		return w.good(ctx, row)
	}
	if err := w.evalChecks(ctx, row); err != nil {
		return nil, err
	}
	// BUG: no nullability validation
	if err := w.inserter.Insert(ctx, row); err != nil {
		return nil, err
	}
	return row, nil
}

func (w *writer) good(ctx *sql.Context, row sql.Row) (sql.Row, error) {
	err := w.validateNullability(ctx, w.schema, row)
	if err != nil {
		return nil, err
	}
	if err = w.evalChecks(ctx, row); err != nil {
		return nil, err
	}
	row = normalize(row)
	return row, w.inserter.Insert(ctx, row)
}

func normalize(r sql.Row) sql.Row { return r }

// upsert validates the incoming row but stores a different one. BUG.
func (w *writer) upsert(ctx *sql.Context, old, row sql.Row) (sql.Row, error) {
	if err := w.validateNullability(ctx, w.schema, row); err != nil {
		return nil, err
	}
	if err := w.evalChecks(ctx, row); err != nil {
		return nil, err
	}
	merged := append(sql.Row{}, old...)
	merged[0] = row[0]
	if err := w.updater.Update(ctx, old, merged); err != nil {
		return nil, err
	}
	return merged, nil
}

// replace ignores the result of the check evaluation. BUG.
func (w *writer) replace(ctx *sql.Context, row sql.Row) (sql.Row, error) {
	if err := w.validateNullability(ctx, w.schema, row); err != nil {
		return nil, err
	}
	_ = w.evalChecks(ctx, row)
	if err := w.inserter.Insert(ctx, row); err != nil {
		return nil, err
	}
	return row, nil
}

func (w *writer) Close(ctx *sql.Context) error { return w.inserter.Close(ctx) }
