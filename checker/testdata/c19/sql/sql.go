// Package sql is a checker fixture: rows, columns, check constraints and editors.
package sql

type Row []any

type Column struct {
	Name     string
	Nullable bool
	// Generated / OnUpdate are used by the C19-G* fixtures (testdata/c19/build, gexec).
	Generated *ColumnDefaultValue
	OnUpdate  *ColumnDefaultValue
}

// ColumnDefaultValue is an expression attached to a column definition.
type ColumnDefaultValue struct{ Expr Expression }

func (d *ColumnDefaultValue) Eval(r Row) (any, error) { return d.Expr.Eval(r) }

// Equals compares two rows under a schema.
func (r Row) Equals(ctx *Context, o Row, s Schema) (bool, error) {
	if len(r) != len(o) {
		return false, nil
	}
	for i := range r {
		if r[i] != o[i] {
			return false, nil
		}
	}
	return true, nil
}

type Schema []*Column

type Expression interface{ Eval(r Row) (any, error) }

type CheckConstraint struct {
	Expr     Expression
	Name     string
	Enforced bool
}

type CheckConstraints []*CheckConstraint

func EvaluateCondition(ctx *Context, cond Expression, row Row) (any, error) { return cond.Eval(row) }

func IsFalse(v any) bool { b, ok := v.(bool); return ok && !b }

type Context struct{}

type RowIter interface {
	Next(ctx *Context) (Row, error)
	Close(ctx *Context) error
}

type EditOpenerCloser interface {
	StatementBegin(ctx *Context)
	DiscardChanges(ctx *Context, cause error) error
	StatementComplete(ctx *Context) error
}

type RowInserter interface {
	EditOpenerCloser
	Insert(ctx *Context, r Row) error
	Close(ctx *Context) error
}

type RowUpdater interface {
	EditOpenerCloser
	Update(ctx *Context, old, new Row) error
	Close(ctx *Context) error
}
