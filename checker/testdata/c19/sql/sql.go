// Package sql is a checker fixture: rows, columns, check constraints and editors.
package sql

type Row []any

type Column struct {
	Name     string
	Nullable bool
}

type Schema []*Column

type Expression interface{ Eval(r Row) (any, error) }

type CheckConstraint struct {
	Expr     Expression
	Name     string
	Enforced bool
}

type CheckConstraints []*CheckConstraint

func EvaluateCondition(ctx *Context, cond Expression, row Row) (any, error) { return cond.Eval(row) }

func IsFalse(v any) bool { b, ok := v.(bool); return ok && !b }

type Context struct{}

type RowIter interface {
	Next(ctx *Context) (Row, error)
	Close(ctx *Context) error
}

type EditOpenerCloser interface {
	StatementBegin(ctx *Context)
	DiscardChanges(ctx *Context, cause error) error
	StatementComplete(ctx *Context) error
}

type RowInserter interface {
	EditOpenerCloser
	Insert(ctx *Context, r Row) error
	Close(ctx *Context) error
}

type RowUpdater interface {
	EditOpenerCloser
	Update(ctx *Context, old, new Row) error
	Close(ctx *Context) error
}
