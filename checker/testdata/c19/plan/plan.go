// Package plan is a checker fixture: the explicit|derived container of update expressions.
package plan

import "vchk/testdata/c19/sql"

type UpdateExprs struct {
	exprs       []sql.Expression
	numExplicit int
}

func NewUpdateExprs(exprs []sql.Expression, numExplicit int) *UpdateExprs {
	return &UpdateExprs{exprs: exprs, numExplicit: numExplicit}
}

func (ue *UpdateExprs) All() []sql.Expression {
	if ue == nil {
		return nil
	}
	return ue.exprs
}

func (ue *UpdateExprs) Explicit() []sql.Expression { return ue.exprs[:ue.numExplicit] }

func (ue *UpdateExprs) Derived() []sql.Expression { return ue.exprs[ue.numExplicit:] }

func (ue *UpdateExprs) HasDerived() bool { return ue != nil && len(ue.exprs) > ue.numExplicit }

// Tail drops the first expression whatever the split is. BUG (C19-G2 partition).
func (ue *UpdateExprs) Tail() []sql.Expression { return ue.exprs[1:] }

// Reset moves the split after construction. BUG (C19-G2 split-index-written).
func (ue *UpdateExprs) Reset() { ue.numExplicit = 0 }
