// Package expr is a checker fixture: the SetField expression of the C19-G* clauses.
package expr

import "vchk/testdata/c19/sql"

type GetField struct {
	Idx  int
	Name string
}

func (g *GetField) Eval(r sql.Row) (any, error) { return r[g.Idx], nil }

type SetField struct {
	Left  sql.Expression
	Right sql.Expression
}

func NewSetField(left, right sql.Expression) sql.Expression {
	return &SetField{Left: left, Right: right}
}

// Eval returns a copy of the row with the field replaced.
func (s *SetField) Eval(r sql.Row) (any, error) {
	v, err := s.Right.Eval(r)
	if err != nil {
		return nil, err
	}
	out := append(sql.Row{}, r...)
	out[s.Left.(*GetField).Idx] = v
	return out, nil
}
