// Package gexec is a checker fixture: appliers of update expressions (C19-G3 / C19-G4).
package gexec

import (
	"vchk/testdata/c19/plan"
	"vchk/testdata/c19/sql"
)

var lenient bool

// repair zeroes the first nil cell (stands in for the IGNORE conversion of an offending value).
func repair(r sql.Row) sql.Row {
	for i := range r {
		if r[i] == nil {
			r[i] = 0
			break
		}
	}
	return r
}

// applyGood: explicit half, then – if there are derived expressions and the row changed – the derived half.
func applyGood(ctx *sql.Context, ue *plan.UpdateExprs, sch sql.Schema, row sql.Row) (sql.Row, error) {
	before := row
	for _, e := range ue.Explicit() {
		val, err := e.Eval(row)
		if err != nil {
			if !lenient {
				return nil, err
			}
			cpy := append(sql.Row{}, row...)
			val = repair(cpy)
		}
		row = val.(sql.Row)
	}
	if !ue.HasDerived() {
		return row, nil
	}
	same, err := before.Equals(ctx, row, sch)
	if err != nil {
		return nil, err
	}
	if same {
		return row, nil
	}
	for _, e := range ue.Derived() {
		val, err := e.Eval(row)
		if err != nil {
			return nil, err
		}
		row = val.(sql.Row)
	}
	return row, nil
}

// applyStale evaluates the derived half over the row as it was before the assignments and
// returns that old row. BUG (C19-G3 derived-loop).
func applyStale(ctx *sql.Context, ue *plan.UpdateExprs, sch sql.Schema, row sql.Row) (sql.Row, error) {
	before := row
	for _, e := range ue.Explicit() {
		val, err := e.Eval(row)
		if err != nil {
			return nil, err
		}
		row = val.(sql.Row)
	}
	for _, e := range ue.Derived() {
		val, err := e.Eval(before)
		if err != nil {
			return nil, err
		}
		row = val.(sql.Row)
	}
	return row, nil
}

type upserter struct {
	exprs   *plan.UpdateExprs
	schema  sql.Schema
	updater sql.RowUpdater
	strict  bool
}

func (u *upserter) applyAll(list []sql.Expression, acc sql.Row) (sql.Row, error) {
	for _, e := range list {
		val, err := e.Eval(acc)
		if err != nil {
			return nil, err
		}
		acc = val.(sql.Row)
	}
	return acc, nil
}

// upsertGood is the correct call-form applier.
func (u *upserter) upsertGood(ctx *sql.Context, old, proposed sql.Row) (sql.Row, error) {
	acc, err := u.applyAll(u.exprs.Explicit(), append(old, proposed...))
	if err != nil {
		return nil, err
	}
	merged := acc[:len(old)]
	if u.exprs.HasDerived() {
		if same, err := old.Equals(ctx, merged, u.schema); err != nil {
			return nil, err
		} else if !same {
			acc, err = u.applyAll(u.exprs.Derived(), acc)
			if err != nil {
				return nil, err
			}
			merged = acc[:len(old)]
		}
	}
	if err := u.updater.Update(ctx, old, merged); err != nil {
		return nil, err
	}
	return merged, nil
}

// upsertBad compares the stored row with the proposed row, applies the derived half only in
// strict mode, and stores the row as it was before the derived half. BUG (C19-G4 ×2, C19-G3 result).
func (u *upserter) upsertBad(ctx *sql.Context, old, proposed sql.Row) (sql.Row, error) {
	acc, err := u.applyAll(u.exprs.Explicit(), append(old, proposed...))
	if err != nil {
		return nil, err
	}
	merged := acc[:len(old)]
	if u.exprs.HasDerived() && u.strict {
		if same, err := old.Equals(ctx, proposed, u.schema); err != nil {
			return nil, err
		} else if !same {
			acc, err = u.applyAll(u.exprs.Derived(), acc)
			if err != nil {
				return nil, err
			}
		}
	}
	if err := u.updater.Update(ctx, old, merged); err != nil {
		return nil, err
	}
	return merged, nil
}

// upsertRestart applies the derived half to the pre-assignment rows again. BUG (C19-G3 derived-after-explicit).
func (u *upserter) upsertRestart(ctx *sql.Context, old, proposed sql.Row) (sql.Row, error) {
	acc, err := u.applyAll(u.exprs.Explicit(), append(old, proposed...))
	if err != nil {
		return nil, err
	}
	if u.exprs.HasDerived() {
		acc, err = u.applyAll(u.exprs.Derived(), append(old, proposed...))
		if err != nil {
			return nil, err
		}
	}
	merged := acc[:len(old)]
	if err := u.updater.Update(ctx, old, merged); err != nil {
		return nil, err
	}
	return merged, nil
}

// applyLenient repairs a failed evaluation in the proposed row, which then takes the place of the
// row being updated. BUG (C19-G3 repair-from-accumulator).
func (u *upserter) applyLenient(list []sql.Expression, acc, proposed sql.Row) (sql.Row, error) {
	for _, e := range list {
		val, err := e.Eval(acc)
		if err != nil {
			val = repair(proposed)
		}
		acc = val.(sql.Row)
	}
	return acc, nil
}

// upsertLenient is a correct applier on top of the broken loop function.
func (u *upserter) upsertLenient(ctx *sql.Context, old, proposed sql.Row) (sql.Row, error) {
	acc, err := u.applyLenient(u.exprs.Explicit(), append(old, proposed...), proposed)
	if err != nil {
		return nil, err
	}
	if u.exprs.HasDerived() {
		acc, err = u.applyLenient(u.exprs.Derived(), acc, proposed)
		if err != nil {
			return nil, err
		}
	}
	merged := acc[:len(old)]
	if err := u.updater.Update(ctx, old, merged); err != nil {
		return nil, err
	}
	return merged, nil
}

// applyFlat evaluates the unsplit list. BUG (C19-G3 reads-unsplit-expressions).
func applyFlat(ue *plan.UpdateExprs, row sql.Row) (sql.Row, error) {
	for _, e := range ue.All() {
		val, err := e.Eval(row)
		if err != nil {
			return nil, err
		}
		row = val.(sql.Row)
	}
	return row, nil
}
