// Package build is a checker fixture: dependent-expression builders of the C19-G* clauses.
package build

import (
	"strings"

	"vchk/testdata/c19/expr"
	"vchk/testdata/c19/plan"
	"vchk/testdata/c19/sql"
)

func colRef(i int, c *sql.Column) sql.Expression { return &expr.GetField{Idx: i, Name: c.Name} }

// isAssigned: true iff an assignment of the list names the column.
func isAssigned(col *sql.Column, list []sql.Expression) bool {
	for _, e := range list {
		sf, ok := e.(*expr.SetField)
		if !ok {
			continue
		}
		gf, ok := sf.Left.(*expr.GetField)
		if !ok {
			continue
		}
		if strings.EqualFold(gf.Name, col.Name) {
			return true
		}
	}
	return false
}

// neverAssigned has the signature of the predicate but not its meaning. BUG (C19-G1 assigned-predicate).
func neverAssigned(col *sql.Column, list []sql.Expression) bool {
	for _, e := range list {
		sf, ok := e.(*expr.SetField)
		if !ok {
			continue
		}
		gf, ok := sf.Left.(*expr.GetField)
		if ok && gf.Name == col.Name {
			continue
		}
	}
	return false
}

// addDependent is the correct builder: generated columns always, ON UPDATE unless assigned.
func addDependent(sch sql.Schema, assignments []sql.Expression) []sql.Expression {
	for i, col := range sch {
		var d *sql.ColumnDefaultValue
		if col.Generated != nil {
			d = col.Generated
		} else if col.OnUpdate != nil && !isAssigned(col, assignments) {
			d = col.OnUpdate
		}
		if d == nil {
			continue
		}
		assignments = append(assignments, expr.NewSetField(colRef(i, col), d))
	}
	return assignments
}

// addDependentHoisted applies the "already assigned" guard to both arms. BUG (C19-G1 generated-recompute).
func addDependentHoisted(sch sql.Schema, assignments []sql.Expression) []sql.Expression {
	for i, col := range sch {
		if col.Generated == nil && col.OnUpdate == nil {
			continue
		}
		if isAssigned(col, assignments) {
			continue
		}
		var d *sql.ColumnDefaultValue
		if col.Generated != nil {
			d = col.Generated
		} else {
			d = col.OnUpdate
		}
		assignments = append(assignments, expr.NewSetField(colRef(i, col), d))
	}
	return assignments
}

// addDependentSwapped guards the wrong arm, puts the derived expressions first, and relies on a
// predicate that never answers "assigned". BUG (C19-G1 ×2, C19-G2 appends-after-assignments).
func addDependentSwapped(sch sql.Schema, assignments []sql.Expression, active bool) []sql.Expression {
	if !active {
		return assignments
	}
	for i, col := range sch {
		if col.Generated != nil {
			if !isAssigned(col, assignments) {
				assignments = append([]sql.Expression{expr.NewSetField(colRef(i, col), col.Generated)}, assignments...)
			}
		} else if col.OnUpdate != nil {
			assignments = append(assignments, expr.NewSetField(colRef(i, col), col.OnUpdate))
		}
	}
	return assignments
}

// addDependentBlind asks a predicate whose meaning is wrong. BUG (reported on the predicate; the ON UPDATE arm is undecided).
func addDependentBlind(sch sql.Schema, assignments []sql.Expression) []sql.Expression {
	for i, col := range sch {
		if col.Generated != nil {
			assignments = append(assignments, expr.NewSetField(colRef(i, col), col.Generated))
		} else if col.OnUpdate != nil && !neverAssigned(col, assignments) {
			assignments = append(assignments, expr.NewSetField(colRef(i, col), col.OnUpdate))
		}
	}
	return assignments
}

type assignment struct {
	col int
	val sql.Expression
}

// ToUpdateExprs is the correct construction site.
func ToUpdateExprs(sch sql.Schema, as []assignment) *plan.UpdateExprs {
	explicit := make([]sql.Expression, len(as))
	for i, a := range as {
		explicit[i] = expr.NewSetField(colRef(a.col, sch[a.col]), a.val)
	}
	return plan.NewUpdateExprs(addDependent(sch, explicit), len(as))
}

// ToUpdateExprsNoDerived skips the builder. BUG (C19-G2).
func ToUpdateExprsNoDerived(sch sql.Schema, as []assignment) *plan.UpdateExprs {
	explicit := make([]sql.Expression, len(as))
	for i, a := range as {
		explicit[i] = expr.NewSetField(colRef(a.col, sch[a.col]), a.val)
	}
	return plan.NewUpdateExprs(explicit, len(as))
}

// ToUpdateExprsWrongSplit counts the schema instead of the assignments. BUG (C19-G2).
func ToUpdateExprsWrongSplit(sch sql.Schema, as []assignment) *plan.UpdateExprs {
	explicit := make([]sql.Expression, len(as))
	for i, a := range as {
		explicit[i] = expr.NewSetField(colRef(a.col, sch[a.col]), a.val)
	}
	all := addDependentHoisted(sch, explicit)
	return plan.NewUpdateExprs(all, len(sch))
}
