// Package coerce is the fixture of C25-K3: binary operators that choose one computation type for both
// operands and coerce the evaluated values to it.
package coerce

import "vchk/testdata/c25/tys"

type Expr interface {
	Eval(row []any) (any, error)
	Type() tys.Type
}

type Bin struct{ Left, Right Expr }

func (b *Bin) evalLeftRight(row []any) (any, any, error) {
	l, err := b.Left.Eval(row)
	if err != nil {
		return nil, nil, err
	}
	r, err := b.Right.Eval(row)
	if err != nil {
		return nil, nil, err
	}
	return l, r, nil
}

// convertValueToType keeps what Convert returns, whatever it says about the range.
func convertValueToType(ctx int, typ tys.Type, val any, isTime bool) any {
	cval, _, _ := typ.Convert(val)
	return cval
}

func toDecimal(val any) any { return val }

func kernel(l, r any) (any, error) { return l, nil }

// ---- GoodDiv: unsigned only when BOTH operand types are unsigned

type GoodDiv struct{ Bin }

func (d *GoodDiv) Type() tys.Type { return tys.Int64 }
func (d *GoodDiv) Eval(row []any) (any, error) {
	l, r, err := d.evalLeftRight(row)
	if err != nil {
		return nil, err
	}
	l, r = d.convertLeftRight(l, r)
	return kernel(l, r)
}

func (d *GoodDiv) convertLeftRight(left, right any) (any, any) {
	var typ tys.Type
	lTyp, rTyp := d.Left.Type(), d.Right.Type()
	if tys.IsText(lTyp) || tys.IsText(rTyp) {
		typ = tys.Float64
	} else if tys.IsUnsigned(lTyp) && tys.IsUnsigned(rTyp) {
		typ = tys.Uint64
	} else if tys.IsSigned(lTyp) && tys.IsSigned(rTyp) {
		typ = tys.Int64
	} else {
		typ = tys.Decimal()
	}
	if tys.IsInteger(typ) || tys.IsFloat(typ) {
		left = convertValueToType(0, typ, left, false)
		right = convertValueToType(0, typ, right, false)
	} else {
		left, right = toDecimal(left), toDecimal(right)
	}
	return left, right
}

// ---- OrDiv: unsigned as soon as ONE operand type is unsigned

type OrDiv struct{ Bin }

func (d *OrDiv) Type() tys.Type { return tys.Int64 }
func (d *OrDiv) Eval(row []any) (any, error) {
	l, r, err := d.evalLeftRight(row)
	if err != nil {
		return nil, err
	}
	l, r = d.convertLeftRight(l, r)
	return kernel(l, r)
}

func (d *OrDiv) convertLeftRight(left, right any) (any, any) {
	var typ tys.Type
	lTyp, rTyp := d.Left.Type(), d.Right.Type()
	if tys.IsText(lTyp) || tys.IsText(rTyp) {
		typ = tys.Float64
	} else if tys.IsUnsigned(lTyp) || tys.IsUnsigned(rTyp) {
		typ = tys.Uint64
	} else if tys.IsSigned(lTyp) && tys.IsSigned(rTyp) {
		typ = tys.Int64
	} else {
		typ = tys.Decimal()
	}
	if tys.IsInteger(typ) || tys.IsFloat(typ) {
		left = convertValueToType(0, typ, left, false)
		right = convertValueToType(0, typ, right, false)
	} else {
		left, right = toDecimal(left), toDecimal(right)
	}
	return left, right
}

// ---- HelperDiv: the conjunction lives in a helper: conforming

type HelperDiv struct{ Bin }

func bothUnsigned(a, b tys.Type) bool { return tys.IsUnsigned(a) && tys.IsUnsigned(b) }

func (d *HelperDiv) Type() tys.Type { return tys.Int64 }
func (d *HelperDiv) Eval(row []any) (any, error) {
	l, r, err := d.evalLeftRight(row)
	if err != nil {
		return nil, err
	}
	l, r = d.convertLeftRight(l, r)
	return kernel(l, r)
}

func (d *HelperDiv) convertLeftRight(left, right any) (any, any) {
	typ := tys.Decimal()
	if bothUnsigned(d.Left.Type(), d.Right.Type()) {
		typ = tys.Uint64
	}
	if tys.IsInteger(typ) {
		left = convertValueToType(0, typ, left, false)
		right = convertValueToType(0, typ, right, false)
	}
	return left, right
}

// ---- CachedPlus: the computation type is the cached result type, chosen with a one-sided signed test

type CachedPlus struct {
	Bin
	typ tys.Type
}

func (p *CachedPlus) Type() tys.Type {
	if p.typ == nil {
		p.typ = p.returnType()
	}
	return p.typ
}

func (p *CachedPlus) returnType() tys.Type {
	lTyp, rTyp := p.Left.Type(), p.Right.Type()
	if tys.IsFloat(lTyp) || tys.IsFloat(rTyp) {
		return tys.Float64
	}
	if tys.IsUnsigned(lTyp) && tys.IsUnsigned(rTyp) {
		return tys.Uint64
	}
	if tys.IsInteger(lTyp) {
		return tys.Int64
	}
	return tys.Decimal()
}

func (p *CachedPlus) Eval(row []any) (any, error) {
	l, r, err := p.evalLeftRight(row)
	if err != nil {
		return nil, err
	}
	l, r = p.convertLeftRight(l, r)
	return kernel(l, r)
}

func (p *CachedPlus) convertLeftRight(left, right any) (any, any) {
	typ := p.Type()
	if tys.IsInteger(typ) || tys.IsFloat(typ) {
		left = convertValueToType(0, typ, left, false)
		right = convertValueToType(0, typ, right, false)
	}
	return left, right
}

// ---- FloatMod: only ever coerces to a float type: no instance

type FloatMod struct{ Bin }

func (m *FloatMod) Type() tys.Type { return tys.Float64 }
func (m *FloatMod) Eval(row []any) (any, error) {
	l, r, err := m.evalLeftRight(row)
	if err != nil {
		return nil, err
	}
	typ := m.Type()
	if tys.IsFloat(typ) {
		l = convertValueToType(0, typ, l, false)
		r = convertValueToType(0, typ, r, false)
	}
	return kernel(l, r)
}
