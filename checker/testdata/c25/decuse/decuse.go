// Package decuse is the C25-M1 fixture: operators over shared *dec.Decimal values. Functions named
// ...Good must stay silent; the others each write through a decimal they do not own.
package decuse

import "vchk/testdata/c25/dec"

type Expr interface {
	Eval(row []any) (any, error)
}

var ctx = &dec.Context{Precision: 10}
var zero = dec.New(0, 0)

// ---- good

type NegGood struct{ Child Expr }

func (e *NegGood) Eval(row []any) (any, error) {
	child, err := e.Child.Eval(row)
	if err != nil {
		return nil, err
	}
	switch n := child.(type) {
	case int64:
		d := dec.New(n, 0)
		return d.Neg(d), nil // d was made here
	case *dec.Decimal:
		res := new(dec.Decimal)
		return res.Neg(n), nil
	}
	return nil, nil
}

func plusGood(l, r *dec.Decimal) (*dec.Decimal, error) {
	var res dec.Decimal
	err := ctx.Add(&res, l, r)
	return &res, err
}

// negInto is a destination-passing helper: a writer, judged at its call sites.
func negInto(dst, src *dec.Decimal) { dst.Neg(src) }

func helperGood(x *dec.Decimal) *dec.Decimal {
	out := dec.New(0, 0)
	negInto(out, x)
	return out
}

func reassignGood(x *dec.Decimal) *dec.Decimal {
	x = new(dec.Decimal).Set(x) // the parameter is cut off: x is now a private copy
	ctx.Ceil(x, x)
	return x
}

// sumGood: an accumulator that only ever holds decimals it allocated.
type sumGood struct{ acc *dec.Decimal }

func (s *sumGood) Update(n *dec.Decimal) {
	if s.acc == nil {
		s.acc = dec.New(0, 0)
	}
	cur := s.acc
	ctx.Add(cur, cur, n)
	s.acc = cur
}

// ---- bad

type NegInPlace struct{ Child Expr }

func (e *NegInPlace) Eval(row []any) (any, error) {
	child, err := e.Child.Eval(row)
	if err != nil {
		return nil, err
	}
	switch n := child.(type) {
	case *dec.Decimal:
		return n.Neg(n), nil // the operand is the row's decimal
	}
	return nil, nil
}

type CeilInPlace struct{ Child Expr }

func (e *CeilInPlace) Eval(row []any) (any, error) {
	child, _ := e.Child.Eval(row)
	if num, ok := child.(*dec.Decimal); ok {
		if err := ctx.Ceil(num, num); err != nil {
			return nil, err
		}
		child = num
	}
	return child, nil
}

func truncShallow(val *dec.Decimal) *dec.Decimal {
	c := *val // struct copy: shares the heap coefficient
	ctx.Ceil(&c, val)
	return &c
}

type Lit struct{ val *dec.Decimal }

func NewLit(v *dec.Decimal) *Lit { return &Lit{val: v} }

func (l *Lit) Eval(row []any) (any, error) {
	negInto(l.val, l.val) // the helper writes the literal's own value
	return l.val, nil
}

// sumBad stores the first operand itself as the accumulator.
type sumBad struct{ acc *dec.Decimal }

func (s *sumBad) Update(n *dec.Decimal) {
	if s.acc == nil {
		s.acc = n
		return
	}
	ctx.Add(s.acc, s.acc, n)
}

func intoGlobal(a, b *dec.Decimal) *dec.Decimal {
	ctx.Add(zero, a, b)
	return zero
}

func fieldStore(e Expr) any {
	v, _ := e.Eval(nil)
	d := v.(*dec.Decimal)
	d.Neg_ = false // ABS written as a field store on the operand
	return d
}
