// Package arith is a checker fixture for C25: a miniature arithmetic kernel with unguarded
// operations (add, neg, quo) next to their guarded versions (addChecked, addPost, negGood,
// quoGood), and a second caller of the kernel.
package arith

import (
	"errors"
	"math"
)

var errRange = errors.New("out of range")

func add(l, r any) (any, error) {
	switch a := l.(type) {
	case int64:
		switch b := r.(type) {
		case int64:
			return a + b, nil
		}
	}
	return nil, errRange
}

// addChecked: two-operand pre-check.
func addChecked(a, b int64) (int64, error) {
	if (b > 0 && a > math.MaxInt64-b) || (b < 0 && a < math.MinInt64-b) {
		return 0, errRange
	}
	return a + b, nil
}

// addPost: post-check on the result.
func addPost(a, b int64) (int64, error) {
	sum := a + b
	if (sum > a) != (b > 0) {
		return 0, errRange
	}
	return sum, nil
}

// mulPost: post-check by division, with a short-circuit in front.
func mulPost(a, b uint64) (uint64, error) {
	res := a * b
	if a != 0 && res/a != b {
		return 0, errRange
	}
	return res, nil
}

// mulHalfChecked: only one operand is tested.
func mulHalfChecked(a, b uint64) (uint64, error) {
	if a > 1<<32 {
		return 0, errRange
	}
	return a * b, nil
}

func neg(v any) (any, error) {
	switch n := v.(type) {
	case int8:
		return -int64(n), nil // exact by width
	case uint8:
		return -int8(n), nil // narrowing, then negation
	case int64:
		return -n, nil // MinInt64
	}
	return nil, errRange
}

func negGood(v any) (any, error) {
	switch n := v.(type) {
	case uint8:
		return -int16(n), nil
	case uint32:
		if n > math.MaxInt16 {
			return nil, errRange
		}
		return -int16(n), nil
	case int64:
		if n == math.MinInt64 {
			return nil, errRange
		}
		return -n, nil
	}
	return nil, errRange
}

func quo(l, r int64, f float64) (int64, int64) {
	if r == 0 {
		return 0, 0
	}
	return l / r, int64(math.Floor(f))
}

func quoGood(l, r int64, f float64) (int64, int64, error) {
	if r == 0 || (l == math.MinInt64 && r == -1) {
		return 0, 0, errRange
	}
	if f >= 9.2e18 || f <= -9.2e18 {
		return 0, 0, errRange
	}
	return l / r, int64(f), nil
}

func Eval(l, r any) (any, error) { return add(l, r) }

func Other(l, r any) (any, error) { return add(l, r) }
