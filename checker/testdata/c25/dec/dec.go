// Package dec is the C25-M1 fixture's decimal library: a mutable arbitrary-precision number in the
// style of cockroachdb/apd (operations set their destination in place; the coefficient has a heap part).
package dec

type big struct{ words []uint }

type Decimal struct {
	Neg_  bool
	Exp   int32
	coeff *big // heap part of the coefficient: shared by a struct copy
}

type Context struct{ Precision uint32 }

func New(c int64, e int32) *Decimal {
	return &Decimal{Exp: e, coeff: &big{words: []uint{uint(c)}}}
}

// Set sets d to x (deep copy) and returns d.
func (d *Decimal) Set(x *Decimal) *Decimal {
	if d == x {
		return d
	}
	d.Neg_, d.Exp = x.Neg_, x.Exp
	d.coeff = &big{words: append([]uint(nil), x.coeff.words...)}
	return d
}

// Neg sets d to -x and returns d.
func (d *Decimal) Neg(x *Decimal) *Decimal {
	d.Set(x)
	d.Neg_ = !d.Neg_
	return d
}

// Cmp only reads.
func (d *Decimal) Cmp(x *Decimal) int {
	if d.Exp < x.Exp {
		return -1
	}
	return 0
}

func (c *Context) add(d, x, y *Decimal) {
	d.Set(x)
	d.coeff.words[0] += y.coeff.words[0]
}

// Add sets d to x+y.
func (c *Context) Add(d, x, y *Decimal) error { c.add(d, x, y); return nil }

// Ceil sets d to the smallest integer >= x.
func (c *Context) Ceil(d, x *Decimal) error {
	d.Set(x)
	d.Exp = 0
	return nil
}
