// Package tys is the type layer of the C25-K3 fixture: type constants and type predicates.
package tys

type Type interface {
	Convert(v any) (any, bool, error)
}

type num struct{ kind string }

func (n num) Convert(v any) (any, bool, error) { return v, true, nil }

var (
	Int64   Type = num{"int64"}
	Uint64  Type = num{"uint64"}
	Float64 Type = num{"float64"}
	Text    Type = num{"text"}
)

func IsUnsigned(t Type) bool { return t == Uint64 }
func IsSigned(t Type) bool   { return t == Int64 }
func IsInteger(t Type) bool  { return IsSigned(t) || IsUnsigned(t) }
func IsFloat(t Type) bool    { return t == Float64 }
func IsText(t Type) bool     { return t == Text }

func Decimal() Type { return num{"decimal"} }
