// Package vk is the fixture for C09-V1 (value-kind tables agree).
package vk

import "reflect"

type Base int

const (
	I8 Base = iota + 1
	U8
	I32
	U32
	F64
)

type Num struct {
	baseType Base
	width    int
}

func Create(b Base, w int) (Num, error) { return Num{baseType: b, width: w}, nil }
func Must(b Base) Num {
	n, err := Create(b, 0)
	if err != nil {
		panic(err)
	}
	return n
}

var (
	Int8    = Must(I8)
	Uint8   = Must(U8)
	Int32   = Must(I32)
	Uint32  = Must(U32)
	Float64 = Must(F64)

	i8T  = reflect.TypeOf(int8(0))
	u8T  = reflect.TypeOf(uint8(0))
	i32T = reflect.TypeOf(int32(0))
	u32T = reflect.TypeOf(uint32(0))
	f64T = reflect.TypeOf(float64(0))
)

func (t Num) Zero() any {
	switch t.baseType {
	case I8:
		return int8(0)
	case U8:
		return uint8(0)
	case I32:
		return int32(0)
	case U32:
		return uint32(0)
	case F64:
		return float64(0)
	}
	panic("bad")
}

func (t Num) ValueType() reflect.Type {
	switch t.baseType {
	case I8:
		return i8T
	case U8:
		return i8T // BAD: announces int8 for the unsigned type
	case I32:
		return i32T
	case U32:
		return u32T
	case F64:
		return f64T
	}
	panic("bad")
}

func (t Num) Convert(v any) (any, error) {
	n, _ := v.(int64)
	switch t.baseType {
	case I8:
		return int8(n), nil
	case U8:
		return uint8(n), nil
	case I32:
		return int64(n), nil // BAD: values of another kind than Zero
	case U32:
		return uint32(n), nil
	case F64:
		return float64(n), nil
	}
	return nil, nil
}

// Approx: uint32 typed signed (BAD), no arm for uint8 (BAD).
func Approx(val any) any {
	switch val.(type) {
	case int8:
		return Int8
	case int32:
		return Int32
	case uint32:
		return Int32
	case float64:
		return Float64
	case string:
		return "text"
	}
	return nil
}

type Literal struct {
	v any
	t any
}

func NewLiteral(v any, t any) *Literal { return &Literal{v, t} }

func build(n int64) []*Literal {
	return []*Literal{
		NewLiteral(int8(n), Int8),
		NewLiteral(uint32(n), Int32), // BAD
		NewLiteral(300, Uint8),       // BAD: constant outside the type
		NewLiteral(7, Uint8),
	}
}
