// Package expr is a checker fixture for C09: expressions that declare IsNullable() == false
// and nevertheless return the literal NULL in one of three shapes. Good* conform.
package expr

type Expression interface {
	IsNullable() bool
	Eval(row []any) (any, error)
}

type Good struct{ Child Expression }

func (Good) IsNullable() bool { return false }
func (g Good) Eval(row []any) (any, error) {
	v, err := g.Child.Eval(row)
	if err != nil {
		return nil, err
	}
	if v == nil {
		return int64(0), nil
	}
	return v, nil
}

// GoodNullable may return NULL and says so.
type GoodNullable struct{}

func (GoodNullable) IsNullable() bool            { return true }
func (GoodNullable) Eval(row []any) (any, error) { return nil, nil }

type Direct struct{ Child Expression }

func (Direct) IsNullable() bool { return false }
func (d Direct) Eval(row []any) (any, error) {
	v, err := d.Child.Eval(row)
	if err != nil {
		return nil, err
	}
	if v == nil {
		return nil, nil
	}
	return v, nil
}

type ViaPhi struct{}

func (ViaPhi) IsNullable() bool { return false }
func (ViaPhi) Eval(row []any) (any, error) {
	var out any
	if len(row) > 0 {
		out = int64(len(row))
	}
	return out, nil
}

func helper(row []any) (any, error) {
	if len(row) == 0 {
		return nil, nil
	}
	return row[0], nil
}

type ViaHelper struct{}

func (ViaHelper) IsNullable() bool            { return false }
func (ViaHelper) Eval(row []any) (any, error) { return helper(row) }

// Promoted takes its Eval from the embedded Direct and overrides nothing else.
type Promoted struct{ Direct }

// ---- aggregations ----

type Buffer interface {
	Eval() (any, error)
}

type Aggregation interface {
	Expression
	NewBuffer() (Buffer, error)
}

type aggBase struct{}

func (aggBase) IsNullable() bool            { return false }
func (aggBase) Eval(row []any) (any, error) { return int64(0), nil }

type countBuf struct{ n int64 }

func (c *countBuf) Eval() (any, error) { return c.n, nil }

type GoodCount struct{ aggBase }

func (GoodCount) NewBuffer() (Buffer, error) { return &countBuf{}, nil }

type sumBuf struct {
	sum   float64
	isnil bool
}

func (s *sumBuf) Eval() (any, error) {
	if s.isnil {
		return nil, nil
	}
	return s.sum, nil
}

func newSumBuf() *sumBuf { return &sumBuf{isnil: true} }

// NullSum: NOT NULL aggregation whose buffer returns the literal NULL for an empty group.
type NullSum struct{ aggBase }

func (NullSum) NewBuffer() (Buffer, error) { return newSumBuf(), nil }

type maxBuf struct {
	val  any
	seen int
}

func (m *maxBuf) Eval() (any, error) { return m.val, nil }

func newMaxBuf() *maxBuf { return &maxBuf{nil, 0} }

// RawMax: NOT NULL aggregation whose buffer returns a field that starts out nil.
type RawMax struct{ aggBase }

func (RawMax) NewBuffer() (Buffer, error) { return newMaxBuf(), nil }

type initBuf struct{ val any }

func (m *initBuf) Eval() (any, error) { return m.val, nil }

// GoodInit: the raw field is initialised non-nil by the constructor.
type GoodInit struct{ aggBase }

func (GoodInit) NewBuffer() (Buffer, error) { return &initBuf{val: int64(0)}, nil }

// ---- E3: computed IsNullable vs. structurally NULL configurations of Eval

type Branch struct{ Cond, Value Expression }

func isTrue(v any) bool { b, ok := v.(bool); return ok && b }

// CaseGood: no ELSE means NULL when no arm matches, and IsNullable says so.
type CaseGood struct {
	Branches []Branch
	Else     Expression
}

func (c *CaseGood) IsNullable() bool {
	for _, b := range c.Branches {
		if b.Value.IsNullable() {
			return true
		}
	}
	return c.Else == nil || c.Else.IsNullable()
}

func (c *CaseGood) Eval(row []any) (any, error) {
	for _, b := range c.Branches {
		res, err := b.Cond.Eval(row)
		if err != nil {
			return nil, err
		}
		if isTrue(res) {
			return b.Value.Eval(row)
		}
	}
	if c.Else != nil {
		return c.Else.Eval(row)
	}
	return nil, nil
}

// CaseNoElse: a missing ELSE is announced NOT NULL.
type CaseNoElse struct {
	Branches []Branch
	Else     Expression
}

func (c *CaseNoElse) IsNullable() bool {
	for _, b := range c.Branches {
		if b.Value.IsNullable() {
			return true
		}
	}
	return c.Else != nil && c.Else.IsNullable()
}

func (c *CaseNoElse) Eval(row []any) (any, error) {
	defer func() {}()
	for _, b := range c.Branches {
		res, err := b.Cond.Eval(row)
		if err != nil {
			return nil, err
		}
		if isTrue(res) {
			return b.Value.Eval(row)
		}
	}
	if c.Else != nil {
		return c.Else.Eval(row)
	}
	return nil, nil
}

// OptArg: the optional argument is absent: NULL for every row, IsNullable only looks at the mandatory one.
type OptArg struct {
	Arg Expression
	Opt Expression
}

func (o *OptArg) IsNullable() bool {
	if o.Opt == nil {
		return o.Arg.IsNullable()
	}
	return o.Arg.IsNullable() || o.Opt.IsNullable()
}

func (o *OptArg) Eval(row []any) (any, error) {
	if o.Opt == nil {
		return nil, nil
	}
	return o.Opt.Eval(row)
}

// Defensive: the nil test in Eval is defensive, IsNullable would panic on a nil child: not applicable.
type Defensive struct{ Left, Right Expression }

func (d *Defensive) IsNullable() bool { return d.Left.IsNullable() || d.Right.IsNullable() }
func (d *Defensive) Eval(row []any) (any, error) {
	if d.Left == nil || d.Right == nil {
		return nil, nil
	}
	return d.Left.Eval(row)
}

// Flagged: a bool field decides; IsNullable ignores it.
type Flagged struct {
	Child    Expression
	Disabled bool
}

func (f *Flagged) IsNullable() bool { return f.Child.IsNullable() }
func (f *Flagged) Eval(row []any) (any, error) {
	if f.Disabled {
		return nil, nil
	}
	return f.Child.Eval(row)
}

// ---- E4: NULL in, NULL out

// BinGood: NULL when either argument is NULL, nullable when either is.
type BinGood struct{ Left, Right Expression }

func (b *BinGood) IsNullable() bool { return b.Left.IsNullable() || b.Right.IsNullable() }
func (b *BinGood) Eval(row []any) (any, error) {
	l, err := b.Left.Eval(row)
	if err != nil {
		return nil, err
	}
	if l == nil {
		return nil, nil
	}
	r, err := b.Right.Eval(row)
	if err != nil {
		return nil, err
	}
	if r == nil {
		return nil, nil
	}
	return l, nil
}

func isNullType(e Expression) bool { return e == nil }

// FormatLike: reports the nullability of the OTHER argument only.
type FormatLike struct{ Left, Right Expression }

func (f *FormatLike) IsNullable() bool {
	if isNullType(f.Left) {
		if isNullType(f.Right) {
			return true
		}
		return f.Right.IsNullable()
	}
	return f.Left.IsNullable()
}

func (f *FormatLike) Eval(row []any) (any, error) {
	l, err := f.Left.Eval(row)
	if err != nil {
		return nil, err
	}
	if l == nil {
		return nil, nil
	}
	r, err := f.Right.Eval(row)
	if err != nil {
		return nil, err
	}
	if r == nil {
		return nil, nil
	}
	return l, nil
}

// BothNeeded: nullable only when both arguments are.
type BothNeeded struct{ Left, Right Expression }

func (b *BothNeeded) IsNullable() bool { return b.Left.IsNullable() && b.Right.IsNullable() }
func (b *BothNeeded) Eval(row []any) (any, error) {
	l, err := b.Left.Eval(row)
	if err != nil {
		return nil, err
	}
	r, err := b.Right.Eval(row)
	if err != nil {
		return nil, err
	}
	if r == nil {
		return nil, nil
	}
	return l, nil
}

// ViaChildren: consults its children through a collection: not decided.
type ViaChildren struct{ A, B Expression }

func (v *ViaChildren) Children() []Expression { return []Expression{v.A, v.B} }
func (v *ViaChildren) IsNullable() bool {
	for _, ch := range v.Children() {
		if ch.IsNullable() {
			return true
		}
	}
	return false
}

func (v *ViaChildren) Eval(row []any) (any, error) {
	a, err := v.A.Eval(row)
	if err != nil {
		return nil, err
	}
	if a == nil {
		return nil, nil
	}
	return v.B.Eval(row)
}
