// Package expr is a checker fixture for C09: expressions that declare IsNullable() == false
// and nevertheless return the literal NULL in one of three shapes. Good* conform.
package expr

type Expression interface {
	IsNullable() bool
	Eval(row []any) (any, error)
}

type Good struct{ Child Expression }

func (Good) IsNullable() bool { return false }
func (g Good) Eval(row []any) (any, error) {
	v, err := g.Child.Eval(row)
	if err != nil {
		return nil, err
	}
	if v == nil {
		return int64(0), nil
	}
	return v, nil
}

// GoodNullable may return NULL and says so.
type GoodNullable struct{}

func (GoodNullable) IsNullable() bool            { return true }
func (GoodNullable) Eval(row []any) (any, error) { return nil, nil }

type Direct struct{ Child Expression }

func (Direct) IsNullable() bool { return false }
func (d Direct) Eval(row []any) (any, error) {
	v, err := d.Child.Eval(row)
	if err != nil {
		return nil, err
	}
	if v == nil {
		return nil, nil
	}
	return v, nil
}

type ViaPhi struct{}

func (ViaPhi) IsNullable() bool { return false }
func (ViaPhi) Eval(row []any) (any, error) {
	var out any
	if len(row) > 0 {
		out = int64(len(row))
	}
	return out, nil
}

func helper(row []any) (any, error) {
	if len(row) == 0 {
		return nil, nil
	}
	return row[0], nil
}

type ViaHelper struct{}

func (ViaHelper) IsNullable() bool            { return false }
func (ViaHelper) Eval(row []any) (any, error) { return helper(row) }

// Promoted takes its Eval from the embedded Direct and overrides nothing else.
type Promoted struct{ Direct }

// ---- aggregations ----

type Buffer interface {
	Eval() (any, error)
}

type Aggregation interface {
	Expression
	NewBuffer() (Buffer, error)
}

type aggBase struct{}

func (aggBase) IsNullable() bool            { return false }
func (aggBase) Eval(row []any) (any, error) { return int64(0), nil }

type countBuf struct{ n int64 }

func (c *countBuf) Eval() (any, error) { return c.n, nil }

type GoodCount struct{ aggBase }

func (GoodCount) NewBuffer() (Buffer, error) { return &countBuf{}, nil }

type sumBuf struct {
	sum   float64
	isnil bool
}

func (s *sumBuf) Eval() (any, error) {
	if s.isnil {
		return nil, nil
	}
	return s.sum, nil
}

func newSumBuf() *sumBuf { return &sumBuf{isnil: true} }

// NullSum: NOT NULL aggregation whose buffer returns the literal NULL for an empty group.
type NullSum struct{ aggBase }

func (NullSum) NewBuffer() (Buffer, error) { return newSumBuf(), nil }

type maxBuf struct {
	val  any
	seen int
}

func (m *maxBuf) Eval() (any, error) { return m.val, nil }

func newMaxBuf() *maxBuf { return &maxBuf{nil, 0} }

// RawMax: NOT NULL aggregation whose buffer returns a field that starts out nil.
type RawMax struct{ aggBase }

func (RawMax) NewBuffer() (Buffer, error) { return newMaxBuf(), nil }

type initBuf struct{ val any }

func (m *initBuf) Eval() (any, error) { return m.val, nil }

// GoodInit: the raw field is initialised non-nil by the constructor.
type GoodInit struct{ aggBase }

func (GoodInit) NewBuffer() (Buffer, error) { return &initBuf{val: int64(0)}, nil }
