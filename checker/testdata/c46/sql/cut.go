// Package sql is a checker fixture: the five range cuts with ONE defect — Above.Compare(Below)
// resolves equal keys to -1 (Above(k) sorts before Below(k)). Rules C46-O2 and C46-O3 must
// report exactly that entry.
package sql

import (
	"context"
	"fmt"
)

type Type interface {
	Compare(ctx context.Context, a, b interface{}) (int, error)
}

type MySQLRangeCut interface {
	Compare(context.Context, MySQLRangeCut, Type) (int, error)
}

type Above struct{ Key interface{} }
type Below struct{ Key interface{} }
type AboveAll struct{}
type AboveNull struct{}
type BelowNull struct{}

func cmpKeys(ctx context.Context, typ Type, a, b interface{}) (int, error) {
	return typ.Compare(ctx, a, b)
}

func (a Above) Compare(ctx context.Context, c MySQLRangeCut, typ Type) (int, error) {
	switch c := c.(type) {
	case AboveAll:
		return -1, nil
	case AboveNull:
		return 1, nil
	case Above:
		return cmpKeys(ctx, typ, a.Key, c.Key)
	case Below:
		cmp, err := cmpKeys(ctx, typ, a.Key, c.Key)
		if err != nil {
			return 0, err
		}
		if cmp == 1 { // defect: ties go to -1
			return 1, nil
		}
		return -1, nil
	case BelowNull:
		return 1, nil
	default:
		panic(fmt.Errorf("unrecognized %T", c))
	}
}

func (b Below) Compare(ctx context.Context, c MySQLRangeCut, typ Type) (int, error) {
	switch c := c.(type) {
	case AboveAll:
		return -1, nil
	case AboveNull:
		return 1, nil
	case Below:
		return cmpKeys(ctx, typ, b.Key, c.Key)
	case Above:
		cmp, err := cmpKeys(ctx, typ, c.Key, b.Key)
		if err != nil {
			return 0, err
		}
		if cmp == -1 {
			return 1, nil
		}
		return -1, nil
	case BelowNull:
		return 1, nil
	default:
		panic(fmt.Errorf("unrecognized %T", c))
	}
}

func (AboveAll) Compare(_ context.Context, c MySQLRangeCut, typ Type) (int, error) {
	if _, ok := c.(AboveAll); ok {
		return 0, nil
	}
	return 1, nil
}

func (AboveNull) Compare(_ context.Context, c MySQLRangeCut, typ Type) (int, error) {
	if _, ok := c.(AboveNull); ok {
		return 0, nil
	}
	if _, ok := c.(BelowNull); ok {
		return 1, nil
	}
	return -1, nil
}

func (BelowNull) Compare(_ context.Context, c MySQLRangeCut, typ Type) (int, error) {
	if _, ok := c.(BelowNull); ok {
		return 0, nil
	}
	return -1, nil
}
