// Package types is the C52 fixture: three geometry kinds with one violation per rule.
package types

import "errors"

const (
	WKBUnknown = iota
	WKBPointID
	WKBLineID
	WKBMultiPointID
	WKBGeomCollID
)

var ErrInvalid = errors.New("invalid GIS data")

type GeometryValue interface {
	Serialize() []byte
	WriteData(buf []byte) int
}

type Point struct{ X, Y float64 }
type Line struct{ Points []float64 }
type MultiPoint struct{ Points []Point }
type GeomColl struct{ Geoms []GeometryValue }

func WriteEWKBHeader(buf []byte, srid, typ uint32) {}
func WriteWKBHeader(buf []byte, typ uint32)        {}

func (p Point) Serialize() []byte {
	buf := make([]byte, 32)
	WriteEWKBHeader(buf, 0, WKBPointID)
	return buf
}
func (p Point) WriteData(buf []byte) int { return 16 }

func (l Line) Serialize() []byte {
	buf := make([]byte, 32)
	WriteEWKBHeader(buf, 0, WKBLineID)
	return buf
}
func (l Line) WriteData(buf []byte) int { return 16 }

func (m MultiPoint) Serialize() []byte {
	buf := make([]byte, 64)
	WriteEWKBHeader(buf, 0, WKBMultiPointID)
	m.WriteData(buf)
	return buf
}

// W1: nested headers say "line" although the elements are points.
func (m MultiPoint) WriteData(buf []byte) int {
	for range m.Points {
		WriteWKBHeader(buf, WKBLineID)
	}
	return 0
}

func (g GeomColl) Serialize() []byte {
	buf := make([]byte, 64)
	WriteEWKBHeader(buf, 0, WKBGeomCollID)
	return buf
}

// W1: the table maps Line to the point id.
func (g GeomColl) WriteData(buf []byte) int {
	for _, geom := range g.Geoms {
		var typ uint32
		switch geom.(type) {
		case Point:
			typ = WKBPointID
		case Line:
			typ = WKBPointID
		case MultiPoint:
			typ = WKBMultiPointID
		case GeomColl:
			typ = WKBGeomCollID
		}
		WriteWKBHeader(buf, typ)
	}
	return 0
}

func DeserializePoint(buf []byte) (Point, int, error)       { return Point{}, 16, nil }
func DeserializeLine(buf []byte) (Line, int, error)         { return Line{}, 16, nil }
func DeserializeMPoint(buf []byte) (MultiPoint, int, error) { return MultiPoint{}, 16, nil }
func DeserializeGeomColl(buf []byte) (GeomColl, int, error) { return GeomColl{}, 16, nil }

// R1: the line arm calls the point deserialiser; the collection id has no arm and the default is silent.
func Decode(typ uint32, buf []byte) (interface{}, error) {
	var geom interface{}
	var err error
	switch typ {
	case WKBPointID:
		geom, _, err = DeserializePoint(buf)
	case WKBLineID:
		geom, _, err = DeserializePoint(buf)
	case WKBMultiPointID:
		geom, _, err = DeserializeMPoint(buf)
	default:
	}
	return geom, err
}

// R1 (guard): accepts only line headers and then parses points.
func DecodeMulti(typ uint32, buf []byte) (MultiPoint, error) {
	if typ != WKBLineID {
		return MultiPoint{}, ErrInvalid
	}
	p, _, err := DeserializePoint(buf)
	return MultiPoint{Points: []Point{p}}, err
}

// DecodeGood is the well-formed sibling.
func DecodeGood(typ uint32, buf []byte) (interface{}, error) {
	var geom interface{}
	var err error
	switch typ {
	case WKBPointID:
		geom, _, err = DeserializePoint(buf)
	case WKBLineID:
		geom, _, err = DeserializeLine(buf)
	case WKBMultiPointID:
		geom, _, err = DeserializeMPoint(buf)
	case WKBGeomCollID:
		geom, _, err = DeserializeGeomColl(buf)
	default:
		return nil, ErrInvalid
	}
	return geom, err
}

type PointType struct{}
type LineType struct{}
type GeometryType struct{}

func (PointType) Zero() interface{}    { return Point{} }
func (LineType) Zero() interface{}     { return Line{} }
func (GeometryType) Zero() interface{} { return nil }
