// Package spatial is the C52 fixture for typed FROMWKB constructors.
package spatial

import "vchk/testdata/c52/types"

func EvalGeomFromWKB(a, b, c int, expectedGeomType int) (interface{}, error) { return nil, nil }

type PointFromWKB struct{}

func (p *PointFromWKB) Type() interface{} { return types.PointType{} }
func (p *PointFromWKB) Eval() (interface{}, error) {
	return EvalGeomFromWKB(0, 0, 0, types.WKBPointID)
}

// F1: declares the line type but expects the point id.
type LineFromWKB struct{}

func (p *LineFromWKB) Type() interface{} { return types.LineType{} }
func (p *LineFromWKB) Eval() (interface{}, error) {
	return EvalGeomFromWKB(0, 0, 0, types.WKBPointID)
}

type GeomFromWKB struct{}

func (p *GeomFromWKB) Type() interface{} { return types.GeometryType{} }
func (p *GeomFromWKB) Eval() (interface{}, error) {
	return EvalGeomFromWKB(0, 0, 0, types.WKBUnknown)
}
