// Package mut is the C52-M1 fixture: geometry values whose slices are shared by struct copies.
// Methods / functions named ...Good must stay silent.
package mut

import "sort"

type GeometryValue interface {
	Swap() GeometryValue
	SetSRID(srid uint32) GeometryValue
}

type Point struct {
	SRID uint32
	X, Y float64
}
type Line struct {
	SRID   uint32
	Points []Point
}
type Poly struct {
	SRID  uint32
	Lines []Line
}
type Coll struct {
	SRID  uint32
	Geoms []GeometryValue
}

type Expr interface{ Eval() (any, error) }

func (p Point) Swap() GeometryValue               { return Point{SRID: p.SRID, X: p.Y, Y: p.X} }
func (p Point) SetSRID(srid uint32) GeometryValue { p.SRID = srid; return p } // p is a copy and has no slice: fine

// Line: good
func (l Line) Swap() GeometryValue {
	points := make([]Point, len(l.Points))
	for i, p := range l.Points {
		points[i] = p.Swap().(Point)
	}
	return Line{SRID: l.SRID, Points: points}
}

// copy the struct, replace the slice, fill the new slice: good
func (l Line) SetSRID(srid uint32) GeometryValue {
	res := l
	res.SRID = srid
	res.Points = make([]Point, len(l.Points))
	for i, p := range l.Points {
		res.Points[i] = p.SetSRID(srid).(Point)
	}
	return res
}

// Poly.Swap: bad - the value receiver is a copy, its Lines are not
func (p Poly) Swap() GeometryValue {
	for i, l := range p.Lines {
		p.Lines[i] = l.Swap().(Line)
	}
	return p
}

// Poly.SetSRID: bad - two levels down
func (p Poly) SetSRID(srid uint32) GeometryValue {
	for i := range p.Lines {
		for j := range p.Lines[i].Points {
			p.Lines[i].Points[j].SRID = srid
		}
	}
	p.SRID = srid
	return p
}

// Coll: bad via a helper that writes its slice parameter (the helper itself is fine)
func swapAll(dst []GeometryValue, src []GeometryValue) {
	for i, g := range src {
		dst[i] = g.Swap()
	}
}

func (c Coll) Swap() GeometryValue {
	swapAll(c.Geoms, c.Geoms)
	return c
}

func (c Coll) SetSRID(srid uint32) GeometryValue {
	geoms := make([]GeometryValue, len(c.Geoms))
	for i, g := range c.Geoms {
		geoms[i] = g.SetSRID(srid)
	}
	return Coll{SRID: srid, Geoms: geoms}
}

func collSwapGood(c Coll) Coll {
	out := make([]GeometryValue, len(c.Geoms))
	swapAll(out, c.Geoms)
	return Coll{SRID: c.SRID, Geoms: out}
}

// ---- functions over evaluated arguments

func pointsOf(g GeometryValue) []Point {
	switch v := g.(type) {
	case Point:
		return []Point{v}
	case Line:
		return v.Points // the operand's own slice
	}
	return nil
}

func sortedGood(e Expr) ([]Point, error) {
	v, err := e.Eval()
	if err != nil {
		return nil, err
	}
	pts := pointsOf(v.(GeometryValue))
	pts = append(make([]Point, 0, len(pts)), pts...)
	sort.Slice(pts, func(i, j int) bool { return pts[i].X < pts[j].X })
	return pts, nil
}

func sortedInPlace(e Expr) ([]Point, error) {
	v, err := e.Eval()
	if err != nil {
		return nil, err
	}
	pts := pointsOf(v.(GeometryValue))
	sort.Slice(pts, func(i, j int) bool { return pts[i].X < pts[j].X })
	return pts, nil
}

func dedupInPlace(e Expr) []Point {
	v, _ := e.Eval()
	pts := v.(Line).Points
	if len(pts) == 0 {
		return nil
	}
	uniq := pts[:1]
	for _, p := range pts[1:] {
		if p != uniq[len(uniq)-1] {
			uniq = append(uniq, p)
		}
	}
	return uniq
}

func firstRing(e Expr) (Line, error) {
	v, err := e.Eval()
	if err != nil {
		return Line{}, err
	}
	p := v.(Poly)
	ring := p.Lines[0]
	ring.SRID = p.SRID // a copy of the struct: fine
	return ring, nil
}

func copyOver(e Expr, src []Point) {
	v, _ := e.Eval()
	copy(v.(Line).Points, src)
}

// simple is a sealed interface (unexported method): only Point and Line implement it, and both return
// fresh memory from Swap, so the result of the dynamic call may be edited in place.
type simple interface {
	GeometryValue
	simpleOnly()
}

func (Point) simpleOnly() {}
func (Line) simpleOnly()  {}

func editSwappedGood(e Expr) GeometryValue {
	v, _ := e.Eval()
	g := v.(simple).Swap()
	if l, ok := g.(Line); ok {
		for i := range l.Points {
			l.Points[i].SRID = 0
		}
	}
	return g
}

// the same edit on the result of the unsealed interface's Swap: one implementation (Poly) returns its receiver
func editSwappedAny(e Expr) GeometryValue {
	v, _ := e.Eval()
	g := v.(GeometryValue).Swap()
	if l, ok := g.(Line); ok {
		for i := range l.Points {
			l.Points[i].SRID = 0
		}
	}
	return g
}
