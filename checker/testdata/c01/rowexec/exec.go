// Package rowexec is a checker fixture: it consults the class predicates.
package rowexec

import "vchk/testdata/c01/plan"

func Next(t plan.JoinType, matched bool) int {
	if !matched && t.IsLeftOuter() {
		return 1
	}
	if t.IsSemi() {
		return 2
	}
	if t.IsAnti() {
		return 3
	}
	return 0
}
