// Package plan is a checker fixture: a miniature JoinType whose AsHash table breaks the
// class of two entries (Semi -> AntiHash, LeftOuter -> Hash). Rule C01-J1 must report both.
package plan

type JoinType uint16

const (
	JoinTypeUnknown JoinType = iota
	JoinTypeInner
	JoinTypeSemi
	JoinTypeAnti
	JoinTypeLeftOuter
	JoinTypeHash
	JoinTypeLeftOuterHash
	JoinTypeSemiHash
	JoinTypeAntiHash
)

func (i JoinType) IsLeftOuter() bool {
	switch i {
	case JoinTypeLeftOuter, JoinTypeLeftOuterHash:
		return true
	default:
		return false
	}
}

func (i JoinType) IsSemi() bool { return i == JoinTypeSemi || i == JoinTypeSemiHash }

func (i JoinType) IsAnti() bool {
	switch i {
	case JoinTypeAnti, JoinTypeAntiHash:
		return true
	}
	return false
}

func (i JoinType) IsPartial() bool { return i.IsSemi() || i.IsAnti() }

func (i JoinType) AsHash() JoinType {
	switch i {
	case JoinTypeInner:
		return JoinTypeHash
	case JoinTypeLeftOuter:
		return JoinTypeHash // broken: loses the left-outer class
	case JoinTypeSemi:
		return JoinTypeAntiHash // broken: semi becomes anti
	case JoinTypeAnti:
		return JoinTypeAntiHash
	default:
		return i
	}
}
