// Package coll is a checker fixture for C29: a miniature collation table. x_general_ci keeps
// 'e' and 'E' apart, x_bin gives two characters the same weight, x_wrong_cs carries the wrong
// case flag, and WriteWeightString takes its weights from a second source.
package coll

type CollationID uint16

type CollationSorter func(r rune) int32

type Collation struct {
	ID              CollationID
	Name            string
	IsCaseSensitive bool
	Sorter          CollationSorter
}

const (
	Collation_Unspecified CollationID = iota
	Collation_x_general_ci
	Collation_x_bin
	Collation_x_wrong_cs
	Collation_x_good_ci
)

var collationArray = [5]Collation{
	{Collation_Unspecified, "", true, nil},
	{Collation_x_general_ci, "x_general_ci", false, generalCiWeight},
	{Collation_x_bin, "x_bin", true, binWeight},
	{Collation_x_wrong_cs, "x_wrong_cs", false, binWeight2},
	{Collation_x_good_ci, "x_good_ci", false, goodCiWeight},
}

func generalCiWeight(r rune) int32 {
	weight, ok := generalCiWeights[r]
	if ok {
		return weight
	} else if r >= 65 && r <= 90 {
		return r + 0
	} else if r >= 97 && r <= 122 {
		return r - 32
	} else {
		return 2147483647
	}
}

var generalCiWeights = map[rune]int32{
	101: 200, // 'e' tailored away from 'E'
}

func goodCiWeight(r rune) int32 {
	if r >= 65 && r <= 90 {
		return r + 0
	} else if r >= 97 && r <= 122 {
		return r - 32
	} else {
		return 2147483647
	}
}

func binWeight(r rune) int32 {
	weight, ok := binWeights[r]
	if ok {
		return weight
	} else if r >= 0 && r <= 255 {
		return r + 0
	} else {
		return 2147483647
	}
}

var binWeights = map[rune]int32{
	200: 100, // collides with 'd'
}

func binWeight2(r rune) int32 {
	if r >= 0 && r <= 255 {
		return r + 0
	} else {
		return 2147483647
	}
}

func (c CollationID) Sorter() CollationSorter { return collationArray[c].Sorter }

func otherWeight(r rune) int32 { return r }

// WriteWeightString weighs with a function that is not the table's sorter.
func (c CollationID) WriteWeightString(out *[]int32, str string) error {
	var w CollationSorter = otherWeight
	for _, r := range str {
		*out = append(*out, w(r))
	}
	return nil
}
