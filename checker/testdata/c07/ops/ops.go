// Package ops is a checker fixture for C07: hashing operators with and without a schema.
package ops

import "vchk/testdata/c07/hash"

func Distinct(ctx int, row []any) (uint64, error) { return hash.HashOf(ctx, nil, row) }

func ViaVar(ctx int, row []any, grouped bool, sch []*hash.Column) (uint64, error) {
	var s []*hash.Column
	if grouped {
		s = sch
	}
	return hash.HashOf(ctx, s, row)
}

func Grouping(ctx int, sch []*hash.Column, row []any) (uint64, error) {
	return hash.HashOf(ctx, sch, row)
}
