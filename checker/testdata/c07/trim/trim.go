// Package trim: canonical text of decimals for the C07-H4 fixture.
package trim

import "strings"

// Good strips zeros only behind the point.
func Good(s string) string {
	if strings.IndexByte(s, '.') != -1 {
		s = strings.TrimRight(s, "0")
		s = strings.TrimRight(s, ".")
	}
	return s
}

// GoodEarly uses an early return.
func GoodEarly(s string) string {
	if !strings.Contains(s, ".") {
		return s
	}
	return strings.TrimSuffix(strings.TrimRight(s, "0"), ".")
}

// Unguarded turns 100 into 1.
func Unguarded(s string) string {
	return strings.TrimRight(strings.TrimRight(s, "0"), ".")
}

// Mixed turns 10.0 into 1.
func Mixed(s string) string {
	if strings.Contains(s, ".") {
		s = strings.TrimRight(s, "0.")
	}
	return s
}
