// Package hash is a checker fixture for C07: a row hasher that never writes weight strings.
package hash

import "hash/fnv"

type CollationID int

func (c CollationID) WriteWeightString(h interface{ Write([]byte) (int, error) }, s string) error {
	_, err := h.Write([]byte(s))
	return err
}

type Column struct{ Coll CollationID }

// HashOf ignores the schema: strings are hashed by their bytes.
func HashOf(ctx int, sch []*Column, row []any) (uint64, error) {
	h := fnv.New64()
	for _, v := range row {
		if s, ok := v.(string); ok {
			h.Write([]byte(s))
		}
	}
	return h.Sum64(), nil
}
