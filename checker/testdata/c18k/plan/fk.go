// Package plan is a checker fixture for C18-K: key-change gates with seeded quantifier bugs.
package plan

import "vchk/testdata/c18k/sql"

type ChildParentMapping []int

type ForeignKeyRowMapper struct{ IndexPositions []int }

func (m *ForeignKeyRowMapper) GetIter(row sql.Row) (sql.RowIter, error) { return nil, nil }

type RefAction struct {
	RowMapper          *ForeignKeyRowMapper
	ChildParentMapping ChildParentMapping
}

type ForeignKeyReferenceHandler struct{ RowMapper ForeignKeyRowMapper }

func (r *ForeignKeyReferenceHandler) CheckReference(row sql.Row) error { return nil }

type ForeignKeyEditor struct {
	Schema     sql.Schema
	Editor     sql.TableEditor
	References []*ForeignKeyReferenceHandler
	RefActions []RefAction
}

func (e *ForeignKeyEditor) Update(old, new sql.Row) error {
	for _, reference := range e.References {
		hasChange := false
		for _, idx := range reference.RowMapper.IndexPositions {
			cmp, err := e.Schema[idx].Type.Compare(old[idx], new[idx])
			if err != nil {
				return err
			}
			if cmp != 0 {
				hasChange = true
				break
			}
		}
		if !hasChange {
			continue
		}
		if err := reference.CheckReference(old); err != nil { // BUG: the row being written is `new`
			return err
		}
	}
	for _, a := range e.RefActions {
		if err := e.OnUpdateRestrict(a, old, new); err != nil {
			return err
		}
	}
	if err := e.Editor.Update(old, new); err != nil {
		return err
	}
	for _, a := range e.RefActions {
		if err := e.OnUpdateCascade(a, old, new); err != nil {
			return err
		}
	}
	return nil
}

func (e *ForeignKeyEditor) Delete(r sql.Row) error {
	for _, a := range e.RefActions {
		if err := e.OnDeleteRestrict(a, r); err != nil {
			return err
		}
	}
	return e.Editor.Delete(r)
}

func (e *ForeignKeyEditor) OnUpdateRestrict(a RefAction, old, new sql.Row) error {
	if ok, err := e.ColumnsUpdated(a, old, new); err != nil {
		return err
	} else if !ok {
		return nil
	}
	it, err := a.RowMapper.GetIter(old)
	if err != nil {
		return err
	}
	return it.Close()
}

func (e *ForeignKeyEditor) OnUpdateCascade(a RefAction, old, new sql.Row) error {
	if ok, err := e.AllColumnsUpdated(a, old, new); err != nil { // BUG: cascades only when every key column changed
		return err
	} else if !ok {
		return nil
	}
	it, err := a.RowMapper.GetIter(old)
	if err != nil {
		return err
	}
	return it.Close()
}

func (e *ForeignKeyEditor) OnDeleteRestrict(a RefAction, r sql.Row) error {
	it, err := a.RowMapper.GetIter(r)
	if err != nil {
		return err
	}
	return it.Close()
}

func (e *ForeignKeyEditor) ColumnsUpdated(a RefAction, old, new sql.Row) (bool, error) {
	changed := false
	for _, mapped := range a.ChildParentMapping { // no short-circuit: also fine
		if mapped == -1 {
			continue
		}
		cmp, err := e.Schema[mapped].Type.Compare(old[mapped], new[mapped])
		if err != nil {
			return false, err
		}
		if cmp < 0 || cmp > 0 {
			changed = true
		}
	}
	return changed, nil
}

func (e *ForeignKeyEditor) AllColumnsUpdated(a RefAction, old, new sql.Row) (bool, error) {
	for _, mapped := range a.ChildParentMapping {
		if mapped == -1 {
			continue
		}
		cmp, err := e.Schema[mapped].Type.Compare(old[mapped], new[mapped])
		if err != nil {
			return false, err
		}
		if cmp == 0 {
			return false, nil
		}
	}
	return true, nil
}

type ForeignKeyHandler struct{ Editor *ForeignKeyEditor }

func (n *ForeignKeyHandler) Insert(row sql.Row) error {
	if err := n.Editor.Editor.Insert(row); err != nil { // BUG: written before its references are checked
		return err
	}
	for _, reference := range n.Editor.References {
		if err := reference.CheckReference(row); err != nil {
			return err
		}
	}
	return nil
}
