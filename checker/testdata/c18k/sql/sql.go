// Package sql is a checker fixture for C18-K: rows, column types and editor interfaces.
package sql

type Row []any

type Type interface {
	Compare(a, b any) (int, error)
}

type Column struct{ Type Type }

type Schema []*Column

type RowIter interface {
	Next() (Row, error)
	Close() error
}

type EditOpenerCloser interface {
	StatementBegin()
	DiscardChanges(cause error) error
	StatementComplete() error
}

type TableEditor interface {
	EditOpenerCloser
	Insert(r Row) error
	Update(old, new Row) error
	Delete(r Row) error
}
