// Package variables is part of the C44-K1 fixture: registries and the global value map. Never executed.
package variables

import (
	"strings"

	"vchk/testdata/c44k/sql"
)

type v struct{ Name string }

func (x *v) GetName() string { return x.Name }

// fixed: a registry literal that is never stored into (keys == Names, lower-case: C44-N1)
var fixed = map[string]sql.SystemVariable{"autocommit": &v{Name: "autocommit"}, "port": &v{Name: "port"}}

// open: a registry that integrators extend at run time under the folded name
var open = map[string]sql.SystemVariable{"sql_mode": &v{Name: "sql_mode"}}

type Globals struct{ vals map[string]sql.SystemVarValue }

func (g *Globals) Get(name string) sql.SystemVarValue { return g.vals[strings.ToLower(name)] }

func (g *Globals) Add(x sql.SystemVariable) {
	lower := strings.ToLower(x.GetName())
	open[lower] = x
	g.vals[lower] = sql.SystemVarValue{Var: x}
}

// good: Name() of the entries of a never-extended registry literal is folded (N1)
func (g *Globals) InitFixed() {
	for _, x := range fixed {
		g.vals[x.GetName()] = sql.SystemVarValue{Var: x}
	}
}

// bad: the registry is extended at run time with entries whose Name() is not folded
func (g *Globals) InitOpen() {
	for _, x := range open {
		g.vals[x.GetName()] = sql.SystemVarValue{Var: x}
	}
}

func lookup(name string) (sql.SystemVariable, bool) {
	x, ok := fixed[strings.ToLower(name)]
	return x, ok
}
