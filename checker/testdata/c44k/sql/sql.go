// Package sql is part of the C44-K1 fixture: a session with folded-name variable maps. Never executed.
package sql

import "strings"

type SystemVariable interface{ GetName() string }

type SystemVarValue struct {
	Var SystemVariable
	Val any
}

type Session struct {
	vars   map[string]SystemVarValue
	status map[string]SystemVarValue // never folded: not a folded-name map, accesses are not constrained
}

// good: folds, then reads
func (s *Session) Get(name string) (SystemVarValue, bool) {
	name = strings.ToLower(name)
	v, ok := s.vars[name]
	return v, ok
}

// bad: stores under the caller's spelling
func (s *Session) Set(name string, v SystemVarValue) { s.vars[name] = v }

// good: folds on one branch, constant on the other
func (s *Session) SetOrDefault(name string, v SystemVarValue) {
	k := "autocommit"
	if name != "" {
		k = strings.ToLower(name)
	}
	s.vars[k] = v
}

// good: unexported helper, every caller passes a folded key
func (s *Session) SetFolded(name string, v SystemVarValue) { s.put(strings.ToLower(name), v) }
func (s *Session) put(k string, v SystemVarValue)          { s.vars[k] = v }

// bad: unexported helper with one caller that passes Name() unfolded
func (s *Session) Init(v SystemVariable)           { s.init(v.GetName(), v) }
func (s *Session) InitFolded(v SystemVariable)     { s.init(strings.ToLower(v.GetName()), v) }
func (s *Session) init(k string, v SystemVariable) { s.vars[k] = SystemVarValue{Var: v} }

// good: keys ranged out of a folded-name map
func (s *Session) CopyFrom(o *Session) {
	for k, v := range o.vars {
		s.vars[k] = v
	}
}

// bad: delete with the caller's spelling; bad: mixed-case constant
func (s *Session) Unset(name string) { delete(s.vars, name) }
func (s *Session) ResetSQLMode()     { s.vars["SQL_Mode"] = SystemVarValue{} }
func (s *Session) ResetAutocommit()  { s.vars["autocommit"] = SystemVarValue{} }

// bad: folded only on one of two reaching definitions
func (s *Session) Has(name string, fold bool) bool {
	if fold {
		name = strings.ToLower(name)
	}
	_, ok := s.vars[name]
	return ok
}

// not constrained: status is never accessed with a folded key
func (s *Session) Status(name string) SystemVarValue { return s.status[name] }
