// Package authdb is a checker fixture: authentication paths with and without the account-lock
// test, and a scramble check with seeded defects. Never executed.
package authdb

import (
	"bytes"
	"crypto/sha1"
	"errors"
)

type Getter interface{ Get() string }

type ident struct{ user string }

func (i ident) Get() string { return i.user }

type User struct {
	Host       string
	Name       string
	AuthString string
	Plugin     string
	Locked     bool
}

type DB struct{ users map[string]*User }

func (db *DB) GetUser(name string) *User { return db.users[name] }

var errDenied = errors.New("access denied")

// ---- good sibling

type goodStorage struct{ db *DB }

func (s goodStorage) UserEntryWithHash(user string, resp, salt []byte) (Getter, error) {
	u := s.db.GetUser(user)
	if u == nil || u.Locked {
		return nil, errDenied
	}
	if len(u.AuthString) > 0 {
		if !validateMysqlNativePassword(resp, salt, u.AuthString) {
			return nil, errDenied
		}
	} else if len(resp) > 0 {
		return nil, errDenied
	}
	return ident{u.Name}, nil
}

// ---- defect: no Locked test at all (U1)

type pluginStorage struct{ db *DB }

func (s pluginStorage) UserEntryWithPassword(user, password string) (Getter, error) {
	u := s.db.GetUser(user)
	if u == nil {
		return nil, errDenied
	}
	if u.Plugin == "" || password == "" {
		return nil, errDenied
	}
	return ident{user}, nil
}

// ---- defects: an accepting return before the Locked test (U1); failed validation falls through (U4)

type earlyStorage struct{ db *DB }

func (s earlyStorage) UserEntryWithHash(user string, resp, salt []byte) (Getter, error) {
	u := s.db.GetUser(user)
	if u == nil {
		return nil, errDenied
	}
	if len(u.AuthString) == 0 && len(resp) == 0 {
		return ident{user}, nil
	}
	if u.Locked {
		return nil, errDenied
	}
	if len(u.AuthString) > 0 {
		if !validateMysqlNativePassword(resp, salt, u.AuthString) {
			_ = errDenied // the return is missing
		}
	}
	return ident{user}, nil
}

// HandleUser does not return a Getter: not an authentication path.
func (s earlyStorage) HandleUser(user string) bool { return s.db.GetUser(user) != nil }

// defects: `return true` for an empty response (U3); authResponse indexed by the scramble's length (U2).
func validateMysqlNativePassword(authResponse, salt []byte, stored string) bool {
	if len(stored) == 0 {
		return false
	}
	if len(authResponse) == 0 {
		return true
	}
	hash := []byte(stored)
	crypt := sha1.New()
	crypt.Write(salt)
	crypt.Write(hash)
	scramble := crypt.Sum(nil)
	for i := range scramble {
		scramble[i] ^= authResponse[i]
	}
	crypt.Reset()
	crypt.Write(scramble)
	return bytes.Equal(crypt.Sum(nil), hash)
}

// Lookup selects an account by client host; the last loopback alias lost its client-host test
// to operator precedence.
func (db *DB) Lookup(name string, host string) *User {
	orig := host
	if host == "127.0.0.1" {
		host = "localhost"
	}
	for _, u := range db.users {
		if host == u.Host ||
			(host == "localhost" && u.Host == "127.0.0.1" || u.Host == "::1") ||
			u.Host == "%" ||
			(orig != host && orig == u.Host) {
			return u
		}
	}
	return nil
}
