// Package agg is a checker fixture for C08: aggregation buffers whose Update accumulates the
// child's value before (or without) excluding NULL. good* conform in the four accepted shapes.
package agg

import "reflect"

type Expression interface {
	Eval(ctx int, row []any) (any, error)
}

type Type interface {
	Convert(ctx int, v any) (any, bool, error)
}

var Float64 Type

type AggregationBuffer interface {
	Update(ctx int, row []any) error
}

type goodSum struct {
	expr Expression
	sum  float64
}

func (s *goodSum) Update(ctx int, row []any) error {
	v, err := s.expr.Eval(ctx, row)
	if err != nil {
		return err
	}
	if v == nil {
		return nil
	}
	s.sum += v.(float64)
	return nil
}

type goodMax struct {
	expr Expression
	val  any
}

func (m *goodMax) Update(ctx int, row []any) error {
	v, err := m.expr.Eval(ctx, row)
	if err != nil {
		return err
	}
	if reflect.TypeOf(v) == nil {
		return nil
	}
	m.val = v
	return nil
}

type goodCount struct {
	expr Expression
	cnt  int64
	star bool
}

func (c *goodCount) Update(ctx int, row []any) error {
	var inc bool
	if c.star {
		inc = true
	} else {
		v, err := c.expr.Eval(ctx, row)
		if v != nil {
			inc = true
		}
		if err != nil {
			return err
		}
	}
	if inc {
		c.cnt++
	}
	return nil
}

type goodVar struct {
	expr  Expression
	count int
	mean  float64
}

func (vb *goodVar) Update(ctx int, row []any) error {
	v, err := vb.expr.Eval(ctx, row)
	if err != nil {
		return err
	}
	v, _, err = Float64.Convert(ctx, v)
	if err != nil {
		v = 0.0
	}
	if v == nil {
		return nil
	}
	vb.count++
	vb.mean += v.(float64)
	return nil
}

type noTest struct {
	expr Expression
	val  any
}

func (l *noTest) Update(ctx int, row []any) error {
	v, err := l.expr.Eval(ctx, row)
	if err != nil {
		return err
	}
	l.val = v
	return nil
}

type countFirst struct {
	expr Expression
	rows int
	sum  float64
}

func (a *countFirst) Update(ctx int, row []any) error {
	v, err := a.expr.Eval(ctx, row)
	if err != nil {
		return err
	}
	a.rows++
	if v == nil {
		return nil
	}
	a.sum += v.(float64)
	return nil
}

func (a *countFirst) add(v any) { a.sum += 1 }

type helperFirst struct {
	countFirst
}

func (h *helperFirst) Update(ctx int, row []any) error {
	v, err := h.expr.Eval(ctx, row)
	if err != nil {
		return err
	}
	h.add(v)
	if v == nil {
		return nil
	}
	return nil
}

// badFlag sets the flag on the NULL edge as well.
type badFlag struct {
	expr Expression
	cnt  int64
}

func (c *badFlag) Update(ctx int, row []any) error {
	inc := false
	v, err := c.expr.Eval(ctx, row)
	if err != nil {
		return err
	}
	if v != nil {
		inc = true
	} else {
		inc = len(row) > 0 || true
	}
	if inc {
		c.cnt++
	}
	return nil
}
