// Package bad is a checker fixture: one planted defect per C37 rule (see the expectations in c37.go).
package bad

import (
	"context"
	"errors"
	"sync"
)

type statusVars struct{}

func (statusVars) IncrementGlobal(name string, val int) {}

var StatusVariables statusVars

type Session interface{ ID() uint32 }

type Context struct {
	context.Context
	Session Session
	pid     uint64
	PL      *ProcessList
}

func (c *Context) Pid() uint64 { return c.pid }

type Process struct {
	Connection uint32
	QueryPid   uint64
	Kill       context.CancelFunc
}

type ProcessList struct {
	mu         sync.RWMutex
	procs      map[uint32]*Process
	byQueryPid map[uint64]uint32
	old        context.CancelFunc
}

// Q2: a second insertion path without increment.
func (pl *ProcessList) AddConnection(id uint32, quiet bool) {
	pl.mu.Lock()
	defer pl.mu.Unlock()
	if !quiet {
		StatusVariables.IncrementGlobal("Threads_connected", 1)
	}
	pl.procs[id] = &Process{Connection: id}
}

// Q2: removes a possibly running process without touching Threads_running.
func (pl *ProcessList) RemoveConnection(id uint32) {
	pl.mu.Lock()
	defer pl.mu.Unlock()
	p := pl.procs[id]
	if p != nil {
		StatusVariables.IncrementGlobal("Threads_connected", -1)
		delete(pl.byQueryPid, p.QueryPid)
		delete(pl.procs, id)
	}
}

// Q2: increments before the error returns.
func (pl *ProcessList) BeginQuery(ctx *Context) (*Context, error) {
	pl.mu.Lock()
	defer pl.mu.Unlock()
	StatusVariables.IncrementGlobal("Threads_running", 1)
	id := ctx.Session.ID()
	pid := ctx.Pid()
	p := pl.procs[id]
	if p == nil {
		return nil, errors.New("not registered")
	}
	nctx, cancel := context.WithCancel(ctx.Context)
	p.QueryPid = pid
	p.Kill = cancel
	pl.byQueryPid[pid] = id
	return &Context{Context: nctx, Session: ctx.Session, pid: pid, PL: pl}, nil
}

// Q3a: keeps the stored cancel after the query ended.
func (pl *ProcessList) EndQuery(ctx *Context) {
	pl.mu.Lock()
	defer pl.mu.Unlock()
	id := ctx.Session.ID()
	pid := ctx.Pid()
	delete(pl.byQueryPid, pid)
	p := pl.procs[id]
	if p != nil && p.QueryPid == pid {
		StatusVariables.IncrementGlobal("Threads_running", -1)
		p.QueryPid = 0
	}
}

// Q3d: ends whatever query the connection is running now, whichever query the context belongs to.
func (pl *ProcessList) EndAny(ctx *Context) {
	pl.mu.Lock()
	defer pl.mu.Unlock()
	id := ctx.Session.ID()
	delete(pl.byQueryPid, ctx.Pid())
	p := pl.procs[id]
	if p != nil && p.QueryPid != 0 {
		StatusVariables.IncrementGlobal("Threads_running", -1)
		p.Kill()
		p.Kill = nil
		p.QueryPid = 0
	}
}

// Q3e: the process effects are guarded, but the pid→connection entry removed is the current query's.
func (pl *ProcessList) EndKeyed(ctx *Context) {
	pl.mu.Lock()
	defer pl.mu.Unlock()
	id := ctx.Session.ID()
	pid := ctx.Pid()
	p := pl.procs[id]
	if p == nil {
		return
	}
	delete(pl.byQueryPid, p.QueryPid)
	if p.QueryPid == pid {
		StatusVariables.IncrementGlobal("Threads_running", -1)
		p.Kill()
		p.Kill = nil
		p.QueryPid = 0
	}
}

// Q3f: by-pid entry point that does not go through byQueryPid.
func (pl *ProcessList) Touch(pid uint64) bool {
	pl.mu.Lock()
	defer pl.mu.Unlock()
	p := pl.procs[uint32(pid)]
	return p != nil
}

// Q3b: cancels everybody.
func (pl *ProcessList) KillAll() {
	pl.mu.Lock()
	defer pl.mu.Unlock()
	for _, p := range pl.procs {
		if p.Kill != nil {
			p.Kill()
		}
	}
}

// Q3c: installs a cancel function kept from an earlier call.
func (pl *ProcessList) Reuse(id uint32) {
	pl.mu.Lock()
	defer pl.mu.Unlock()
	p := pl.procs[id]
	if p != nil {
		p.Kill = pl.old
	}
}

// Q2w: a counter writer outside the process list.
func bump() { StatusVariables.IncrementGlobal("Threads_running", 1) }

func CommandBegin(s Session) error { return nil }
func CommandEnd(s Session)         {}

// Q1: EndQuery missing on the early return.
func handleBad(ctx *Context, skip bool) error {
	ctx, err := ctx.PL.BeginQuery(ctx)
	if err != nil {
		return err
	}
	if skip {
		return nil
	}
	defer ctx.PL.EndQuery(ctx)
	return nil
}

// Q1: the End is for another session.
func handleBad2(ctx, other *Context) error {
	err := CommandBegin(ctx.Session)
	if err != nil {
		return err
	}
	defer CommandEnd(other.Session)
	return nil
}

// Q1b: deregistration only on one branch.
func Closed(pl *ProcessList, id uint32) {
	if id != 0 {
		pl.RemoveConnection(id)
	}
}
