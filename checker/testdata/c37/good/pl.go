// Package good is a checker fixture: a miniature process list with the reference shapes. No C37 rule may fire.
package good

import (
	"context"
	"errors"
	"sync"
)

type statusVars struct{}

func (statusVars) IncrementGlobal(name string, val int) {}

var StatusVariables statusVars

type Session interface{ ID() uint32 }

type Context struct {
	context.Context
	Session Session
	pid     uint64
	PL      *ProcessList
}

func (c *Context) Pid() uint64 { return c.pid }

type Process struct {
	Connection uint32
	QueryPid   uint64
	Kill       context.CancelFunc
}

type ProcessList struct {
	mu         sync.RWMutex
	procs      map[uint32]*Process
	byQueryPid map[uint64]uint32
}

func (pl *ProcessList) AddConnection(id uint32) {
	StatusVariables.IncrementGlobal("Threads_connected", 1)
	pl.mu.Lock()
	defer pl.mu.Unlock()
	pl.procs[id] = &Process{Connection: id}
}

func (pl *ProcessList) RemoveConnection(id uint32) {
	pl.mu.Lock()
	defer pl.mu.Unlock()
	p := pl.procs[id]
	if p != nil {
		StatusVariables.IncrementGlobal("Threads_connected", -1)
		if p.QueryPid != 0 {
			StatusVariables.IncrementGlobal("Threads_running", -1)
		}
		if p.Kill != nil {
			p.Kill()
		}
		delete(pl.byQueryPid, p.QueryPid)
		delete(pl.procs, id)
	}
}

func (pl *ProcessList) BeginQuery(ctx *Context) (*Context, error) {
	pl.mu.Lock()
	defer pl.mu.Unlock()
	id := ctx.Session.ID()
	pid := ctx.Pid()
	p := pl.procs[id]
	if p == nil {
		return nil, errors.New("not registered")
	}
	if _, ok := pl.byQueryPid[pid]; ok {
		return nil, errors.New("pid in use")
	}
	StatusVariables.IncrementGlobal("Threads_running", 1)
	nctx, cancel := context.WithCancel(ctx.Context)
	p.QueryPid = pid
	p.Kill = cancel
	pl.byQueryPid[pid] = id
	return &Context{Context: nctx, Session: ctx.Session, pid: pid, PL: pl}, nil
}

func (pl *ProcessList) EndQuery(ctx *Context) {
	pl.mu.Lock()
	defer pl.mu.Unlock()
	id := ctx.Session.ID()
	pid := ctx.Pid()
	delete(pl.byQueryPid, pid)
	p := pl.procs[id]
	if p != nil && p.QueryPid == pid {
		StatusVariables.IncrementGlobal("Threads_running", -1)
		p.Kill()
		p.Kill = nil
		p.QueryPid = 0
	}
}

// EndQueryEarly: the same identity test written as an early return (the "equal" edge is the false edge of !=).
func (pl *ProcessList) EndQueryEarly(ctx *Context) {
	pl.mu.Lock()
	defer pl.mu.Unlock()
	id := ctx.Session.ID()
	p := pl.procs[id]
	if p == nil || !(p.QueryPid == ctx.Pid()) {
		delete(pl.byQueryPid, ctx.Pid())
		return
	}
	StatusVariables.IncrementGlobal("Threads_running", -1)
	p.Kill()
	p.Kill = nil
	delete(pl.byQueryPid, p.QueryPid)
	p.QueryPid = 0
}

// Touch is a by-pid entry point: the process is reached through byQueryPid[pid] only.
func (pl *ProcessList) Touch(pid uint64) bool {
	pl.mu.Lock()
	defer pl.mu.Unlock()
	id, ok := pl.byQueryPid[pid]
	if !ok {
		return false
	}
	p, ok := pl.procs[id]
	return ok && p != nil
}

func (pl *ProcessList) Kill(id uint32) {
	pl.mu.Lock()
	defer pl.mu.Unlock()
	p := pl.procs[id]
	if p != nil && p.Kill != nil {
		p.Kill()
	}
}

func CommandBegin(s Session) error { return nil }
func CommandEnd(s Session)         {}

func handle(ctx *Context) error {
	ctx, err := ctx.PL.BeginQuery(ctx)
	if err != nil {
		return err
	}
	defer ctx.PL.EndQuery(ctx)
	err = CommandBegin(ctx.Session)
	if err != nil {
		return err
	}
	defer func() {
		CommandEnd(ctx.Session)
	}()
	return nil
}

func Closed(pl *ProcessList, id uint32) {
	defer pl.RemoveConnection(id)
}
