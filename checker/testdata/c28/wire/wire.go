// Package wire is a checker fixture for C28: a miniature Type/ValueType pair. Good and
// GoodValue conform; the others break the NULL clause in one way each.
package wire

import "strconv"

type Value struct{ B []byte }

var NULL = Value{}

type Val struct {
	Val []byte
	Typ int
}

func (v Val) IsNull() bool { return v.Val == nil || v.Typ == 0 }

type Type interface {
	SQL(ctx int, dest []byte, v any) (Value, error)
}

type ValueType interface {
	Type
	SQLValue(ctx int, v Val, dest []byte) (Value, error)
}

type Good struct{}

func (Good) SQL(ctx int, dest []byte, v any) (Value, error) {
	if v == nil {
		return NULL, nil
	}
	return Value{strconv.AppendInt(dest, int64(v.(int)), 10)}, nil
}

func (Good) SQLValue(ctx int, v Val, dest []byte) (Value, error) {
	if v.IsNull() {
		return NULL, nil
	}
	// assigning a field makes the builder spill the parameter: reads become loads of a cell
	v.Val = append(v.Val, 0)
	return Value{append(dest, v.Val...)}, nil
}

type Delegating struct{}

func (Delegating) SQL(ctx int, dest []byte, v any) (Value, error) {
	return Good{}.SQL(ctx, dest, v)
}

type NoTest struct{}

func (NoTest) SQL(ctx int, dest []byte, v any) (Value, error) {
	return Value{strconv.AppendInt(dest, int64(v.(int)), 10)}, nil
}

type EmptyForNull struct{}

func (EmptyForNull) SQL(ctx int, dest []byte, v any) (Value, error) {
	if v == nil {
		return Value{}, nil
	}
	return Value{strconv.AppendInt(dest, int64(v.(int)), 10)}, nil
}

type LateTest struct{}

func (LateTest) SQL(ctx int, dest []byte, v any) (Value, error) {
	n := v.(int)
	if v == nil {
		return NULL, nil
	}
	return Value{strconv.AppendInt(dest, int64(n), 10)}, nil
}

type FieldBeforeTest struct{ Good }

func (FieldBeforeTest) SQLValue(ctx int, v Val, dest []byte) (Value, error) {
	b := v.Val[0]
	if v.IsNull() {
		return NULL, nil
	}
	return Value{append(dest, b)}, nil
}
