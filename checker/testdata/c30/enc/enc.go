// Package enc is the C30 fixture: Good satisfies R0-R4; Bad violates each of them once.
package enc

type RangeMap struct {
	inputEntries  [][]rangeMapEntry
	outputEntries [][]rangeMapEntry
}

type rangeMapEntry struct {
	inputRange  rangeBounds
	outputRange rangeBounds
	inputMults  []int
	outputMults []int
}

type rangeBounds [][2]byte

var Good = &RangeMap{
	inputEntries: [][]rangeMapEntry{
		{
			{inputRange: rangeBounds{{0, 127}}, outputRange: rangeBounds{{0, 127}}, inputMults: []int{1}, outputMults: []int{1}},
			{inputRange: rangeBounds{{192, 255}}, outputRange: rangeBounds{{195, 195}, {128, 191}}, inputMults: []int{1}, outputMults: []int{64, 1}},
		},
		nil,
	},
	outputEntries: [][]rangeMapEntry{
		{
			{inputRange: rangeBounds{{0, 127}}, outputRange: rangeBounds{{0, 127}}, inputMults: []int{1}, outputMults: []int{1}},
		},
		{
			{inputRange: rangeBounds{{192, 255}}, outputRange: rangeBounds{{195, 195}, {128, 191}}, inputMults: []int{1}, outputMults: []int{64, 1}},
		},
	},
}

// Bad: R0 one bucket vs two; R1 (41..5A) has two multipliers for one digit; R2 (80..80) has no twin and
// (C0..C1) differs between the sides; R3 (C0..C1) output radix {1,1} for a 2-wide last digit is fine but the
// input rectangle (2) is mapped with outputMults {2,1} on a 1x1 rectangle; R4 (00..7F) overlaps (41..5A).
var Bad = &RangeMap{
	inputEntries: [][]rangeMapEntry{
		{
			{inputRange: rangeBounds{{0, 127}}, outputRange: rangeBounds{{0, 127}}, inputMults: []int{1}, outputMults: []int{1}},
			{inputRange: rangeBounds{{65, 90}}, outputRange: rangeBounds{{200, 225}}, inputMults: []int{1, 1}, outputMults: []int{1}},
			{inputRange: rangeBounds{{128, 128}}, outputRange: rangeBounds{{226, 226}}, inputMults: []int{1}, outputMults: []int{1}},
			{inputRange: rangeBounds{{192, 193}}, outputRange: rangeBounds{{195, 195}, {128, 128}}, inputMults: []int{1}, outputMults: []int{2, 1}},
		},
	},
	outputEntries: [][]rangeMapEntry{
		{
			{inputRange: rangeBounds{{0, 127}}, outputRange: rangeBounds{{0, 127}}, inputMults: []int{1}, outputMults: []int{1}},
			{inputRange: rangeBounds{{65, 90}}, outputRange: rangeBounds{{200, 225}}, inputMults: []int{1, 1}, outputMults: []int{1}},
		},
		{
			{inputRange: rangeBounds{{192, 193}}, outputRange: rangeBounds{{195, 195}, {128, 128}}, inputMults: []int{1}, outputMults: []int{3, 1}},
		},
	},
}

var _ = []*RangeMap{Good, Bad}
