// Package sql is a checker fixture: the minimal editor / iterator interfaces.
package sql

type Row []any

type Context struct{ done chan struct{} }

func (c *Context) Done() <-chan struct{} { return c.done }
func (c *Context) Err() error            { return nil }

type RowIter interface {
	Next(ctx *Context) (Row, error)
	Close(ctx *Context) error
}

type IgnorableError interface {
	error
	Ignorable()
}

type EditOpenerCloser interface {
	StatementBegin(ctx *Context)
	DiscardChanges(ctx *Context, errorEncountered error) error
	StatementComplete(ctx *Context) error
}

type RowInserter interface {
	EditOpenerCloser
	Insert(ctx *Context, r Row) error
	Close(ctx *Context) error
}
