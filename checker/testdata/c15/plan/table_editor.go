// Package plan is a checker fixture: statement-boundary iterators with seeded protocol bugs.
package plan

import (
	"io"
	"sync"

	"vchk/testdata/c15/sql"
)

type TableEditorIter struct {
	inner            sql.RowIter
	errorEncountered error
	openerClosers    []sql.EditOpenerCloser
	once             sync.Once
}

func NewTableEditorIter(wrapped sql.RowIter, ocs ...sql.EditOpenerCloser) sql.RowIter {
	return &TableEditorIter{inner: wrapped, openerClosers: ocs}
}

func (s *TableEditorIter) Next(ctx *sql.Context) (sql.Row, error) {
	s.once.Do(func() {
		for _, oc := range s.openerClosers {
			oc.StatementBegin(ctx)
		}
	})
	row, err := s.inner.Next(ctx)
	if err != nil && err != io.EOF {
		s.errorEncountered = err
		return row, err
	}
	select {
	case <-ctx.Done():
		return nil, ctx.Err() // BUG: not recorded
	default:
	}
	return row, err
}

func (s *TableEditorIter) Close(ctx *sql.Context) error {
	err := s.errorEncountered
	_, ignoreError := err.(sql.IgnorableError)
	if err != nil && !ignoreError {
		for _, oc := range s.openerClosers {
			_ = oc.DiscardChanges(ctx, s.errorEncountered) // BUG: error dropped
		}
	} else {
		for _, oc := range s.openerClosers {
			tempErr := oc.StatementComplete(ctx)
			if tempErr != nil {
				err = tempErr
				break // BUG: the remaining editors are never completed
			}
		}
	}
	if err != nil {
		return err // BUG: inner is not closed
	}
	return s.inner.Close(ctx)
}

type CheckpointingTableEditorIter struct {
	editIter sql.EditOpenerCloser
	inner    sql.RowIter
}

func NewCheckpointingTableEditorIter(wrapped sql.RowIter, table sql.EditOpenerCloser) sql.RowIter {
	return &CheckpointingTableEditorIter{editIter: table, inner: wrapped}
}

func (c *CheckpointingTableEditorIter) Next(ctx *sql.Context) (sql.Row, error) {
	// BUG: no StatementBegin
	row, err := c.inner.Next(ctx)
	if err != nil && err != io.EOF {
		if row == nil {
			return nil, err // BUG: no DiscardChanges on this exit
		}
		if dErr := c.editIter.DiscardChanges(ctx, err); dErr != nil {
			return nil, dErr
		}
		return row, err
	}
	if sErr := c.editIter.StatementComplete(ctx); sErr != nil {
		return row, sErr
	}
	return row, err
}

func (c *CheckpointingTableEditorIter) Close(ctx *sql.Context) error { return c.inner.Close(ctx) }
