// Package exec is a checker fixture: a DML iterator, an editor that swallows an error and a
// wrapper editor that forgets one sub-editor.
package exec

import (
	"vchk/testdata/c15/plan"
	"vchk/testdata/c15/sql"
)

type rowWriter struct {
	src      sql.RowIter
	inserter sql.RowInserter
}

func (w *rowWriter) Next(ctx *sql.Context) (sql.Row, error) {
	r, err := w.src.Next(ctx)
	if err != nil {
		return nil, err
	}
	return r, w.inserter.Insert(ctx, r)
}

func (w *rowWriter) Close(ctx *sql.Context) error { return w.inserter.Close(ctx) }

// NewWrapped is the correct construction.
func NewWrapped(src sql.RowIter, ins sql.RowInserter) sql.RowIter {
	w := &rowWriter{src: src, inserter: ins}
	return plan.NewTableEditorIter(w, ins)
}

// NewBare returns the iterator without statement boundaries. BUG.
func NewBare(src sql.RowIter, ins sql.RowInserter) sql.RowIter {
	return &rowWriter{src: src, inserter: ins}
}

type memEditor struct{ pending []sql.Row }

func (m *memEditor) apply() error                                       { return nil }
func (m *memEditor) StatementBegin(ctx *sql.Context)                    {}
func (m *memEditor) DiscardChanges(ctx *sql.Context, cause error) error { m.pending = nil; return nil }
func (m *memEditor) StatementComplete(ctx *sql.Context) error {
	err := m.apply()
	if err != nil {
		return nil // BUG: swallowed
	}
	m.pending = nil
	return nil
}
func (m *memEditor) Insert(ctx *sql.Context, r sql.Row) error {
	m.pending = append(m.pending, r)
	return nil
}
func (m *memEditor) Close(ctx *sql.Context) error {
	if err := m.apply(); err != nil {
		return err
	}
	return nil
}

type pairEditor struct {
	primary   sql.RowInserter
	secondary []sql.RowInserter
}

func (p *pairEditor) StatementBegin(ctx *sql.Context) {
	for _, s := range p.secondary {
		s.StatementBegin(ctx)
	}
	p.primary.StatementBegin(ctx)
}

func (p *pairEditor) DiscardChanges(ctx *sql.Context, cause error) error {
	// BUG: the secondaries are not discarded
	return p.primary.DiscardChanges(ctx, cause)
}

func (p *pairEditor) StatementComplete(ctx *sql.Context) error {
	var err error
	for _, sec := range p.secondary {
		if e := sec.StatementComplete(ctx); err == nil {
			err = e
		}
	}
	if e := p.primary.StatementComplete(ctx); err == nil {
		err = e
	}
	return err
}
