package exec

import "vchk/testdata/c15/sql"

// Snapshot-keeping editors (rules S6..S9): one correct, five broken.

type tdata struct{ rows []sql.Row }

func (d tdata) copy() *tdata {
	d.rows = append([]sql.Row(nil), d.rows...)
	return &d
}

type table struct {
	data *tdata
	name string
}

// copy is a deep copy: the data pointer is refreshed.
func (t table) copy() *table {
	t.data = t.data.copy()
	return &t
}

// shallow shares data with the original.
func (t table) shallow() *table { return &t }

func (t *table) replaceData(src *tdata) { t.data = src.copy() }

var published *tdata

func publish(d *tdata) { published = d }

// goodSnap follows the protocol.
type goodSnap struct {
	live, snap *table
	discard    bool
}

func newGoodSnap(t *table) *goodSnap { return &goodSnap{live: t, snap: t.copy()} }

func (g *goodSnap) StatementBegin(ctx *sql.Context) { g.snap = g.live.copy() }
func (g *goodSnap) DiscardChanges(ctx *sql.Context, cause error) error {
	if _, ignore := cause.(sql.IgnorableError); !ignore {
		g.restore()
		g.discard = true
	}
	return nil
}
func (g *goodSnap) restore()                                 { g.live.replaceData(g.snap.data) }
func (g *goodSnap) StatementComplete(ctx *sql.Context) error { return nil }
func (g *goodSnap) Close(ctx *sql.Context) error {
	if g.discard {
		publish(g.snap.data)
	}
	return nil
}

// swapSnap overwrites the snapshot with the live state. BUG (S7, S8).
type swapSnap struct{ live, snap *table }

func (s *swapSnap) StatementBegin(ctx *sql.Context) { s.snap = s.live.copy() }
func (s *swapSnap) DiscardChanges(ctx *sql.Context, cause error) error {
	if _, ignore := cause.(sql.IgnorableError); !ignore {
		s.snap.replaceData(s.live.data)
	}
	return nil
}
func (s *swapSnap) StatementComplete(ctx *sql.Context) error { return nil }

// aliasSnap keeps an alias instead of a copy. BUG (S9).
type aliasSnap struct{ live, snap *table }

func (a *aliasSnap) StatementBegin(ctx *sql.Context) { a.snap = a.live }
func (a *aliasSnap) DiscardChanges(ctx *sql.Context, cause error) error {
	a.live.replaceData(a.snap.data)
	return nil
}
func (a *aliasSnap) StatementComplete(ctx *sql.Context) error { return nil }

// shallowSnap copies the table header only. BUG (S9 deep).
type shallowSnap struct{ live, snap *table }

func (s *shallowSnap) StatementBegin(ctx *sql.Context) { s.snap = s.live.shallow() }
func (s *shallowSnap) DiscardChanges(ctx *sql.Context, cause error) error {
	s.live.data = s.snap.data.copy()
	return nil
}
func (s *shallowSnap) StatementComplete(ctx *sql.Context) error { return nil }

// resnapSnap takes a new snapshot in the middle of the statement. BUG (S6).
type resnapSnap struct{ live, snap *table }

func (r *resnapSnap) StatementBegin(ctx *sql.Context) { r.snap = r.live.copy() }
func (r *resnapSnap) Lookup() *table {
	r.snap = r.live.copy()
	return r.live
}
func (r *resnapSnap) DiscardChanges(ctx *sql.Context, cause error) error {
	r.live.replaceData(r.snap.data)
	return nil
}
func (r *resnapSnap) StatementComplete(ctx *sql.Context) error { return nil }

// condSnap restores only for ignorable errors. BUG (S8).
type condSnap struct{ live, snap *table }

func (c *condSnap) StatementBegin(ctx *sql.Context) { c.snap = c.live.copy() }
func (c *condSnap) DiscardChanges(ctx *sql.Context, cause error) error {
	if _, ignore := cause.(sql.IgnorableError); ignore {
		c.live.replaceData(c.snap.data)
	}
	return nil
}
func (c *condSnap) StatementComplete(ctx *sql.Context) error { return nil }
