// Package exec is a checker fixture: the executor's dispatch and build functions. Never executed.
package exec

import (
	"io"

	"vchk/testdata/c42/plan"
	"vchk/testdata/c42/sql"
)

type BaseBuilder struct{}

func (b *BaseBuilder) Build(ctx any, n sql.Node, r sql.Row) (sql.RowIter, error) {
	return b.buildNodeExec(ctx, n, r)
}

func (b *BaseBuilder) buildNodeExec(ctx any, n sql.Node, r sql.Row) (sql.RowIter, error) {
	switch n := n.(type) {
	case *plan.Insert:
		return b.buildInsert(ctx, n, r)
	case *plan.Show:
		return b.buildShow(ctx, n, r)
	case *plan.Filter:
		return b.buildFilter(ctx, n, r)
	case *plan.Explain:
		return b.buildExplain(ctx, n, r)
	case *plan.Purge:
		return b.buildPurge(ctx, n, r)
	case *plan.Union:
		return b.buildUnion(ctx, n, r)
	case *plan.Concat:
		return b.buildConcat(ctx, n, r)
	case *plan.Seq:
		return b.buildSeq(ctx, n, r)
	case *plan.Any:
		return b.buildAny(ctx, n, r)
	case *plan.Trig:
		return b.buildTrig(ctx, n, r)
	case *plan.Opt:
		return b.buildOpt(ctx, n, r)
	}
	return nil, io.EOF
}

type rows struct{ rs []sql.Row }

func (i *rows) Next() (sql.Row, error) {
	if len(i.rs) == 0 {
		return nil, io.EOF
	}
	r := i.rs[0]
	i.rs = i.rs[1:]
	return r, nil
}
func (i *rows) Close() error { return nil }

func (b *BaseBuilder) buildInsert(ctx any, n *plan.Insert, r sql.Row) (sql.RowIter, error) {
	src, err := b.buildNodeExec(ctx, n.Src, r)
	if err != nil {
		return nil, err
	}
	return &insertIter{src: src, dst: n.Dest}, nil
}

type insertIter struct {
	src sql.RowIter
	dst sql.RowInserter
}

func (i *insertIter) Next() (sql.Row, error) {
	r, err := i.src.Next()
	if err != nil {
		return nil, err
	}
	return r, i.dst.Insert(r)
}
func (i *insertIter) Close() error { return i.src.Close() }

func (b *BaseBuilder) buildShow(ctx any, n *plan.Show, r sql.Row) (sql.RowIter, error) {
	return &rows{rs: []sql.Row{{"x"}}}, nil
}

func (b *BaseBuilder) buildFilter(ctx any, n *plan.Filter, r sql.Row) (sql.RowIter, error) {
	return b.buildNodeExec(ctx, n.Child, r)
}

func (b *BaseBuilder) buildExplain(ctx any, n *plan.Explain, r sql.Row) (sql.RowIter, error) {
	child, err := b.Build(ctx, n.Child, r)
	if err != nil {
		return nil, err
	}
	for {
		if _, err := child.Next(); err != nil {
			break
		}
	}
	return &rows{}, nil
}

func (b *BaseBuilder) buildPurge(ctx any, n *plan.Purge, r sql.Row) (sql.RowIter, error) {
	return &purgeIter{n: n}, nil
}

type purgeIter struct{ n *plan.Purge }

func (i *purgeIter) Next() (sql.Row, error) {
	for _, name := range i.n.Names {
		if err := dropOne(i.n.Db, name); err != nil {
			return nil, err
		}
	}
	return nil, io.EOF
}
func (i *purgeIter) Close() error { return nil }

func dropOne(db sql.TableDropper, name string) error { return db.DropTable(name) }

// ---- R2c

func (b *BaseBuilder) buildUnion(ctx any, n *plan.Union, r sql.Row) (sql.RowIter, error) {
	l, err := b.buildNodeExec(ctx, n.Left(), r)
	if err != nil {
		return nil, err
	}
	return &concatIter{cur: l, next: func() (sql.RowIter, error) { return b.buildNodeExec(ctx, n.Right(), r) }}, nil
}

func (b *BaseBuilder) buildConcat(ctx any, n *plan.Concat, r sql.Row) (sql.RowIter, error) {
	l, err := b.buildNodeExec(ctx, n.Left(), r)
	if err != nil {
		return nil, err
	}
	return &concatIter{cur: l, next: func() (sql.RowIter, error) { return b.buildNodeExec(ctx, n.Right(), r) }}, nil
}

type concatIter struct {
	cur  sql.RowIter
	next func() (sql.RowIter, error)
}

func (i *concatIter) Next() (sql.Row, error) {
	r, err := i.cur.Next()
	if err == io.EOF && i.next != nil {
		i.cur, err = i.next()
		i.next = nil
		if err != nil {
			return nil, err
		}
		return i.cur.Next()
	}
	return r, err
}
func (i *concatIter) Close() error { return i.cur.Close() }

func (b *BaseBuilder) runAll(ctx any, stmts []sql.Node, r sql.Row) (sql.RowIter, error) {
	var last sql.RowIter
	for _, s := range stmts {
		it, err := b.buildNodeExec(ctx, s, r)
		if err != nil {
			return nil, err
		}
		last = it
	}
	return last, nil
}

func (b *BaseBuilder) buildSeq(ctx any, n *plan.Seq, r sql.Row) (sql.RowIter, error) {
	return b.runAll(ctx, n.Children(), r)
}

func (b *BaseBuilder) buildAny(ctx any, n *plan.Any, r sql.Row) (sql.RowIter, error) {
	return b.runAll(ctx, n.Stmts, r)
}

func (b *BaseBuilder) buildTrig(ctx any, n *plan.Trig, r sql.Row) (sql.RowIter, error) {
	child, err := b.buildNodeExec(ctx, n.Stmt, r)
	if err != nil {
		return nil, err
	}
	return &trigIter{b: b, child: child, logic: n.Logic}, nil
}

type trigIter struct {
	b     *BaseBuilder
	child sql.RowIter
	logic sql.Node
}

func (i *trigIter) Next() (sql.Row, error) {
	r, err := i.child.Next()
	if err != nil {
		return nil, err
	}
	li, err := i.b.buildNodeExec(nil, i.logic, r)
	if err != nil {
		return nil, err
	}
	return r, li.Close()
}
func (i *trigIter) Close() error { return i.child.Close() }

func (b *BaseBuilder) buildOpt(ctx any, n *plan.Opt, r sql.Row) (sql.RowIter, error) {
	if n.Child == nil {
		return &rows{}, nil
	}
	return b.buildNodeExec(ctx, n.Child, r)
}
