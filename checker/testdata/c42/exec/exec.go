// Package exec is a checker fixture: the executor's dispatch and build functions. Never executed.
package exec

import (
	"io"

	"vchk/testdata/c42/plan"
	"vchk/testdata/c42/sql"
)

type BaseBuilder struct{}

func (b *BaseBuilder) Build(ctx any, n sql.Node, r sql.Row) (sql.RowIter, error) {
	return b.buildNodeExec(ctx, n, r)
}

func (b *BaseBuilder) buildNodeExec(ctx any, n sql.Node, r sql.Row) (sql.RowIter, error) {
	switch n := n.(type) {
	case *plan.Insert:
		return b.buildInsert(ctx, n, r)
	case *plan.Show:
		return b.buildShow(ctx, n, r)
	case *plan.Filter:
		return b.buildFilter(ctx, n, r)
	case *plan.Explain:
		return b.buildExplain(ctx, n, r)
	case *plan.Purge:
		return b.buildPurge(ctx, n, r)
	}
	return nil, io.EOF
}

type rows struct{ rs []sql.Row }

func (i *rows) Next() (sql.Row, error) {
	if len(i.rs) == 0 {
		return nil, io.EOF
	}
	r := i.rs[0]
	i.rs = i.rs[1:]
	return r, nil
}
func (i *rows) Close() error { return nil }

func (b *BaseBuilder) buildInsert(ctx any, n *plan.Insert, r sql.Row) (sql.RowIter, error) {
	src, err := b.buildNodeExec(ctx, n.Src, r)
	if err != nil {
		return nil, err
	}
	return &insertIter{src: src, dst: n.Dest}, nil
}

type insertIter struct {
	src sql.RowIter
	dst sql.RowInserter
}

func (i *insertIter) Next() (sql.Row, error) {
	r, err := i.src.Next()
	if err != nil {
		return nil, err
	}
	return r, i.dst.Insert(r)
}
func (i *insertIter) Close() error { return i.src.Close() }

func (b *BaseBuilder) buildShow(ctx any, n *plan.Show, r sql.Row) (sql.RowIter, error) {
	return &rows{rs: []sql.Row{{"x"}}}, nil
}

func (b *BaseBuilder) buildFilter(ctx any, n *plan.Filter, r sql.Row) (sql.RowIter, error) {
	return b.buildNodeExec(ctx, n.Child, r)
}

func (b *BaseBuilder) buildExplain(ctx any, n *plan.Explain, r sql.Row) (sql.RowIter, error) {
	child, err := b.Build(ctx, n.Child, r)
	if err != nil {
		return nil, err
	}
	for {
		if _, err := child.Next(); err != nil {
			break
		}
	}
	return &rows{}, nil
}

func (b *BaseBuilder) buildPurge(ctx any, n *plan.Purge, r sql.Row) (sql.RowIter, error) {
	return &purgeIter{n: n}, nil
}

type purgeIter struct{ n *plan.Purge }

func (i *purgeIter) Next() (sql.Row, error) {
	for _, name := range i.n.Names {
		if err := dropOne(i.n.Db, name); err != nil {
			return nil, err
		}
	}
	return nil, io.EOF
}
func (i *purgeIter) Close() error { return nil }

func dropOne(db sql.TableDropper, name string) error { return db.DropTable(name) }
