// Package plan is a checker fixture: plan nodes with their IsReadOnly answers. Never executed.
package plan

import "vchk/testdata/c42/sql"

type Insert struct {
	Dest sql.RowInserter
	Src  sql.Node
}

func (n *Insert) IsReadOnly() bool     { return false }
func (n *Insert) Children() []sql.Node { return []sql.Node{n.Src} }

type Show struct{}

func (n *Show) IsReadOnly() bool     { return true }
func (n *Show) Children() []sql.Node { return nil }

type Filter struct{ Child sql.Node }

func (n *Filter) IsReadOnly() bool     { return n.Child.IsReadOnly() }
func (n *Filter) Children() []sql.Node { return []sql.Node{n.Child} }

// Explain executes its child but claims to be read-only (R2 defect).
type Explain struct{ Child sql.Node }

func (n *Explain) IsReadOnly() bool     { return true }
func (n *Explain) Children() []sql.Node { return nil }

// Purge drops tables from an iterator but claims to be read-only (R3 defect).
type Purge struct {
	Db    sql.TableDropper
	Names []string
}

func (n *Purge) IsReadOnly() bool     { return true }
func (n *Purge) Children() []sql.Node { return nil }

// ---- R2c: child coverage of delegating IsReadOnly implementations

type binary struct{ left, right sql.Node }

func (b *binary) Left() sql.Node       { return b.left }
func (b *binary) Right() sql.Node      { return b.right }
func (b *binary) Children() []sql.Node { return []sql.Node{b.left, b.right} }

// Union executes both sides but asks the right side twice (R2c defect on left).
type Union struct{ binary }

func (n *Union) IsReadOnly() bool { return n.right.IsReadOnly() && n.right.IsReadOnly() }

// Concat is the good sibling: both sides conjoined through the children loop.
type Concat struct{ binary }

func (n *Concat) IsReadOnly() bool {
	for _, c := range n.Children() {
		if !c.IsReadOnly() {
			return false
		}
	}
	return true
}

// Seq is good: every statement is consulted, with a flag variable.
type Seq struct{ Stmts []sql.Node }

func (n *Seq) IsReadOnly() bool {
	ro := true
	for i := 0; i < len(n.Stmts); i++ {
		if !n.Stmts[i].IsReadOnly() {
			ro = false
		}
	}
	return ro
}
func (n *Seq) Children() []sql.Node { return n.Stmts }

// Any is read-only as soon as one statement is (R2c defect).
type Any struct{ Stmts []sql.Node }

func (n *Any) IsReadOnly() bool {
	for _, s := range n.Stmts {
		if s.IsReadOnly() {
			return true
		}
	}
	return false
}
func (n *Any) Children() []sql.Node { return n.Stmts }

// Trig runs Logic for every row of Stmt from its iterator but only asks Stmt (R2c defect on Logic).
type Trig struct{ Stmt, Logic sql.Node }

func (n *Trig) IsReadOnly() bool     { return n.Stmt.IsReadOnly() }
func (n *Trig) Children() []sql.Node { return []sql.Node{n.Stmt, n.Logic} }

// Opt is good: the optional child is nil or consulted.
type Opt struct{ Child sql.Node }

func (n *Opt) IsReadOnly() bool {
	if n.Child == nil {
		return true
	}
	return n.Child.IsReadOnly()
}
func (n *Opt) Children() []sql.Node { return nil }
