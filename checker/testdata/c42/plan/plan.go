// Package plan is a checker fixture: plan nodes with their IsReadOnly answers. Never executed.
package plan

import "vchk/testdata/c42/sql"

type Insert struct {
	Dest sql.RowInserter
	Src  sql.Node
}

func (n *Insert) IsReadOnly() bool     { return false }
func (n *Insert) Children() []sql.Node { return []sql.Node{n.Src} }

type Show struct{}

func (n *Show) IsReadOnly() bool     { return true }
func (n *Show) Children() []sql.Node { return nil }

type Filter struct{ Child sql.Node }

func (n *Filter) IsReadOnly() bool     { return n.Child.IsReadOnly() }
func (n *Filter) Children() []sql.Node { return []sql.Node{n.Child} }

// Explain executes its child but claims to be read-only (R2 defect).
type Explain struct{ Child sql.Node }

func (n *Explain) IsReadOnly() bool     { return true }
func (n *Explain) Children() []sql.Node { return nil }

// Purge drops tables from an iterator but claims to be read-only (R3 defect).
type Purge struct {
	Db    sql.TableDropper
	Names []string
}

func (n *Purge) IsReadOnly() bool     { return true }
func (n *Purge) Children() []sql.Node { return nil }
