// Package an is a checker fixture: analyzer rule tables. Never executed.
package an

import (
	"errors"

	"vchk/testdata/c42/sql"
)

var ErrReadOnlyTransaction = errors.New("read only transaction")
var ErrReadOnlyDatabase = errors.New("read only database")

type Rule struct {
	Id    int
	Apply func(n sql.Node) (sql.Node, error)
}

func validateReadOnlyDatabase(n sql.Node) (sql.Node, error) {
	if !n.IsReadOnly() {
		return nil, ErrReadOnlyDatabase
	}
	return n, nil
}

// validateReadOnlyTransaction is defined but was dropped from the rule table (R4 defect).
func validateReadOnlyTransaction(n sql.Node) (sql.Node, error) {
	if !n.IsReadOnly() {
		return nil, ErrReadOnlyTransaction
	}
	return n, nil
}

func resolveTables(n sql.Node) (sql.Node, error) { return n, nil }

var OnceBeforeDefault = []Rule{
	{1, resolveTables},
	{2, validateReadOnlyDatabase},
}
