// Package eng is a checker fixture: engine entry points with and without the read-only check. Never executed.
package eng

import (
	"errors"

	"vchk/testdata/c42/sql"
)

type Engine struct {
	ReadOnly bool
	Exec     sql.ExecBuilder
}

var ErrReadOnly = errors.New("read only")

func (e *Engine) readOnlyCheck(n sql.Node) error {
	if e.ReadOnly && !n.IsReadOnly() {
		return ErrReadOnly
	}
	return nil
}

// Query is correct.
func (e *Engine) Query(ctx any, analyzed sql.Node) (sql.RowIter, error) {
	err := e.readOnlyCheck(analyzed)
	if err != nil {
		return nil, err
	}
	return e.Exec.Build(ctx, analyzed, nil)
}

// RunEvent executes without the check (R1 defect).
func (e *Engine) RunEvent(ctx any, body sql.Node) error {
	iter, err := e.Exec.Build(ctx, body, nil)
	if err != nil {
		return err
	}
	return iter.Close()
}

// QueryLenient checks but only logs the error (R1 defect).
func (e *Engine) QueryLenient(ctx any, analyzed sql.Node) (sql.RowIter, error) {
	err := e.readOnlyCheck(analyzed)
	if err != nil {
		_ = err.Error()
	}
	return e.Exec.Build(ctx, analyzed, nil)
}

// QueryOther checks a different node than it executes (R1 defect).
func (e *Engine) QueryOther(ctx any, bound, analyzed sql.Node) (sql.RowIter, error) {
	if err := e.readOnlyCheck(bound); err != nil {
		return nil, err
	}
	return e.Exec.Build(ctx, analyzed, nil)
}
