// Package sql is a checker fixture: the core interfaces. Never executed.
package sql

type Row []any

type RowIter interface {
	Next() (Row, error)
	Close() error
}

type Node interface {
	IsReadOnly() bool
	Children() []Node
}

type RowInserter interface {
	Insert(r Row) error
}

type TableDropper interface {
	DropTable(name string) error
}

type ExecBuilder interface {
	Build(ctx any, n Node, r Row) (RowIter, error)
}
