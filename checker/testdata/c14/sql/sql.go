// Package sql is a checker fixture: rows and the editor interface.
package sql

type Row []any

type EditOpenerCloser interface {
	StatementBegin()
	DiscardChanges(cause error) error
	StatementComplete() error
}
