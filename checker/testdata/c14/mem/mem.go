// Package mem is a checker fixture: an accumulator keyed by formatted cells and an editor
// comparing cells with ==.
package mem

import (
	"fmt"
	"strings"

	"vchk/testdata/c14/cmap"
	"vchk/testdata/c14/sql"
)

type acc struct {
	pk   []int
	adds *cmap.Map[string, sql.Row]
	dup  map[string]bool
}

// rowKey concatenates %v renderings without a delimiter. BUG.
func (a *acc) rowKey(r sql.Row) string {
	var b strings.Builder
	for _, i := range a.pk {
		b.WriteString(fmt.Sprintf("%v", r[i]))
	}
	return b.String()
}

func (a *acc) insert(r sql.Row) { a.adds.Set(a.rowKey(r), r) }

// seen formats straight into the key of a Go map. BUG.
func (a *acc) seen(r sql.Row) bool {
	k := "k" + fmt.Sprint(r[0])
	if a.dup[k] {
		return true
	}
	a.dup[k] = true
	return false
}

// describe formats cells for a message only: fine.
func (a *acc) describe(r sql.Row) string { return fmt.Sprintf("row %v", r[0]) }

type editor struct {
	a    *acc
	rows []sql.Row
}

func (e *editor) StatementBegin()                  {}
func (e *editor) DiscardChanges(cause error) error { return nil }
func (e *editor) StatementComplete() error         { return nil }

func (e *editor) Insert(r sql.Row) error {
	for _, old := range e.rows {
		if sameKey(e.a.pk, old, r) {
			return fmt.Errorf("duplicate %s", e.a.describe(r))
		}
	}
	if e.a.seen(r) {
		return fmt.Errorf("duplicate")
	}
	e.a.insert(r)
	e.rows = append(e.rows, r)
	return nil
}

// sameKey compares cells as Go values. BUG.
func sameKey(pk []int, a, b sql.Row) bool {
	for _, i := range pk {
		if a[i] != b[i] {
			return false
		}
	}
	return true
}

// unrelated is not reachable from the editor: == on cells here is out of scope.
func unrelated(a, b sql.Row) bool { return a[0] == b[0] }

var _ = unrelated

// ---- C14-Y1 fixtures: prefix-length truncation of two compared cells ----

// matchGood resets the bound between the two truncations: silent.
func matchGood(cols []int, prefix []uint16, a, b sql.Row) bool {
	for i, idx := range cols {
		v1, v2 := a[idx], b[idx]
		if len(prefix) > i && prefix[i] > 0 {
			n := prefix[i]
			if s, ok := v1.(string); ok {
				if n > uint16(len(s)) {
					n = uint16(len(s))
				}
				v1 = s[:n]
			}
			n = prefix[i]
			if s, ok := v2.(string); ok {
				if n > uint16(len(s)) {
					n = uint16(len(s))
				}
				v2 = s[:n]
			}
		}
		if v1.(string) != v2.(string) {
			return false
		}
	}
	return true
}

// matchStale keeps the bound clamped to the first cell: reported for b.
func matchStale(cols []int, prefix []uint16, a, b sql.Row) bool {
	for i, idx := range cols {
		v1, v2 := a[idx], b[idx]
		if len(prefix) > i && prefix[i] > 0 {
			n := prefix[i]
			if s, ok := v1.(string); ok {
				if n > uint16(len(s)) {
					n = uint16(len(s))
				}
				v1 = s[:n]
			}
			if s, ok := v2.(string); ok {
				if n > uint16(len(s)) {
					n = uint16(len(s))
				}
				v2 = s[:n]
			}
		}
		if v1.(string) != v2.(string) {
			return false
		}
	}
	return true
}

func cut(c any, n uint16) any {
	if s, ok := c.(string); ok {
		if n > uint16(len(s)) {
			n = uint16(len(s))
		}
		return s[:n]
	}
	return c
}

// matchHelperOneSide truncates only the first row through a helper: reported (b never truncated, types differ).
func matchHelperOneSide(cols []int, prefix []uint16, a, b sql.Row) bool {
	for i, idx := range cols {
		if cut(a[idx], prefix[i]).(string) != b[idx].(string) {
			return false
		}
	}
	return true
}

// matchHelperBoth: silent.
func matchHelperBoth(cols []int, prefix []uint16, a, b sql.Row) bool {
	for i, idx := range cols {
		if cut(a[idx], prefix[i]).(string) != cut(b[idx], prefix[i]).(string) {
			return false
		}
	}
	return true
}
