// Package cmap is a checker fixture: a generic map wrapper (the key reaches a Go map inside).
package cmap

type Map[K comparable, V any] struct{ m map[K]V }

func New[K comparable, V any]() *Map[K, V] { return &Map[K, V]{m: map[K]V{}} }

func (m *Map[K, V]) Set(k K, v V) { m.m[k] = v }

func (m *Map[K, V]) Get(k K) (V, bool) { v, ok := m.m[k]; return v, ok }
