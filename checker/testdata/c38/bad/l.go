// Package bad is a checker fixture: one planted defect per C38 rule (see c38.go for the expectations).
package bad

import (
	"errors"
	"sync"
	"sync/atomic"
	"unsafe"
)

type Session interface {
	ID() uint32
	AddLock(name string) error
	DelLock(name string) error
	IterLocks(func(name string) error) error
}

type Context struct{ Session Session }

type ownedLock struct {
	Owner int64
	Count int64
}

type LockSubsystem struct {
	lockLock *sync.RWMutex
	locks    map[string]**ownedLock
}

func (ls *LockSubsystem) get(name string) **ownedLock {
	ls.lockLock.RLock()
	defer ls.lockLock.RUnlock()
	return ls.locks[name]
}

// L6: AddLock also on re-entry.
func (ls *LockSubsystem) tryLock(ctx *Context, nl **ownedLock, name string) (bool, error) {
	userId := int64(ctx.Session.ID())
	for {
		dest := (*unsafe.Pointer)(unsafe.Pointer(nl))
		curr := atomic.LoadPointer(dest)
		currLock := *(*ownedLock)(curr)
		if currLock.Owner == 0 {
			newVal := &ownedLock{userId, 1}
			if atomic.CompareAndSwapPointer(dest, curr, unsafe.Pointer(newVal)) {
				return true, ctx.Session.AddLock(name)
			}
		} else if currLock.Owner == userId {
			newVal := &ownedLock{userId, currLock.Count + 1}
			if atomic.CompareAndSwapPointer(dest, curr, unsafe.Pointer(newVal)) {
				return true, ctx.Session.AddLock(name)
			}
		} else {
			return false, nil
		}
	}
}

// L6: DelLock while the lock is still held; L8: frees although Count > 1 was not excluded.
func (ls *LockSubsystem) Unlock(ctx *Context, name string) error {
	nl := ls.get(name)
	if nl == nil {
		return errors.New("no such lock")
	}
	userId := int64(ctx.Session.ID())
	for {
		dest := (*unsafe.Pointer)(unsafe.Pointer(nl))
		curr := atomic.LoadPointer(dest)
		currLock := *(*ownedLock)(curr)
		if currLock.Owner != userId {
			return errors.New("not owned")
		}
		newVal := &ownedLock{}
		if currLock.Count > 2 {
			newVal = &ownedLock{userId, currLock.Count - 1}
		}
		if atomic.CompareAndSwapPointer(dest, curr, unsafe.Pointer(newVal)) {
			return ctx.Session.DelLock(name)
		}
	}
}

// L3: takes the lock whoever owns it.
func (ls *LockSubsystem) Steal(ctx *Context, nl **ownedLock) {
	userId := int64(ctx.Session.ID())
	for {
		dest := (*unsafe.Pointer)(unsafe.Pointer(nl))
		curr := atomic.LoadPointer(dest)
		if atomic.CompareAndSwapPointer(dest, curr, unsafe.Pointer(&ownedLock{userId, 1})) {
			return
		}
	}
}

// L2: the pointer compared was loaded before the loop.
func (ls *LockSubsystem) StaleCAS(ctx *Context, nl **ownedLock) {
	userId := int64(ctx.Session.ID())
	dest := (*unsafe.Pointer)(unsafe.Pointer(nl))
	curr := atomic.LoadPointer(dest)
	currLock := *(*ownedLock)(curr)
	for {
		if currLock.Owner != userId {
			return
		}
		if atomic.CompareAndSwapPointer(dest, curr, unsafe.Pointer(&ownedLock{})) {
			return
		}
	}
}

// L1: plain store / StorePointer on the slot.
func (ls *LockSubsystem) Force(nl **ownedLock) { *nl = &ownedLock{} }
func (ls *LockSubsystem) Force2(nl **ownedLock) {
	dest := (*unsafe.Pointer)(unsafe.Pointer(nl))
	atomic.StorePointer(dest, unsafe.Pointer(&ownedLock{}))
}

// L4: in-place mutation of a published value.
func (ls *LockSubsystem) Bump(nl **ownedLock) {
	dest := (*unsafe.Pointer)(unsafe.Pointer(nl))
	cur := (*ownedLock)(atomic.LoadPointer(dest))
	cur.Count++
}

// L6: a foreign caller of AddLock.
func other(ctx *Context) { _ = ctx.Session.AddLock("x") }

func newContext(id uint32) (*Context, error) { return &Context{}, nil }
func closeSession(id uint32)                  {}

var theLocks = &LockSubsystem{&sync.RWMutex{}, map[string]**ownedLock{}}

func (ls *LockSubsystem) ReleaseAll(ctx *Context) (int, error) { return 0, nil }

// L7: ReleaseAll skipped for even ids.
func maybeRelease(id uint32) {
	if ctx, err := newContext(id); err != nil {
		return
	} else if id%2 == 1 {
		_, _ = theLocks.ReleaseAll(ctx)
	}
}

// L7: the session is closed before its locks are released.
func Closed(id uint32) {
	closeSession(id)
	maybeRelease(id)
}
