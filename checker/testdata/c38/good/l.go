// Package good is a checker fixture: a miniature named-lock subsystem with the reference CAS protocol.
package good

import (
	"errors"
	"sync"
	"sync/atomic"
	"unsafe"
)

type Session interface {
	ID() uint32
	AddLock(name string) error
	DelLock(name string) error
	IterLocks(func(name string) error) error
}

type Context struct{ Session Session }

type ownedLock struct {
	Owner int64
	Count int64
}

type LockSubsystem struct {
	lockLock *sync.RWMutex
	locks    map[string]**ownedLock
}

func (ls *LockSubsystem) get(name string) **ownedLock {
	ls.lockLock.RLock()
	defer ls.lockLock.RUnlock()
	return ls.locks[name]
}

func (ls *LockSubsystem) create(name string) **ownedLock {
	ls.lockLock.Lock()
	defer ls.lockLock.Unlock()
	nl, ok := ls.locks[name]
	if !ok {
		newLock := &ownedLock{}
		ls.locks[name] = &newLock
		nl = &newLock
	}
	return nl
}

func (ls *LockSubsystem) tryLock(ctx *Context, nl **ownedLock, name string) (bool, error) {
	userId := int64(ctx.Session.ID())
	for {
		dest := (*unsafe.Pointer)(unsafe.Pointer(nl))
		curr := atomic.LoadPointer(dest)
		currLock := *(*ownedLock)(curr)
		if currLock.Owner == 0 {
			newVal := &ownedLock{userId, 1}
			if atomic.CompareAndSwapPointer(dest, curr, unsafe.Pointer(newVal)) {
				return true, ctx.Session.AddLock(name)
			}
		} else if currLock.Owner == userId {
			newVal := &ownedLock{Owner: userId, Count: currLock.Count + 1}
			if atomic.CompareAndSwapPointer(dest, curr, unsafe.Pointer(newVal)) {
				return true, nil
			}
		} else {
			return false, nil
		}
	}
}

func (ls *LockSubsystem) Unlock(ctx *Context, name string) error {
	nl := ls.get(name)
	if nl == nil {
		return errors.New("no such lock")
	}
	userId := int64(ctx.Session.ID())
	for {
		dest := (*unsafe.Pointer)(unsafe.Pointer(nl))
		curr := atomic.LoadPointer(dest)
		currLock := *(*ownedLock)(curr)
		if currLock.Owner != userId {
			return errors.New("not owned")
		}
		newVal := &ownedLock{}
		if currLock.Count > 1 {
			newVal = &ownedLock{userId, currLock.Count - 1}
		}
		if atomic.CompareAndSwapPointer(dest, curr, unsafe.Pointer(newVal)) {
			if newVal.Count == 0 {
				return ctx.Session.DelLock(name)
			}
			return nil
		}
	}
}

func (ls *LockSubsystem) ReleaseAll(ctx *Context) (int, error) {
	n := 0
	_ = ctx.Session.IterLocks(func(name string) error {
		nl := ls.get(name)
		if nl != nil {
			userId := ctx.Session.ID()
			for {
				dest := (*unsafe.Pointer)(unsafe.Pointer(nl))
				curr := atomic.LoadPointer(dest)
				currLock := *(*ownedLock)(curr)
				if currLock.Owner != int64(userId) {
					break
				}
				if atomic.CompareAndSwapPointer(dest, curr, unsafe.Pointer(&ownedLock{})) {
					n++
					break
				}
			}
		}
		return nil
	})
	return n, nil
}

func (ls *LockSubsystem) State(name string) int64 {
	nl := ls.get(name)
	if nl == nil {
		return -1
	}
	dest := (*unsafe.Pointer)(unsafe.Pointer(nl))
	curr := atomic.LoadPointer(dest)
	return (*(*ownedLock)(curr)).Owner
}

func newContext(id uint32) (*Context, error) { return &Context{}, nil }
func closeSession(id uint32)                  {}

var theLocks = &LockSubsystem{&sync.RWMutex{}, map[string]**ownedLock{}}

func maybeRelease(id uint32) {
	if ctx, err := newContext(id); err != nil {
		return
	} else {
		_, _ = theLocks.ReleaseAll(ctx)
	}
}

func Closed(id uint32) {
	defer closeSession(id)
	maybeRelease(id)
}
