// Package good is a checker fixture for the guarded-by engine: every shape here is correct.
package good

import "sync"

type Reg struct {
	mu    sync.RWMutex
	items map[string]int
	count int
	name  string // immutable after construction
}

func New(name string) *Reg {
	r := &Reg{items: map[string]int{}}
	r.name = name // constructor: object not shared yet
	r.count = 0
	return r
}

func (r *Reg) Name() string { return r.name } // never written after construction: no lock needed

func (r *Reg) Get(k string) (int, bool) {
	r.mu.RLock()
	defer r.mu.RUnlock()
	v, ok := r.items[k]
	return v, ok
}

func (r *Reg) Put(k string, v int) {
	r.mu.Lock()
	defer r.mu.Unlock()
	r.setLocked(k, v)
}

// setLocked is a caller-holds helper: every call site holds mu exclusively.
func (r *Reg) setLocked(k string, v int) {
	if _, ok := r.items[k]; !ok {
		r.count++
	}
	r.items[k] = v
}

func (r *Reg) PutIfAbsent(k string, v int) bool {
	r.mu.Lock()
	if _, ok := r.items[k]; ok {
		r.mu.Unlock()
		return false
	}
	r.setLocked(k, v)
	r.mu.Unlock()
	return true
}

func (r *Reg) Each(f func(string, int)) {
	r.mu.RLock()
	defer func() {
		r.mu.RUnlock()
	}()
	for k, v := range r.items {
		f(k, v)
	}
}

func (r *Reg) Snapshot() Reg {
	r.mu.RLock()
	defer r.mu.RUnlock()
	cp := Reg{items: make(map[string]int, len(r.items))}
	for k, v := range r.items {
		cp.items[k] = v // cp is a fresh local object
	}
	cp.count = r.count
	return cp
}
