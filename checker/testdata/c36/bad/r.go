// Package bad is a checker fixture for the guarded-by engine: one planted defect per function.
package bad

import "sync"

type Reg struct {
	mu    sync.RWMutex
	items map[string]int
	count int
}

func New() *Reg { return &Reg{items: map[string]int{}} }

func (r *Reg) Put(k string, v int) {
	r.mu.Lock()
	defer r.mu.Unlock()
	r.setLocked(k, v)
}

func (r *Reg) setLocked(k string, v int) {
	r.items[k] = v
	r.count++
}

// unlocked read
func (r *Reg) Len() int { return len(r.items) }

// write under the read lock
func (r *Reg) Bump() {
	r.mu.RLock()
	defer r.mu.RUnlock()
	r.count++
}

// access after the lock was released
func (r *Reg) After(k string) int {
	r.mu.RLock()
	n := r.count
	r.mu.RUnlock()
	return n + r.items[k]
}

// the goroutine runs without the creator's lock
func (r *Reg) Async() {
	r.mu.Lock()
	defer r.mu.Unlock()
	go func() {
		r.count = 0
	}()
}

// helper called without the lock
func (r *Reg) Careless(k string) {
	r.setLocked(k, 1)
}

// nobody calls orphan: it cannot be a caller-holds helper
func (r *Reg) orphan() { r.items = nil }

// the early return keeps the read lock
func (r *Reg) Leaky(k string) int {
	r.mu.RLock()
	if len(r.items) == 0 {
		return 0
	}
	v := r.items[k]
	r.mu.RUnlock()
	return v
}
