// Package good is the reference shape of a result pipeline (C35 fixture): a dispatcher, one
// sequential sibling that reports the iterator's Close error through a deferred closure, and two
// three-stage pipelines (append batches / indexed batches), the first with a forwarding callback
// wrapper. Every C35 rule must accept it.
package good

import (
	"context"
	"errors"
	"io"
	"sync"
)

type Row []any
type Value []byte

type Result struct {
	Fields       []string
	Rows         [][]Value
	RowsAffected uint64
}

type Iter interface {
	Next(ctx *Ctx) (Row, error)
	Close(ctx *Ctx) error
}

type Ctx struct{ context.Context }

type Group struct {
	wg     sync.WaitGroup
	once   sync.Once
	err    error
	cancel func()
}

func (g *Group) Wait() error { g.wg.Wait(); return g.err }

func (c *Ctx) NewErrgroup() (*Group, *Ctx) {
	cc, cancel := context.WithCancel(c.Context)
	return &Group{cancel: cancel}, &Ctx{cc}
}

// Go is the spawn helper.
func Go(g *Group, fn func() error) {
	g.wg.Add(1)
	go func() {
		defer g.wg.Done()
		if err := fn(); err != nil {
			g.once.Do(func() { g.err = err; g.cancel() })
		}
	}()
}

type ByteBuffer struct{ b []byte }

func (b *ByteBuffer) Reset() { b.b = b.b[:0] }

func rowToValues(ctx *Ctx, row Row, buf *ByteBuffer) ([]Value, error) {
	if len(row) == 0 {
		return nil, errors.New("empty row")
	}
	out := make([]Value, len(row))
	for i := range row {
		buf.b = append(buf.b, byte(i))
		out[i] = buf.b[len(buf.b)-1:]
	}
	return out, nil
}

const batchSize = 4

type Handler struct{ indexed bool }

func (h *Handler) doQuery(ctx *Ctx, iter Iter, one bool, fields []string, callback func(*Result, bool) error, buf *ByteBuffer) error {
	var r *Result
	var processed bool
	var err error
	if one {
		r, err = resultForOne(ctx, iter, fields, buf)
	} else if h.indexed {
		r, processed, err = h.resultForValues(ctx, iter, fields, callback, buf)
	} else {
		r, processed, err = h.resultForRows(ctx, iter, fields, callback, buf)
	}
	if err != nil {
		return err
	}
	if r.RowsAffected == 0 && processed {
		return nil
	}
	return callback(r, false)
}

func resultForOne(ctx *Ctx, iter Iter, fields []string, buf *ByteBuffer) (res *Result, err error) {
	defer func() {
		if cerr := iter.Close(ctx); cerr != nil && err == nil {
			res, err = nil, cerr
		}
	}()
	row, err := iter.Next(ctx)
	if err == io.EOF {
		return &Result{Fields: fields}, nil
	} else if err != nil {
		return nil, err
	}
	if _, err = iter.Next(ctx); err != io.EOF {
		return nil, errors.New("more than one row")
	}
	out, err := rowToValues(ctx, row, buf)
	if err != nil {
		return nil, err
	}
	return &Result{Fields: fields, Rows: [][]Value{out}, RowsAffected: 1}, nil
}

func (h *Handler) resultForRows(ctx *Ctx, iter Iter, fields []string, callback func(*Result, bool) error, buf *ByteBuffer) (*Result, bool, error) {
	eg, ctx := ctx.NewErrgroup()

	send := callback
	callback = func(r *Result, more bool) error {
		if len(r.Rows) > batchSize {
			return errors.New("oversized batch")
		}
		return send(r, more)
	}

	wg := sync.WaitGroup{}
	wg.Add(3)

	rowChan := make(chan Row, 8)
	Go(eg, func() error {
		defer wg.Done()
		defer close(rowChan)
		for {
			select {
			case <-ctx.Done():
				return context.Cause(ctx)
			default:
				row, err := iter.Next(ctx)
				if err == io.EOF {
					return nil
				}
				if err != nil {
					return err
				}
				select {
				case rowChan <- row:
				case <-ctx.Done():
					return nil
				}
			}
		}
	})

	resChan := make(chan *Result, 2)
	var res *Result
	Go(eg, func() error {
		defer wg.Done()
		defer close(resChan)
		for {
			if res == nil {
				res = &Result{Fields: fields, Rows: make([][]Value, 0, batchSize)}
			}
			select {
			case <-ctx.Done():
				return context.Cause(ctx)
			case row, ok := <-rowChan:
				if !ok {
					return nil
				}
				out, err := rowToValues(ctx, row, buf)
				if err != nil {
					return err
				}
				res.Rows = append(res.Rows, out)
				res.RowsAffected++
				if res.RowsAffected == batchSize {
					select {
					case <-ctx.Done():
						return context.Cause(ctx)
					case resChan <- res:
						res = nil
					}
				}
			}
		}
	})

	var processed bool
	Go(eg, func() (err error) {
		defer wg.Done()
		for {
			select {
			case <-ctx.Done():
				return context.Cause(ctx)
			case r, ok := <-resChan:
				if !ok {
					return nil
				}
				processed = true
				err = callback(r, true)
				if err != nil {
					return err
				}
			}
		}
	})

	Go(eg, func() error {
		wg.Wait()
		return iter.Close(ctx)
	})

	err := eg.Wait()
	if err != nil {
		return nil, false, err
	}
	return res, processed, nil
}

func (h *Handler) resultForValues(ctx *Ctx, iter Iter, fields []string, callback func(*Result, bool) error, buf *ByteBuffer) (*Result, bool, error) {
	eg, ctx := ctx.NewErrgroup()

	wg := sync.WaitGroup{}
	wg.Add(3)

	rowChan := make(chan Row, 8)
	Go(eg, func() error {
		defer wg.Done()
		defer close(rowChan)
		for {
			row, err := iter.Next(ctx)
			if err != nil {
				if err == io.EOF {
					return nil
				}
				return err
			}
			select {
			case rowChan <- row:
			case <-ctx.Done():
				return context.Cause(ctx)
			}
		}
	})

	resChan := make(chan *Result, 2)
	var res *Result
	Go(eg, func() error {
		defer func() {
			close(resChan)
		}()
		defer wg.Done()
		for {
			if res == nil {
				res = &Result{Fields: fields, Rows: make([][]Value, batchSize)}
			}
			select {
			case <-ctx.Done():
				return context.Cause(ctx)
			case row, ok := <-rowChan:
				if !ok {
					return nil
				}
				out, err := rowToValues(ctx, row, buf)
				if err != nil {
					return err
				}
				res.Rows[res.RowsAffected] = out
				res.RowsAffected++
				if res.RowsAffected == batchSize {
					select {
					case <-ctx.Done():
						return context.Cause(ctx)
					case resChan <- res:
						res = nil
					}
				}
			}
		}
	})

	var processed bool
	Go(eg, func() error {
		defer wg.Done()
		for {
			select {
			case <-ctx.Done():
				return context.Cause(ctx)
			case r, ok := <-resChan:
				if !ok {
					return nil
				}
				if err := callback(r, true); err != nil {
					return err
				}
				processed = true
			}
		}
	})

	Go(eg, func() error {
		wg.Wait()
		return iter.Close(ctx)
	})

	err := eg.Wait()
	if err != nil {
		return nil, false, err
	}
	res.Rows = res.Rows[:res.RowsAffected]
	return res, processed, err
}
