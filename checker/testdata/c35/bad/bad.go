// Package bad is the C35 fixture with one planted defect per rule (see the comments marked BAD).
package bad

import (
	"context"
	"errors"
	"io"
	"sync"
)

type Row []any
type Value []byte

type Result struct {
	Fields       []string
	Rows         [][]Value
	RowsAffected uint64
}

type Iter interface {
	Next(ctx *Ctx) (Row, error)
	Close(ctx *Ctx) error
}

type Ctx struct{ context.Context }

type Group struct {
	wg     sync.WaitGroup
	once   sync.Once
	err    error
	cancel func()
}

func (g *Group) Wait() error { g.wg.Wait(); return g.err }

func (c *Ctx) NewErrgroup() (*Group, *Ctx) {
	cc, cancel := context.WithCancel(c.Context)
	return &Group{cancel: cancel}, &Ctx{cc}
}

// Go is the spawn helper.
func Go(g *Group, fn func() error) {
	g.wg.Add(1)
	go func() {
		defer g.wg.Done()
		if err := fn(); err != nil {
			g.once.Do(func() { g.err = err; g.cancel() })
		}
	}()
}

type ByteBuffer struct{ b []byte }

func (b *ByteBuffer) Reset() { b.b = b.b[:0] }

func rowToValues(ctx *Ctx, row Row, buf *ByteBuffer) ([]Value, error) {
	if len(row) == 0 {
		return nil, errors.New("empty row")
	}
	out := make([]Value, len(row))
	for i := range row {
		buf.b = append(buf.b, byte(i))
		out[i] = buf.b[len(buf.b)-1:]
	}
	return out, nil
}

const batchSize = 4

type Handler struct{}

func (h *Handler) doQuery(ctx *Ctx, iter Iter, one bool, fields []string, callback func(*Result, bool) error, buf *ByteBuffer) error {
	var r *Result
	var processed bool
	var err error
	if one {
		r, err = resultForOne(ctx, iter, fields, buf)
	} else {
		r, processed, err = h.resultForRows(ctx, iter, fields, callback, buf)
	}
	if err != nil {
		return err
	}
	_ = processed
	if r.RowsAffected == 0 { // BAD (P6): an empty result is never sent, even when no batch was delivered before
		return nil
	}
	return callback(r, false)
}

func resultForOne(ctx *Ctx, iter Iter, fields []string, buf *ByteBuffer) (*Result, error) {
	defer iter.Close(ctx) // BAD (E1): the Close error (failed commit) is dropped on the success paths
	row, err := iter.Next(ctx)
	if err == io.EOF {
		return &Result{Fields: fields}, nil
	} else if err != nil {
		return nil, err
	}
	out, err := rowToValues(ctx, row, buf)
	if err != nil {
		return nil, err
	}
	return &Result{Fields: fields, Rows: [][]Value{out}, RowsAffected: 1}, nil
}

func (h *Handler) resultForRows(ctx *Ctx, iter Iter, fields []string, callback func(*Result, bool) error, buf *ByteBuffer) (*Result, bool, error) {
	eg, ctx := ctx.NewErrgroup()

	callback = func(r *Result, more bool) error { // BAD (W1): refers to the variable it is stored in
		return callback(r, more)
	}

	wg := sync.WaitGroup{}
	wg.Add(2) // BAD (P2): three stages call Done

	rowChan := make(chan Row, 8)
	Go(eg, func() error {
		defer wg.Done()
		for {
			row, err := iter.Next(ctx)
			if err != nil { // BAD (E1): every error is treated as the end of the rows
				close(rowChan)
				return nil
			}
			if len(row) > 100 {
				return errors.New("row too wide") // BAD (P1): exit without closing rowChan
			}
			rowChan <- row // BAD (P3): blocking send outside a select
		}
	})

	resChan := make(chan *Result, 2)
	var res *Result
	Go(eg, func() error {
		defer wg.Done()
		defer close(resChan)
		for {
			if res == nil {
				res = &Result{Fields: fields, Rows: make([][]Value, 0, batchSize)}
			}
			select {
			case <-ctx.Done(): // BAD (P3): the Done case does not leave the stage
				continue
			case row, ok := <-rowChan:
				if !ok {
					return nil
				}
				if len(row) == 1 { // BAD (P4): some rows are skipped
					continue
				}
				out, err := rowToValues(ctx, row, buf)
				if err != nil {
					return err
				}
				res.Rows = append(res.Rows, out)
				res.RowsAffected++
				if res.RowsAffected == batchSize {
					select {
					case <-ctx.Done():
						return context.Cause(ctx)
					case resChan <- res:
					default: // BAD (P4): when the consumer is slow the batch is reset without having been sent
					}
					res = nil
				}
			}
		}
	})

	var processed bool
	Go(eg, func() (err error) {
		defer wg.Done()
		processed = true // BAD (P6): set although no batch has been delivered
		for {
			select {
			case <-ctx.Done():
				return context.Cause(ctx)
			case r, ok := <-resChan:
				if !ok {
					return nil
				}
				err = callback(r, true)
				if err != nil {
					return err
				}
				buf.Reset() // BAD (B1): the batching stage is still filling buf
			}
		}
	})

	Go(eg, func() error {
		err := iter.Close(ctx) // BAD (P2): closed while the other stages are running
		wg.Wait()
		return err
	})

	err := eg.Wait()
	for range resChan { // BAD (P1): a second consumer of resChan, outside the stages
	}
	if err != nil {
		return nil, false, err
	}
	return nil, processed, nil // BAD (P4): the final partial batch is not returned
}
