// Package sql is a checker fixture: column, type and table interfaces.
package sql

type Context struct{}

// Row is a table row; its elements are row cells.
type Row []any

type ConvertInRange byte

const (
	InRange ConvertInRange = iota
	OutOfRange
)

type Type interface {
	Compare(ctx *Context, a, b any) (int, error)
	Convert(ctx *Context, v any) (any, ConvertInRange, error)
}

type Column struct {
	Name          string
	Type          Type
	AutoIncrement bool
}

type TruncateableTable interface {
	Truncate(ctx *Context) (int, error)
}
