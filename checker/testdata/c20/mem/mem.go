// Package mem is a checker fixture: AUTO_INCREMENT counter writes, good and bad.
package mem

import (
	"math"

	"vchk/testdata/c20/sql"
)

type TableData struct {
	rows       []sql.Row
	autoIncVal uint64
	autoCol    *sql.Column
}

// rowStore is the interface through which rows are handed to the table (rule U).
type rowStore interface {
	Put(ctx *sql.Context, row sql.Row) error
}

type sliceStore struct{ data *TableData }

func (s *sliceStore) Put(ctx *sql.Context, row sql.Row) error {
	s.data.rows = append(s.data.rows, row)
	return nil
}

type Table struct {
	data  *TableData
	store rowStore
}

var Uint64 sql.Type

func NewTable(col *sql.Column) *Table {
	var start uint64
	if col != nil && col.AutoIncrement {
		start = 1
	}
	return &Table{data: &TableData{autoIncVal: start, autoCol: col}}
}

// bumpSafe is a correct increment helper.
func bumpSafe(ctx *sql.Context, col *sql.Column, p *uint64) {
	cur := *p
	if cur == math.MaxUint64 {
		return
	}
	next := cur + 1
	if _, inRange, err := col.Type.Convert(ctx, next); err == nil && inRange == sql.InRange {
		*p = next
	}
}

// bumpUnsafe wraps around. BUG.
func bumpUnsafe(p *uint64) { *p = *p + 1 }

// InsertExplicit is the correct monotone write followed by an increment.
func (t *Table) InsertExplicit(ctx *sql.Context, row sql.Row) error {
	cmp, err := t.data.autoCol.Type.Compare(ctx, row[0], t.data.autoIncVal)
	if err != nil {
		return err
	}
	if cmp > 0 {
		v, _, err := Uint64.Convert(ctx, row[0])
		if err != nil {
			return err
		}
		t.data.autoIncVal = v.(uint64)
		bumpSafe(ctx, t.data.autoCol, &t.data.autoIncVal)
	} else if cmp == 0 {
		bumpSafe(ctx, t.data.autoCol, &t.data.autoIncVal)
	}
	t.data.rows = append(t.data.rows, row)
	return nil
}

// InsertNoBump leaves the counter equal to the stored value in the larger-value arm. BUG (rule N).
func (t *Table) InsertNoBump(ctx *sql.Context, row sql.Row) error {
	if err := t.store.Put(ctx, row); err != nil {
		return err
	}
	cmp, err := t.data.autoCol.Type.Compare(ctx, row[0], t.data.autoIncVal)
	if err != nil {
		return err
	}
	if cmp > 0 {
		v, _, err := Uint64.Convert(ctx, row[0])
		if err != nil {
			return err
		}
		t.data.autoIncVal = v.(uint64)
	}
	if cmp == 0 {
		bumpSafe(ctx, t.data.autoCol, &t.data.autoIncVal)
	}
	return nil
}

// InsertEqualNotBumped forgets the arm for a stored value equal to the counter. BUG (rule N).
func (t *Table) InsertEqualNotBumped(ctx *sql.Context, row sql.Row) error {
	if err := t.store.Put(ctx, row); err != nil {
		return err
	}
	cmp, err := t.data.autoCol.Type.Compare(ctx, row[0], t.data.autoIncVal)
	if err != nil {
		return err
	}
	if cmp > 0 {
		v, _, err := Uint64.Convert(ctx, row[0])
		if err != nil {
			return err
		}
		t.data.autoIncVal = v.(uint64)
		bumpSafe(ctx, t.data.autoCol, &t.data.autoIncVal)
	}
	return nil
}

// learn compares and stores, and leaves the increment to its caller (fine: unexported, callers are checked).
func (t *Table) learn(ctx *sql.Context, cell any) (int, error) {
	cmp, err := t.data.autoCol.Type.Compare(ctx, cell, t.data.autoIncVal)
	if err != nil {
		return 0, err
	}
	if cmp > 0 {
		v, _, err := Uint64.Convert(ctx, cell)
		if err != nil {
			return 0, err
		}
		t.data.autoIncVal = v.(uint64)
	}
	return cmp, nil
}

// InsertSplit uses the helper and increments afterwards: correct.
func (t *Table) InsertSplit(ctx *sql.Context, row sql.Row) error {
	if err := t.store.Put(ctx, row); err != nil {
		return err
	}
	cmp, err := t.learn(ctx, row[0])
	if err != nil {
		return err
	}
	if cmp >= 0 {
		bumpSafe(ctx, t.data.autoCol, &t.data.autoIncVal)
	}
	return nil
}

// InsertSplitNoBump uses the helper and forgets the increment. BUG (rule N, reported at the caller).
func (t *Table) InsertSplitNoBump(ctx *sql.Context, row sql.Row) error {
	if err := t.store.Put(ctx, row); err != nil {
		return err
	}
	_, err := t.learn(ctx, row[0])
	return err
}

// Update stores the new row without looking at the counter. BUG (rule U).
func (t *Table) Update(ctx *sql.Context, old, row sql.Row) error {
	return t.store.Put(ctx, row)
}

// LoadAll learns every stored cell in a loop and increments once at the end: correct.
func (t *Table) LoadAll(ctx *sql.Context, col *sql.Column) {
	if !col.AutoIncrement {
		return
	}
	t.data.autoIncVal = 0
	for _, row := range t.data.rows {
		cmp, err := t.data.autoCol.Type.Compare(ctx, row[0], t.data.autoIncVal)
		if err != nil {
			panic(err)
		}
		if cmp > 0 {
			v, _, err := Uint64.Convert(ctx, row[0])
			if err != nil {
				panic(err)
			}
			t.data.autoIncVal = v.(uint64)
		}
	}
	bumpSafe(ctx, t.data.autoCol, &t.data.autoIncVal)
}

// Insert sets the counter to whatever was inserted, even if smaller. BUG.
func (t *Table) Insert(ctx *sql.Context, row sql.Row) error {
	v, _, err := Uint64.Convert(ctx, row[0])
	if err != nil {
		return err
	}
	t.data.autoIncVal = v.(uint64)
	bumpUnsafe(&t.data.autoIncVal)
	t.data.rows = append(t.data.rows, row)
	return nil
}

// Delete gives the value back. BUG.
func (t *Table) Delete(ctx *sql.Context, n int) {
	t.data.rows = t.data.rows[:len(t.data.rows)-n]
	t.data.autoIncVal = t.data.autoIncVal - uint64(n)
}

func (t *Table) SetAutoIncrementValue(ctx *sql.Context, val uint64) error {
	t.data.autoIncVal = val
	return nil
}

func (td *TableData) truncate() *TableData {
	td.rows = nil
	td.autoIncVal = 1
	return td
}

func (t *Table) Truncate(ctx *sql.Context) (int, error) {
	n := len(t.data.rows)
	t.data.truncate()
	return n, nil
}

// Rewrite rebuilds the table and forgets the counter. BUG.
func (t *Table) Rewrite(ctx *sql.Context) {
	old := t.data.rows
	cp := *t.data
	nd := cp.truncate()
	nd.rows = append(nd.rows, old...)
	t.data = nd
}

// RewriteKeep carries the counter over.
func (t *Table) RewriteKeep(ctx *sql.Context) {
	old := t.data.rows
	cp := *t.data
	nd := cp.truncate()
	if prev := t.data.autoIncVal; prev > nd.autoIncVal {
		nd.autoIncVal = prev
	}
	nd.rows = append(nd.rows, old...)
	t.data = nd
}

// DropAutoColumn resets under a test of the column's AutoIncrement flag.
func (t *Table) DropAutoColumn(col *sql.Column) {
	if col.AutoIncrement {
		t.data.autoIncVal = 0
		t.data.autoCol = nil
	}
}
