// Package mem is a checker fixture: AUTO_INCREMENT counter writes, good and bad.
package mem

import (
	"math"

	"vchk/testdata/c20/sql"
)

type TableData struct {
	rows       [][]any
	autoIncVal uint64
	autoCol    *sql.Column
}

type Table struct{ data *TableData }

var Uint64 sql.Type

func NewTable(col *sql.Column) *Table {
	var start uint64
	if col != nil && col.AutoIncrement {
		start = 1
	}
	return &Table{data: &TableData{autoIncVal: start, autoCol: col}}
}

// bumpSafe is a correct increment helper.
func bumpSafe(ctx *sql.Context, col *sql.Column, p *uint64) {
	cur := *p
	if cur == math.MaxUint64 {
		return
	}
	next := cur + 1
	if _, inRange, err := col.Type.Convert(ctx, next); err == nil && inRange == sql.InRange {
		*p = next
	}
}

// bumpUnsafe wraps around. BUG.
func bumpUnsafe(p *uint64) { *p = *p + 1 }

// InsertExplicit is the correct monotone write followed by an increment.
func (t *Table) InsertExplicit(ctx *sql.Context, row []any) error {
	cmp, err := t.data.autoCol.Type.Compare(ctx, row[0], t.data.autoIncVal)
	if err != nil {
		return err
	}
	if cmp > 0 {
		v, _, err := Uint64.Convert(ctx, row[0])
		if err != nil {
			return err
		}
		t.data.autoIncVal = v.(uint64)
		bumpSafe(ctx, t.data.autoCol, &t.data.autoIncVal)
	}
	t.data.rows = append(t.data.rows, row)
	return nil
}

// Insert sets the counter to whatever was inserted, even if smaller. BUG.
func (t *Table) Insert(ctx *sql.Context, row []any) error {
	v, _, err := Uint64.Convert(ctx, row[0])
	if err != nil {
		return err
	}
	t.data.autoIncVal = v.(uint64)
	bumpUnsafe(&t.data.autoIncVal)
	t.data.rows = append(t.data.rows, row)
	return nil
}

// Delete gives the value back. BUG.
func (t *Table) Delete(ctx *sql.Context, n int) {
	t.data.rows = t.data.rows[:len(t.data.rows)-n]
	t.data.autoIncVal = t.data.autoIncVal - uint64(n)
}

func (t *Table) SetAutoIncrementValue(ctx *sql.Context, val uint64) error {
	t.data.autoIncVal = val
	return nil
}

func (td *TableData) truncate() *TableData {
	td.rows = nil
	td.autoIncVal = 1
	return td
}

func (t *Table) Truncate(ctx *sql.Context) (int, error) {
	n := len(t.data.rows)
	t.data.truncate()
	return n, nil
}

// Rewrite rebuilds the table and forgets the counter. BUG.
func (t *Table) Rewrite(ctx *sql.Context) {
	old := t.data.rows
	cp := *t.data
	nd := cp.truncate()
	nd.rows = append(nd.rows, old...)
	t.data = nd
}

// RewriteKeep carries the counter over.
func (t *Table) RewriteKeep(ctx *sql.Context) {
	old := t.data.rows
	cp := *t.data
	nd := cp.truncate()
	if prev := t.data.autoIncVal; prev > nd.autoIncVal {
		nd.autoIncVal = prev
	}
	nd.rows = append(nd.rows, old...)
	t.data = nd
}

// DropAutoColumn resets under a test of the column's AutoIncrement flag.
func (t *Table) DropAutoColumn(col *sql.Column) {
	if col.AutoIncrement {
		t.data.autoIncVal = 0
		t.data.autoCol = nil
	}
}
