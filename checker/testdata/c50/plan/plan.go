// Package plan is the C50 fixture: the two constructors disagree on LinesTerminatedBy.
package plan

type Into struct {
	Outfile            string
	FieldsTerminatedBy string
	FieldsEnclosedBy   string
	FieldsEscapedBy    string
	LinesStartingBy    string
	LinesTerminatedBy  string
}

type LoadData struct {
	File               string
	FieldsTerminatedBy string
	FieldsEnclosedBy   string
	FieldsEscapedBy    string
	LinesStartingBy    string
	LinesTerminatedBy  string
}

const (
	defTerm  = "\t"
	defEnc   = ""
	defEsc   = "\\"
	defStart = ""
	defLine  = "\n"
)

func NewInto(out string) *Into {
	return &Into{Outfile: out, FieldsTerminatedBy: defTerm, FieldsEnclosedBy: defEnc, FieldsEscapedBy: defEsc, LinesStartingBy: defStart, LinesTerminatedBy: defLine}
}

func NewLoadData(file string) *LoadData {
	return &LoadData{File: file, FieldsTerminatedBy: defTerm, FieldsEnclosedBy: defEnc, FieldsEscapedBy: defEsc, LinesStartingBy: defStart, LinesTerminatedBy: "\r\n"}
}
