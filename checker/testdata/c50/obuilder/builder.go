// Package obuilder is the planbuilder of the C50 option-plumbing fixture:
//   - LOAD DATA ignores ESCAPED BY ” (extra emptiness guard; C50-O1),
//   - LOAD DATA rejects a multi-character ENCLOSED BY that INTO OUTFILE accepts (C50-O4).
package obuilder

import (
	"vchk/testdata/c50/oast"
	"vchk/testdata/c50/oplan"
)

func fail(msg string) { panic(msg) }

func buildInto(s *oast.Stmt) *oplan.Into {
	if s.File == "" {
		return oplan.NewInto("")
	}
	n := oplan.NewInto(s.File)
	if s.Fields != nil {
		if s.Fields.TerminatedBy != nil && len(s.Fields.TerminatedBy.Val) != 0 {
			n.FieldsTerminatedBy = string(s.Fields.TerminatedBy.Val)
		}
		if s.Fields.EnclosedBy != nil {
			n.FieldsEnclosedBy = string(s.Fields.EnclosedBy.Delim.Val)
			if s.Fields.EnclosedBy.Optionally {
				n.FieldsEnclosedByOpt = true
			}
		}
		if s.Fields.EscapedBy != nil {
			n.FieldsEscapedBy = string(s.Fields.EscapedBy.Val)
			if len(n.FieldsEscapedBy) > 1 {
				fail("separator")
			}
		}
	}
	if s.Lines != nil {
		if s.Lines.StartingBy != nil {
			n.LinesStartingBy = string(s.Lines.StartingBy.Val)
		}
		if s.Lines.TerminatedBy != nil {
			n.LinesTerminatedBy = string(s.Lines.TerminatedBy.Val)
		}
	}
	return n
}

func buildLoad(d *oast.Stmt) *oplan.LoadData {
	ld := oplan.NewLoadData(d.File)
	if f := d.Fields; f != nil {
		// written differently on purpose: same predicate as the sibling
		if term := f.TerminatedBy; nil != term && len(term.Val) > 0 {
			ld.FieldsTerminatedBy = string(term.Val)
		}
		if f.EnclosedBy == nil {
		} else {
			ld.FieldsEnclosedBy = string(f.EnclosedBy.Delim.Val)
			if len(ld.FieldsEnclosedBy) >= 2 {
				fail("separator")
			}
			ld.FieldsEnclosedByOpt = f.EnclosedBy.Optionally
		}
		if f.EscapedBy != nil && len(f.EscapedBy.Val) != 0 { // BUG: ESCAPED BY '' means "no escaping"
			ld.FieldsEscapedBy = string(f.EscapedBy.Val)
			if len(ld.FieldsEscapedBy) > 1 {
				fail("separator")
			}
		}
	}
	if d.Lines != nil {
		if d.Lines.StartingBy != nil {
			ld.LinesStartingBy = string(d.Lines.StartingBy.Val)
		}
		if d.Lines.TerminatedBy != nil {
			ld.LinesTerminatedBy = string(d.Lines.TerminatedBy.Val)
		}
	}
	return ld
}
