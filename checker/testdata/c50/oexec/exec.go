// Package oexec is the executor of the C50 option-plumbing fixture:
//   - the iterator's linesStartingBy is fed from LinesTerminatedBy (C50-O2),
//   - the reader recognises the escape character by the literal backslash (C50-O5),
//   - the reader's escape switch has no arm for the letter the writer uses for NULL (C50-O3).
package oexec

import (
	"fmt"
	"strings"

	"vchk/testdata/c50/oplan"
)

type loadIter struct {
	fieldsTerminatedBy  string
	fieldsEnclosedBy    string
	fieldsEnclosedByOpt bool
	fieldsEscapedBy     string
	linesStartingBy     string
	linesTerminatedBy   string
}

type value struct{ v any }

func lit(v any) value { return value{v} }

func buildLoad(n *oplan.LoadData) *loadIter {
	return &loadIter{
		fieldsTerminatedBy:  n.FieldsTerminatedBy,
		fieldsEnclosedBy:    n.FieldsEnclosedBy,
		fieldsEnclosedByOpt: n.FieldsEnclosedByOpt,
		fieldsEscapedBy:     n.FieldsEscapedBy,
		linesStartingBy:     n.LinesTerminatedBy, // BUG
		linesTerminatedBy:   n.LinesTerminatedBy,
	}
}

func (l *loadIter) parse(line string) []value {
	if l.linesStartingBy != "" {
		if i := strings.Index(line, l.linesStartingBy); i >= 0 {
			line = line[i+len(l.linesStartingBy):]
		}
	}
	line = strings.TrimSuffix(line, l.linesTerminatedBy)
	hasEsc := len(l.fieldsEscapedBy) > 0
	var fields []string
	var cur strings.Builder
	for i := 0; i < len(line); i++ {
		ch := line[i]
		if hasEsc && ch == '\\' && i+1 < len(line) { // BUG: should be l.fieldsEscapedBy[0]
			i++
			switch line[i] {
			case 'n':
				cur.WriteByte('\n')
			case 't':
				cur.WriteByte('\t')
			default: // BUG: no case 'N'
				cur.WriteByte(line[i])
			}
			continue
		}
		if strings.HasPrefix(line[i:], l.fieldsTerminatedBy) {
			fields = append(fields, strings.Trim(cur.String(), l.fieldsEnclosedBy))
			cur.Reset()
			i += len(l.fieldsTerminatedBy) - 1
			continue
		}
		cur.WriteByte(ch)
	}
	fields = append(fields, strings.Trim(cur.String(), l.fieldsEnclosedBy))
	_ = l.fieldsEnclosedByOpt
	var out []value
	for _, f := range fields {
		if !hasEsc && f == "NULL" {
			out = append(out, lit(nil))
			continue
		}
		out = append(out, lit(f))
	}
	return out
}

func buildInto(n *oplan.Into, rows [][]any) string {
	var sb strings.Builder
	for _, r := range rows {
		sb.WriteString(n.LinesStartingBy)
		for i, v := range r {
			if i > 0 {
				sb.WriteString(n.FieldsTerminatedBy)
			}
			if v == nil {
				if n.FieldsEscapedBy == "" {
					sb.WriteString("NULL")
				} else {
					sb.WriteString(n.FieldsEscapedBy + "N")
				}
				continue
			}
			if s, ok := v.(string); ok || !n.FieldsEnclosedByOpt {
				sb.WriteString(n.FieldsEnclosedBy + fmt.Sprint(s, v) + n.FieldsEnclosedBy)
			} else {
				sb.WriteString(fmt.Sprint(v))
			}
		}
		sb.WriteString(n.LinesTerminatedBy)
	}
	return sb.String()
}
