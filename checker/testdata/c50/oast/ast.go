// Package oast is the parsed-statement side of the C50 option-plumbing fixture (rules C50-O1..O6).
package oast

type Lit struct{ Val []byte }

type Enclosed struct {
	Delim      *Lit
	Optionally bool
}

type Fields struct {
	TerminatedBy *Lit
	EnclosedBy   *Enclosed
	EscapedBy    *Lit
}

type Lines struct {
	StartingBy   *Lit
	TerminatedBy *Lit
}

type Stmt struct {
	File   string
	Fields *Fields
	Lines  *Lines
}
