// Package oplan: the two plan nodes of the C50 option-plumbing fixture. Copy rebuilds an Into through the constructor and
// thereby drops the configured options (C50-O6).
package oplan

type Into struct {
	Outfile             string
	FieldsTerminatedBy  string
	FieldsEnclosedBy    string
	FieldsEnclosedByOpt bool
	FieldsEscapedBy     string
	LinesStartingBy     string
	LinesTerminatedBy   string
}

type LoadData struct {
	File                string
	FieldsTerminatedBy  string
	FieldsEnclosedBy    string
	FieldsEnclosedByOpt bool
	FieldsEscapedBy     string
	LinesStartingBy     string
	LinesTerminatedBy   string
}

const (
	defTerm  = "\t"
	defEnc   = ""
	defOpt   = false
	defEsc   = "\\"
	defStart = ""
	defLine  = "\n"
)

func NewInto(out string) *Into {
	return &Into{Outfile: out, FieldsTerminatedBy: defTerm, FieldsEnclosedBy: defEnc, FieldsEnclosedByOpt: defOpt, FieldsEscapedBy: defEsc, LinesStartingBy: defStart, LinesTerminatedBy: defLine}
}

func NewLoadData(file string) *LoadData {
	return &LoadData{File: file, FieldsTerminatedBy: defTerm, FieldsEnclosedBy: defEnc, FieldsEnclosedByOpt: defOpt, FieldsEscapedBy: defEsc, LinesStartingBy: defStart, LinesTerminatedBy: defLine}
}

// Copy loses the options: it should have been `c := *i; return &c`.
func (i *Into) Copy() *Into { return NewInto(i.Outfile) }

// Clone keeps them.
func (l *LoadData) Clone() *LoadData { c := *l; return &c }
