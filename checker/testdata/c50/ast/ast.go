// Package ast is the parsed-statement side of the C50 fixture.
package ast

type Fields struct {
	TerminatedBy string
	EscapedBy    string
}
type Lines struct {
	StartingBy   string
	TerminatedBy string
}
type Stmt struct {
	Fields *Fields
	Lines  *Lines
}
