// Package builder is the C50 fixture planbuilder: LinesStartingBy of LOAD DATA is taken from Lines.TerminatedBy.
package builder

import (
	"vchk/testdata/c50/ast"
	"vchk/testdata/c50/plan"
)

func buildInto(s *ast.Stmt) *plan.Into {
	n := plan.NewInto("f")
	if s.Fields != nil {
		if s.Fields.TerminatedBy != "" {
			n.FieldsTerminatedBy = s.Fields.TerminatedBy
		}
		n.FieldsEscapedBy = s.Fields.EscapedBy
	}
	if s.Lines != nil {
		n.LinesStartingBy = s.Lines.StartingBy
		n.LinesTerminatedBy = s.Lines.TerminatedBy
	}
	return n
}

func buildLoad(d *ast.Stmt) *plan.LoadData {
	ld := plan.NewLoadData("f")
	if d.Fields != nil {
		if len(d.Fields.TerminatedBy) > 0 {
			ld.FieldsTerminatedBy = d.Fields.TerminatedBy
		}
		ld.FieldsEscapedBy = d.Fields.EscapedBy
	}
	if d.Lines != nil {
		ld.LinesStartingBy = d.Lines.TerminatedBy
		ld.LinesTerminatedBy = d.Lines.TerminatedBy
	}
	return ld
}
