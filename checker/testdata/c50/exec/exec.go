// Package exec is the C50 fixture executor: the loader never reads FieldsEscapedBy, carries linesStartingBy without
// using it, and the writer escapes the line terminator only.
package exec

import (
	"strings"

	"vchk/testdata/c50/plan"
)

type loadIter struct {
	fieldsTerminatedBy string
	fieldsEnclosedBy   string
	linesStartingBy    string
	linesTerminatedBy  string
}

func buildLoad(n *plan.LoadData) *loadIter {
	return &loadIter{
		fieldsTerminatedBy: n.FieldsTerminatedBy,
		fieldsEnclosedBy:   n.FieldsEnclosedBy,
		linesStartingBy:    n.LinesStartingBy,
		linesTerminatedBy:  n.LinesTerminatedBy,
	}
}

func (l *loadIter) parse(line string) []string {
	line = strings.TrimSuffix(line, l.linesTerminatedBy)
	line = strings.Trim(line, l.fieldsEnclosedBy)
	return strings.Split(line, l.fieldsTerminatedBy)
}

func buildInto(n *plan.Into, rows [][]string) string {
	var sb strings.Builder
	for _, r := range rows {
		sb.WriteString(n.LinesStartingBy)
		for i, v := range r {
			if i > 0 {
				sb.WriteString(n.FieldsTerminatedBy)
			}
			v = strings.Replace(v, n.LinesTerminatedBy, n.FieldsEscapedBy+n.LinesTerminatedBy, -1)
			sb.WriteString(n.FieldsEnclosedBy + v + n.FieldsEnclosedBy)
		}
		sb.WriteString(n.LinesTerminatedBy)
	}
	return sb.String()
}
