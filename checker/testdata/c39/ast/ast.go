// Package ast is a checker fixture standing in for the parser's AST. Never executed.
package ast

type AuthInformation struct {
	Extra       any
	AuthType    string
	TargetType  string
	TargetNames []string
}

const (
	AuthType_IGNORE = "IGNORE"
	AuthType_SELECT = "SELECT"
	AuthType_INSERT = "INSERT"
	AuthType_UPDATE = "UPDATE"
	AuthType_DELETE = "DELETE"
	AuthType_DROP   = "DROP"
	AuthType_GRANT  = "GRANT"
)

const (
	AuthTargetType_Ignore = "IGNORE"
	AuthTargetType_Global = "GLOBAL"
	AuthTargetType_Table  = "TABLE"
)

type Select struct {
	Table string
	Auth  AuthInformation
}
type Insert struct {
	Table string
	Auth  AuthInformation
}
type Update struct {
	Table string
	Auth  AuthInformation
}
type Delete struct {
	Table string
	Auth  AuthInformation
}
type Flush struct {
	Auth AuthInformation
}
type Grant struct {
	Auth AuthInformation
}

// grammar actions
func NewSelect(t string) *Select {
	return &Select{Table: t, Auth: AuthInformation{AuthType: AuthType_SELECT, TargetType: AuthTargetType_Table, TargetNames: []string{"", t}}}
}

// defect (A6): a privilege-list type paired with the ignoring target type.
func NewInsert(t string) *Insert {
	return &Insert{Table: t, Auth: AuthInformation{AuthType: AuthType_INSERT, TargetType: AuthTargetType_Ignore}}
}
func NewUpdate(t string) *Update {
	return &Update{Table: t, Auth: AuthInformation{AuthType: AuthType_UPDATE, TargetType: AuthTargetType_Global}}
}
func NewDelete(t string) *Delete {
	return &Delete{Table: t, Auth: AuthInformation{AuthType: AuthType_DELETE, TargetType: AuthTargetType_Global}}
}
func NewFlush() *Flush {
	return &Flush{Auth: AuthInformation{AuthType: AuthType_DROP, TargetType: AuthTargetType_Table}}
}
func NewGrant() *Grant {
	return &Grant{Auth: AuthInformation{AuthType: AuthType_GRANT, TargetType: AuthTargetType_Ignore}}
}
