// Package build is a checker fixture: an authorization handler and its callers with seeded defects. Never executed.
package build

import (
	"errors"
	"strings"

	"vchk/testdata/c39/ast"
)

type PrivilegeType int

const (
	PrivilegeType_Select PrivilegeType = iota
	PrivilegeType_Insert
	PrivilegeType_Update
)

type DB struct{}

func (db *DB) UserHasPrivileges(subject string, privs ...PrivilegeType) bool { return len(privs) > 0 }

type Handler interface {
	HandleAuth(db *DB, auth ast.AuthInformation) error
}

type handler struct{}

var errDenied = errors.New("denied")

// defects: no arm for AuthType_DROP (A1); AuthType_DELETE emptied (A2); AuthType_UPDATE returns nil early (A4);
// AuthTargetType_Table overwrites hasPrivileges and ignores privilegeTypes (A3); permissive TargetType default (A1).
func (h handler) HandleAuth(db *DB, auth ast.AuthInformation) error {
	hasPrivileges := true
	var privilegeTypes []PrivilegeType
	switch auth.AuthType {
	case ast.AuthType_IGNORE:
		return nil
	case ast.AuthType_SELECT:
		privilegeTypes = []PrivilegeType{PrivilegeType_Select}
	case ast.AuthType_INSERT:
		privilegeTypes = []PrivilegeType{PrivilegeType_Insert}
	case ast.AuthType_UPDATE:
		privilegeTypes = []PrivilegeType{PrivilegeType_Update}
		if len(auth.TargetNames) == 0 {
			return nil
		}
	case ast.AuthType_DELETE:
		// TODO
	case ast.AuthType_GRANT:
		hasPrivileges = h.grant(db, auth)
	default:
		return errors.New("AuthType not handled")
	}

	switch auth.TargetType {
	case ast.AuthTargetType_Ignore:
	case ast.AuthTargetType_Global:
		hasPrivileges = db.UserHasPrivileges("", privilegeTypes...) && hasPrivileges
	case ast.AuthTargetType_Table:
		if strings.EqualFold(auth.TargetNames[0], "information_schema") {
			return nil
		}
		hasPrivileges = db.UserHasPrivileges(auth.TargetNames[1])
	default:
	}

	if !hasPrivileges {
		return errDenied
	}
	return nil
}

func (h handler) grant(db *DB, auth ast.AuthInformation) bool {
	return db.UserHasPrivileges("mysql", PrivilegeType_Update)
}

type Builder struct {
	h           Handler
	db          *DB
	authEnabled bool
}

func (b *Builder) handleErr(err error) { panic(err) }

func (b *Builder) buildSelect(n *ast.Select) string {
	if err := b.h.HandleAuth(b.db, n.Auth); err != nil && b.authEnabled {
		b.handleErr(err)
	}
	return n.Table
}

func (b *Builder) buildInsert(n *ast.Insert) string {
	if err := b.h.HandleAuth(b.db, n.Auth); err != nil && b.authEnabled {
		b.handleErr(err)
	}
	return n.Table
}

// defect (A5 path): a cached plan is returned before the privilege check.
func (b *Builder) buildUpdate(n *ast.Update, cached map[string]string) string {
	if p, ok := cached[n.Table]; ok {
		return p
	}
	if err := b.h.HandleAuth(b.db, n.Auth); err != nil && b.authEnabled {
		b.handleErr(err)
	}
	return n.Table
}

// defect (A5 call): the denial is only logged.
func (b *Builder) buildDelete(n *ast.Delete) string {
	if err := b.h.HandleAuth(b.db, n.Auth); err != nil && b.authEnabled {
		_ = err.Error()
	}
	return n.Table
}

func (b *Builder) buildGrant(n *ast.Grant) string {
	if err := b.h.HandleAuth(b.db, n.Auth); err != nil && b.authEnabled {
		b.handleErr(err)
	}
	return "grant"
}

// defect (A5 type): *ast.Flush is never passed to HandleAuth.
func (b *Builder) buildFlush(n *ast.Flush) string { return "flush" }
