// Package keyer: fixture for C39-K1 (keyer field agreement).
package keyer

type Edge struct {
	FromHost string
	FromUser string
	ToHost   string
	ToUser   string
}

type PK struct{ FromHost, FromUser, ToHost, ToUser string }
type FromKey struct{ FromHost, FromUser string }
type ToKey struct{ ToHost, ToUser string }
type One struct{ Channel string }

type set struct{}

func (set) GetMany(k any, key any) []*Edge { return nil }
func (set) RemoveMany(k any, key any)      {}

// good
type EdgePK struct{}

func (EdgePK) GetKey(e *Edge) any {
	return PK{FromHost: e.FromHost, FromUser: e.FromUser, ToHost: e.ToHost, ToUser: e.ToUser}
}

// good: constant key (no entry field named Channel)
type EdgeOne struct{}

func (EdgeOne) GetKey(*Edge) any { return One{} }

// bad: FromHost fed from ToHost
type EdgeFromKeyer struct{}

func (EdgeFromKeyer) GetKey(e *Edge) any {
	return FromKey{FromHost: e.ToHost, FromUser: e.FromUser}
}

// bad: ToUser left zero
type EdgeToKeyer struct{}

func (EdgeToKeyer) GetKey(e *Edge) any { return ToKey{ToHost: e.ToHost} }

// bad: same key type as EdgeToKeyer
type EdgeDupKeyer struct{}

func (EdgeDupKeyer) GetKey(e *Edge) any { return ToKey{e.ToHost, e.ToUser} }

type Tbl struct{ s set }

func (t *Tbl) Find(k FromKey) []*Edge { return t.s.GetMany(EdgeFromKeyer{}, k) }

// bad: key of another index
func (t *Tbl) Drop(k ToKey) { t.s.RemoveMany(EdgeFromKeyer{}, k) }
