// Package privset is the fixture of the C39-D rules: a two-level set of maps with merge and copy
// functions, some of which share maps between their operands.
package privset

import "maps"

type Tbl struct {
	privs map[string]bool
	cols  map[string]bool
	name  string
}

type Set struct {
	global map[string]bool
	tables map[string]Tbl
}

type User struct {
	Set  Set
	Name string
}

func NewSet() Set {
	return Set{make(map[string]bool), make(map[string]Tbl)}
}

func (s Set) useableTbl(name string) Tbl {
	t, ok := s.tables[name]
	if !ok {
		t = Tbl{name: name, privs: make(map[string]bool), cols: make(map[string]bool)}
		s.tables[name] = t
	}
	return t
}

func (t Tbl) unionWith(o Tbl) {
	for p := range o.privs {
		t.privs[p] = true
	}
	for c := range o.cols {
		t.cols[c] = true
	}
}

// UnionWith is the conforming merge: every table set of the destination is allocated here.
func (s Set) UnionWith(o Set) {
	for p := range o.global {
		s.global[p] = true
	}
	for _, ot := range o.tables {
		s.useableTbl(ot.name).unionWith(ot)
	}
}

// MergeFast stores the source's table set when the destination has none: shared maps.
func (s Set) MergeFast(o Set) {
	for p := range o.global {
		s.global[p] = true
	}
	for name, ot := range o.tables {
		if _, ok := s.tables[name]; !ok {
			s.tables[name] = ot
			continue
		}
		s.useableTbl(name).unionWith(ot)
	}
}

func (t Tbl) clone() Tbl {
	n := Tbl{name: t.name, privs: make(map[string]bool, len(t.privs)), cols: make(map[string]bool)}
	for p := range t.privs {
		n.privs[p] = true
	}
	for c := range t.cols {
		n.cols[c] = true
	}
	return n
}

func (s Set) put(name string, t Tbl) { s.tables[name] = t }

// MergeViaHelper is conforming: the helper stores what it is given, and it is given clones.
func (s Set) MergeViaHelper(o Set) {
	for name, ot := range o.tables {
		if _, ok := s.tables[name]; !ok {
			s.put(name, ot.clone())
			continue
		}
		s.useableTbl(name).unionWith(ot)
	}
}

// MergeViaHelperBad hands the helper the source's own table set.
func (s Set) MergeViaHelperBad(o Set) {
	for name, ot := range o.tables {
		if _, ok := s.tables[name]; !ok {
			s.put(name, ot)
		}
	}
}

// MergeHalfClone allocates the table set but keeps the source's column map.
func (s Set) MergeHalfClone(o Set) {
	for name, ot := range o.tables {
		if _, ok := s.tables[name]; !ok {
			n := Tbl{name: ot.name, privs: make(map[string]bool)}
			for p := range ot.privs {
				n.privs[p] = true
			}
			n.cols = ot.cols
			s.tables[name] = n
		}
	}
}

// MergeCloneStd is conforming: maps.Clone of a map whose elements hold no map is a fresh map.
func (s Set) MergeCloneStd(o Set) {
	for name, ot := range o.tables {
		if _, ok := s.tables[name]; !ok {
			s.tables[name] = Tbl{name: ot.name, privs: maps.Clone(ot.privs), cols: maps.Clone(ot.cols)}
		}
	}
}

// AdoptCloneShallow clones the outer map only: the table sets are still the source's.
func (s Set) AdoptCloneShallow(o Set) {
	for name, ot := range maps.Clone(o.tables) {
		s.tables[name] = ot
	}
}

// Copy is the conforming deep copy.
func (s Set) Copy() Set {
	n := NewSet()
	n.UnionWith(s)
	return n
}

// CopyOverwrite starts from a struct copy and replaces every map: conforming.
func (s Set) CopyOverwrite() Set {
	n := s
	n.global = make(map[string]bool)
	n.tables = make(map[string]Tbl)
	n.UnionWith(s)
	return n
}

// CopyShallow forgets one of the maps.
func (s Set) CopyShallow() Set {
	n := s
	n.global = make(map[string]bool)
	for p := range s.global {
		n.global[p] = true
	}
	return n
}

// CopyEmptyShortcut returns the operand itself when it looks empty.
func (s Set) CopyEmptyShortcut() Set {
	if len(s.tables) == 0 {
		return s
	}
	n := NewSet()
	n.UnionWith(s)
	return n
}

// UserCopy copies the struct and replaces the set: conforming.
func UserCopy(u *User) *User {
	uu := *u
	uu.Set = NewSet()
	uu.Set.UnionWith(u.Set)
	return &uu
}

// UserCopyBad keeps the set of the original.
func UserCopyBad(u *User) *User {
	uu := *u
	return &uu
}

// Active is the conforming use: the destination of the merge is a fresh copy.
func Active(u *User, roles []*User) Set {
	s := u.Set.Copy()
	for _, r := range roles {
		s.UnionWith(r.Set)
	}
	return s
}

// ActiveBad merges the roles into the user's stored set.
func ActiveBad(u *User, roles []*User) Set {
	s := u.Set
	for _, r := range roles {
		s.UnionWith(r.Set)
	}
	return s
}
