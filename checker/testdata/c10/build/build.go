// Package build is a checker fixture: panics used as exceptions. Never executed.
package build

type parseErr struct{ err error }

// MemoErr is exported: other packages may recover it.
type MemoErr struct{ Err error }

type Builder struct{ depth int }

func (b *Builder) handleErr(err error) { panic(parseErr{err}) }

// Parse is a recovering frame: everything it calls after the defer is contained.
func (b *Builder) Parse(q string) (err error) {
	defer func() {
		if r := recover(); r != nil {
			switch r := r.(type) {
			case parseErr:
				err = r.err
			default:
				panic(r)
			}
		}
	}()
	b.build(q)
	return nil
}

func (b *Builder) build(q string) {
	if q == "" {
		b.handleErr(errEmpty{})
	}
	b.Resolve(q)
}

// Resolve is exported, can reach handleErr and has no recovering frame.
func (b *Builder) Resolve(q string) string {
	if len(q) > 10 {
		b.handleErr(errEmpty{})
	}
	return q
}

// Safe never reaches the panic.
func (b *Builder) Safe(q string) int { return len(q) }

type errEmpty struct{}

func (errEmpty) Error() string { return "empty" }

type Memo struct{}

func (m *Memo) HandleErr(err error) { panic(MemoErr{err}) }

func (m *Memo) Optimize(n int) {
	if n < 0 {
		m.HandleErr(errEmpty{})
	}
}
