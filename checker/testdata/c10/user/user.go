// Package user is a checker fixture: callers of package build from another package. Never executed.
package user

import "vchk/testdata/c10/build"

// Use calls a may-throw function with no recovering frame anywhere above: reported.
func Use(b *build.Builder) string { return b.Resolve("x") }

// Fine calls only the recovering frame and a function that cannot throw.
func Fine(b *build.Builder) error {
	_ = b.Safe("x")
	return b.Parse("x")
}

// Replan recovers MemoErr before it calls into the memo: contained.
func Replan(m *build.Memo) (err error) {
	defer func() {
		if r := recover(); r != nil {
			switch r := r.(type) {
			case build.MemoErr:
				err = r.Err
			default:
				panic(r)
			}
		}
	}()
	m.Optimize(1)
	helper(m)
	return nil
}

// helper is only called from Replan, after its defer: covered.
func helper(m *build.Memo) { m.Optimize(2) }

// Plan calls into the memo without a frame: reported.
func Plan(m *build.Memo) { m.Optimize(3) }

// Early calls the may-throw function before the defer is registered: reported.
func Early(b *build.Builder) (err error) {
	_ = b.Resolve("y")
	defer func() {
		if r := recover(); r != nil {
			err = nil
		}
	}()
	return nil
}

// CatchAll recovers everything: contained.
func CatchAll(b *build.Builder) (err error) {
	defer func() {
		if r := recover(); r != nil {
			err = nil
		}
	}()
	_ = b.Resolve("z")
	return nil
}
