// Package spawn is a checker fixture: goroutine spawn sites, good and bad. Never executed.
package spawn

import (
	"sync"
	"time"

	"vchk/testdata/c10/guard"
)

func work() {}

// ---- good

func GoodLit(done chan struct{}) {
	go func() {
		defer close(done)
		defer func() {
			if r := recover(); r != nil {
				_ = r
			}
		}()
		work()
	}()
}

func GoodHelper() {
	go func() {
		defer guard.RecoverAndLog("good helper")
		work()
	}()
}

type worker struct{ done chan struct{} }

func (w *worker) loop() {
	defer close(w.done)
	defer guard.RecoverAndLog("worker loop")
	work()
}

func (w *worker) run() { work() }

func GoodNamed(w *worker) { go w.loop() }

func GoodWG(wg *sync.WaitGroup) {
	wg.Go(func() {
		defer guard.RecoverAndLog("wg")
		work()
	})
}

func GoodGuard(g *guard.Group) {
	guard.Go(g, func() error { work(); return nil })
}

// ---- bad

func Bare() {
	go func() { work() }()
}

func LateDefer() {
	go func() {
		work()
		defer guard.RecoverAndLog("too late")
		work()
	}()
}

// recover() is called in a literal nested inside the deferred function: it does not recover.
func NestedRecover() {
	go func() {
		defer func() {
			func() { _ = recover() }()
		}()
		work()
	}()
}

func Named(w *worker) { go w.run() }

func Group(g *guard.Group) {
	g.Go(func() error { work(); return nil })
}

func WG(wg *sync.WaitGroup) {
	wg.Go(func() { work() })
}

func Timer() {
	time.AfterFunc(time.Second, func() { work() })
}

func Dynamic(f func()) { go f() }
