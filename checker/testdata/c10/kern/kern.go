// Package kern is a checker fixture: byte kernels with and without their guards. Never executed.
package kern

type Map struct{ in [][]int }

func (m *Map) rune(r []byte) ([]byte, bool) { return r, len(r) > 0 }

// Decode has the guard.
func (m *Map) Decode(str []byte) ([]byte, bool) {
	out := make([]byte, 0, len(str))
	for len(str) > 0 {
		var dec []byte
		n := 1
		for ; n <= len(m.in); n++ {
			if n > len(str) {
				return nil, false
			}
			var ok bool
			dec, ok = m.rune(str[:n])
			if ok {
				break
			}
		}
		if n > len(m.in) {
			return nil, false
		}
		out = append(out, dec...)
		str = str[n:]
	}
	return out, true
}

// Encode lacks it.
func (m *Map) Encode(str []byte) ([]byte, bool) {
	out := make([]byte, 0, len(str))
	for len(str) > 0 {
		var enc []byte
		n := 1
		for ; n <= len(m.in); n++ {
			var ok bool
			enc, ok = m.rune(str[:n])
			if ok {
				break
			}
		}
		if n > len(m.in) {
			return nil, false
		}
		out = append(out, enc...)
		str = str[n:]
	}
	return out, true
}

func validate(resp []byte, scramble []byte) bool {
	if len(resp) == 0 {
		return false
	}
	for i := range scramble {
		scramble[i] ^= resp[i]
	}
	return true
}

func validateOK(resp []byte, scramble []byte) bool {
	if len(resp) < len(scramble) || len(scramble) == 0 {
		return false
	}
	for i := range scramble {
		scramble[i] ^= resp[i]
	}
	return scramble[0] == 0
}
