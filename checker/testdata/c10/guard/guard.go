// Package guard is a checker fixture standing in for errguard + errgroup. Never executed.
package guard

import "fmt"

// Group stands in for errgroup.Group.
type Group struct{ errs chan error }

// Go starts f; like errgroup.Group.Go it does not recover. (The go statement below is itself a
// spawn site with a recovering entry, so that only the sites under test are reported.)
func (g *Group) Go(f func() error) {
	go func() {
		defer func() { _ = recover() }()
		g.errs <- f()
	}()
}

// Go is the guarded wrapper: the only place allowed to call Group.Go.
func Go(g *Group, fn func() error) {
	g.Go(func() (err error) {
		defer func() {
			if r := recover(); r != nil {
				err = fmt.Errorf("panic recovered: %v", r)
			}
		}()
		return fn()
	})
}

// RecoverAndLog is deferred as the first statement of a goroutine entry.
func RecoverAndLog(what string) {
	if r := recover(); r != nil {
		fmt.Println("panic recovered in", what, r)
	}
}
