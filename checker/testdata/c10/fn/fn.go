// Package fn is a checker fixture for C10-B2: miniature SQL string functions whose integer
// operands are arbitrary 64-bit values. Each "Bad" function panics for some input; its "OK" twin
// does not. Never executed.
package fn

import (
	"math"
	"strings"
)

// SubstrBad clamps with a sum that wraps for a length near MaxInt64.
func SubstrBad(text []rune, start, length int64) string {
	n := int64(len(text))
	idx := start - 1
	if idx < 0 || idx >= n || length <= 0 {
		return ""
	}
	if idx+length > n {
		length = n - idx
	}
	return string(text[idx : idx+length])
}

// SubstrOK compares the length with what is left.
func SubstrOK(text []rune, start, length int64) string {
	n := int64(len(text))
	idx := start - 1
	if idx < 0 || idx >= n || length <= 0 {
		return ""
	}
	if length > n-idx {
		length = n - idx
	}
	return string(text[idx : idx+length])
}

// TailBad negates the count without excluding MinInt64.
func TailBad(parts []string, count int64) []string {
	start, end := int64(0), int64(len(parts))
	if count >= 0 {
		return parts[:0]
	}
	if n := -count; n < end {
		start = end - n
	}
	return parts[start:end]
}

// TailOK tests the negated count for the wrap.
func TailOK(parts []string, count int64) []string {
	start, end := int64(0), int64(len(parts))
	if count >= 0 {
		return parts[:0]
	}
	count = -count
	if count < 0 {
		return nil
	}
	if count < end {
		start = end - count
	}
	return parts[start:end]
}

// TailOK2 excludes the one value whose negation wraps.
func TailOK2(parts []string, count int64) []string {
	start, end := int64(0), int64(len(parts))
	if count >= 0 || count == math.MinInt64 {
		return parts[:0]
	}
	if n := -count; n < end {
		start = end - n
	}
	return parts[start:end]
}

// LocateBad lets every position through when the string is empty.
func LocateBad(str, sub string, pos int) int {
	if pos <= 0 || (len(str) > 0 && pos > len(str)) {
		return 0
	}
	return strings.Index(str[pos-1:], sub) + pos
}

func LocateOK(str, sub string, pos int) int {
	if pos <= 0 || pos > len(str)+1 {
		return 0
	}
	return strings.Index(str[pos-1:], sub) + pos
}

// PrefixOK: the same assertion evaluated twice names the same value.
func PrefixOK(v interface{}) []byte {
	if len(v.([]byte)) != 16 {
		return nil
	}
	return v.([]byte)[:12]
}

func PrefixBad(v interface{}) []byte {
	if len(v.([]byte)) == 0 {
		return nil
	}
	return v.([]byte)[:12]
}

// TrimOK: start+n <= end bounds end-n from below.
func TrimOK(s, pat string) string {
	start, end, n := 0, len(s), len(pat)
	if n == 0 {
		return s
	}
	for start+n <= end && s[start:start+n] == pat {
		start += n
	}
	for start+n <= end && s[end-n:end] == pat {
		end -= n
	}
	return s[start:end]
}

// Scanner is implemented by two types of this package only.
type Scanner interface{ Next(s string) (rune, int) }

type byteScanner struct{}

func (byteScanner) Next(s string) (rune, int) {
	if len(s) == 0 {
		return 0, 0
	}
	return rune(s[0]), 1
}

type pairScanner struct{}

func (pairScanner) Next(s string) (rune, int) {
	if len(s) < 2 {
		return 0, len(s)
	}
	return rune(s[0])<<8 | rune(s[1]), 2
}

// CountOK advances by what the scanner consumed: every implementation returns 0 <= n <= len(s).
func CountOK(sc Scanner, s string) int {
	c := 0
	for len(s) > 0 {
		_, n := sc.Next(s)
		if n == 0 {
			break
		}
		s = s[n:]
		c++
	}
	return c
}

// CountBad advances one byte more.
func CountBad(sc Scanner, s string) int {
	c := 0
	for len(s) > 0 {
		_, n := sc.Next(s)
		s = s[n+1:]
		c++
	}
	return c
}

// FirstNonZeroOK: the bound of a counted loop survives a break (narrowing after widening).
func FirstNonZeroOK(v uint32) []byte {
	res := []byte{byte(v >> 24), byte(v >> 16), byte(v >> 8), byte(v)}
	var i int
	for i = 0; i < 3; i++ {
		if res[i] != 0 {
			break
		}
	}
	return res[i:]
}

// LitBad slices inside a function literal.
func LitBad(s string, n int) func() string {
	return func() string { return s[:n] }
}

// AddWrapBad: i+1 wraps for MaxInt64, the guard then lets a huge index through.
func AddWrapBad(s string, i int64) string {
	if i < 0 {
		return ""
	}
	j := i + 1
	if j > int64(len(s)) {
		return ""
	}
	return s[j-1:]
}

// AddWrapOK bounds i first.
func AddWrapOK(s string, i int64) string {
	if i < 0 || i >= int64(len(s)) {
		return ""
	}
	j := i + 1
	return s[j-1:]
}

// AddWrapOK2 excludes the one value whose successor wraps.
func AddWrapOK2(s string, i int64) string {
	if i < 0 || i == math.MaxInt64 {
		return ""
	}
	j := i + 1
	if j > int64(len(s)) {
		return ""
	}
	return s[j-1:]
}

// ConvBad: a uint64 above MaxInt64 converts to a negative int64.
func ConvBad(s string, u uint64) string {
	i := int64(u)
	if i >= int64(len(s)) {
		return ""
	}
	return s[i:]
}

func ConvOK(s string, u uint64) string {
	if u >= uint64(len(s)) {
		return ""
	}
	return s[int64(u):]
}

// PairBad: start+n wraps negative and passes the test against end.
func PairBad(s string, start, n int64) string {
	end := int64(len(s))
	if start < 0 || n < 0 {
		return ""
	}
	if start+n <= end {
		return s[start : start+n]
	}
	return ""
}

// PairOK compares n with what is left.
func PairOK(s string, start, n int64) string {
	end := int64(len(s))
	if start < 0 || n < 0 || start > end || n > end-start {
		return ""
	}
	return s[start : start+n]
}

// Field stability by access chain: base.kids is assigned through *B only, so the two loads in
// (*A).First see one value; base2.kids is assigned through a *base2, which may point into a C.
type base struct{ kids []int }
type A struct{ base }
type B struct{ base }

func touch() {}

func (a *A) First() []int {
	if len(a.kids) < 1 {
		return nil
	}
	touch()
	return a.kids[:1]
}

func (b *B) Reset() { b.kids = nil }

type base2 struct{ kids []int }
type C struct{ base2 }

func (c *C) First() []int {
	if len(c.kids) < 1 {
		return nil
	}
	touch()
	return c.kids[:1]
}

func reset2(b *base2) { b.kids = nil }
