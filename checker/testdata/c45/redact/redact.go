// Package redact is a checker fixture: a reduced trace redactor with seeded leaks. Never executed.
package redact

import (
	"errors"
	"strconv"
	"strings"
	"sync"

	"vchk/testdata/c45/lex"
)

const UnparseableMarker = "<unparseable>"

var ErrLex = errors.New("lex failed")

// defects: the first three bytes of the input are copied to the output (T1); the input is
// returned together with the error (T3).
func Redact(sql string, m *Mapping, identSet map[string]struct{}) (string, error) {
	var out strings.Builder
	if len(sql) > 3 {
		out.WriteString(sql[:3])
	}
	tk := lex.NewStringTokenizer(sql)
	first := true
	for {
		typ, val := tk.Scan()
		if typ == 0 {
			break
		}
		if typ == lex.LEX_ERROR {
			return sql, ErrLex
		}
		if typ == lex.COMMENT {
			continue
		}
		if !first {
			out.WriteByte(' ')
		}
		first = false
		emitToken(&out, typ, val, m, identSet)
	}
	return out.String(), nil
}

// defects: the INTEGRAL arm writes the literal unredacted (T1); there is no arm for HEX (T2);
// the default arm emits structurally without consulting the identifier set (T1 on emitStructural).
func emitToken(out *strings.Builder, typ int, val []byte, m *Mapping, identSet map[string]struct{}) {
	switch typ {
	case lex.ID:
		emitIdent(out, val, m)
	case lex.STRING:
		out.WriteByte('\'')
		out.WriteString(m.RedactValue(string(val)))
		out.WriteByte('\'')
	case lex.INTEGRAL:
		out.WriteByte(':')
		out.WriteString(string(val))
	case lex.VALUE_ARG:
		out.Write(val)
	default:
		if typ == lex.STATUS {
			if _, ok := identSet[string(val)]; ok {
				emitIdent(out, val, m)
				return
			}
		}
		emitStructural(out, typ, val)
	}
}

func emitIdent(out *strings.Builder, val []byte, m *Mapping) {
	out.WriteByte('`')
	out.WriteString(m.RedactIdent(string(val)))
	out.WriteByte('`')
}

var symbolOps = map[int]string{lex.LE: "<="}

func emitStructural(out *strings.Builder, typ int, val []byte) {
	if len(val) > 0 {
		out.Write(val)
		return
	}
	if typ < 256 {
		out.WriteByte(byte(typ))
		return
	}
	if s, ok := symbolOps[typ]; ok {
		out.WriteString(s)
	}
}

type Mapping struct {
	mu     sync.RWMutex
	idents map[string]string
	values map[string]string
	nCount int
	vCount int
}

// RedactIdent is correct.
func (m *Mapping) RedactIdent(orig string) string {
	if m == nil || orig == "" {
		return orig
	}
	m.mu.RLock()
	if t, ok := m.idents[orig]; ok {
		m.mu.RUnlock()
		return t
	}
	m.mu.RUnlock()
	m.mu.Lock()
	defer m.mu.Unlock()
	if t, ok := m.idents[orig]; ok {
		return t
	}
	m.nCount++
	t := "n" + strconv.Itoa(m.nCount)
	m.idents[orig] = t
	return t
}

// defects: short values are returned as they are (T4 return); the token is minted and stored
// without the write lock (T4 store); the identifier map is consulted too (T4 fields).
func (m *Mapping) RedactValue(orig string) string {
	if m == nil {
		return orig
	}
	if len(orig) < 3 {
		return orig
	}
	m.mu.RLock()
	if t, ok := m.values[orig]; ok {
		m.mu.RUnlock()
		return t
	}
	if t, ok := m.idents[orig]; ok {
		m.mu.RUnlock()
		return t
	}
	m.mu.RUnlock()
	m.vCount++
	t := "v" + strconv.Itoa(m.vCount)
	m.values[orig] = t
	return t
}
