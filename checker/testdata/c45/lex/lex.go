// Package lex is a checker fixture: a tiny tokenizer with the shape of the vitess one. Never executed.
package lex

const (
	LEX_ERROR = 257 + iota
	ID
	STRING
	INTEGRAL
	HEX
	VALUE_ARG
	COMMENT
	SELECT
	FROM
	WHERE
	AND
	OR
	STATUS
	LE
)

var keywords = map[string]int{
	"select": SELECT,
	"from":   FROM,
	"where":  WHERE,
	"and":    AND,
	"or":     OR,
	"status": STATUS,
}

type Tokenizer struct {
	buf []byte
	pos int
}

func NewStringTokenizer(s string) *Tokenizer { return &Tokenizer{buf: []byte(s)} }

func (t *Tokenizer) cur() byte {
	if t.pos < len(t.buf) {
		return t.buf[t.pos]
	}
	return 0
}

func (t *Tokenizer) Scan() (int, []byte) {
	for t.cur() == ' ' {
		t.pos++
	}
	ch := t.cur()
	switch {
	case ch == 0:
		return 0, nil
	case ch >= 'a' && ch <= 'z':
		if ch == 'x' && t.pos+1 < len(t.buf) && t.buf[t.pos+1] == '\'' {
			t.pos += 2
			return t.scanHex()
		}
		return t.scanIdentifier()
	case ch >= '0' && ch <= '9':
		return t.scanNumber()
	case ch == '\'':
		t.pos++
		return t.scanString(STRING)
	case ch == '?':
		t.pos++
		return VALUE_ARG, []byte(":v1")
	case ch == ':':
		return t.scanBind()
	case ch == '#':
		start := t.pos
		t.pos = len(t.buf)
		return COMMENT, t.buf[start:]
	case ch == '<':
		t.pos++
		if t.cur() == '=' {
			t.pos++
			return LE, nil
		}
		return int(ch), nil
	}
	t.pos++
	return int(ch), nil
}

func (t *Tokenizer) scanIdentifier() (int, []byte) {
	start := t.pos
	for c := t.cur(); c >= 'a' && c <= 'z'; c = t.cur() {
		t.pos++
	}
	word := t.buf[start:t.pos]
	keywordID, found := keywords[string(word)]
	if found {
		return keywordID, word
	}
	return ID, word
}

func (t *Tokenizer) scanNumber() (int, []byte) {
	token := INTEGRAL
	start := t.pos
	for c := t.cur(); c >= '0' && c <= '9'; c = t.cur() {
		t.pos++
	}
	if c := t.cur(); c >= 'a' && c <= 'z' {
		return LEX_ERROR, t.buf[start:t.pos]
	}
	return token, t.buf[start:t.pos]
}

func (t *Tokenizer) scanHex() (int, []byte) {
	start := t.pos
	for t.cur() != '\'' && t.cur() != 0 {
		t.pos++
	}
	if t.cur() == 0 {
		return LEX_ERROR, t.buf[start:t.pos]
	}
	t.pos++
	return HEX, t.buf[start : t.pos-1]
}

func (t *Tokenizer) scanString(typ int) (int, []byte) {
	start := t.pos
	for t.cur() != '\'' {
		if t.cur() == 0 {
			return LEX_ERROR, t.buf[start:t.pos]
		}
		t.pos++
	}
	t.pos++
	return typ, t.buf[start : t.pos-1]
}

func (t *Tokenizer) scanBind() (int, []byte) {
	start := t.pos
	t.pos++
	for c := t.cur(); c >= 'a' && c <= 'z'; c = t.cur() {
		t.pos++
	}
	return VALUE_ARG, t.buf[start:t.pos]
}
