// Package plan is the fixture stand-in for sql/plan (C23).
package plan

import "vchk/testdata/c23/sql"

const (
	InsertStr   = "insert"
	UpdateStr   = "update"
	DeleteStr   = "delete"
	BeforeStr   = "before"
	AfterStr    = "after"
	FollowsStr  = "follows"
	PrecedesStr = "precedes"
)

type TriggerEvent string

const (
	InsertTrigger TriggerEvent = InsertStr
	UpdateTrigger TriggerEvent = UpdateStr
	DeleteTrigger TriggerEvent = DeleteStr
)

type TriggerTime string

const (
	BeforeTrigger TriggerTime = BeforeStr
	AfterTrigger  TriggerTime = AfterStr
)

type base struct{ kids []sql.Node }

func (b base) Children() []sql.Node { return b.kids }

// BinaryNode: left = wrapped node, right = trigger logic.
type BinaryNode struct {
	left  sql.Node
	right sql.Node
}

func (n BinaryNode) Left() sql.Node  { return n.left }
func (n BinaryNode) Right() sql.Node { return n.right }
func (n BinaryNode) Children() []sql.Node {
	return []sql.Node{n.left, n.right}
}

type TriggerExecutor struct {
	BinaryNode
	Event TriggerEvent
	Time  TriggerTime
}

func NewTriggerExecutor(child, logic sql.Node, ev TriggerEvent, tm TriggerTime) *TriggerExecutor {
	return &TriggerExecutor{BinaryNode: BinaryNode{left: child, right: logic}, Event: ev, Time: tm}
}

// TransformCtx is what a transform hands to its selector.
type TransformCtx struct {
	Node     sql.Node
	Parent   sql.Node
	ChildNum int
}

type TriggerBeginEndBlock struct{ base }
type Set struct{ base }

type InsertInto struct {
	base
	Source sql.Node
}

func (n *InsertInto) WithSource(s sql.Node) *InsertInto { c := *n; c.Source = s; return &c }

type Update struct {
	base
	Child sql.Node
}

func (n *Update) WithChildren(c ...sql.Node) (sql.Node, error) {
	u := *n
	u.Child = c[0]
	return &u, nil
}

type DeleteFrom struct {
	base
	Child sql.Node
}

func (n *DeleteFrom) WithChildren(c ...sql.Node) (sql.Node, error) {
	u := *n
	u.Child = c[0]
	return &u, nil
}

// Merge is a DML node kind the trigger tables do not know (planted).
type Merge struct {
	base
	Child sql.Node
}

type TableAlias struct {
	base
	Name string
}

func NewTableAlias(name string, n sql.Node) *TableAlias { return &TableAlias{Name: name} }

type SubqueryAlias struct {
	base
	Name string
}

func NewSubqueryAlias(name, text string, n sql.Node) *SubqueryAlias {
	return &SubqueryAlias{Name: name}
}

type CrossJoin struct {
	base
	L, R sql.Node
}

func NewCrossJoin(l, r sql.Node) *CrossJoin { return &CrossJoin{L: l, R: r} }

func NewTableEditorIter(it sql.RowIter, eds ...sql.EditOpenerCloser) sql.RowIter { return it }

type TriggerOrder struct {
	PrecedesOrFollows string
	OtherTriggerName  string
}

type CreateTrigger struct {
	base
	TriggerName  string
	TriggerTime  string
	TriggerEvent string
	TriggerOrder *TriggerOrder
	Table, Body  sql.Node
}

// OrderTriggers: planted — FOLLOWS re-inserts at the referenced index (not after it) and the split ranges over the
// input, not over the reordered slice.
func OrderTriggers(triggers []*CreateTrigger) (beforeTriggers []*CreateTrigger, afterTriggers []*CreateTrigger) {
	orderedTriggers := make([]*CreateTrigger, len(triggers))
	copy(orderedTriggers, triggers)
Top:
	for i, trigger := range triggers {
		if trigger.TriggerOrder != nil {
			ref := trigger.TriggerOrder.OtherTriggerName
			orderedTriggers = append(orderedTriggers[:i], orderedTriggers[i+1:]...)
			for j, t := range orderedTriggers {
				if t.TriggerName == ref {
					if trigger.TriggerOrder.PrecedesOrFollows == PrecedesStr {
						orderedTriggers = append(orderedTriggers[:j], append([]*CreateTrigger{trigger}, orderedTriggers[j:]...)...)
					} else if trigger.TriggerOrder.PrecedesOrFollows == FollowsStr {
						orderedTriggers = append(orderedTriggers[:j], append([]*CreateTrigger{trigger}, orderedTriggers[j:]...)...)
					}
					continue Top
				}
			}
		}
	}
	for _, trigger := range triggers {
		if trigger.TriggerTime == BeforeStr {
			beforeTriggers = append(beforeTriggers, trigger)
		} else {
			afterTriggers = append(afterTriggers, trigger)
		}
	}
	return beforeTriggers, afterTriggers
}
