// Package rowexec is the fixture stand-in for sql/rowexec (C23): every function carries one planted defect that the
// C23 rules must report (see c23FixtureWant), next to correct siblings they must accept.
package rowexec

import (
	"io"

	"vchk/testdata/c23/plan"
	"vchk/testdata/c23/sql"
)

type BaseBuilder struct{}

func (b *BaseBuilder) buildNodeExec(ctx *sql.Context, n sql.Node, row sql.Row) (sql.RowIter, error) {
	return nil, nil
}

func wrapIter(it sql.RowIter) sql.RowIter { return it }

func prependRowInPlanForTriggerExecution(ctx *sql.Context, row sql.Row) func(sql.Node) sql.Node {
	return func(n sql.Node) sql.Node { return n }
}

func transformNode(n sql.Node, f func(sql.Node) sql.Node) (sql.Node, error) { return f(n), nil }

func applyUpdateExpressions(ctx *sql.Context, row sql.Row) (sql.Row, error) { return row, nil }

// ---- executors -----------------------------------------------------------------------------------

type triggerIter struct {
	child          sql.RowIter
	executionLogic sql.Node
	b              *BaseBuilder
}

func (b *BaseBuilder) buildTriggerExecutor(ctx *sql.Context, n *plan.TriggerExecutor, row sql.Row) (sql.RowIter, error) {
	childIter, err := b.buildNodeExec(ctx, n.Left(), row)
	if err != nil {
		return nil, err
	}
	return &triggerIter{child: childIter, executionLogic: n.Right(), b: b}, nil
}

// Next — planted: the logic is built on the named result `row` (nil) instead of the child's row (T2); the drain loop
// stops after the first row (T1); the deferred Close drops its error (T5).
func (t *triggerIter) Next(ctx *sql.Context) (row sql.Row, returnErr error) {
	childRow, err := t.child.Next(ctx)
	if err != nil {
		return nil, err
	}
	logic, err := transformNode(t.executionLogic, prependRowInPlanForTriggerExecution(ctx, childRow))
	if err != nil {
		return nil, err
	}
	logicIter, err := t.b.buildNodeExec(ctx, logic, row)
	if err != nil {
		return nil, err
	}
	logicIter = wrapIter(logicIter)
	defer func() {
		_ = logicIter.Close(ctx)
	}()
	var logicRow sql.Row
	for {
		r, err := logicIter.Next(ctx)
		if err == io.EOF {
			break
		}
		if err != nil {
			return nil, err
		}
		logicRow = r
		break
	}
	if ok, returnRow := shouldUseLogicResult(ctx, logic, logicRow); ok {
		return returnRow, nil
	}
	return childRow, nil
}

// Close — planted: the error of closing the child (the DML's editor iterator under an AFTER executor) is dropped.
func (t *triggerIter) Close(ctx *sql.Context) error {
	_ = t.child.Close(ctx)
	return nil
}

// prependRowForTriggerExecutionSelector — planted: skips the wrapped child instead of the logic.
func prependRowForTriggerExecutionSelector(ctx plan.TransformCtx) bool {
	switch p := ctx.Parent.(type) {
	case *plan.TriggerExecutor:
		return !(p.Left() == ctx.Node)
	default:
		return true
	}
}

type triggerBlockIter struct {
	b          *BaseBuilder
	statements []sql.Node
	row        sql.Row
	ran        bool
}

func (b *BaseBuilder) buildTriggerBeginEndBlock(ctx *sql.Context, n *plan.TriggerBeginEndBlock, row sql.Row) (sql.RowIter, error) {
	return &triggerBlockIter{statements: n.Children(), row: row, b: b}, nil
}

// Next — planted: a statement can be skipped (T1), a failing statement's iterator is left open (T5), a SET result is
// reduced to its lower half (L).
func (i *triggerBlockIter) Next(ctx *sql.Context) (sql.Row, error) {
	if i.ran {
		return nil, io.EOF
	}
	i.ran = true
	row := i.row
	for _, s := range i.statements {
		if s == nil {
			continue
		}
		subIter, err := i.b.buildNodeExec(ctx, s, row)
		if err != nil {
			return nil, err
		}
		for {
			newRow, err := subIter.Next(ctx)
			if err == io.EOF {
				err := subIter.Close(ctx)
				if err != nil {
					return nil, err
				}
				break
			} else if err != nil {
				return nil, err
			}
			if isSet(s) {
				row = newRow[:len(newRow)/2]
			}
		}
	}
	return row, nil
}

func (i *triggerBlockIter) Close(*sql.Context) error { return nil }

func isSet(n sql.Node) bool { _, ok := n.(*plan.Set); return ok }

// shouldUseLogicResult — planted: the Set arm hands on the lower half (the unmodified input row).
func shouldUseLogicResult(ctx *sql.Context, logic sql.Node, row sql.Row) (bool, sql.Row) {
	switch logic.(type) {
	case *plan.Set:
		return true, row[:len(row)/2]
	case *plan.TriggerBeginEndBlock:
		return true, row
	default:
		return false, nil
	}
}

// buildSet — planted: updated||input instead of input||updated.
func (b *BaseBuilder) buildSet(ctx *sql.Context, n *plan.Set, row sql.Row) (sql.RowIter, error) {
	newRow, err := applyUpdateExpressions(ctx, row)
	if err != nil {
		return nil, err
	}
	resultRow := newRow.Append(row)
	return &oneRow{row: resultRow}, nil
}

type oneRow struct {
	row  sql.Row
	done bool
}

func (o *oneRow) Next(*sql.Context) (sql.Row, error) {
	if o.done {
		return nil, io.EOF
	}
	o.done = true
	return o.row, nil
}
func (o *oneRow) Close(*sql.Context) error { return nil }

// ---- DML iterators -------------------------------------------------------------------------------

type updateSourceIter struct{ childIter sql.RowIter }

func (u *updateSourceIter) Next(ctx *sql.Context) (sql.Row, error) {
	oldRow, err := u.childIter.Next(ctx)
	if err != nil {
		return nil, err
	}
	newRow, err := applyUpdateExpressions(ctx, oldRow)
	if err != nil {
		return nil, err
	}
	row := append(oldRow, newRow...)
	return row, nil
}
func (u *updateSourceIter) Close(ctx *sql.Context) error { return u.childIter.Close(ctx) }

type updateIter struct {
	childIter sql.RowIter
	updater   sql.RowUpdater
}

// Next — planted: Update(new, old).
func (u *updateIter) Next(ctx *sql.Context) (sql.Row, error) {
	oldAndNewRow, err := u.childIter.Next(ctx)
	if err != nil {
		return nil, err
	}
	oldRow, newRow := oldAndNewRow[:len(oldAndNewRow)/2], oldAndNewRow[len(oldAndNewRow)/2:]
	if err := u.updater.Update(ctx, newRow, oldRow); err != nil {
		return nil, err
	}
	return oldAndNewRow, nil
}
func (u *updateIter) Close(ctx *sql.Context) error { return u.childIter.Close(ctx) }

func (b *BaseBuilder) buildUpdate(ctx *sql.Context, n *plan.Update, row sql.Row) (sql.RowIter, error) {
	it, err := b.buildNodeExec(ctx, n.Child, row)
	if err != nil {
		return nil, err
	}
	return newUpdateIter(it, nil), nil
}

func newUpdateIter(child sql.RowIter, up sql.RowUpdater) sql.RowIter {
	return plan.NewTableEditorIter(&updateIter{childIter: child, updater: up}, up)
}

type insertIter struct {
	rowSource sql.RowIter
	inserter  sql.RowInserter
	replacer  sql.RowReplacer
}

// Next — planted (as in the engine): the replace path deletes rows and returns a doubled row.
func (i *insertIter) Next(ctx *sql.Context) (sql.Row, error) {
	row, err := i.rowSource.Next(ctx)
	if err != nil {
		return nil, err
	}
	if i.replacer != nil {
		toReturn := make(sql.Row, len(row)*2)
		copy(toReturn[len(row):], row)
		if err := i.replacer.Delete(ctx, row); err != nil {
			return nil, err
		}
		if err := i.replacer.Insert(ctx, row); err != nil {
			return nil, err
		}
		return toReturn, nil
	}
	if err := i.inserter.Insert(ctx, row); err != nil {
		return nil, err
	}
	return row, nil
}
func (i *insertIter) Close(ctx *sql.Context) error { return i.rowSource.Close(ctx) }

func (b *BaseBuilder) buildInsertInto(ctx *sql.Context, n *plan.InsertInto, row sql.Row) (sql.RowIter, error) {
	src, err := b.buildNodeExec(ctx, n.Source, row)
	if err != nil {
		return nil, err
	}
	insertIter := &insertIter{rowSource: src}
	return plan.NewTableEditorIter(insertIter), nil
}

type deleteIter struct {
	childIter sql.RowIter
	deleter   sql.RowDeleter
}

func (d *deleteIter) Next(ctx *sql.Context) (sql.Row, error) {
	row, err := d.childIter.Next(ctx)
	if err != nil {
		return nil, err
	}
	if err := d.deleter.Delete(ctx, row); err != nil {
		return nil, err
	}
	return row, nil
}
func (d *deleteIter) Close(ctx *sql.Context) error { return d.childIter.Close(ctx) }

func (b *BaseBuilder) buildDeleteFrom(ctx *sql.Context, n *plan.DeleteFrom, row sql.Row) (sql.RowIter, error) {
	it, err := b.buildNodeExec(ctx, n.Child, row)
	if err != nil {
		return nil, err
	}
	return plan.NewTableEditorIter(&deleteIter{childIter: it}), nil
}

// mergeIter / buildMerge — planted: a DML node kind that opens a table editor but has no arm in the trigger tables.
type mergeIter struct{ childIter sql.RowIter }

func (m *mergeIter) Next(ctx *sql.Context) (sql.Row, error) { return m.childIter.Next(ctx) }
func (m *mergeIter) Close(ctx *sql.Context) error           { return m.childIter.Close(ctx) }

func (b *BaseBuilder) buildMerge(ctx *sql.Context, n *plan.Merge, row sql.Row) (sql.RowIter, error) {
	it, err := b.buildNodeExec(ctx, n.Child, row)
	if err != nil {
		return nil, err
	}
	return plan.NewTableEditorIter(&mergeIter{childIter: it}), nil
}
