package analyzer

import (
	"strings"

	"vchk/testdata/c23/plan"
)

// C23-T6 fixture: does a table have a DELETE trigger?

func nameOf(tr *plan.CreateTrigger) string { return tr.TriggerName }

func hasDeleteTriggerGood(triggers []*plan.CreateTrigger, table string) bool {
	name := strings.ToLower(table)
	for _, tr := range triggers {
		if strings.ToLower(tr.TriggerEvent) == "delete" && strings.ToLower(nameOf(tr)) == name {
			return true
		}
	}
	return false
}

// hasDeleteTriggerBad compares the trigger's table name as written with the folded target name.
func hasDeleteTriggerBad(triggers []*plan.CreateTrigger, table string) bool {
	name := strings.ToLower(table)
	for _, tr := range triggers {
		if nameOf(tr) == name {
			return true
		}
	}
	return false
}
