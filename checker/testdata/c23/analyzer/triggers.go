// Package analyzer is the fixture stand-in for sql/analyzer (C23).
package analyzer

import (
	"vchk/testdata/c23/plan"
	"vchk/testdata/c23/sql"
)

func inspect(n sql.Node, f func(sql.Node) bool) {
	if f(n) {
		for _, c := range n.Children() {
			inspect(c, f)
		}
	}
}

func transformNode(n sql.Node, sel func(plan.TransformCtx) bool, f func(sql.Node) (sql.Node, error)) (sql.Node, error) {
	if !sel(plan.TransformCtx{Node: n}) {
		return n, nil
	}
	return f(n)
}

// applyTriggers — planted: DELETE statements are matched to UPDATE triggers (T3 event), triggers are selected by event only
// (not by table), and the triggers are applied in catalog order (T4).
func applyTriggers(ctx *sql.Context, n sql.Node, all []*plan.CreateTrigger) (sql.Node, error) {
	var triggerEvent plan.TriggerEvent
	var affectedTables []string
	found := false
	inspect(n, func(n sql.Node) bool {
		switch n.(type) {
		case *plan.InsertInto:
			affectedTables = append(affectedTables, "t")
			triggerEvent = plan.InsertTrigger
			found = true
		case *plan.Update:
			affectedTables = append(affectedTables, "t")
			triggerEvent = plan.UpdateTrigger
			found = true
		case *plan.DeleteFrom:
			affectedTables = append(affectedTables, "t")
			triggerEvent = plan.UpdateTrigger
			found = true
		}
		return true
	})
	if !found || len(affectedTables) == 0 {
		return n, nil
	}
	var affectedTriggers []*plan.CreateTrigger
	for _, t := range all {
		if t.TriggerEvent == string(triggerEvent) {
			affectedTriggers = append(affectedTriggers, t)
		}
	}
	triggers := orderTriggersAndReverseAfter(affectedTriggers)
	_ = triggers
	originalNode := n
	var err error
	for _, trigger := range affectedTriggers {
		n, err = applyTrigger(ctx, originalNode, n, trigger)
		if err != nil {
			return nil, err
		}
	}
	return n, nil
}

// applyTrigger — planted: the AFTER UPDATE executor is put under the Update node, and the Update arm places any
// selected trigger without testing that it belongs to this node.
func applyTrigger(ctx *sql.Context, originalNode, n sql.Node, trigger *plan.CreateTrigger) (sql.Node, error) {
	triggerLogic, err := getTriggerLogic(ctx, originalNode, trigger)
	if err != nil {
		return nil, err
	}
	// planted: skips child 0 (the wrapped node) instead of child 1 (the logic)
	canApplyTriggerExecutor := func(c plan.TransformCtx) bool {
		if _, ok := c.Parent.(*plan.TriggerExecutor); ok {
			if c.ChildNum == 0 {
				return false
			}
		}
		return true
	}
	return transformNode(n, canApplyTriggerExecutor, func(node sql.Node) (sql.Node, error) {
		switch n := node.(type) {
		case *plan.InsertInto:
			if !triggerAppliesToNode(trigger, plan.InsertTrigger, n) {
				return node, nil
			}
			if trigger.TriggerTime == plan.BeforeStr {
				triggerExecutor := plan.NewTriggerExecutor(n.Source, triggerLogic, plan.InsertTrigger, plan.TriggerTime(trigger.TriggerTime))
				return n.WithSource(triggerExecutor), nil
			} else {
				return plan.NewTriggerExecutor(n, triggerLogic, plan.InsertTrigger, plan.TriggerTime(trigger.TriggerTime)), nil
			}
		case *plan.Update:
			if trigger.TriggerTime == plan.BeforeStr {
				triggerExecutor := plan.NewTriggerExecutor(n.Child, triggerLogic, plan.UpdateTrigger, plan.TriggerTime(trigger.TriggerTime))
				return n.WithChildren(triggerExecutor)
			} else {
				triggerExecutor := plan.NewTriggerExecutor(n.Child, triggerLogic, plan.UpdateTrigger, plan.TriggerTime(trigger.TriggerTime))
				return n.WithChildren(triggerExecutor)
			}
		case *plan.DeleteFrom:
			if triggerAppliesToNode(trigger, plan.DeleteTrigger, n) {
				if trigger.TriggerTime == plan.BeforeStr {
					triggerExecutor := plan.NewTriggerExecutor(n.Child, triggerLogic, plan.DeleteTrigger, plan.TriggerTime(trigger.TriggerTime))
					node, err := n.WithChildren(triggerExecutor)
					return node, err
				} else {
					return plan.NewTriggerExecutor(n, triggerLogic, plan.DeleteTrigger, plan.TriggerTime(trigger.TriggerTime)), nil
				}
			}
		}
		return node, nil
	})
}

// getTriggerLogic — planted: the UPDATE scope is CrossJoin(new, old).
func getTriggerLogic(ctx *sql.Context, n sql.Node, trigger *plan.CreateTrigger) (sql.Node, error) {
	var scopeNode sql.Node
	switch trigger.TriggerEvent {
	case plan.InsertStr:
		scopeNode = plan.NewTableAlias("new", trigger.Table)
	case plan.UpdateStr:
		scopeNode = plan.NewCrossJoin(
			plan.NewTableAlias("new", trigger.Table),
			plan.NewTableAlias("old", trigger.Table),
		)
	case plan.DeleteStr:
		scopeNode = plan.NewTableAlias("old", trigger.Table)
	}
	_ = scopeNode
	return trigger.Body, nil
}

// orderTriggersAndReverseAfter — planted: the BEFORE half is reversed, the AFTER half is not.
func orderTriggersAndReverseAfter(triggers []*plan.CreateTrigger) []*plan.CreateTrigger {
	beforeTriggers, afterTriggers := plan.OrderTriggers(triggers)
	for left, right := 0, len(beforeTriggers)-1; left < right; left, right = left+1, right-1 {
		beforeTriggers[left], beforeTriggers[right] = beforeTriggers[right], beforeTriggers[left]
	}
	return append(beforeTriggers, afterTriggers...)
}

func tableName(n sql.Node) string {
	if a, ok := n.(*plan.TableAlias); ok {
		return a.Name
	}
	return ""
}

func triggerAppliesToNode(trigger *plan.CreateTrigger, event plan.TriggerEvent, n sql.Node) bool {
	return trigger.TriggerEvent == string(event) && len(n.Children()) > 0 && tableName(n.Children()[0]) == tableName(trigger.Table)
}
