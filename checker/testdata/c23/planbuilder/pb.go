// Package planbuilder is the fixture stand-in for sql/planbuilder (C23).
package planbuilder

import "vchk/testdata/c23/plan"

type scope struct {
	cols  []string
	alias string
}

func (s *scope) newColumn(c string)     { s.cols = append(s.cols, c) }
func (s *scope) setTableAlias(a string) { s.alias = a }
func (s *scope) addColumns(cs []string) { s.cols = append(s.cols, cs...) }

type Builder struct{}

// buildCreateTrigger: planted — DELETE triggers are offered NEW as well, which the analyzer scope does not have.
func (b *Builder) buildCreateTrigger(event string, cols []string) *scope {
	newScope := &scope{}
	oldScope := &scope{}
	for _, col := range cols {
		switch event {
		case plan.InsertStr:
			newScope.newColumn(col)
		case plan.UpdateStr:
			newScope.newColumn(col)
			oldScope.newColumn(col)
		case plan.DeleteStr:
			oldScope.newColumn(col)
			newScope.newColumn(col)
		}
	}
	newScope.setTableAlias("new")
	oldScope.setTableAlias("old")
	out := &scope{}
	out.addColumns(newScope.cols)
	out.addColumns(oldScope.cols)
	return out
}
