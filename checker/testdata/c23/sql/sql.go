// Package sql is the fixture stand-in for the engine's sql package (C23).
package sql

type Context struct{}

type Row []any

func (r Row) Append(o Row) Row { return append(append(Row{}, r...), o...) }

type RowIter interface {
	Next(ctx *Context) (Row, error)
	Close(ctx *Context) error
}

type Node interface{ Children() []Node }

type EditOpenerCloser interface{ Close(ctx *Context) error }

type RowInserter interface {
	EditOpenerCloser
	Insert(ctx *Context, row Row) error
}

type RowUpdater interface {
	EditOpenerCloser
	Update(ctx *Context, old, new Row) error
}

type RowDeleter interface {
	EditOpenerCloser
	Delete(ctx *Context, row Row) error
}

type RowReplacer interface {
	RowInserter
	RowDeleter
}
