// Package fn is the C33 fixture: miniature REGEXP_* nodes. GoodInstr, GoodSubstr and GoodLike follow the
// discipline; every other type has exactly one planted defect (named in its comment). compileRegex and
// validate carry the planted match_type defects. Generated once by hand-written template; edit freely.
package fn

import (
	"context"
	"sync"

	"vchk/testdata/c33/rx"
	"vchk/testdata/c33/sqlx"
)

// GoodInstr follows the discipline.
type GoodInstr struct {
	Text, Pattern, Position, Occurrence, Flags sqlx.Expression
	re                                         rx.Regex
	compileErr                                 error
	once                                       sync.Once
}

func (r *GoodInstr) compile(ctx context.Context, row sqlx.Row) {
	if r.re != nil {
		if r.compileErr = r.re.Close(); r.compileErr != nil {
			return
		}
	}
	r.re, r.compileErr = compileRegex(ctx, r.Pattern, r.Text, r.Flags, row)
}

func (r *GoodInstr) Eval(ctx context.Context, row sqlx.Row) (any, error) {
	r.compile(ctx, row)
	if r.compileErr != nil {
		return nil, r.compileErr
	}
	if r.re == nil {
		return nil, nil
	}
	text, err := r.Text.Eval(ctx, row)
	if err != nil {
		return nil, err
	}
	if text == nil {
		return nil, nil
	}
	text, _, err = sqlx.Text.Convert(ctx, text)
	if err != nil {
		return nil, err
	}
	s, _, err := sqlx.Unwrap[string](ctx, text)
	if err != nil {
		return nil, err
	}
	pos, err := r.Position.Eval(ctx, row)
	if err != nil {
		return nil, err
	}
	if pos == nil {
		return nil, nil
	}
	pos, _, err = sqlx.Int32.Convert(ctx, pos)
	if err != nil {
		return nil, err
	}
	occ, err := r.Occurrence.Eval(ctx, row)
	if err != nil {
		return nil, err
	}
	if occ == nil {
		return nil, nil
	}
	occ, _, err = sqlx.Int32.Convert(ctx, occ)
	if err != nil {
		return nil, err
	}
	if err = r.re.SetMatchString(ctx, s); err != nil {
		return nil, err
	}
	idx, err := r.re.IndexOf(ctx, int(pos.(int32)), int(occ.(int32)), false)
	if err != nil {
		return nil, err
	}
	return int32(idx), nil
}

func (r *GoodInstr) Dispose() {
	if r.re != nil {
		_ = r.re.Close()
	}
}

// GoodSubstr follows the discipline (compiles once through a closure, unwraps with UnwrapAny).
type GoodSubstr struct {
	Text, Pattern, Position, Occurrence, Flags sqlx.Expression
	re                                         rx.Regex
	compileErr                                 error
	once                                       sync.Once
}

func (r *GoodSubstr) compile(ctx context.Context, row sqlx.Row) {
	r.once.Do(func() {
		r.re, r.compileErr = compileRegex(ctx, r.Pattern, r.Text, r.Flags, row)
	})
}

func (r *GoodSubstr) Eval(ctx context.Context, row sqlx.Row) (any, error) {
	r.compile(ctx, row)
	if r.compileErr != nil {
		return nil, r.compileErr
	}
	if r.re == nil {
		return nil, nil
	}
	text, err := r.Text.Eval(ctx, row)
	if err != nil {
		return nil, err
	}
	if text == nil {
		return nil, nil
	}
	text, _, err = sqlx.Text.Convert(ctx, text)
	if err != nil {
		return nil, err
	}
	u, err := sqlx.UnwrapAny(ctx, text)
	if err != nil {
		return nil, err
	}
	s := u.(string)
	pos, err := r.Position.Eval(ctx, row)
	if err != nil {
		return nil, err
	}
	if pos == nil {
		return nil, nil
	}
	pos, _, err = sqlx.Int32.Convert(ctx, pos)
	if err != nil {
		return nil, err
	}
	occ, err := r.Occurrence.Eval(ctx, row)
	if err != nil {
		return nil, err
	}
	if occ == nil {
		return nil, nil
	}
	occ, _, err = sqlx.Int32.Convert(ctx, occ)
	if err != nil {
		return nil, err
	}
	if err = r.re.SetMatchString(ctx, s); err != nil {
		return nil, err
	}
	idx, err := r.re.IndexOf(ctx, int(pos.(int32)), int(occ.(int32)), false)
	if err != nil {
		return nil, err
	}
	return int32(idx), nil
}

func (r *GoodSubstr) Dispose() {
	if r.re != nil {
		_ = r.re.Close()
	}
}

// GoodLike follows the discipline (whole-subject test with constant start / occurrence).
type GoodLike struct {
	Text, Pattern, Position, Occurrence, Flags sqlx.Expression
	re                                         rx.Regex
	compileErr                                 error
	once                                       sync.Once
}

func (r *GoodLike) compile(ctx context.Context, row sqlx.Row) {
	if r.re != nil {
		if r.compileErr = r.re.Close(); r.compileErr != nil {
			return
		}
	}
	r.re, r.compileErr = compileRegex(ctx, r.Pattern, r.Text, r.Flags, row)
}

func (r *GoodLike) Eval(ctx context.Context, row sqlx.Row) (any, error) {
	r.compile(ctx, row)
	if r.compileErr != nil {
		return nil, r.compileErr
	}
	if r.re == nil {
		return nil, nil
	}
	text, err := r.Text.Eval(ctx, row)
	if err != nil {
		return nil, err
	}
	if text == nil {
		return nil, nil
	}
	text, _, err = sqlx.Text.Convert(ctx, text)
	if err != nil {
		return nil, err
	}
	s, _, err := sqlx.Unwrap[string](ctx, text)
	if err != nil {
		return nil, err
	}

	if err = r.re.SetMatchString(ctx, s); err != nil {
		return nil, err
	}
	ok, err := r.re.Matches(ctx, 0, 0)
	if err != nil {
		return nil, err
	}
	return ok, nil
}

func (r *GoodLike) Dispose() {
	if r.re != nil {
		_ = r.re.Close()
	}
}

// OwnCompiler builds its matcher itself (G1: second compiler, constructor outside the helper).
type OwnCompiler struct {
	Text, Pattern, Position, Occurrence, Flags sqlx.Expression
	re                                         rx.Regex
	compileErr                                 error
	once                                       sync.Once
}

func (r *OwnCompiler) compile(ctx context.Context, row sqlx.Row) {
	re := rx.CreateRegex(64)
	r.compileErr = re.SetRegexString(ctx, "a+", rx.None)
	r.re = re
}

func (r *OwnCompiler) Eval(ctx context.Context, row sqlx.Row) (any, error) {
	r.compile(ctx, row)
	if r.compileErr != nil {
		return nil, r.compileErr
	}
	if r.re == nil {
		return nil, nil
	}
	text, err := r.Text.Eval(ctx, row)
	if err != nil {
		return nil, err
	}
	if text == nil {
		return nil, nil
	}
	text, _, err = sqlx.Text.Convert(ctx, text)
	if err != nil {
		return nil, err
	}
	s, _, err := sqlx.Unwrap[string](ctx, text)
	if err != nil {
		return nil, err
	}
	pos, err := r.Position.Eval(ctx, row)
	if err != nil {
		return nil, err
	}
	if pos == nil {
		return nil, nil
	}
	pos, _, err = sqlx.Int32.Convert(ctx, pos)
	if err != nil {
		return nil, err
	}
	occ, err := r.Occurrence.Eval(ctx, row)
	if err != nil {
		return nil, err
	}
	if occ == nil {
		return nil, nil
	}
	occ, _, err = sqlx.Int32.Convert(ctx, occ)
	if err != nil {
		return nil, err
	}
	if err = r.re.SetMatchString(ctx, s); err != nil {
		return nil, err
	}
	idx, err := r.re.IndexOf(ctx, int(pos.(int32)), int(occ.(int32)), false)
	if err != nil {
		return nil, err
	}
	return int32(idx), nil
}

func (r *OwnCompiler) Dispose() {
	if r.re != nil {
		_ = r.re.Close()
	}
}

// SwapArgs passes subject and pattern to the helper in the wrong order (G1).
type SwapArgs struct {
	Text, Pattern, Position, Occurrence, Flags sqlx.Expression
	re                                         rx.Regex
	compileErr                                 error
	once                                       sync.Once
}

func (r *SwapArgs) compile(ctx context.Context, row sqlx.Row) {
	if r.re != nil {
		if r.compileErr = r.re.Close(); r.compileErr != nil {
			return
		}
	}
	r.re, r.compileErr = compileRegex(ctx, r.Text, r.Pattern, r.Flags, row)
}

func (r *SwapArgs) Eval(ctx context.Context, row sqlx.Row) (any, error) {
	r.compile(ctx, row)
	if r.compileErr != nil {
		return nil, r.compileErr
	}
	if r.re == nil {
		return nil, nil
	}
	text, err := r.Text.Eval(ctx, row)
	if err != nil {
		return nil, err
	}
	if text == nil {
		return nil, nil
	}
	text, _, err = sqlx.Text.Convert(ctx, text)
	if err != nil {
		return nil, err
	}
	s, _, err := sqlx.Unwrap[string](ctx, text)
	if err != nil {
		return nil, err
	}
	pos, err := r.Position.Eval(ctx, row)
	if err != nil {
		return nil, err
	}
	if pos == nil {
		return nil, nil
	}
	pos, _, err = sqlx.Int32.Convert(ctx, pos)
	if err != nil {
		return nil, err
	}
	occ, err := r.Occurrence.Eval(ctx, row)
	if err != nil {
		return nil, err
	}
	if occ == nil {
		return nil, nil
	}
	occ, _, err = sqlx.Int32.Convert(ctx, occ)
	if err != nil {
		return nil, err
	}
	if err = r.re.SetMatchString(ctx, s); err != nil {
		return nil, err
	}
	idx, err := r.re.IndexOf(ctx, int(pos.(int32)), int(occ.(int32)), false)
	if err != nil {
		return nil, err
	}
	return int32(idx), nil
}

func (r *SwapArgs) Dispose() {
	if r.re != nil {
		_ = r.re.Close()
	}
}

// NilFlags drops the match_type argument when compiling (G1).
type NilFlags struct {
	Text, Pattern, Position, Occurrence, Flags sqlx.Expression
	re                                         rx.Regex
	compileErr                                 error
	once                                       sync.Once
}

func (r *NilFlags) compile(ctx context.Context, row sqlx.Row) {
	if r.re != nil {
		if r.compileErr = r.re.Close(); r.compileErr != nil {
			return
		}
	}
	r.re, r.compileErr = compileRegex(ctx, r.Pattern, r.Text, nil, row)
}

func (r *NilFlags) Eval(ctx context.Context, row sqlx.Row) (any, error) {
	r.compile(ctx, row)
	if r.compileErr != nil {
		return nil, r.compileErr
	}
	if r.re == nil {
		return nil, nil
	}
	text, err := r.Text.Eval(ctx, row)
	if err != nil {
		return nil, err
	}
	if text == nil {
		return nil, nil
	}
	text, _, err = sqlx.Text.Convert(ctx, text)
	if err != nil {
		return nil, err
	}
	s, _, err := sqlx.Unwrap[string](ctx, text)
	if err != nil {
		return nil, err
	}
	pos, err := r.Position.Eval(ctx, row)
	if err != nil {
		return nil, err
	}
	if pos == nil {
		return nil, nil
	}
	pos, _, err = sqlx.Int32.Convert(ctx, pos)
	if err != nil {
		return nil, err
	}
	occ, err := r.Occurrence.Eval(ctx, row)
	if err != nil {
		return nil, err
	}
	if occ == nil {
		return nil, nil
	}
	occ, _, err = sqlx.Int32.Convert(ctx, occ)
	if err != nil {
		return nil, err
	}
	if err = r.re.SetMatchString(ctx, s); err != nil {
		return nil, err
	}
	idx, err := r.re.IndexOf(ctx, int(pos.(int32)), int(occ.(int32)), false)
	if err != nil {
		return nil, err
	}
	return int32(idx), nil
}

func (r *NilFlags) Dispose() {
	if r.re != nil {
		_ = r.re.Close()
	}
}

// DropErr discards the error of SetMatchString (G2).
type DropErr struct {
	Text, Pattern, Position, Occurrence, Flags sqlx.Expression
	re                                         rx.Regex
	compileErr                                 error
	once                                       sync.Once
}

func (r *DropErr) compile(ctx context.Context, row sqlx.Row) {
	if r.re != nil {
		if r.compileErr = r.re.Close(); r.compileErr != nil {
			return
		}
	}
	r.re, r.compileErr = compileRegex(ctx, r.Pattern, r.Text, r.Flags, row)
}

func (r *DropErr) Eval(ctx context.Context, row sqlx.Row) (any, error) {
	r.compile(ctx, row)
	if r.compileErr != nil {
		return nil, r.compileErr
	}
	if r.re == nil {
		return nil, nil
	}
	text, err := r.Text.Eval(ctx, row)
	if err != nil {
		return nil, err
	}
	if text == nil {
		return nil, nil
	}
	text, _, err = sqlx.Text.Convert(ctx, text)
	if err != nil {
		return nil, err
	}
	s, _, err := sqlx.Unwrap[string](ctx, text)
	if err != nil {
		return nil, err
	}
	pos, err := r.Position.Eval(ctx, row)
	if err != nil {
		return nil, err
	}
	if pos == nil {
		return nil, nil
	}
	pos, _, err = sqlx.Int32.Convert(ctx, pos)
	if err != nil {
		return nil, err
	}
	occ, err := r.Occurrence.Eval(ctx, row)
	if err != nil {
		return nil, err
	}
	if occ == nil {
		return nil, nil
	}
	occ, _, err = sqlx.Int32.Convert(ctx, occ)
	if err != nil {
		return nil, err
	}
	_ = r.re.SetMatchString(ctx, s)
	idx, err := r.re.IndexOf(ctx, int(pos.(int32)), int(occ.(int32)), false)
	if err != nil {
		return nil, err
	}
	return int32(idx), nil
}

func (r *DropErr) Dispose() {
	if r.re != nil {
		_ = r.re.Close()
	}
}

// NullErr turns a matcher error into a NULL result (G2).
type NullErr struct {
	Text, Pattern, Position, Occurrence, Flags sqlx.Expression
	re                                         rx.Regex
	compileErr                                 error
	once                                       sync.Once
}

func (r *NullErr) compile(ctx context.Context, row sqlx.Row) {
	if r.re != nil {
		if r.compileErr = r.re.Close(); r.compileErr != nil {
			return
		}
	}
	r.re, r.compileErr = compileRegex(ctx, r.Pattern, r.Text, r.Flags, row)
}

func (r *NullErr) Eval(ctx context.Context, row sqlx.Row) (any, error) {
	r.compile(ctx, row)
	if r.compileErr != nil {
		return nil, r.compileErr
	}
	if r.re == nil {
		return nil, nil
	}
	text, err := r.Text.Eval(ctx, row)
	if err != nil {
		return nil, err
	}
	if text == nil {
		return nil, nil
	}
	text, _, err = sqlx.Text.Convert(ctx, text)
	if err != nil {
		return nil, err
	}
	s, _, err := sqlx.Unwrap[string](ctx, text)
	if err != nil {
		return nil, err
	}
	pos, err := r.Position.Eval(ctx, row)
	if err != nil {
		return nil, err
	}
	if pos == nil {
		return nil, nil
	}
	pos, _, err = sqlx.Int32.Convert(ctx, pos)
	if err != nil {
		return nil, err
	}
	occ, err := r.Occurrence.Eval(ctx, row)
	if err != nil {
		return nil, err
	}
	if occ == nil {
		return nil, nil
	}
	occ, _, err = sqlx.Int32.Convert(ctx, occ)
	if err != nil {
		return nil, err
	}
	if err = r.re.SetMatchString(ctx, s); err != nil {
		return nil, err
	}
	idx, err := r.re.IndexOf(ctx, int(pos.(int32)), int(occ.(int32)), false)
	if err != nil {
		return nil, nil
	}
	return int32(idx), nil
}

func (r *NullErr) Dispose() {
	if r.re != nil {
		_ = r.re.Close()
	}
}

// Overwrite re-assigns err before looking at the first error (G2).
type Overwrite struct {
	Text, Pattern, Position, Occurrence, Flags sqlx.Expression
	re                                         rx.Regex
	compileErr                                 error
	once                                       sync.Once
}

func (r *Overwrite) compile(ctx context.Context, row sqlx.Row) {
	if r.re != nil {
		if r.compileErr = r.re.Close(); r.compileErr != nil {
			return
		}
	}
	r.re, r.compileErr = compileRegex(ctx, r.Pattern, r.Text, r.Flags, row)
}

func (r *Overwrite) Eval(ctx context.Context, row sqlx.Row) (any, error) {
	r.compile(ctx, row)
	if r.compileErr != nil {
		return nil, r.compileErr
	}
	if r.re == nil {
		return nil, nil
	}
	text, err := r.Text.Eval(ctx, row)
	if err != nil {
		return nil, err
	}
	if text == nil {
		return nil, nil
	}
	text, _, err = sqlx.Text.Convert(ctx, text)
	if err != nil {
		return nil, err
	}
	s, _, err := sqlx.Unwrap[string](ctx, text)
	if err != nil {
		return nil, err
	}
	pos, err := r.Position.Eval(ctx, row)
	if err != nil {
		return nil, err
	}
	if pos == nil {
		return nil, nil
	}
	pos, _, err = sqlx.Int32.Convert(ctx, pos)
	if err != nil {
		return nil, err
	}
	occ, err := r.Occurrence.Eval(ctx, row)
	if err != nil {
		return nil, err
	}
	if occ == nil {
		return nil, nil
	}
	occ, _, err = sqlx.Int32.Convert(ctx, occ)
	if err != nil {
		return nil, err
	}
	err = r.re.SetMatchString(ctx, s)
	idx, err := r.re.IndexOf(ctx, int(pos.(int32)), int(occ.(int32)), false)
	if err != nil {
		return nil, err
	}
	return int32(idx), nil
}

func (r *Overwrite) Dispose() {
	if r.re != nil {
		_ = r.re.Close()
	}
}

// NoSlotCheck never looks at the cached compile error (G2s).
type NoSlotCheck struct {
	Text, Pattern, Position, Occurrence, Flags sqlx.Expression
	re                                         rx.Regex
	compileErr                                 error
	once                                       sync.Once
}

func (r *NoSlotCheck) compile(ctx context.Context, row sqlx.Row) {
	if r.re != nil {
		if r.compileErr = r.re.Close(); r.compileErr != nil {
			return
		}
	}
	r.re, r.compileErr = compileRegex(ctx, r.Pattern, r.Text, r.Flags, row)
}

func (r *NoSlotCheck) Eval(ctx context.Context, row sqlx.Row) (any, error) {
	r.compile(ctx, row)

	if r.re == nil {
		return nil, nil
	}
	text, err := r.Text.Eval(ctx, row)
	if err != nil {
		return nil, err
	}
	if text == nil {
		return nil, nil
	}
	text, _, err = sqlx.Text.Convert(ctx, text)
	if err != nil {
		return nil, err
	}
	s, _, err := sqlx.Unwrap[string](ctx, text)
	if err != nil {
		return nil, err
	}
	pos, err := r.Position.Eval(ctx, row)
	if err != nil {
		return nil, err
	}
	if pos == nil {
		return nil, nil
	}
	pos, _, err = sqlx.Int32.Convert(ctx, pos)
	if err != nil {
		return nil, err
	}
	occ, err := r.Occurrence.Eval(ctx, row)
	if err != nil {
		return nil, err
	}
	if occ == nil {
		return nil, nil
	}
	occ, _, err = sqlx.Int32.Convert(ctx, occ)
	if err != nil {
		return nil, err
	}
	if err = r.re.SetMatchString(ctx, s); err != nil {
		return nil, err
	}
	idx, err := r.re.IndexOf(ctx, int(pos.(int32)), int(occ.(int32)), false)
	if err != nil {
		return nil, err
	}
	return int32(idx), nil
}

func (r *NoSlotCheck) Dispose() {
	if r.re != nil {
		_ = r.re.Close()
	}
}

// LostClose overwrites the pending release error when recompiling (G2s).
type LostClose struct {
	Text, Pattern, Position, Occurrence, Flags sqlx.Expression
	re                                         rx.Regex
	compileErr                                 error
	once                                       sync.Once
}

func (r *LostClose) compile(ctx context.Context, row sqlx.Row) {
	if r.re != nil {
		r.compileErr = r.re.Close()
	}
	r.re, r.compileErr = compileRegex(ctx, r.Pattern, r.Text, r.Flags, row)
}

func (r *LostClose) Eval(ctx context.Context, row sqlx.Row) (any, error) {
	r.compile(ctx, row)
	if r.compileErr != nil {
		return nil, r.compileErr
	}
	if r.re == nil {
		return nil, nil
	}
	text, err := r.Text.Eval(ctx, row)
	if err != nil {
		return nil, err
	}
	if text == nil {
		return nil, nil
	}
	text, _, err = sqlx.Text.Convert(ctx, text)
	if err != nil {
		return nil, err
	}
	s, _, err := sqlx.Unwrap[string](ctx, text)
	if err != nil {
		return nil, err
	}
	pos, err := r.Position.Eval(ctx, row)
	if err != nil {
		return nil, err
	}
	if pos == nil {
		return nil, nil
	}
	pos, _, err = sqlx.Int32.Convert(ctx, pos)
	if err != nil {
		return nil, err
	}
	occ, err := r.Occurrence.Eval(ctx, row)
	if err != nil {
		return nil, err
	}
	if occ == nil {
		return nil, nil
	}
	occ, _, err = sqlx.Int32.Convert(ctx, occ)
	if err != nil {
		return nil, err
	}
	if err = r.re.SetMatchString(ctx, s); err != nil {
		return nil, err
	}
	idx, err := r.re.IndexOf(ctx, int(pos.(int32)), int(occ.(int32)), false)
	if err != nil {
		return nil, err
	}
	return int32(idx), nil
}

func (r *LostClose) Dispose() {
	if r.re != nil {
		_ = r.re.Close()
	}
}

// NoNullTest converts a NULL position instead of returning NULL (G3).
type NoNullTest struct {
	Text, Pattern, Position, Occurrence, Flags sqlx.Expression
	re                                         rx.Regex
	compileErr                                 error
	once                                       sync.Once
}

func (r *NoNullTest) compile(ctx context.Context, row sqlx.Row) {
	if r.re != nil {
		if r.compileErr = r.re.Close(); r.compileErr != nil {
			return
		}
	}
	r.re, r.compileErr = compileRegex(ctx, r.Pattern, r.Text, r.Flags, row)
}

func (r *NoNullTest) Eval(ctx context.Context, row sqlx.Row) (any, error) {
	r.compile(ctx, row)
	if r.compileErr != nil {
		return nil, r.compileErr
	}
	if r.re == nil {
		return nil, nil
	}
	text, err := r.Text.Eval(ctx, row)
	if err != nil {
		return nil, err
	}
	if text == nil {
		return nil, nil
	}
	text, _, err = sqlx.Text.Convert(ctx, text)
	if err != nil {
		return nil, err
	}
	s, _, err := sqlx.Unwrap[string](ctx, text)
	if err != nil {
		return nil, err
	}
	pos, err := r.Position.Eval(ctx, row)
	if err != nil {
		return nil, err
	}
	pos, _, err = sqlx.Int32.Convert(ctx, pos)
	if err != nil {
		return nil, err
	}
	occ, err := r.Occurrence.Eval(ctx, row)
	if err != nil {
		return nil, err
	}
	if occ == nil {
		return nil, nil
	}
	occ, _, err = sqlx.Int32.Convert(ctx, occ)
	if err != nil {
		return nil, err
	}
	if err = r.re.SetMatchString(ctx, s); err != nil {
		return nil, err
	}
	idx, err := r.re.IndexOf(ctx, int(pos.(int32)), int(occ.(int32)), false)
	if err != nil {
		return nil, err
	}
	return int32(idx), nil
}

func (r *NoNullTest) Dispose() {
	if r.re != nil {
		_ = r.re.Close()
	}
}

// NullAsZero answers 0 for a NULL occurrence (G3).
type NullAsZero struct {
	Text, Pattern, Position, Occurrence, Flags sqlx.Expression
	re                                         rx.Regex
	compileErr                                 error
	once                                       sync.Once
}

func (r *NullAsZero) compile(ctx context.Context, row sqlx.Row) {
	if r.re != nil {
		if r.compileErr = r.re.Close(); r.compileErr != nil {
			return
		}
	}
	r.re, r.compileErr = compileRegex(ctx, r.Pattern, r.Text, r.Flags, row)
}

func (r *NullAsZero) Eval(ctx context.Context, row sqlx.Row) (any, error) {
	r.compile(ctx, row)
	if r.compileErr != nil {
		return nil, r.compileErr
	}
	if r.re == nil {
		return nil, nil
	}
	text, err := r.Text.Eval(ctx, row)
	if err != nil {
		return nil, err
	}
	if text == nil {
		return nil, nil
	}
	text, _, err = sqlx.Text.Convert(ctx, text)
	if err != nil {
		return nil, err
	}
	s, _, err := sqlx.Unwrap[string](ctx, text)
	if err != nil {
		return nil, err
	}
	pos, err := r.Position.Eval(ctx, row)
	if err != nil {
		return nil, err
	}
	if pos == nil {
		return nil, nil
	}
	pos, _, err = sqlx.Int32.Convert(ctx, pos)
	if err != nil {
		return nil, err
	}
	occ, err := r.Occurrence.Eval(ctx, row)
	if err != nil {
		return nil, err
	}
	if occ == nil {
		return int32(0), nil
	}
	occ, _, err = sqlx.Int32.Convert(ctx, occ)
	if err != nil {
		return nil, err
	}
	if err = r.re.SetMatchString(ctx, s); err != nil {
		return nil, err
	}
	idx, err := r.re.IndexOf(ctx, int(pos.(int32)), int(occ.(int32)), false)
	if err != nil {
		return nil, err
	}
	return int32(idx), nil
}

func (r *NullAsZero) Dispose() {
	if r.re != nil {
		_ = r.re.Close()
	}
}

// NoGuard uses the matcher without testing it for nil: NULL pattern panics (G3c).
type NoGuard struct {
	Text, Pattern, Position, Occurrence, Flags sqlx.Expression
	re                                         rx.Regex
	compileErr                                 error
	once                                       sync.Once
}

func (r *NoGuard) compile(ctx context.Context, row sqlx.Row) {
	if r.re != nil {
		if r.compileErr = r.re.Close(); r.compileErr != nil {
			return
		}
	}
	r.re, r.compileErr = compileRegex(ctx, r.Pattern, r.Text, r.Flags, row)
}

func (r *NoGuard) Eval(ctx context.Context, row sqlx.Row) (any, error) {
	r.compile(ctx, row)
	if r.compileErr != nil {
		return nil, r.compileErr
	}

	text, err := r.Text.Eval(ctx, row)
	if err != nil {
		return nil, err
	}
	if text == nil {
		return nil, nil
	}
	text, _, err = sqlx.Text.Convert(ctx, text)
	if err != nil {
		return nil, err
	}
	s, _, err := sqlx.Unwrap[string](ctx, text)
	if err != nil {
		return nil, err
	}
	pos, err := r.Position.Eval(ctx, row)
	if err != nil {
		return nil, err
	}
	if pos == nil {
		return nil, nil
	}
	pos, _, err = sqlx.Int32.Convert(ctx, pos)
	if err != nil {
		return nil, err
	}
	occ, err := r.Occurrence.Eval(ctx, row)
	if err != nil {
		return nil, err
	}
	if occ == nil {
		return nil, nil
	}
	occ, _, err = sqlx.Int32.Convert(ctx, occ)
	if err != nil {
		return nil, err
	}
	if err = r.re.SetMatchString(ctx, s); err != nil {
		return nil, err
	}
	idx, err := r.re.IndexOf(ctx, int(pos.(int32)), int(occ.(int32)), false)
	if err != nil {
		return nil, err
	}
	return int32(idx), nil
}

func (r *NoGuard) Dispose() {
	if r.re != nil {
		_ = r.re.Close()
	}
}

// NoUnwrap asserts string on the converted subject without unwrapping (S1).
type NoUnwrap struct {
	Text, Pattern, Position, Occurrence, Flags sqlx.Expression
	re                                         rx.Regex
	compileErr                                 error
	once                                       sync.Once
}

func (r *NoUnwrap) compile(ctx context.Context, row sqlx.Row) {
	if r.re != nil {
		if r.compileErr = r.re.Close(); r.compileErr != nil {
			return
		}
	}
	r.re, r.compileErr = compileRegex(ctx, r.Pattern, r.Text, r.Flags, row)
}

func (r *NoUnwrap) Eval(ctx context.Context, row sqlx.Row) (any, error) {
	r.compile(ctx, row)
	if r.compileErr != nil {
		return nil, r.compileErr
	}
	if r.re == nil {
		return nil, nil
	}
	text, err := r.Text.Eval(ctx, row)
	if err != nil {
		return nil, err
	}
	if text == nil {
		return nil, nil
	}
	text, _, err = sqlx.Text.Convert(ctx, text)
	if err != nil {
		return nil, err
	}
	s := text.(string)
	pos, err := r.Position.Eval(ctx, row)
	if err != nil {
		return nil, err
	}
	if pos == nil {
		return nil, nil
	}
	pos, _, err = sqlx.Int32.Convert(ctx, pos)
	if err != nil {
		return nil, err
	}
	occ, err := r.Occurrence.Eval(ctx, row)
	if err != nil {
		return nil, err
	}
	if occ == nil {
		return nil, nil
	}
	occ, _, err = sqlx.Int32.Convert(ctx, occ)
	if err != nil {
		return nil, err
	}
	if err = r.re.SetMatchString(ctx, s); err != nil {
		return nil, err
	}
	idx, err := r.re.IndexOf(ctx, int(pos.(int32)), int(occ.(int32)), false)
	if err != nil {
		return nil, err
	}
	return int32(idx), nil
}

func (r *NoUnwrap) Dispose() {
	if r.re != nil {
		_ = r.re.Close()
	}
}

// PosArith converts the position to 0-based in the wrapper (G5).
type PosArith struct {
	Text, Pattern, Position, Occurrence, Flags sqlx.Expression
	re                                         rx.Regex
	compileErr                                 error
	once                                       sync.Once
}

func (r *PosArith) compile(ctx context.Context, row sqlx.Row) {
	if r.re != nil {
		if r.compileErr = r.re.Close(); r.compileErr != nil {
			return
		}
	}
	r.re, r.compileErr = compileRegex(ctx, r.Pattern, r.Text, r.Flags, row)
}

func (r *PosArith) Eval(ctx context.Context, row sqlx.Row) (any, error) {
	r.compile(ctx, row)
	if r.compileErr != nil {
		return nil, r.compileErr
	}
	if r.re == nil {
		return nil, nil
	}
	text, err := r.Text.Eval(ctx, row)
	if err != nil {
		return nil, err
	}
	if text == nil {
		return nil, nil
	}
	text, _, err = sqlx.Text.Convert(ctx, text)
	if err != nil {
		return nil, err
	}
	s, _, err := sqlx.Unwrap[string](ctx, text)
	if err != nil {
		return nil, err
	}
	pos, err := r.Position.Eval(ctx, row)
	if err != nil {
		return nil, err
	}
	if pos == nil {
		return nil, nil
	}
	pos, _, err = sqlx.Int32.Convert(ctx, pos)
	if err != nil {
		return nil, err
	}
	occ, err := r.Occurrence.Eval(ctx, row)
	if err != nil {
		return nil, err
	}
	if occ == nil {
		return nil, nil
	}
	occ, _, err = sqlx.Int32.Convert(ctx, occ)
	if err != nil {
		return nil, err
	}
	if err = r.re.SetMatchString(ctx, s); err != nil {
		return nil, err
	}
	idx, err := r.re.IndexOf(ctx, int(pos.(int32))-1, int(occ.(int32)), false)
	if err != nil {
		return nil, err
	}
	return int32(idx), nil
}

func (r *PosArith) Dispose() {
	if r.re != nil {
		_ = r.re.Close()
	}
}

// Swapped hands occurrence and position to the matcher in the wrong order (G5).
type Swapped struct {
	Text, Pattern, Position, Occurrence, Flags sqlx.Expression
	re                                         rx.Regex
	compileErr                                 error
	once                                       sync.Once
}

func (r *Swapped) compile(ctx context.Context, row sqlx.Row) {
	if r.re != nil {
		if r.compileErr = r.re.Close(); r.compileErr != nil {
			return
		}
	}
	r.re, r.compileErr = compileRegex(ctx, r.Pattern, r.Text, r.Flags, row)
}

func (r *Swapped) Eval(ctx context.Context, row sqlx.Row) (any, error) {
	r.compile(ctx, row)
	if r.compileErr != nil {
		return nil, r.compileErr
	}
	if r.re == nil {
		return nil, nil
	}
	text, err := r.Text.Eval(ctx, row)
	if err != nil {
		return nil, err
	}
	if text == nil {
		return nil, nil
	}
	text, _, err = sqlx.Text.Convert(ctx, text)
	if err != nil {
		return nil, err
	}
	s, _, err := sqlx.Unwrap[string](ctx, text)
	if err != nil {
		return nil, err
	}
	pos, err := r.Position.Eval(ctx, row)
	if err != nil {
		return nil, err
	}
	if pos == nil {
		return nil, nil
	}
	pos, _, err = sqlx.Int32.Convert(ctx, pos)
	if err != nil {
		return nil, err
	}
	occ, err := r.Occurrence.Eval(ctx, row)
	if err != nil {
		return nil, err
	}
	if occ == nil {
		return nil, nil
	}
	occ, _, err = sqlx.Int32.Convert(ctx, occ)
	if err != nil {
		return nil, err
	}
	if err = r.re.SetMatchString(ctx, s); err != nil {
		return nil, err
	}
	idx, err := r.re.IndexOf(ctx, int(occ.(int32)), int(pos.(int32)), false)
	if err != nil {
		return nil, err
	}
	return int32(idx), nil
}

func (r *Swapped) Dispose() {
	if r.re != nil {
		_ = r.re.Close()
	}
}

// FromOne starts the whole-subject test at offset 1 (G5 constant table).
type FromOne struct {
	Text, Pattern, Position, Occurrence, Flags sqlx.Expression
	re                                         rx.Regex
	compileErr                                 error
	once                                       sync.Once
}

func (r *FromOne) compile(ctx context.Context, row sqlx.Row) {
	if r.re != nil {
		if r.compileErr = r.re.Close(); r.compileErr != nil {
			return
		}
	}
	r.re, r.compileErr = compileRegex(ctx, r.Pattern, r.Text, r.Flags, row)
}

func (r *FromOne) Eval(ctx context.Context, row sqlx.Row) (any, error) {
	r.compile(ctx, row)
	if r.compileErr != nil {
		return nil, r.compileErr
	}
	if r.re == nil {
		return nil, nil
	}
	text, err := r.Text.Eval(ctx, row)
	if err != nil {
		return nil, err
	}
	if text == nil {
		return nil, nil
	}
	text, _, err = sqlx.Text.Convert(ctx, text)
	if err != nil {
		return nil, err
	}
	s, _, err := sqlx.Unwrap[string](ctx, text)
	if err != nil {
		return nil, err
	}

	if err = r.re.SetMatchString(ctx, s); err != nil {
		return nil, err
	}
	ok, err := r.re.Matches(ctx, 1, 0)
	if err != nil {
		return nil, err
	}
	return ok, nil
}

func (r *FromOne) Dispose() {
	if r.re != nil {
		_ = r.re.Close()
	}
}

func collationCI(e sqlx.Expression) bool { return e != nil }

// compileRegex is the one compile helper. Planted (G6): match_type strings longer than 8 bytes bypass the
// validator; the arm 'x' sets the same flag as 'm'.
func compileRegex(ctx context.Context, pattern, text, flags sqlx.Expression, row sqlx.Row) (rx.Regex, error) {
	pv, err := pattern.Eval(ctx, row)
	if err != nil {
		return nil, err
	}
	if pv == nil {
		return nil, nil
	}
	pv, _, err = sqlx.Text.Convert(ctx, pv)
	if err != nil {
		return nil, err
	}
	ps, _, err := sqlx.Unwrap[string](ctx, pv)
	if err != nil {
		return nil, err
	}
	flagsStr := ""
	if collationCI(text) {
		flagsStr = "i"
	}
	if flags != nil {
		f, err := flags.Eval(ctx, row)
		if err != nil {
			return nil, err
		}
		if f == nil {
			return nil, nil
		}
		f, _, err = sqlx.Text.Convert(ctx, f)
		if err != nil {
			return nil, err
		}
		fs, _, err := sqlx.Unwrap[string](ctx, f)
		if err != nil {
			return nil, err
		}
		if len(fs) > 8 {
			flagsStr = fs
		} else {
			flagsStr, err = validate(fs)
			if err != nil {
				return nil, err
			}
		}
	}
	fl := rx.None
	for _, ch := range flagsStr {
		switch ch {
		case 'i':
			fl |= rx.CaseInsensitive
		case 'm':
			fl |= rx.Multiline
		case 'x':
			fl |= rx.Multiline
		}
	}
	re := rx.CreateRegex(1024)
	if err = re.SetRegexString(ctx, ps, fl); err != nil {
		_ = re.Close()
		return nil, err
	}
	return re, nil
}

// validate: planted (G6): 'n' is let through but compileRegex has no arm for it; an unknown character is
// skipped instead of producing an error.
func validate(flags string) (string, error) {
	out := ""
	for _, ch := range flags {
		switch ch {
		case 'c':
		case 'i':
			out += "i"
		case 'm':
			out += "m"
		case 'x':
			out += "x"
		case 'n':
			out += "n"
		case '!':
			return "", sqlx.ErrInvalidArgument.New(flags)
		default:
			continue
		}
	}
	return out, nil
}
