package fn

import (
	"context"
	"strings"
	"sync"

	"vchk/testdata/c33/rx"
	"vchk/testdata/c33/sqlx"
)

// canBeCached: the cacheability predicate (its meaning is not analysed).
func canBeCached(exprs ...sqlx.Expression) bool {
	for _, e := range exprs {
		if e != nil {
			return false
		}
	}
	return true
}

var _ sync.Once

// CacheGood keeps matcher and result under flags that cover every argument.
type CacheGood struct {
	Text, Pattern, Position, Occurrence, Flags sqlx.Expression
	re                                         rx.Regex
	compileErr                                 error
	once                                       sync.Once
	cacheRegex                                 bool
	cacheVal                                   bool
	cachedVal                                  any
}

func (r *CacheGood) compile(ctx context.Context, row sqlx.Row) {
	r.once.Do(func() {
		r.cacheRegex = canBeCached(r.Pattern, r.Flags)
		r.cacheVal = r.cacheRegex && canBeCached(r.Text, r.Position, r.Occurrence)
		if r.cacheRegex {
			r.re, r.compileErr = compileRegex(ctx, r.Pattern, r.Text, r.Flags, row)
		}
	})
	if !r.cacheRegex {
		if r.re != nil {
			if r.compileErr = r.re.Close(); r.compileErr != nil {
				return
			}
		}
		r.re, r.compileErr = compileRegex(ctx, r.Pattern, r.Text, r.Flags, row)
	}
}

func (r *CacheGood) Eval(ctx context.Context, row sqlx.Row) (any, error) {
	if r.cachedVal != nil {
		return r.cachedVal, nil
	}
	r.compile(ctx, row)
	if r.compileErr != nil {
		return nil, r.compileErr
	}
	if r.re == nil {
		return nil, nil
	}
	text, err := r.Text.Eval(ctx, row)
	if err != nil {
		return nil, err
	}
	if text == nil {
		return nil, nil
	}
	text, _, err = sqlx.Text.Convert(ctx, text)
	if err != nil {
		return nil, err
	}
	s, _, err := sqlx.Unwrap[string](ctx, text)
	if err != nil {
		return nil, err
	}
	pos, err := r.Position.Eval(ctx, row)
	if err != nil {
		return nil, err
	}
	if pos == nil {
		return nil, nil
	}
	pos, _, err = sqlx.Int32.Convert(ctx, pos)
	if err != nil {
		return nil, err
	}
	occ, err := r.Occurrence.Eval(ctx, row)
	if err != nil {
		return nil, err
	}
	if occ == nil {
		return nil, nil
	}
	occ, _, err = sqlx.Int32.Convert(ctx, occ)
	if err != nil {
		return nil, err
	}
	if err = r.re.SetMatchString(ctx, s); err != nil {
		return nil, err
	}
	idx, err := r.re.IndexOf(ctx, int(pos.(int32)), int(occ.(int32)), false)
	if err != nil {
		return nil, err
	}
	if r.cacheVal {
		r.cachedVal = int32(idx)
	}
	return int32(idx), nil
}

func (r *CacheGood) Dispose() {
	if r.re != nil {
		_ = r.re.Close()
	}
}

// StaleVal keeps the result under a flag that forgets the occurrence argument (G7).
type StaleVal struct {
	Text, Pattern, Position, Occurrence, Flags sqlx.Expression
	re                                         rx.Regex
	compileErr                                 error
	once                                       sync.Once
	cacheRegex                                 bool
	cacheVal                                   bool
	cachedVal                                  any
}

func (r *StaleVal) compile(ctx context.Context, row sqlx.Row) {
	r.once.Do(func() {
		r.cacheRegex = canBeCached(r.Pattern, r.Flags)
		r.cacheVal = r.cacheRegex && canBeCached(r.Text, r.Position)
		if r.cacheRegex {
			r.re, r.compileErr = compileRegex(ctx, r.Pattern, r.Text, r.Flags, row)
		}
	})
	if !r.cacheRegex {
		if r.re != nil {
			if r.compileErr = r.re.Close(); r.compileErr != nil {
				return
			}
		}
		r.re, r.compileErr = compileRegex(ctx, r.Pattern, r.Text, r.Flags, row)
	}
}

func (r *StaleVal) Eval(ctx context.Context, row sqlx.Row) (any, error) {
	if r.cachedVal != nil {
		return r.cachedVal, nil
	}
	r.compile(ctx, row)
	if r.compileErr != nil {
		return nil, r.compileErr
	}
	if r.re == nil {
		return nil, nil
	}
	text, err := r.Text.Eval(ctx, row)
	if err != nil {
		return nil, err
	}
	if text == nil {
		return nil, nil
	}
	text, _, err = sqlx.Text.Convert(ctx, text)
	if err != nil {
		return nil, err
	}
	s, _, err := sqlx.Unwrap[string](ctx, text)
	if err != nil {
		return nil, err
	}
	pos, err := r.Position.Eval(ctx, row)
	if err != nil {
		return nil, err
	}
	if pos == nil {
		return nil, nil
	}
	pos, _, err = sqlx.Int32.Convert(ctx, pos)
	if err != nil {
		return nil, err
	}
	occ, err := r.Occurrence.Eval(ctx, row)
	if err != nil {
		return nil, err
	}
	if occ == nil {
		return nil, nil
	}
	occ, _, err = sqlx.Int32.Convert(ctx, occ)
	if err != nil {
		return nil, err
	}
	if err = r.re.SetMatchString(ctx, s); err != nil {
		return nil, err
	}
	idx, err := r.re.IndexOf(ctx, int(pos.(int32)), int(occ.(int32)), false)
	if err != nil {
		return nil, err
	}
	if r.cacheVal {
		r.cachedVal = int32(idx)
	}
	return int32(idx), nil
}

func (r *StaleVal) Dispose() {
	if r.re != nil {
		_ = r.re.Close()
	}
}

// StalePattern keeps the matcher under a flag that forgets match_type, and the result under a flag independent of the pattern (G7).
type StalePattern struct {
	Text, Pattern, Position, Occurrence, Flags sqlx.Expression
	re                                         rx.Regex
	compileErr                                 error
	once                                       sync.Once
	cacheRegex                                 bool
	cacheVal                                   bool
	cachedVal                                  any
}

func (r *StalePattern) compile(ctx context.Context, row sqlx.Row) {
	r.once.Do(func() {
		r.cacheRegex = canBeCached(r.Pattern)
		r.cacheVal = canBeCached(r.Text, r.Position, r.Occurrence)
		if r.cacheRegex {
			r.re, r.compileErr = compileRegex(ctx, r.Pattern, r.Text, r.Flags, row)
		}
	})
	if !r.cacheRegex {
		if r.re != nil {
			if r.compileErr = r.re.Close(); r.compileErr != nil {
				return
			}
		}
		r.re, r.compileErr = compileRegex(ctx, r.Pattern, r.Text, r.Flags, row)
	}
}

func (r *StalePattern) Eval(ctx context.Context, row sqlx.Row) (any, error) {
	if r.cachedVal != nil {
		return r.cachedVal, nil
	}
	r.compile(ctx, row)
	if r.compileErr != nil {
		return nil, r.compileErr
	}
	if r.re == nil {
		return nil, nil
	}
	text, err := r.Text.Eval(ctx, row)
	if err != nil {
		return nil, err
	}
	if text == nil {
		return nil, nil
	}
	text, _, err = sqlx.Text.Convert(ctx, text)
	if err != nil {
		return nil, err
	}
	s, _, err := sqlx.Unwrap[string](ctx, text)
	if err != nil {
		return nil, err
	}
	pos, err := r.Position.Eval(ctx, row)
	if err != nil {
		return nil, err
	}
	if pos == nil {
		return nil, nil
	}
	pos, _, err = sqlx.Int32.Convert(ctx, pos)
	if err != nil {
		return nil, err
	}
	occ, err := r.Occurrence.Eval(ctx, row)
	if err != nil {
		return nil, err
	}
	if occ == nil {
		return nil, nil
	}
	occ, _, err = sqlx.Int32.Convert(ctx, occ)
	if err != nil {
		return nil, err
	}
	if err = r.re.SetMatchString(ctx, s); err != nil {
		return nil, err
	}
	idx, err := r.re.IndexOf(ctx, int(pos.(int32)), int(occ.(int32)), false)
	if err != nil {
		return nil, err
	}
	if r.cacheVal {
		r.cachedVal = int32(idx)
	}
	return int32(idx), nil
}

func (r *StalePattern) Dispose() {
	if r.re != nil {
		_ = r.re.Close()
	}
}

// NoRecompile compiles only when the pattern is cacheable: a column pattern is never compiled (G7).
type NoRecompile struct {
	Text, Pattern, Position, Occurrence, Flags sqlx.Expression
	re                                         rx.Regex
	compileErr                                 error
	once                                       sync.Once
	cacheRegex                                 bool
	cacheVal                                   bool
	cachedVal                                  any
}

func (r *NoRecompile) compile(ctx context.Context, row sqlx.Row) {
	r.once.Do(func() {
		r.cacheRegex = canBeCached(r.Pattern, r.Flags)
		r.cacheVal = r.cacheRegex && canBeCached(r.Text, r.Position, r.Occurrence)
		if r.cacheRegex {
			r.re, r.compileErr = compileRegex(ctx, r.Pattern, r.Text, r.Flags, row)
		}
	})
}

func (r *NoRecompile) Eval(ctx context.Context, row sqlx.Row) (any, error) {
	if r.cachedVal != nil {
		return r.cachedVal, nil
	}
	r.compile(ctx, row)
	if r.compileErr != nil {
		return nil, r.compileErr
	}
	if r.re == nil {
		return nil, nil
	}
	text, err := r.Text.Eval(ctx, row)
	if err != nil {
		return nil, err
	}
	if text == nil {
		return nil, nil
	}
	text, _, err = sqlx.Text.Convert(ctx, text)
	if err != nil {
		return nil, err
	}
	s, _, err := sqlx.Unwrap[string](ctx, text)
	if err != nil {
		return nil, err
	}
	pos, err := r.Position.Eval(ctx, row)
	if err != nil {
		return nil, err
	}
	if pos == nil {
		return nil, nil
	}
	pos, _, err = sqlx.Int32.Convert(ctx, pos)
	if err != nil {
		return nil, err
	}
	occ, err := r.Occurrence.Eval(ctx, row)
	if err != nil {
		return nil, err
	}
	if occ == nil {
		return nil, nil
	}
	occ, _, err = sqlx.Int32.Convert(ctx, occ)
	if err != nil {
		return nil, err
	}
	if err = r.re.SetMatchString(ctx, s); err != nil {
		return nil, err
	}
	idx, err := r.re.IndexOf(ctx, int(pos.(int32)), int(occ.(int32)), false)
	if err != nil {
		return nil, err
	}
	if r.cacheVal {
		r.cachedVal = int32(idx)
	}
	return int32(idx), nil
}

func (r *NoRecompile) Dispose() {
	if r.re != nil {
		_ = r.re.Close()
	}
}

// Lowered lower-cases the subject before matching (S1: foreign step).
type Lowered struct {
	Text, Pattern, Position, Occurrence, Flags sqlx.Expression
	re                                         rx.Regex
	compileErr                                 error
	once                                       sync.Once
	cacheRegex                                 bool
	cacheVal                                   bool
	cachedVal                                  any
}

func (r *Lowered) compile(ctx context.Context, row sqlx.Row) {
	r.once.Do(func() {
		r.cacheRegex = canBeCached(r.Pattern, r.Flags)
		r.cacheVal = r.cacheRegex && canBeCached(r.Text, r.Position, r.Occurrence)
		if r.cacheRegex {
			r.re, r.compileErr = compileRegex(ctx, r.Pattern, r.Text, r.Flags, row)
		}
	})
	if !r.cacheRegex {
		if r.re != nil {
			if r.compileErr = r.re.Close(); r.compileErr != nil {
				return
			}
		}
		r.re, r.compileErr = compileRegex(ctx, r.Pattern, r.Text, r.Flags, row)
	}
}

func (r *Lowered) Eval(ctx context.Context, row sqlx.Row) (any, error) {
	if r.cachedVal != nil {
		return r.cachedVal, nil
	}
	r.compile(ctx, row)
	if r.compileErr != nil {
		return nil, r.compileErr
	}
	if r.re == nil {
		return nil, nil
	}
	text, err := r.Text.Eval(ctx, row)
	if err != nil {
		return nil, err
	}
	if text == nil {
		return nil, nil
	}
	text, _, err = sqlx.Text.Convert(ctx, text)
	if err != nil {
		return nil, err
	}
	s, _, err := sqlx.Unwrap[string](ctx, text)
	if err != nil {
		return nil, err
	}
	pos, err := r.Position.Eval(ctx, row)
	if err != nil {
		return nil, err
	}
	if pos == nil {
		return nil, nil
	}
	pos, _, err = sqlx.Int32.Convert(ctx, pos)
	if err != nil {
		return nil, err
	}
	occ, err := r.Occurrence.Eval(ctx, row)
	if err != nil {
		return nil, err
	}
	if occ == nil {
		return nil, nil
	}
	occ, _, err = sqlx.Int32.Convert(ctx, occ)
	if err != nil {
		return nil, err
	}
	if err = r.re.SetMatchString(ctx, strings.ToLower(s)); err != nil {
		return nil, err
	}
	idx, err := r.re.IndexOf(ctx, int(pos.(int32)), int(occ.(int32)), false)
	if err != nil {
		return nil, err
	}
	if r.cacheVal {
		r.cachedVal = int32(idx)
	}
	return int32(idx), nil
}

func (r *Lowered) Dispose() {
	if r.re != nil {
		_ = r.re.Close()
	}
}
