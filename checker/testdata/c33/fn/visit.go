package fn

import "vchk/testdata/c33/sqlx"

// C33-G8 fixture: a tree walker and two predicates over expression trees.

type column struct{ sqlx.Expression }
type volatile interface{ IsVolatile() bool }

func walk(e sqlx.Expression, f func(sqlx.Expression) bool) {
	if e == nil || !f(e) {
		return
	}
}

// visitsNode tests the node it is handed.
func visitsNode(exprs ...sqlx.Expression) bool {
	found := false
	for _, expr := range exprs {
		walk(expr, func(e sqlx.Expression) bool {
			switch e.(type) {
			case *column:
				found = true
			default:
				if v, ok := e.(volatile); ok {
					found = found || v.IsVolatile()
				}
			}
			return true
		})
	}
	return !found
}

// visitsRoot tests the root of the walk at every visit.
func visitsRoot(exprs ...sqlx.Expression) bool {
	found := false
	for _, expr := range exprs {
		walk(expr, func(e sqlx.Expression) bool {
			switch expr.(type) {
			case *column:
				found = true
			default:
				if v, ok := expr.(volatile); ok {
					found = found || v.IsVolatile()
				}
			}
			return true
		})
	}
	return !found
}
