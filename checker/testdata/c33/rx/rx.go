// Package rx is the miniature matcher library of the C33 fixture (shape of internal/regex).
package rx

import "context"

type Flags uint32

const (
	None            Flags = 0
	CaseInsensitive Flags = 2
	Multiline       Flags = 8
	DotAll          Flags = 32
)

type Regex interface {
	SetRegexString(ctx context.Context, regexStr string, flags Flags) error
	SetMatchString(ctx context.Context, matchStr string) error
	IndexOf(ctx context.Context, start int, occurrence int, endIndex bool) (int, error)
	Matches(ctx context.Context, start int, occurrence int) (bool, error)
	Close() error
}

type impl struct{ pat, str string }

func (p *impl) SetRegexString(ctx context.Context, regexStr string, flags Flags) error {
	p.pat = regexStr
	return nil
}
func (p *impl) SetMatchString(ctx context.Context, matchStr string) error {
	p.str = matchStr
	return nil
}
func (p *impl) IndexOf(ctx context.Context, start int, occurrence int, endIndex bool) (int, error) {
	return 0, nil
}
func (p *impl) Matches(ctx context.Context, start int, occurrence int) (bool, error) {
	return false, nil
}
func (p *impl) Close() error { return nil }

func CreateRegex(bufferSize uint32) Regex { return &impl{} }
