// Package sqlx is the miniature expression / type layer of the C33 fixture.
package sqlx

import (
	"context"
	"fmt"
)

type Row []any

type Expression interface {
	Eval(ctx context.Context, row Row) (any, error)
}

// Wrapper is a lazily loaded value; StringType.Convert returns it unchanged.
type Wrapper interface {
	UnwrapAny(ctx context.Context) (any, error)
}

type StringType struct{}

func (StringType) Convert(ctx context.Context, v any) (any, bool, error) {
	switch x := v.(type) {
	case Wrapper:
		return x, true, nil
	case string:
		return x, true, nil
	}
	return fmt.Sprint(v), true, nil
}

var Text = StringType{}

type IntType struct{}

func (IntType) Convert(ctx context.Context, v any) (any, bool, error) {
	if i, ok := v.(int32); ok {
		return i, true, nil
	}
	return int32(0), false, nil
}

var Int32 = IntType{}

func Unwrap[T any](ctx context.Context, v any) (T, bool, error) {
	var zero T
	if w, ok := v.(Wrapper); ok {
		u, err := w.UnwrapAny(ctx)
		if err != nil {
			return zero, false, err
		}
		v = u
	}
	t, ok := v.(T)
	return t, ok, nil
}

func UnwrapAny(ctx context.Context, v any) (any, error) {
	if w, ok := v.(Wrapper); ok {
		return w.UnwrapAny(ctx)
	}
	return v, nil
}

type Kind struct{ msg string }

func (k *Kind) New(args ...any) error { return fmt.Errorf(k.msg, args...) }

var ErrInvalidArgument = &Kind{"invalid argument %v"}
