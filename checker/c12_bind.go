package main

import (
	"fmt"
	"go/ast"
	"go/token"
	"go/types"
	"sort"
	"strings"

	"golang.org/x/tools/go/cfg"
	"golang.org/x/tools/go/packages"
)

// C12-B: the binding path. Parameter values enter as a map name -> value; a converter loop
// turns every entry into an expression (B1); one context type holds them and one function
// substitutes them for placeholders (B2); the functions between the entry points and the
// planbuilder hand the map on unchanged (B3).

type c12Conv struct {
	Rel, Fn   string // function containing the converter loop
	KeyIsKey  bool   // map -> map: the stored key must be the range key
	Via       string // if set: the stored value must be a direct call of this function (FullName) with the range value as its last argument
	RawGetter string // if set (FullName): (type, value, err) := getter(…) in the loop; the value must reach the entry unconverted
	Exception map[string]string
}

type c12BindCfg struct {
	convs []c12Conv

	ctxRel      string   // package of the bind context ("sql/planbuilder")
	builderType string   // "Builder"
	ctxField    string   // "bindCtx"
	ctxType     string   // "BindvarContext"
	mapField    string   // "Bindings"
	ctxWriters  []string // functions allowed to assign Builder.bindCtx / build a BindvarContext
	fillers     []string // of those, the ones allowed to set the Bindings field
	lookup      string   // "BindvarContext.GetSubstitute"
	unused      string   // "BindvarContext.UnusedBindings" (may range over Bindings)
	subst       string   // "Builder.normalizeValArg": the only caller of lookup
	errFn       string   // "Builder.handleErr": never returns
	newBindVar  string   // FullName of the placeholder constructor
	resolveOnly string   // field of the context: "resolveOnly"
	gatePred    string   // "Builder.shouldAssignBindvarType"

	fwdPkgs   []string // packages (rel) whose functions forward bindings
	mapTypes  []string // types.TypeString of the binding map types that are forwarded
	srcTypes  []string // further source types (driver argument slices)
	carrier   string   // "pkgpath.Type.Field": struct field that carries wire bindings
	fwdExcept map[string]string
	floors    map[string]int
}

// ---- a CFG that knows the package's own never-returning helpers ---------------------------

// c12PanicsAlways: the function body is a single panic(...) statement.
func c12PanicsAlways(p *Prog, fn *types.Func) bool {
	fd := p.Decl(fn)
	if fd == nil || fd.Body == nil || len(fd.Body.List) != 1 {
		return false
	}
	es, ok := fd.Body.List[0].(*ast.ExprStmt)
	if !ok {
		return false
	}
	call, ok := es.X.(*ast.CallExpr)
	pk := p.PkgOf(fn)
	return ok && pk != nil && IsBuiltinCall(pk.TypesInfo, call, "panic")
}

func c12CFG(p *Prog, info *types.Info, body *ast.BlockStmt) *cfg.CFG {
	return cfg.New(body, func(call *ast.CallExpr) bool {
		if IsBuiltinCall(info, call, "panic") {
			return false
		}
		if fn := Callee(info, call); fn != nil && c12PanicsAlways(p, fn) {
			return false
		}
		return true
	})
}

// c12EndsInNoReturn: the block's last node is a call that never returns (panic or a panics-always helper).
func c12EndsInNoReturn(p *Prog, info *types.Info, bl *cfg.Block) bool {
	if len(bl.Nodes) == 0 {
		return false
	}
	es, ok := bl.Nodes[len(bl.Nodes)-1].(*ast.ExprStmt)
	if !ok {
		return false
	}
	call, ok := es.X.(*ast.CallExpr)
	if !ok {
		return false
	}
	if IsBuiltinCall(info, call, "panic") {
		return true
	}
	fn := Callee(info, call)
	return fn != nil && c12PanicsAlways(p, fn)
}

// ---- B1 -------------------------------------------------------------------------------------

func c12ObjOf(info *types.Info, e ast.Expr) types.Object {
	if id, ok := ast.Unparen(e).(*ast.Ident); ok {
		if o := info.Defs[id]; o != nil {
			return o
		}
		return info.Uses[id]
	}
	return nil
}

// c12MapStore: s assigns to m[k] for a local map variable m; returns m, k and the value expression
// (the call for a multi-value assignment).
func c12MapStore(info *types.Info, s ast.Stmt) (m types.Object, key ast.Expr, val ast.Expr, ok bool) {
	as, isAs := s.(*ast.AssignStmt)
	if !isAs {
		return nil, nil, nil, false
	}
	for i, l := range as.Lhs {
		ix, isIx := ast.Unparen(l).(*ast.IndexExpr)
		if !isIx {
			continue
		}
		t := info.TypeOf(ix.X)
		if t == nil {
			continue
		}
		if _, isMap := t.Underlying().(*types.Map); !isMap {
			continue
		}
		o := c12ObjOf(info, ix.X)
		if v, isVar := o.(*types.Var); !isVar || v.IsField() {
			continue
		}
		var rhs ast.Expr
		if len(as.Rhs) == len(as.Lhs) {
			rhs = as.Rhs[i]
		} else if len(as.Rhs) == 1 {
			rhs = as.Rhs[0]
		}
		return o, ix.Index, rhs, true
	}
	return nil, nil, nil, false
}

func c12LastIsNilError(info *types.Info, ret *ast.ReturnStmt, sig *types.Signature) bool {
	// true if the function has an error result and this return passes the literal nil for it
	n := sig.Results().Len()
	if n == 0 || !IsErrorType(sig.Results().At(n-1).Type()) {
		return true // no error result: leaving is never an error exit
	}
	if len(ret.Results) != n {
		return false // bare return or call forwarding: not a literal nil
	}
	return isNilIdent(info, ret.Results[n-1])
}

func runC12Conv(c *Ctx, b *c12BindCfg, cv c12Conv) {
	pk, fd := c.P.FuncDecl(cv.Rel, cv.Fn)
	name := cv.Fn
	if fd == nil || fd.Body == nil {
		c.Undecided("C12-B1", name, 0, "converter function not found in "+cv.Rel)
		return
	}
	info := pk.TypesInfo
	fn, _ := info.Defs[fd.Name].(*types.Func)
	sig := fn.Type().(*types.Signature)
	// the converter loop: a range statement of the function body (not nested in another loop or literal)
	// whose body stores into a local map
	var loop *ast.RangeStmt
	var resMap types.Object
	for _, s := range fd.Body.List {
		rs, ok := s.(*ast.RangeStmt)
		if !ok {
			continue
		}
		inspectNoLit(rs.Body, func(n ast.Node) bool {
			if st, ok := n.(ast.Stmt); ok && resMap == nil {
				if m, _, _, ok := c12MapStore(info, st); ok {
					resMap = m
					loop = rs
				}
			}
			return true
		})
		if loop != nil {
			break
		}
	}
	if loop == nil {
		c.Undecided("C12-B1", name+"/loop", fd.Pos(), "no range loop that fills a local map found: the converter cannot be read")
		return
	}
	keyObj, valObj := types.Object(nil), types.Object(nil)
	if loop.Key != nil {
		keyObj = c12ObjOf(info, loop.Key)
	}
	if loop.Value != nil {
		valObj = c12ObjOf(info, loop.Value)
	}
	srcObj := valObj
	if srcObj == nil {
		srcObj = keyObj
	}
	g := c12CFG(c.P, info, fd.Body)
	var bodyBlock *cfg.Block
	for _, bl := range g.Blocks {
		if bl.Kind == cfg.KindRangeBody && bl.Stmt == ast.Stmt(loop) {
			bodyBlock = bl
		}
	}
	if bodyBlock == nil {
		c.Undecided("C12-B1", name+"/loop", loop.Pos(), "range body block not found in the CFG")
		return
	}
	isLoopEdge := func(bl *cfg.Block) bool {
		return (bl.Kind == cfg.KindRangeLoop || bl.Kind == cfg.KindRangeDone) && bl.Stmt == ast.Stmt(loop)
	}

	// (a) every path through one iteration stores into the result map, or leaves the function with a
	// non-nil error (or through a call that never returns).
	type st struct {
		b      *cfg.Block
		stored bool
	}
	seen := map[st]bool{}
	type frame struct {
		prev *frame
		n    ast.Node
	}
	unwind := func(f *frame) []ast.Node {
		var rev []ast.Node
		for x := f; x != nil; x = x.prev {
			rev = append(rev, x.n)
		}
		out := make([]ast.Node, 0, len(rev))
		for i := len(rev) - 1; i >= 0; i-- {
			out = append(out, rev[i])
		}
		return out
	}
	reported := map[string]bool{}
	errCallOf := func(n ast.Node) string {
		as, ok := n.(*ast.AssignStmt)
		if !ok || len(as.Rhs) != 1 {
			return ""
		}
		call, ok := ast.Unparen(as.Rhs[0]).(*ast.CallExpr)
		if !ok {
			return ""
		}
		if t, ok := info.Types[call].Type.(*types.Tuple); ok && t.Len() > 0 && IsErrorType(t.At(t.Len()-1).Type()) {
			if fn := Callee(info, call); fn != nil {
				return fn.Name()
			}
			return c12ShortExpr(call.Fun)
		}
		return ""
	}
	var walk func(bl *cfg.Block, stored bool, tr *frame, lastErr string)
	walk = func(bl *cfg.Block, stored bool, tr *frame, lastErr string) {
		for _, n := range bl.Nodes {
			if s, ok := n.(ast.Stmt); ok {
				if m, _, _, ok := c12MapStore(info, s); ok && m == resMap {
					stored = true
				}
			}
			if e := errCallOf(n); e != "" {
				lastErr = e
			}
			if ret, ok := n.(*ast.ReturnStmt); ok {
				if !stored && c12LastIsNilError(info, ret, sig) {
					key := name + "/leaves without entry after " + lastErr + ": " + shortNode(c.P.Fset, ret)
					if !reported[key] {
						reported[key] = true
						if r, ok := cv.Exception[key]; ok {
							c.Exc("C12-B1", key, ret.Pos(), r)
						} else {
							c.Bad("C12-B1", key, ret.Pos(), fmt.Sprintf("%s: a path through the converter loop leaves the function without an entry for the current binding and without an error (%s): the binding is silently lost",
								name, shortNode(c.P.Fset, ret)), c.P.DescribePath(append(unwind(tr), ret))...)
						}
					}
				}
				return
			}
		}
		var last ast.Node
		if len(bl.Nodes) > 0 {
			last = bl.Nodes[len(bl.Nodes)-1]
		}
		for _, nb := range bl.Succs {
			if isLoopEdge(nb) {
				if !stored {
					key := name + "/iteration without entry"
					if !reported[key] {
						reported[key] = true
						c.Bad("C12-B1", key, loop.Pos(), fmt.Sprintf("%s: a path through the converter loop reaches the next iteration (or leaves the loop) without storing an entry for the current binding: that parameter goes missing", name),
							c.P.DescribePath(unwind(&frame{tr, last}))...)
					}
				}
				continue
			}
			k := st{nb, stored}
			if seen[k] {
				continue
			}
			seen[k] = true
			ntr := tr
			if last != nil && len(bl.Succs) > 1 {
				ntr = &frame{tr, last}
			}
			walk(nb, stored, ntr, lastErr)
		}
	}
	walk(bodyBlock, false, nil, "")
	if !reported[name+"/iteration without entry"] {
		c.Ok("C12-B1", name+"/every iteration stores or fails", loop.Pos(), "every path through the loop body stores into the result map or returns a non-nil error")
	}

	// (b) error results of calls in the loop body are bound to a variable and tested before the
	// iteration continues.
	inspectNoLit(loop.Body, func(n ast.Node) bool {
		call, ok := n.(*ast.CallExpr)
		if !ok {
			return true
		}
		tv := info.Types[call]
		var res *types.Tuple
		switch t := tv.Type.(type) {
		case *types.Tuple:
			res = t
		default:
			if tv.Type != nil && IsErrorType(tv.Type) {
				res = types.NewTuple(types.NewVar(0, nil, "", tv.Type))
			}
		}
		if res == nil || res.Len() == 0 || !IsErrorType(res.At(res.Len()-1).Type()) {
			return true
		}
		cname := types.ExprString(call.Fun)
		if fn := Callee(info, call); fn != nil {
			cname = fn.Name()
		}
		key := name + "/error of " + cname
		// statement that holds the call
		var holder ast.Stmt
		inspectNoLit(loop.Body, func(m ast.Node) bool {
			if s, ok := m.(ast.Stmt); ok {
				switch s.(type) {
				case *ast.AssignStmt, *ast.ExprStmt, *ast.ReturnStmt, *ast.DeclStmt:
					if c48Contains(s, call) {
						holder = s
					}
				}
			}
			return true
		})
		switch h := holder.(type) {
		case *ast.ReturnStmt:
			c.Ok("C12-B1", key, call.Pos(), "returned directly")
			return true
		case *ast.AssignStmt:
			if len(h.Rhs) != 1 || ast.Unparen(h.Rhs[0]) != ast.Expr(call) || len(h.Lhs) != res.Len() {
				c.Bad("C12-B1", key, call.Pos(), name+": the error result of "+cname+" is not bound to a variable (nested call): it cannot be tested")
				return true
			}
			eobj := c12ObjOf(info, h.Lhs[len(h.Lhs)-1])
			if id, ok := h.Lhs[len(h.Lhs)-1].(*ast.Ident); !ok || id.Name == "_" || eobj == nil {
				c.Bad("C12-B1", key, call.Pos(), name+": the error result of "+cname+" is discarded: a value that cannot be converted is bound as whatever the callee returned")
				return true
			}
			pt, ok := FindNode(g, h)
			if !ok {
				c.Undecided("C12-B1", key, call.Pos(), "assignment not found in the CFG")
				return true
			}
			// a path from the assignment to the end of the iteration on which the error is not tested
			// (or is tested and ignored: the non-nil edge continues the loop)
			path := c12UntestedToLoopEdge(g, pt, info, eobj, isLoopEdge)
			if path != nil {
				c.Bad("C12-B1", key, call.Pos(), name+": the error of "+cname+" is not tested before the iteration continues: a failed conversion is bound as if it had succeeded", c.P.DescribePath(path)...)
			} else {
				c.Ok("C12-B1", key, call.Pos(), "bound to "+eobj.Name()+" and tested on every path before the iteration continues")
			}
		case *ast.ExprStmt:
			// a call used as a statement contributes nothing to the entry (logging and the like): not an obligation
		default:
			c.Bad("C12-B1", key, call.Pos(), name+": the error result of "+cname+" is dropped (call nested inside another expression)")
		}
		return true
	})

	// (c) + (d) per store: key and value provenance
	deps := lfBuild(info, fd.Body, nil)
	nStores := 0
	inspectNoLit(loop.Body, func(n ast.Node) bool {
		s, ok := n.(ast.Stmt)
		if !ok {
			return true
		}
		m, kx, vx, ok := c12MapStore(info, s)
		if !ok || m != resMap {
			return true
		}
		nStores++
		skey := name + "/entry " + c12ShortExpr(vx)
		problems := []string{}
		if cv.KeyIsKey && (keyObj == nil || c12ObjOf(info, kx) != keyObj) {
			problems = append(problems, "the entry is stored under "+types.ExprString(kx)+", not under the name it arrived with")
		}
		derived := false
		if vx != nil && srcObj != nil {
			deps.Reach(vx, func(n ast.Node) {
				if id, ok := n.(*ast.Ident); ok && info.Uses[id] == srcObj {
					derived = true
				}
			})
		}
		if !derived {
			problems = append(problems, "the stored value does not derive from the binding being converted")
		}
		if cv.Via != "" {
			okVia := false
			if call, isCall := ast.Unparen(vx).(*ast.CallExpr); isCall && len(call.Args) > 0 {
				if fn := Callee(info, call); fn != nil && FullName(fn) == cv.Via && valObj != nil && c12ObjOf(info, call.Args[len(call.Args)-1]) == valObj {
					okVia = true
				}
			}
			if !okVia {
				problems = append(problems, "the value is not built by "+cv.Via+" from the bound syntax node: bound values and inline literals no longer share one builder")
			}
		}
		if len(problems) > 0 {
			c.Bad("C12-B1", skey, s.Pos(), name+": "+strings.Join(problems, "; "))
		} else {
			c.Ok("C12-B1", skey, s.Pos(), "stored under its own name, derived from the binding"+map[bool]string{true: ", built by " + cv.Via, false: ""}[cv.Via != ""])
		}
		return true
	})
	if cv.RawGetter != "" {
		c12BoundAsStored(c, cv, pk, fd, loop, resMap)
	}
	// the map that was filled is what the function hands on
	c12ResultUsed(c, b, cv, pk, fd, resMap)
}

// c12BoundAsStored: the (type, value) pair read by the getter is what the entry is built from: the value
// variable is never assigned again (no conversion on the way), the type variable only from a non-call
// expression (the NULL type default), and both are arguments of the call that builds the entry.
func c12BoundAsStored(c *Ctx, cv c12Conv, pk *packages.Package, fd *ast.FuncDecl, loop *ast.RangeStmt, resMap types.Object) {
	info := pk.TypesInfo
	key := cv.Fn + "/variable bound as stored"
	var getAs *ast.AssignStmt
	inspectNoLit(loop.Body, func(n ast.Node) bool {
		if as, ok := n.(*ast.AssignStmt); ok && len(as.Rhs) == 1 && len(as.Lhs) == 3 {
			if call, ok := ast.Unparen(as.Rhs[0]).(*ast.CallExpr); ok {
				if fn := Callee(info, call); fn != nil && FullName(fn) == cv.RawGetter {
					getAs = as
				}
			}
		}
		return true
	})
	if getAs == nil {
		c.Undecided("C12-B1", key, loop.Pos(), "no `type, value, err := "+cv.RawGetter+"(…)` in the converter loop")
		return
	}
	tObj, vObj := c12ObjOf(info, getAs.Lhs[0]), c12ObjOf(info, getAs.Lhs[1])
	if tObj == nil || vObj == nil {
		c.Bad("C12-B1", key, getAs.Pos(), cv.Fn+": the type or the value returned by the variable lookup is discarded")
		return
	}
	var problems []string
	inspectNoLit(loop.Body, func(n ast.Node) bool {
		as, ok := n.(*ast.AssignStmt)
		if !ok || as == getAs {
			return true
		}
		for i, l := range as.Lhs {
			o := c12ObjOf(info, l)
			if o == vObj {
				problems = append(problems, fmt.Sprintf("the value is replaced before it is bound (%s: %s)", c.P.Rel(as.Pos()), shortNode(c.P.Fset, as)))
			}
			if o == tObj {
				isCall := true
				if len(as.Rhs) == len(as.Lhs) {
					_, isCall = ast.Unparen(as.Rhs[i]).(*ast.CallExpr)
				}
				if isCall {
					problems = append(problems, fmt.Sprintf("the type is recomputed before it is bound (%s)", c.P.Rel(as.Pos())))
				}
			}
		}
		return true
	})
	used := false
	inspectNoLit(loop.Body, func(n ast.Node) bool {
		s, ok := n.(ast.Stmt)
		if !ok {
			return true
		}
		m, _, vx, ok := c12MapStore(info, s)
		if !ok || m != resMap {
			return true
		}
		if call, ok := ast.Unparen(vx).(*ast.CallExpr); ok {
			hasV, hasT := false, false
			for _, a := range call.Args {
				if o := c12ObjOf(info, a); o == vObj {
					hasV = true
				} else if o == tObj {
					hasT = true
				}
			}
			if hasV && hasT {
				used = true
			}
		}
		return true
	})
	if !used {
		problems = append(problems, "no entry is built directly from the looked-up value and type")
	}
	if len(problems) > 0 {
		c.Bad("C12-B1", key, getAs.Pos(), cv.Fn+": a variable named in EXECUTE … USING does not reach the statement as it is stored (the inline @v does): "+strings.Join(problems, "; "))
	} else {
		c.Ok("C12-B1", key, getAs.Pos(), "value and type of the variable reach the entry unchanged")
	}
}

func c12ShortExpr(e ast.Expr) string {
	if e == nil {
		return "?"
	}
	s := types.ExprString(e)
	if len(s) > 60 {
		s = s[:57] + "..."
	}
	return s
}

// c12UntestedToLoopEdge finds a path from pt to the loop edge on which the error variable is not tested.
func c12UntestedToLoopEdge(g *cfg.CFG, pt CFGPoint, info *types.Info, eobj types.Object, isLoopEdge func(*cfg.Block) bool) []ast.Node {
	seen := map[*cfg.Block]bool{}
	var res []ast.Node
	var walk func(bl *cfg.Block, i int, trail []ast.Node) bool
	walk = func(bl *cfg.Block, i int, trail []ast.Node) bool {
		for ; i < len(bl.Nodes); i++ {
			if _, ok := bl.Nodes[i].(*ast.ReturnStmt); ok {
				return false
			}
		}
		for si, nb := range bl.Succs {
			if o, nonNil, ok := ErrNilEdge(info, bl, si); ok && o == eobj && !nonNil {
				continue // tested and found nil: fine from here on
			}
			t := trail
			if len(bl.Nodes) > 0 {
				t = append(append([]ast.Node{}, trail...), bl.Nodes[len(bl.Nodes)-1])
			}
			if isLoopEdge(nb) {
				res = t
				return true
			}
			if seen[nb] {
				continue
			}
			seen[nb] = true
			if walk(nb, 0, t) {
				return true
			}
		}
		return false
	}
	walk(pt.B, pt.I+1, nil)
	return res
}

// c12ResultUsed: after the loop the filled map is returned or handed to a call; it is not replaced.
func c12ResultUsed(c *Ctx, b *c12BindCfg, cv c12Conv, pk *packages.Package, fd *ast.FuncDecl, resMap types.Object) {
	info := pk.TypesInfo
	used := false
	var pos token.Pos
	inspectNoLit(fd.Body, func(n ast.Node) bool {
		switch x := n.(type) {
		case *ast.ReturnStmt:
			for _, r := range x.Results {
				if c12ObjOf(info, r) == resMap {
					used, pos = true, x.Pos()
				}
			}
		case *ast.CallExpr:
			for _, a := range x.Args {
				if c12ObjOf(info, a) == resMap {
					used, pos = true, x.Pos()
				}
			}
		case *ast.KeyValueExpr:
			if c12ObjOf(info, x.Value) == resMap {
				used, pos = true, x.Pos()
			}
		}
		return true
	})
	key := cv.Fn + "/result map handed on"
	if used {
		c.Ok("C12-B1", key, pos, resMap.Name()+" is returned / passed on")
	} else {
		c.Bad("C12-B1", key, fd.Pos(), cv.Fn+": the map filled by the converter loop ("+resMap.Name()+") is never returned or passed on")
	}
}

// ---- B2 -------------------------------------------------------------------------------------

func c12In(xs []string, s string) bool {
	for _, x := range xs {
		if x == s {
			return true
		}
	}
	return false
}

func runC12Subst(c *Ctx, b *c12BindCfg) {
	pk := c.P.Pkg(b.ctxRel)
	if pk == nil {
		c.Undecided("C12-B2", "package", 0, b.ctxRel+" not loaded")
		return
	}
	btn, _ := pk.Types.Scope().Lookup(b.builderType).(*types.TypeName)
	ctn, _ := pk.Types.Scope().Lookup(b.ctxType).(*types.TypeName)
	ctxField := c47FieldVar(btn, b.ctxField)
	mapField := c47FieldVar(ctn, b.mapField)
	roField := c47FieldVar(ctn, b.resolveOnly)
	if ctxField == nil || mapField == nil || roField == nil {
		c.Undecided("C12-B2", "anchors", 0, fmt.Sprintf("%s.%s / %s.%s / %s.%s not found", b.builderType, b.ctxField, b.ctxType, b.mapField, b.ctxType, b.resolveOnly))
		return
	}
	lookupFn := LookupFunc(pk, b.lookup)
	unusedFn := LookupFunc(pk, b.unused)
	substFn := LookupFunc(pk, b.subst)
	errFn := LookupFunc(pk, b.errFn)
	if lookupFn == nil || substFn == nil || errFn == nil {
		c.Undecided("C12-B2", "anchors", 0, "lookup / substitution / error helper not found")
		return
	}
	if !c12PanicsAlways(c.P, errFn) {
		c.Bad("C12-B2", b.errFn+"/never returns", errFn.Pos(), b.errFn+" is relied on to abort planbuilding (its callers continue with `return x, true` after it) but its body is no longer a single panic(...)")
	} else {
		c.Ok("C12-B2", b.errFn+"/never returns", errFn.Pos(), "body is a single panic(...)")
	}

	// (a) who writes Builder.bindCtx, who builds a context, who touches the map field
	c.P.EachModuleFuncDecl(func(fpk *packages.Package, fd *ast.FuncDecl) {
		if c12IsTestFile(c.P, fd.Pos()) {
			return
		}
		info := fpk.TypesInfo
		fname := DeclName(fd)
		fq := fname
		if fpk != pk {
			fq = c12PkgName(fpk.PkgPath) + "." + fname
		}
		selIs := func(e ast.Expr, fv *types.Var) bool {
			sel, ok := ast.Unparen(e).(*ast.SelectorExpr)
			if !ok {
				return false
			}
			s := info.Selections[sel]
			return s != nil && s.Obj() == fv
		}
		// parents for use classification of the map field
		var stack []ast.Node
		ast.Inspect(fd.Body, func(n ast.Node) bool {
			if n == nil {
				stack = stack[:len(stack)-1]
				return false
			}
			stack = append(stack, n)
			switch x := n.(type) {
			case *ast.AssignStmt:
				for i, l := range x.Lhs {
					if selIs(l, ctxField) {
						key := fq + "/" + b.ctxField + "="
						if fpk == pk && c12In(b.ctxWriters, fname) {
							what := "?"
							if len(x.Rhs) == len(x.Lhs) {
								what = c12ShortExpr(x.Rhs[i])
							}
							c.Ok("C12-B2", key, x.Pos(), "allowed writer; stores "+what)
						} else {
							c.Bad("C12-B2", key, x.Pos(), fq+" assigns "+b.builderType+"."+b.ctxField+": a second source of bind-variable substitutions besides "+strings.Join(b.ctxWriters, ", "))
						}
					}
					if selIs(l, mapField) {
						c.Bad("C12-B2", fq+"/"+b.mapField+"=", x.Pos(), fq+" replaces the "+b.mapField+" map of a bind context after it was built")
					}
					if ix, ok := ast.Unparen(l).(*ast.IndexExpr); ok && selIs(ix.X, mapField) {
						c.Bad("C12-B2", fq+"/"+b.mapField+"[]=", x.Pos(), fq+" stores into the "+b.mapField+" map of a bind context: values other than the converted bindings can be substituted")
					}
				}
			case *ast.CompositeLit:
				if t := info.TypeOf(x); t != nil && types.Identical(t, ctn.Type()) {
					key := fq + "/" + b.ctxType + "{}"
					setsMap := false
					for _, el := range x.Elts {
						if kv, ok := el.(*ast.KeyValueExpr); ok {
							if id, ok := kv.Key.(*ast.Ident); ok && info.Uses[id] == mapField {
								setsMap = true
							}
						} else {
							setsMap = true // positional literal
						}
					}
					switch {
					case fpk != pk || !c12In(b.ctxWriters, fname):
						c.Bad("C12-B2", key, x.Pos(), fq+" builds a "+b.ctxType+": bind contexts are built only by "+strings.Join(b.ctxWriters, ", "))
					case setsMap && !c12In(b.fillers, fname):
						c.Bad("C12-B2", key, x.Pos(), fq+" builds a "+b.ctxType+" with a "+b.mapField+" map: only "+strings.Join(b.fillers, ", ")+" supply substitution values")
					default:
						c.Ok("C12-B2", key, x.Pos(), map[bool]string{true: "supplies the converted bindings", false: "no substitution values (resolve-only / reset)"}[setsMap])
					}
				}
			case *ast.SelectorExpr:
				if !selIs(x, mapField) {
					return true
				}
				// classify the use by its parent
				var parent ast.Node
				for i := len(stack) - 2; i >= 0; i-- {
					if _, isParen := stack[i].(*ast.ParenExpr); !isParen {
						parent = stack[i]
						break
					}
				}
				key := fq + "/" + b.mapField
				switch p := parent.(type) {
				case *ast.CallExpr:
					if IsBuiltinCall(info, p, "len") {
						return true // size only
					}
				case *ast.BinaryExpr:
					if (p.Op == token.EQL || p.Op == token.NEQ) && (isNilIdent(info, p.X) || isNilIdent(info, p.Y)) {
						return true // nil test
					}
				case *ast.IndexExpr:
					if ast.Unparen(p.X) == ast.Expr(x) {
						// an assignment target was reported above; reads are allowed in the lookup only
						isTarget := false
						for i := len(stack) - 3; i >= 0; i-- {
							if as, ok := stack[i].(*ast.AssignStmt); ok {
								for _, l := range as.Lhs {
									if ast.Unparen(l) == ast.Expr(p) {
										isTarget = true
									}
								}
								break
							}
						}
						if isTarget {
							return true
						}
						fnObj, _ := info.Defs[fd.Name].(*types.Func)
						if fnObj == lookupFn {
							c.Ok("C12-B2", key+"[k]", x.Pos(), "the lookup")
						} else {
							c.Bad("C12-B2", key+"[k]", x.Pos(), fq+" reads a substitution value out of "+b.mapField+" itself: a second substitution path beside "+b.lookup)
						}
						return true
					}
				case *ast.RangeStmt:
					if ast.Unparen(p.X) == ast.Expr(x) {
						fnObj, _ := info.Defs[fd.Name].(*types.Func)
						if fnObj == unusedFn || fnObj == lookupFn {
							c.Ok("C12-B2", key+"/range", x.Pos(), "accounting of unused bindings")
						} else {
							c.Bad("C12-B2", key+"/range", x.Pos(), fq+" iterates over the substitution values: a second substitution path beside "+b.lookup)
						}
						return true
					}
				case *ast.KeyValueExpr:
					return true // composite literal key, handled above
				case *ast.AssignStmt:
					for _, l := range p.Lhs {
						if ast.Unparen(l) == ast.Expr(x) {
							return true // reported above
						}
					}
				}
				c.Bad("C12-B2", key+"/escapes", x.Pos(), fq+" uses the "+b.mapField+" map of a bind context other than by len(), a nil test, the lookup or the unused-binding accounting: the substitution values escape "+b.lookup)
			}
			return true
		})
	})

	// (b) shape of the lookup: returns exactly the comma-ok result of Bindings[param] (or nil,false)
	c12LookupShape(c, b, pk, lookupFn, mapField)

	// who calls the lookup
	ncall := 0
	c.P.EachModuleFuncDecl(func(fpk *packages.Package, fd *ast.FuncDecl) {
		if c12IsTestFile(c.P, fd.Pos()) {
			return
		}
		ast.Inspect(fd.Body, func(n ast.Node) bool {
			call, ok := n.(*ast.CallExpr)
			if !ok {
				return true
			}
			if fn := Callee(fpk.TypesInfo, call); fn != nil && fn.Origin() == lookupFn {
				ncall++
				fnObj, _ := fpk.TypesInfo.Defs[fd.Name].(*types.Func)
				key := DeclName(fd) + "/" + lookupFn.Name()
				if fnObj == substFn {
					c.Ok("C12-B2", key, call.Pos(), "the substitution function")
				} else {
					c.Bad("C12-B2", key, call.Pos(), DeclName(fd)+" looks substitution values up itself: placeholders are replaced in more than one place, so the missing-binding rule of "+b.subst+" no longer covers every placeholder")
				}
			}
			return true
		})
	})
	if ncall == 0 {
		c.Bad("C12-B2", b.subst+"/"+lookupFn.Name(), substFn.Pos(), "nothing calls the lookup: placeholders are never substituted")
	}

	// (c) a placeholder without a binding is an error, never a silent default
	c12MissingIsError(c, b, pk, substFn, lookupFn, mapField)

	// (d) placeholders survive planbuilding only without bindings
	c12PlaceholderGates(c, b, pk, ctxField, roField, substFn)
}

func c12LookupShape(c *Ctx, b *c12BindCfg, pk *packages.Package, lookupFn *types.Func, mapField *types.Var) {
	fd := c.P.Decl(lookupFn)
	info := pk.TypesInfo
	key := b.lookup + "/returns the map's answer"
	if fd == nil || fd.Body == nil || fd.Type.Params == nil || len(fd.Type.Params.List) == 0 || len(fd.Type.Params.List[0].Names) == 0 {
		c.Undecided("C12-B2", key, 0, "lookup function has no readable body")
		return
	}
	param := info.Defs[fd.Type.Params.List[0].Names[0]]
	var vObj, okObj types.Object
	ast.Inspect(fd.Body, func(n ast.Node) bool {
		as, ok := n.(*ast.AssignStmt)
		if !ok || len(as.Lhs) != 2 || len(as.Rhs) != 1 {
			return true
		}
		ix, ok := ast.Unparen(as.Rhs[0]).(*ast.IndexExpr)
		if !ok {
			return true
		}
		sel, ok := ast.Unparen(ix.X).(*ast.SelectorExpr)
		if !ok || info.Selections[sel] == nil || info.Selections[sel].Obj() != mapField {
			return true
		}
		if c12ObjOf(info, ix.Index) != param {
			return true
		}
		vObj, okObj = c12ObjOf(info, as.Lhs[0]), c12ObjOf(info, as.Lhs[1])
		return true
	})
	if vObj == nil || okObj == nil {
		c.Bad("C12-B2", key, fd.Pos(), b.lookup+" has no `v, ok := "+b.mapField+"[name]` with its own parameter as the key")
		return
	}
	bad := ""
	nret := 0
	inspectNoLit(fd.Body, func(n ast.Node) bool {
		ret, ok := n.(*ast.ReturnStmt)
		if !ok {
			return true
		}
		nret++
		if len(ret.Results) != 2 {
			bad = "a return without two explicit results"
			return true
		}
		r0, r1 := ret.Results[0], ret.Results[1]
		if c12ObjOf(info, r0) == vObj && c12ObjOf(info, r1) == okObj {
			return true
		}
		if isNilIdent(info, r0) {
			if tv := info.Types[r1]; tv.Value != nil && tv.Value.String() == "false" {
				return true
			}
		}
		bad = "`" + shortNode(c.P.Fset, ret) + "`"
		return true
	})
	// reassignment of the two results
	ast.Inspect(fd.Body, func(n ast.Node) bool {
		if as, ok := n.(*ast.AssignStmt); ok && as.Tok == token.ASSIGN {
			for _, l := range as.Lhs {
				if o := c12ObjOf(info, l); o == vObj || o == okObj {
					bad = "the looked-up value or its ok flag is overwritten (" + shortNode(c.P.Fset, as) + ")"
				}
			}
		}
		return true
	})
	if bad != "" || nret == 0 {
		c.Bad("C12-B2", key, fd.Pos(), b.lookup+" does not hand back exactly what the map answered: "+bad+" (a missing binding must be reported as missing, a present one unchanged)")
	} else {
		c.Ok("C12-B2", key, fd.Pos(), "every return is (v, ok) of "+b.mapField+"[name] or (nil, false)")
	}
}

// c12MissingIsError: in the substitution function, the "binding absent" edges never reach a return.
func c12MissingIsError(c *Ctx, b *c12BindCfg, pk *packages.Package, substFn, lookupFn *types.Func, mapField *types.Var) {
	fd := c.P.Decl(substFn)
	info := pk.TypesInfo
	if fd == nil || fd.Body == nil {
		c.Undecided("C12-B2", b.subst+"/missing binding is an error", 0, "no body")
		return
	}
	g := c12CFG(c.P, info, fd.Body)
	// the ok variable of the lookup call, and the value variable
	var okObj, vObj types.Object
	var lookupArg ast.Expr
	ast.Inspect(fd.Body, func(n ast.Node) bool {
		as, ok := n.(*ast.AssignStmt)
		if !ok || len(as.Rhs) != 1 || len(as.Lhs) != 2 {
			return true
		}
		call, ok := ast.Unparen(as.Rhs[0]).(*ast.CallExpr)
		if !ok {
			return true
		}
		if fn := Callee(info, call); fn != nil && fn.Origin() == lookupFn && len(call.Args) == 1 {
			vObj, okObj = c12ObjOf(info, as.Lhs[0]), c12ObjOf(info, as.Lhs[1])
			lookupArg = call.Args[0]
		}
		return true
	})
	key := b.subst + "/missing binding is an error"
	if okObj == nil {
		c.Bad("C12-B2", key, fd.Pos(), b.subst+" does not bind both results of "+b.lookup+": the `found` answer is not consulted")
		return
	}
	// edges meaning "absent": false edge of `ok`, true edge of `!ok`, true edge of `<x>.Bindings == nil`
	absentEdge := func(bl *cfg.Block, succ int) bool {
		if len(bl.Nodes) == 0 || len(bl.Succs) != 2 {
			return false
		}
		cond, ok := bl.Nodes[len(bl.Nodes)-1].(ast.Expr)
		if !ok {
			return false
		}
		cond = ast.Unparen(cond)
		if c12ObjOf(info, cond) == okObj {
			return succ == 1
		}
		if u, ok := cond.(*ast.UnaryExpr); ok && u.Op == token.NOT && c12ObjOf(info, u.X) == okObj {
			return succ == 0
		}
		if be, ok := cond.(*ast.BinaryExpr); ok && (be.Op == token.EQL || be.Op == token.NEQ) {
			var other ast.Expr
			if isNilIdent(info, be.Y) {
				other = be.X
			} else if isNilIdent(info, be.X) {
				other = be.Y
			}
			if sel, ok := ast.Unparen(other).(*ast.SelectorExpr); ok && other != nil {
				if s := info.Selections[sel]; s != nil && s.Obj() == mapField {
					return (be.Op == token.EQL) == (succ == 0)
				}
			}
		}
		return false
	}
	nAbsent := 0
	var offending []ast.Node
	for _, bl := range g.Blocks {
		if !bl.Live {
			continue
		}
		for si := range bl.Succs {
			if !absentEdge(bl, si) {
				continue
			}
			nAbsent++
			// can a return be reached from this successor?
			seen := map[*cfg.Block]bool{}
			var reach func(x *cfg.Block, trail []ast.Node) []ast.Node
			reach = func(x *cfg.Block, trail []ast.Node) []ast.Node {
				if seen[x] {
					return nil
				}
				seen[x] = true
				for _, n := range x.Nodes {
					trail = append(trail, n)
					if _, ok := n.(*ast.ReturnStmt); ok {
						return trail
					}
				}
				if len(x.Succs) == 0 && isFallOffEnd(x) && !c12EndsInNoReturn(c.P, info, x) {
					return append(trail, nil)
				}
				for _, s := range x.Succs {
					if r := reach(s, append([]ast.Node{}, trail...)); r != nil {
						return r
					}
				}
				return nil
			}
			if r := reach(bl.Succs[si], []ast.Node{bl.Nodes[len(bl.Nodes)-1]}); r != nil && offending == nil {
				offending = r
			}
		}
	}
	switch {
	case nAbsent == 0:
		c.Bad("C12-B2", key, fd.Pos(), b.subst+" never tests whether the binding was found (no branch on the lookup's ok result)")
	case offending != nil:
		c.Bad("C12-B2", key, fd.Pos(), b.subst+": after the lookup reported the binding absent the function still returns (it must abort through "+b.errFn+"): a placeholder without a value is silently given one or left in the plan",
			c.P.DescribePath(offending)...)
	default:
		c.Ok("C12-B2", key, fd.Pos(), fmt.Sprintf("%d 'absent' edges, none reaches a return (all end in %s)", nAbsent, b.errFn))
	}
	// every `return x, true` returns the looked-up value
	key2 := b.subst + "/returns the looked-up value"
	bad := ""
	inspectNoLit(fd.Body, func(n ast.Node) bool {
		ret, ok := n.(*ast.ReturnStmt)
		if !ok || len(ret.Results) != 2 {
			return true
		}
		if tv := info.Types[ret.Results[1]]; tv.Value != nil && tv.Value.String() == "true" {
			if c12ObjOf(info, ret.Results[0]) != vObj {
				bad = shortNode(c.P.Fset, ret)
			}
		}
		return true
	})
	// name handed to the lookup derives from the placeholder node (first parameter)
	derived := false
	if fd.Type.Params != nil && len(fd.Type.Params.List) > 0 && len(fd.Type.Params.List[0].Names) > 0 && lookupArg != nil {
		p0 := info.Defs[fd.Type.Params.List[0].Names[0]]
		lfBuild(info, fd.Body, nil).Reach(lookupArg, func(n ast.Node) {
			if id, ok := n.(*ast.Ident); ok && info.Uses[id] == p0 {
				derived = true
			}
		})
	}
	if bad != "" {
		c.Bad("C12-B2", key2, fd.Pos(), b.subst+" reports success with something else than the looked-up binding: "+bad)
	} else if !derived {
		c.Bad("C12-B2", key2, fd.Pos(), b.subst+" looks up a name that does not derive from the placeholder it was given")
	} else {
		c.Ok("C12-B2", key2, fd.Pos(), "success returns the value found under the placeholder's own name")
	}
}

// c12PlaceholderGates: every construction of a placeholder expression in the planbuilder lies on
// paths where no binding could have been substituted: bindCtx == nil, resolve-only mode, or the
// substitution function answered "not a placeholder / no context".
func c12PlaceholderGates(c *Ctx, b *c12BindCfg, pk *packages.Package, ctxField, roField *types.Var, substFn *types.Func) {
	info := pk.TypesInfo
	predFn := LookupFunc(pk, b.gatePred)
	// the predicate, if present, must fold to `… && (bindCtx == nil || bindCtx.resolveOnly)`
	predOK := false
	if predFn != nil {
		if fd := c.P.Decl(predFn); fd != nil && fd.Body != nil && len(fd.Body.List) == 1 {
			if ret, ok := fd.Body.List[0].(*ast.ReturnStmt); ok && len(ret.Results) == 1 {
				predOK = c12ImpliesNoBindings(info, ret.Results[0], ctxField, roField)
			}
		}
		c.Check(predOK, "C12-B2", b.gatePred+"/implies no bindings", predFn.Pos(), "returns a conjunction containing (bindCtx == nil || bindCtx.resolveOnly)",
			b.gatePred+" no longer implies that there are no bindings to substitute: typed placeholders are built although values were supplied")
	}
	selIs := func(e ast.Expr, fv *types.Var) bool {
		sel, ok := ast.Unparen(e).(*ast.SelectorExpr)
		if !ok {
			return false
		}
		s := info.Selections[sel]
		return s != nil && s.Obj() == fv
	}
	n := 0
	for _, file := range pk.Syntax {
		if c12IsTestFile(c.P, file.Pos()) {
			continue
		}
		for _, d := range file.Decls {
			fd, ok := d.(*ast.FuncDecl)
			if !ok || fd.Body == nil {
				continue
			}
			// ok-variables of calls to the substitution function in this declaration
			okVars := map[types.Object]bool{}
			ast.Inspect(fd.Body, func(m ast.Node) bool {
				if as, ok := m.(*ast.AssignStmt); ok && len(as.Rhs) == 1 && len(as.Lhs) == 2 {
					if call, ok := ast.Unparen(as.Rhs[0]).(*ast.CallExpr); ok {
						if fn := Callee(info, call); fn != nil && fn.Origin() == substFn {
							okVars[c12ObjOf(info, as.Lhs[1])] = true
						}
					}
				}
				return true
			})
			gate := func(cond ast.Expr, isTrue bool) bool {
				cond = ast.Unparen(cond)
				neg := false
				for {
					if u, ok := cond.(*ast.UnaryExpr); ok && u.Op == token.NOT {
						neg = !neg
						cond = ast.Unparen(u.X)
						continue
					}
					break
				}
				want := isTrue != neg // truth value of the atom on this edge
				if be, ok := cond.(*ast.BinaryExpr); ok && (be.Op == token.EQL || be.Op == token.NEQ) {
					var other ast.Expr
					if isNilIdent(info, be.Y) {
						other = be.X
					} else if isNilIdent(info, be.X) {
						other = be.Y
					}
					if other != nil && selIs(other, ctxField) {
						return (be.Op == token.EQL) == want // bindCtx == nil holds
					}
					return false
				}
				if selIs(cond, roField) {
					return want
				}
				if o := c12ObjOf(info, cond); o != nil && okVars[o] {
					return !want
				}
				if call, ok := cond.(*ast.CallExpr); ok && predOK {
					if fn := Callee(info, call); fn != nil && fn.Origin() == predFn {
						return want
					}
				}
				return false
			}
			var calls []*ast.CallExpr
			ast.Inspect(fd.Body, func(m ast.Node) bool {
				if call, ok := m.(*ast.CallExpr); ok {
					if fn := Callee(info, call); fn != nil && FullName(fn) == b.newBindVar {
						calls = append(calls, call)
					}
				}
				return true
			})
			for _, call := range calls {
				n++
				key := DeclName(fd) + "/placeholder built " + c12EnclosingCond(unitBody(fd, call), call)
				unit := c11UnitOf(fd, call)
				path := c11Ungated(c, info, unit, call, gate)
				if path != nil {
					c.Bad("C12-B2", key, call.Pos(), DeclName(fd)+" builds a placeholder expression on a path where bindings may have been supplied (no `bindCtx == nil`, resolve-only or 'not substituted' edge before it): "+
						"the supplied value is ignored and the statement fails or runs with an unbound variable", c.P.DescribePath(path)...)
				} else {
					c.Ok("C12-B2", key, call.Pos(), "only without a bind context, in resolve-only mode, or when the substitution declined")
				}
			}
		}
	}
	if n == 0 {
		c.Bad("C12-B2", "placeholder built", 0, "no construction of "+b.newBindVar+" found in "+b.ctxRel+": the rule has nothing to read")
	}
}

// c12ImpliesNoBindings: e is a conjunction one of whose conjuncts is (ctx == nil || ctx.resolveOnly).
func c12ImpliesNoBindings(info *types.Info, e ast.Expr, ctxField, roField *types.Var) bool {
	e = ast.Unparen(e)
	selIs := func(e ast.Expr, fv *types.Var) bool {
		sel, ok := ast.Unparen(e).(*ast.SelectorExpr)
		if !ok {
			return false
		}
		s := info.Selections[sel]
		return s != nil && s.Obj() == fv
	}
	if be, ok := e.(*ast.BinaryExpr); ok {
		switch be.Op {
		case token.LAND:
			return c12ImpliesNoBindings(info, be.X, ctxField, roField) || c12ImpliesNoBindings(info, be.Y, ctxField, roField)
		case token.LOR:
			isNil := func(x ast.Expr) bool {
				b2, ok := ast.Unparen(x).(*ast.BinaryExpr)
				return ok && b2.Op == token.EQL && ((isNilIdent(info, b2.Y) && selIs(b2.X, ctxField)) || (isNilIdent(info, b2.X) && selIs(b2.Y, ctxField)))
			}
			isRO := func(x ast.Expr) bool { return selIs(x, roField) }
			return (isNil(be.X) && isRO(be.Y)) || (isRO(be.X) && isNil(be.Y))
		}
	}
	return false
}

// ---- B3 -------------------------------------------------------------------------------------

func runC12Forward(c *Ctx, b *c12BindCfg) {
	isMapT := func(t types.Type) bool {
		return t != nil && c12In(b.mapTypes, types.TypeString(t, nil))
	}
	isSrcT := func(t types.Type) bool {
		return t != nil && (c12In(b.mapTypes, types.TypeString(t, nil)) || c12In(b.srcTypes, types.TypeString(t, nil)))
	}
	for _, rel := range b.fwdPkgs {
		pk := c.P.Pkg(rel)
		if pk == nil {
			c.Undecided("C12-B3", "package "+rel, 0, "not loaded")
			continue
		}
		info := pk.TypesInfo
		for _, file := range pk.Syntax {
			if c12IsTestFile(c.P, file.Pos()) {
				continue
			}
			for _, d := range file.Decls {
				fd, ok := d.(*ast.FuncDecl)
				if !ok || fd.Body == nil {
					continue
				}
				// binding sources of this function: parameters of a binding type, or a parameter whose struct carries them
				srcs := map[types.Object]bool{}
				carriers := map[types.Object]bool{}
				for _, fl := range fd.Type.Params.List {
					for _, nm := range fl.Names {
						o := info.Defs[nm]
						if o == nil || nm.Name == "_" {
							continue
						}
						if isSrcT(o.Type()) {
							srcs[o] = true
						} else if c12CarrierField(o.Type(), b.carrier) != nil {
							carriers[o] = true
						}
					}
				}
				if len(srcs) == 0 && len(carriers) == 0 {
					continue
				}
				deps := lfBuild(info, fd.Body, nil)
				fname := DeclName(fd)
				if rel != "" {
					fname = rel + "." + fname
				}
				ast.Inspect(fd.Body, func(n ast.Node) bool {
					call, ok := n.(*ast.CallExpr)
					if !ok {
						return true
					}
					if tv, ok := info.Types[call.Fun]; ok && (tv.IsType() || tv.IsBuiltin()) {
						return true
					}
					sig, _ := info.TypeOf(call.Fun).(*types.Signature)
					if sig == nil {
						if t := info.TypeOf(call.Fun); t != nil {
							sig, _ = t.Underlying().(*types.Signature)
						}
					}
					if sig == nil {
						return true
					}
					for i := 0; i < sig.Params().Len() && i < len(call.Args); i++ {
						pt := sig.Params().At(i).Type()
						if !isSrcT(pt) {
							continue
						}
						arg := call.Args[i]
						cname := c12ShortExpr(call.Fun)
						if fn := Callee(info, call); fn != nil {
							cname = fn.Name()
						}
						key := fname + " -> " + cname
						ok := false
						deps.Reach(arg, func(m ast.Node) {
							switch x := m.(type) {
							case *ast.Ident:
								if srcs[info.Uses[x]] {
									ok = true
								}
							case *ast.SelectorExpr:
								if s := info.Selections[x]; s != nil && carriers[c12ObjOf(info, x.X)] {
									if fv := c12CarrierField(info.TypeOf(x.X), b.carrier); fv != nil && s.Obj() == fv {
										ok = true
									}
								}
							}
						})
						_ = isMapT
						if ok {
							c.Ok("C12-B3", key, call.Pos(), "hands its bindings on ("+c12ShortExpr(arg)+")")
						} else if r, exc := b.fwdExcept[key]; exc {
							c.Exc("C12-B3", key, call.Pos(), r)
						} else {
							c.Bad("C12-B3", key, call.Pos(), fmt.Sprintf("%s received bindings but passes %s to %s where bindings are expected: the parameter values are dropped on the way to the planbuilder", fname, c12ShortExpr(arg), cname))
						}
					}
					return true
				})
			}
		}
	}
}

// c12CarrierField: t is (a pointer to) the struct named in carrier "pkgpath.Type.Field": returns the field.
func c12CarrierField(t types.Type, carrier string) *types.Var {
	if carrier == "" || t == nil {
		return nil
	}
	if p, ok := types.Unalias(t).(*types.Pointer); ok {
		t = p.Elem()
	}
	n, ok := types.Unalias(t).(*types.Named)
	if !ok || n.Obj().Pkg() == nil {
		return nil
	}
	i := strings.LastIndex(carrier, ".")
	if n.Obj().Pkg().Path()+"."+n.Obj().Name() != carrier[:i] {
		return nil
	}
	st, ok := n.Underlying().(*types.Struct)
	if !ok {
		return nil
	}
	for j := 0; j < st.NumFields(); j++ {
		if st.Field(j).Name() == carrier[i+1:] {
			return st.Field(j)
		}
	}
	return nil
}

func runC12Bind(c *Ctx, b *c12BindCfg) {
	fl := func(id string) int { return b.floors[id] }
	c.Rule("C12-B1", "binding converters are total: every path through one iteration of a converter loop stores an entry for the current binding or returns a non-nil error; error results of calls in the loop are bound and tested; "+
		"the entry is stored under the binding's own name, derives from the binding, and (planbuilder) is built by the function that builds inline literals; the filled map is handed on", fl("C12-B1"))
	c.Rule("C12-B2", "one substitution mechanism: the bind context is written/built only by the setters, its value map is read only by the lookup (which returns exactly the map's answer) called only by the substitution function; "+
		"a placeholder whose binding is absent aborts planbuilding; placeholder expressions are built only when no bindings could apply", fl("C12-B2"))
	c.Rule("C12-B3", "a function that receives bindings hands them (or their conversion) to every callee that expects bindings: they are never dropped between the entry points and the planbuilder", fl("C12-B3"))
	convs := append([]c12Conv{}, b.convs...)
	sort.SliceStable(convs, func(i, j int) bool { return convs[i].Rel+convs[i].Fn < convs[j].Rel+convs[j].Fn })
	for _, cv := range convs {
		runC12Conv(c, b, cv)
	}
	runC12Subst(c, b)
	runC12Forward(c, b)
	dumpObsIfAsked(c)
}

func unitBody(fd *ast.FuncDecl, n ast.Node) *ast.BlockStmt { return c11UnitOf(fd, n) }

// c12EnclosingCond names the innermost if-condition (then-branch: "if c", else-branch: "unless c") that encloses n.
func c12EnclosingCond(body *ast.BlockStmt, n ast.Node) string {
	res := "unconditionally"
	ast.Inspect(body, func(m ast.Node) bool {
		if is, ok := m.(*ast.IfStmt); ok {
			if c48Contains(is.Body, n) {
				res = "if " + types.ExprString(is.Cond)
			} else if is.Else != nil && c48Contains(is.Else, n) {
				res = "unless " + types.ExprString(is.Cond)
			}
		}
		return true
	})
	return res
}

// c12PkgName renders a module package path relative to the module ("sqle" for the root package).
func c12PkgName(path string) string {
	if path == modPath {
		return "sqle"
	}
	return strings.TrimPrefix(path, modPath+"/")
}
