package main

import (
	"fmt"
	"go/ast"
	"go/constant"
	"go/token"
	"go/types"
	"sort"
	"strings"
)

func init() {
	register(&Property{
		ID:        "C30",
		Patterns:  []string{"./sql/encodings"},
		Thorough:  []string{"./sql/encodings"},
		Technique: "constant-table extraction from RangeMap composite literals (go/types + go/constant) and closed-form table algebra (shape, multiset equality, exact mixed radix, rectangle disjointness)",
		Explanation: "Every table-driven character set is a RangeMap literal: inputEntries (charset bytes -> UTF-8, grouped by input length, searched by inputRange) and " +
			"outputEntries (the same entries grouped by output length, searched by outputRange). DecodeRune/EncodeRune turn the digits of the matched rectangle into a number with one " +
			"multiplier vector and divide it greedily by the other. Decided for every literal: (R0) both tables have the same number of length buckets; (R1) in bucket k of inputEntries " +
			"every entry has k+1 input digits, in bucket k of outputEntries k+1 output digits, each range vector has as many multipliers as digits and lo<=hi; (R2) inputEntries and " +
			"outputEntries hold the same multiset of entries; (R3) both multiplier vectors are exact mixed radices of their ranges (last weight 1, each weight = next weight x next digit's " +
			"range size) and the input rectangle is not larger than the output rectangle; (R4) inside one bucket the searched ranges are pairwise disjoint, and so are the produced ranges " +
			"of one length. R0-R4 together with the 20-line arithmetic imply that Decode and Encode are total on their rectangles, injective and mutually inverse, i.e. the round trip " +
			"of every representable character; a violated instance is a character that does not survive the round trip or an index/slice panic in DecodeRune/EncodeRune.",
		NotCovered: "the bounds guards of Encode/Decode/EncodeReplaceUnknown (rule R5, decided under C10's bounds rule by another author), the hand-written encoders (utf16 surrogates beyond the table, " +
			"binary), the case-mapping tables toUpper/toLower, that the tables agree with MySQL's character sets",
		Run: func(c *Ctx) { runC30(c, "sql/encodings", "RangeMap", 12) },
		Fixture: func(c *Ctx, fx *Prog) {
			expectFixture(c, fx, "c30: broken table (bucket count, shape, missing twin, radix, overlap) must be reported",
				[]string{
					"C30-R0:Bad",
					"C30-R1:Bad/inputEntries/(41..5A)", "C30-R1:Bad/outputEntries/(41..5A)",
					"C30-R2:Bad/(80..80)/only-inputEntries",
					"C30-R2:Bad/(C0..C1)/only-inputEntries", "C30-R2:Bad/(C0..C1)/only-outputEntries",
					"C30-R3:Bad/inputEntries/(C0..C1)", "C30-R3:Bad/outputEntries/(C0..C1)",
					"C30-R4:Bad/inputEntries/len=1/searched", "C30-R4:Bad/outputEntries/len=1/produced",
				},
				func(fc *Ctx) { runC30(fc, "testdata/c30/enc", "RangeMap", 0) })
		},
		FixturePkgs: []string{"./testdata/c30/enc"},
	})
}

type c30Entry struct {
	in, out   [][2]int
	inM, outM []int
	pos       token.Pos
	shapeErr  string // literal not readable as a constant entry
}

func (e *c30Entry) inKey() string { return c30RangeString(e.in) }

func c30RangeString(r [][2]int) string {
	var parts []string
	for _, b := range r {
		parts = append(parts, fmt.Sprintf("%02X..%02X", b[0], b[1]))
	}
	return "(" + strings.Join(parts, ",") + ")"
}

func (e *c30Entry) canon() string {
	return fmt.Sprintf("%v|%v|%v|%v", e.in, e.out, e.inM, e.outM)
}

type c30Table struct {
	name    string
	pos     token.Pos
	in, out [][]*c30Entry // nil bucket = nil
	hasIn   bool
	hasOut  bool
}

func runC30(c *Ctx, rel, typeName string, floorTables int) {
	fl := func(n int) int {
		if c.fixtureMode || floorTables == 0 {
			return 0
		}
		return n
	}
	c.Rule("C30-R0", "per RangeMap literal: len(inputEntries) == len(outputEntries) (Encode's loop bound reads one table, EncodeRune indexes the other)", fl(12))
	c.Rule("C30-R1", "per entry: in inputEntries[k] len(inputRange)==k+1, in outputEntries[k] len(outputRange)==k+1; len(inputMults)==len(inputRange), len(outputMults)==len(outputRange); lo<=hi", fl(850))
	c.Rule("C30-R2", "per entry: it occurs in inputEntries and in outputEntries with identical ranges and multipliers (same multiset)", fl(425))
	c.Rule("C30-R3", "per entry: inputMults and outputMults are exact mixed radices of their ranges (last==1, m[i]==m[i+1]*size[i+1]) and card(inputRange) <= card(outputRange)", fl(850))
	c.Rule("C30-R4", "per length bucket: the searched ranges (inputRange in inputEntries, outputRange in outputEntries) are pairwise disjoint rectangles, and so are the produced ranges of equal length", fl(98))
	pk := c.P.Pkg(rel)
	if pk == nil {
		c.Undecided("C30-R0", "package", 0, "package not loaded: "+rel)
		return
	}
	tn, _ := pk.Types.Scope().Lookup(typeName).(*types.TypeName)
	if tn == nil {
		c.Undecided("C30-R0", typeName, 0, "type not found")
		return
	}
	info := pk.TypesInfo
	var tables []*c30Table
	for _, file := range pk.Syntax {
		for _, d := range file.Decls {
			gd, ok := d.(*ast.GenDecl)
			if !ok || gd.Tok != token.VAR {
				continue
			}
			for _, sp := range gd.Specs {
				vs := sp.(*ast.ValueSpec)
				for i, v := range vs.Values {
					name := "?"
					if i < len(vs.Names) {
						name = vs.Names[i].Name
					}
					ast.Inspect(v, func(n ast.Node) bool {
						lit, ok := n.(*ast.CompositeLit)
						if !ok {
							return true
						}
						if tv, ok := info.Types[lit]; !ok || !types.Identical(tv.Type, tn.Type()) {
							return true
						}
						tables = append(tables, c30ReadTable(c, info, name, lit))
						return false
					})
				}
			}
		}
	}
	// literals outside package-level vars would escape the enumeration: count all literals of the type
	nLits := 0
	for _, file := range pk.Syntax {
		ast.Inspect(file, func(n ast.Node) bool {
			if lit, ok := n.(*ast.CompositeLit); ok {
				if tv, ok := info.Types[lit]; ok && types.Identical(tv.Type, tn.Type()) {
					nLits++
				}
			}
			return true
		})
	}
	if nLits != len(tables) {
		c.Undecided("C30-R0", "literals", tn.Pos(), fmt.Sprintf("%d %s literals in the package but only %d are package-level variable values: a table built elsewhere is not read", nLits, typeName, len(tables)))
	}
	if len(tables) < floorTables {
		c.Undecided("C30-R0", "tables", tn.Pos(), fmt.Sprintf("found %d %s literals, expected at least %d", len(tables), typeName, floorTables))
	}
	sort.Slice(tables, func(i, j int) bool { return tables[i].name < tables[j].name })
	total := 0
	for _, t := range tables {
		total += c30CheckTable(c, t)
	}
	c.Notef("%d %s literals, %d distinct entries", len(tables), typeName, total)

	// ---- R6: every length bucket is probed -----------------------------------------------------
	// The kernels probe candidate encoded lengths n = 1 … len(entries) (bucket n-1 holds the entries of
	// length n). Every comparison of a candidate length with the bucket count must treat n == count as
	// in range: `n <= len(entries)` continues the probe, `n > len(entries)` means "not found". An
	// exclusive form (`<`, `>=`) silently drops the longest bucket (e.g. 4-byte UTF-8 sequences).
	if typeName == "RangeMap" && !c.fixtureMode {
		c.Rule("C30-R6", "every comparison of a candidate rune length with len(inputEntries)/len(outputEntries) in the RangeMap kernels is inclusive of the last bucket (<= continues, > rejects)", 6)
		info := pk.TypesInfo
		for _, file := range pk.Syntax {
			for _, d := range file.Decls {
				fd, ok := d.(*ast.FuncDecl)
				if !ok || fd.Body == nil || fd.Recv == nil || !strings.HasPrefix(DeclName(fd), typeName+".") {
					continue
				}
				ast.Inspect(fd.Body, func(n ast.Node) bool {
					be, ok := n.(*ast.BinaryExpr)
					if !ok {
						return true
					}
					isCount := func(e ast.Expr) bool {
						call, ok := ast.Unparen(e).(*ast.CallExpr)
						if !ok || !IsBuiltinCall(info, call, "len") || len(call.Args) != 1 {
							return false
						}
						se, ok := ast.Unparen(call.Args[0]).(*ast.SelectorExpr)
						return ok && (se.Sel.Name == "inputEntries" || se.Sel.Name == "outputEntries")
					}
					op := be.Op
					var other ast.Expr
					switch {
					case isCount(be.Y):
						other = be.X
					case isCount(be.X):
						other = be.Y
						// mirror the operator so that it reads `other op count`
						op = map[token.Token]token.Token{token.LSS: token.GTR, token.GTR: token.LSS, token.LEQ: token.GEQ, token.GEQ: token.LEQ}[be.Op]
					default:
						return true
					}
					if op != token.LSS && op != token.LEQ && op != token.GTR && op != token.GEQ {
						return true
					}
					key := DeclName(fd) + "/" + types.ExprString(other) + " vs " + types.ExprString(be)[strings.LastIndex(types.ExprString(be), "len("):]
					c.Check(op == token.LEQ || op == token.GTR, "C30-R6", key, be.Pos(), types.ExprString(be),
						fmt.Sprintf("`%s` excludes a candidate length equal to the number of length buckets: the longest encodings (last bucket) are never looked up / are reported as unknown, so representable characters do not round-trip", types.ExprString(be)))
					return true
				})
			}
		}
	}

	// ---- R5: bounds of the kernels (engine eng_bounds.go; the same obligations are also registered under C10-B1).
	// Exceptions inside the engine name the table-shape invariant R1 that the rules above establish.
	if typeName == "RangeMap" && !c.fixtureMode {
		c.Rule("C30-R5", "every index/slice expression of RangeMap.{Encode,Decode,EncodeReplaceUnknown,EncodeRune,DecodeRune} and rangeBounds.contains is in range on every path (zone-domain bounds engine); accesses that are in range only by the table shape rest on R1", 20)
		BoundsCheckFuncs(c, "C30-R5", BoundsRangeMapKernels(c.P))
	}
}

func c30ReadTable(c *Ctx, info *types.Info, name string, lit *ast.CompositeLit) *c30Table {
	t := &c30Table{name: name, pos: lit.Pos()}
	for _, el := range lit.Elts {
		kv, ok := el.(*ast.KeyValueExpr)
		if !ok {
			c.Undecided("C30-R0", name+"/unkeyed", el.Pos(), "RangeMap literal with positional fields is not read")
			continue
		}
		key, _ := kv.Key.(*ast.Ident)
		if key == nil {
			continue
		}
		switch key.Name {
		case "inputEntries":
			t.in, t.hasIn = c30ReadBuckets(c, info, name, kv.Value), true
		case "outputEntries":
			t.out, t.hasOut = c30ReadBuckets(c, info, name, kv.Value), true
		}
	}
	return t
}

func c30ReadBuckets(c *Ctx, info *types.Info, name string, v ast.Expr) [][]*c30Entry {
	lit, ok := ast.Unparen(v).(*ast.CompositeLit)
	if !ok {
		c.Undecided("C30-R0", name+"/entries", v.Pos(), "entries table is not a composite literal")
		return nil
	}
	var out [][]*c30Entry
	for _, b := range lit.Elts {
		if _, isKV := b.(*ast.KeyValueExpr); isKV {
			c.Undecided("C30-R0", name+"/indexed-bucket", b.Pos(), "bucket list with explicit indexes is not read")
			continue
		}
		if isNilIdent(info, b) {
			out = append(out, nil)
			continue
		}
		bl, ok := ast.Unparen(b).(*ast.CompositeLit)
		if !ok {
			c.Undecided("C30-R0", name+"/bucket", b.Pos(), "bucket is neither nil nor a composite literal")
			out = append(out, nil)
			continue
		}
		bucket := []*c30Entry{}
		for _, e := range bl.Elts {
			bucket = append(bucket, c30ReadEntry(info, e))
		}
		out = append(out, bucket)
	}
	return out
}

func c30ReadEntry(info *types.Info, e ast.Expr) *c30Entry {
	ent := &c30Entry{pos: e.Pos()}
	lit, ok := ast.Unparen(e).(*ast.CompositeLit)
	if !ok {
		ent.shapeErr = "entry is not a composite literal"
		return ent
	}
	seen := map[string]bool{}
	for _, el := range lit.Elts {
		kv, ok := el.(*ast.KeyValueExpr)
		if !ok {
			ent.shapeErr = "entry with positional fields"
			return ent
		}
		key, _ := kv.Key.(*ast.Ident)
		if key == nil {
			ent.shapeErr = "entry key is not an identifier"
			return ent
		}
		seen[key.Name] = true
		switch key.Name {
		case "inputRange", "outputRange":
			r, err := c30ReadRange(info, kv.Value)
			if err != "" {
				ent.shapeErr = key.Name + ": " + err
				return ent
			}
			if key.Name == "inputRange" {
				ent.in = r
			} else {
				ent.out = r
			}
		case "inputMults", "outputMults":
			m, err := c30ReadInts(info, kv.Value)
			if err != "" {
				ent.shapeErr = key.Name + ": " + err
				return ent
			}
			if key.Name == "inputMults" {
				ent.inM = m
			} else {
				ent.outM = m
			}
		default:
			ent.shapeErr = "unknown entry field " + key.Name
			return ent
		}
	}
	return ent
}

func c30ReadInts(info *types.Info, v ast.Expr) ([]int, string) {
	lit, ok := ast.Unparen(v).(*ast.CompositeLit)
	if !ok {
		return nil, "not a composite literal"
	}
	var out []int
	for _, el := range lit.Elts {
		if _, isKV := el.(*ast.KeyValueExpr); isKV {
			return nil, "indexed elements"
		}
		tv, ok := info.Types[el]
		if !ok || tv.Value == nil || tv.Value.Kind() != constant.Int {
			return nil, "non-constant element"
		}
		n, exact := constant.Int64Val(tv.Value)
		if !exact {
			return nil, "constant out of range"
		}
		out = append(out, int(n))
	}
	return out, ""
}

func c30ReadRange(info *types.Info, v ast.Expr) ([][2]int, string) {
	lit, ok := ast.Unparen(v).(*ast.CompositeLit)
	if !ok {
		return nil, "not a composite literal"
	}
	var out [][2]int
	for _, el := range lit.Elts {
		if _, isKV := el.(*ast.KeyValueExpr); isKV {
			return nil, "indexed elements"
		}
		pair, err := c30ReadInts(info, el)
		if err != "" {
			return nil, err
		}
		var b [2]int // [2]byte literal: missing elements are zero
		if len(pair) > 2 {
			return nil, "more than two bounds"
		}
		copy(b[:], pair)
		out = append(out, b)
	}
	return out, ""
}

func c30Card(r [][2]int) int64 {
	n := int64(1)
	for _, b := range r {
		n *= int64(b[1] - b[0] + 1)
	}
	return n
}

// c30Radix explains why mults is not the exact mixed radix of r ("" if it is).
func c30Radix(r [][2]int, m []int) string {
	if len(m) != len(r) || len(m) == 0 {
		return "" // shape is R1's business
	}
	if m[len(m)-1] != 1 {
		return fmt.Sprintf("last multiplier is %d, must be 1 (the greedy division drops the remainder)", m[len(m)-1])
	}
	for i := len(m) - 2; i >= 0; i-- {
		size := r[i+1][1] - r[i+1][0] + 1
		want := m[i+1] * size
		switch {
		case m[i] == want:
		case m[i] < want:
			return fmt.Sprintf("multiplier[%d]=%d < multiplier[%d]*size[%d]=%d*%d: two byte sequences of the rectangle get the same number (collision) or the greedy division yields a digit outside its range", i, m[i], i+1, i+1, m[i+1], size)
		default:
			return fmt.Sprintf("multiplier[%d]=%d > multiplier[%d]*size[%d]=%d*%d: sparse radix, the other side's division is not decided to stay inside its ranges (UNDECIDED, never a pass)", i, m[i], i+1, i+1, m[i+1], size)
		}
	}
	return ""
}

func c30Disjoint(a, b [][2]int) bool {
	if len(a) != len(b) {
		return true
	}
	for i := range a {
		if a[i][1] < b[i][0] || b[i][1] < a[i][0] {
			return true
		}
	}
	return false
}

func c30CheckTable(c *Ctx, t *c30Table) int {
	if !t.hasIn || !t.hasOut {
		c.Undecided("C30-R0", t.name, t.pos, "literal lacks inputEntries or outputEntries")
		return 0
	}
	c.Check(len(t.in) == len(t.out), "C30-R0", t.name, t.pos, fmt.Sprintf("%d buckets", len(t.in)),
		fmt.Sprintf("inputEntries has %d length buckets, outputEntries has %d: Encode loops up to len(inputEntries) while EncodeRune rejects len(r) > len(outputEntries) (characters of the longer length are never converted, or conversion stops early)", len(t.in), len(t.out)))

	type sideT struct {
		name    string
		buckets [][]*c30Entry
	}
	sides := []sideT{{"inputEntries", t.in}, {"outputEntries", t.out}}
	multiset := [2]map[string][]*c30Entry{{}, {}}
	for si, side := range sides {
		for k, bucket := range side.buckets {
			for _, e := range bucket {
				key := t.name + "/" + side.name + "/" + e.inKey()
				if e.shapeErr != "" {
					c.Undecided("C30-R1", key, e.pos, e.shapeErr)
					continue
				}
				// R1
				var bad []string
				searched, sname := e.in, "inputRange"
				if si == 1 {
					searched, sname = e.out, "outputRange"
				}
				if len(searched) != k+1 {
					bad = append(bad, fmt.Sprintf("len(%s)=%d in bucket %d (must be %d: the bucket is indexed by len(r)-1 and %s.contains reads r[i] for i < len(%s))", sname, len(searched), k, k+1, sname, sname))
				}
				if len(e.inM) != len(e.in) {
					bad = append(bad, fmt.Sprintf("len(inputMults)=%d != len(inputRange)=%d (inputMults[i] is indexed for i < len(inputRange))", len(e.inM), len(e.in)))
				}
				if len(e.outM) != len(e.out) {
					bad = append(bad, fmt.Sprintf("len(outputMults)=%d != len(outputRange)=%d", len(e.outM), len(e.out)))
				}
				if len(e.in) == 0 || len(e.out) == 0 {
					bad = append(bad, "empty range")
				}
				for _, r := range append(append([][2]int{}, e.in...), e.out...) {
					if r[0] > r[1] || r[0] < 0 || r[1] > 255 {
						bad = append(bad, fmt.Sprintf("bounds {%d,%d} are not lo<=hi within a byte", r[0], r[1]))
					}
				}
				c.Check(len(bad) == 0, "C30-R1", key, e.pos, "", strings.Join(bad, "; "))
				// R3
				var r3 []string
				if len(bad) == 0 {
					if s := c30Radix(e.in, e.inM); s != "" {
						r3 = append(r3, "inputMults "+fmt.Sprint(e.inM)+" for "+c30RangeString(e.in)+": "+s)
					}
					if s := c30Radix(e.out, e.outM); s != "" {
						r3 = append(r3, "outputMults "+fmt.Sprint(e.outM)+" for "+c30RangeString(e.out)+": "+s)
					}
					if ci, co := c30Card(e.in), c30Card(e.out); ci > co {
						r3 = append(r3, fmt.Sprintf("input rectangle %s has %d members, output rectangle %s only %d: decoding cannot be injective", c30RangeString(e.in), ci, c30RangeString(e.out), co))
					}
					c.Check(len(r3) == 0, "C30-R3", key, e.pos, "", strings.Join(r3, "; "))
				}
				multiset[si][e.canon()] = append(multiset[si][e.canon()], e)
			}
		}
	}
	// R2: same multiset
	keys := map[string]bool{}
	for si := range multiset {
		for k := range multiset[si] {
			keys[k] = true
		}
	}
	var ks []string
	for k := range keys {
		ks = append(ks, k)
	}
	sort.Strings(ks)
	for _, k := range ks {
		a, b := multiset[0][k], multiset[1][k]
		var e *c30Entry
		if len(a) > 0 {
			e = a[0]
		} else {
			e = b[0]
		}
		key := t.name + "/" + e.inKey()
		if len(a) > len(b) {
			key += "/only-inputEntries"
		} else if len(b) > len(a) {
			key += "/only-outputEntries"
		}
		c.Check(len(a) == len(b), "C30-R2", key, e.pos, "",
			fmt.Sprintf("entry in=%s out=%s inputMults=%v outputMults=%v occurs %d time(s) in inputEntries and %d time(s) in outputEntries: one direction of the conversion has no (or a different) inverse entry",
				c30RangeString(e.in), c30RangeString(e.out), e.inM, e.outM, len(a), len(b)))
	}
	// R4: disjointness per bucket (searched ranges), and of the produced ranges of equal length
	for si, side := range sides {
		for k, bucket := range side.buckets {
			if len(bucket) == 0 {
				continue
			}
			for _, what := range []string{"searched", "produced"} {
				pick := func(e *c30Entry) [][2]int {
					if (si == 0) == (what == "searched") {
						return e.in
					}
					return e.out
				}
				var clash string
				for i := 0; i < len(bucket) && clash == ""; i++ {
					for j := i + 1; j < len(bucket); j++ {
						if bucket[i].shapeErr != "" || bucket[j].shapeErr != "" {
							continue
						}
						if !c30Disjoint(pick(bucket[i]), pick(bucket[j])) {
							clash = fmt.Sprintf("%s (entry in=%s) overlaps %s (entry in=%s)", c30RangeString(pick(bucket[i])), bucket[i].inKey(), c30RangeString(pick(bucket[j])), bucket[j].inKey())
							break
						}
					}
				}
				key := fmt.Sprintf("%s/%s/len=%d/%s", t.name, side.name, k+1, what)
				msg := "first-match lookup is ambiguous: the earlier entry shadows the later one"
				if what == "produced" {
					msg = "two different inputs of this bucket are converted to the same bytes (not injective)"
				}
				c.Check(clash == "", "C30-R4", key, bucket[0].pos, fmt.Sprintf("%d entries", len(bucket)), clash+": "+msg)
			}
		}
	}
	return len(ks)
}
