package main

import (
	"fmt"
	"go/token"
	"go/types"
	"sort"

	"golang.org/x/tools/go/ssa"
)

// C09-E4 — NULL in, NULL out: if Eval returns the literal NULL because the evaluated value of child X is
// NULL (and nothing else on the way depends on data except "no error" and "the other children are not NULL"), then
// IsNullable must be true whenever X.IsNullable() is.

type c09Prop struct {
	child string
	g     c09G
	pos   token.Pos
}

// c09EvalOf: v is Extract #0 of `recv.<child>.Eval(...)` -> child path
func c09EvalOf(r *c09FieldReader, v ssa.Value, evalM string) (string, bool) {
	ex, ok := v.(*ssa.Extract)
	if !ok || ex.Index != 0 {
		return "", false
	}
	call, ok := ex.Tuple.(*ssa.Call)
	if !ok || !call.Call.IsInvoke() || call.Call.Method.Name() != evalM {
		return "", false
	}
	return r.valuePath(call.Call.Value)
}

func c09NullProps(fn *ssa.Function, r *c09FieldReader, evalM string) []c09Prop {
	var out []c09Prop
	seen := map[string]bool{}
	visited := map[string]bool{}
	type state struct {
		b     *ssa.BasicBlock
		g     c09G
		env   c09Env
		child string
	}
	var walk func(s state, depth int)
	walk = func(s state, depth int) {
		if depth > 80 {
			return
		}
		key := fmt.Sprintf("%d|%s|%v|%s", s.b.Index, s.g.key(), s.env, s.child)
		if visited[key] {
			return
		}
		visited[key] = true
		switch x := s.b.Instrs[len(s.b.Instrs)-1].(type) {
		case *ssa.Return:
			if s.child != "" && len(x.Results) == 2 && ngIsNilConst(c09RetVal(x, 0)) && ngIsNilConst(c09RetVal(x, 1)) {
				k := s.child + "|" + s.g.key()
				if !seen[k] {
					seen[k] = true
					out = append(out, c09Prop{s.child, s.g, x.Pos()})
				}
			}
		case *ssa.Jump:
			walk(state{s.b.Succs[0], s.g, c09Step(s.b, s.b.Succs[0], s.env), s.child}, depth+1)
		case *ssa.If:
			if a, whenTrue, ok := r.atomOf(x.Cond, s.env); ok {
				for i, succ := range s.b.Succs {
					atomVal := whenTrue == (i == 0)
					if v, known := s.g.lookup(a); known {
						if v != atomVal {
							continue
						}
						walk(state{succ, s.g, c09Step(s.b, succ, s.env), s.child}, depth+1)
					} else {
						walk(state{succ, s.g.with(a, atomVal), c09Step(s.b, succ, s.env), s.child}, depth+1)
					}
				}
				return
			}
			be, ok := x.Cond.(*ssa.BinOp)
			if !ok || (be.Op != token.EQL && be.Op != token.NEQ) {
				return
			}
			var v ssa.Value
			switch {
			case ngIsNilConst(be.Y):
				v = be.X
			case ngIsNilConst(be.X):
				v = be.Y
			default:
				return
			}
			nilEdge := 0 // successor taken when v == nil
			if be.Op == token.NEQ {
				nilEdge = 1
			}
			if IsErrorType(v.Type()) {
				if s.child != "" {
					return
				}
				succ := s.b.Succs[nilEdge]
				walk(state{succ, s.g, c09Step(s.b, succ, s.env), s.child}, depth+1)
				return
			}
			if ch, ok := c09EvalOf(r, v, evalM); ok {
				if s.child == "" {
					succ := s.b.Succs[nilEdge]
					walk(state{succ, s.g, c09Step(s.b, succ, s.env), ch}, depth+1)
					other := s.b.Succs[1-nilEdge]
					walk(state{other, s.g, c09Step(s.b, other, s.env), ""}, depth+1)
				}
				return
			}
		}
	}
	walk(state{fn.Blocks[0], c09G{}, c09Env{}, ""}, 0)
	sort.Slice(out, func(i, j int) bool { return out[i].child+out[i].g.key() < out[j].child+out[j].g.key() })
	return out
}

// c09E4Exceptions: construct -> reason (one symbol each).
var c09E4Exceptions = map[string]string{}

func c09CheckNullProp(c *Ctx, key string, T types.Type, pkg *types.Package, nullable, eval *types.Func, cfg c09Config) {
	nsf := c.P.SSAFunc(nullable)
	esf := c.P.SSAFunc(eval)
	if nsf == nil || esf == nil || len(nsf.Blocks) == 0 || len(esf.Blocks) == 0 {
		return
	}
	ep, ok1 := c09EmbedPrefix(T, pkg, cfg.EvalM)
	np, ok2 := c09EmbedPrefix(T, pkg, cfg.NullableM)
	if !ok1 || !ok2 {
		return
	}
	er := c09NewFieldReader(esf, ep)
	nr := c09NewFieldReader(nsf, np)
	for _, pr := range c09NullProps(esf, er, cfg.EvalM) {
		k := key + "/" + pr.child
		if len(pr.g) > 0 {
			k += " [" + pr.g.String() + "]"
		}
		classes := c09FoldNullable(c.P, nsf, nr, pr.g, cfg.NullableM, pr.child)
		// IsNullable that consults children it reaches through a collection (for _, ch := range e.Children()) cannot be
		// related to one child: not decided
		opaque := false
		for _, b := range nsf.Blocks {
			for _, in := range b.Instrs {
				if call, ok := in.(*ssa.Call); ok && call.Call.IsInvoke() && call.Call.Method.Name() == cfg.NullableM {
					if _, isField := nr.valuePath(call.Call.Value); !isField {
						opaque = true
					}
				}
			}
		}
		switch {
		case opaque:
			c.Note("C09-E4", k, pr.pos, "not decided: IsNullable consults children through a collection or a local (which child is not read)")
		case len(classes["FALSE"])+len(classes["CHILD"]) > 0:
			if why, ok := c09E4Exceptions[k]; ok && !c.fixtureMode {
				c.Exc("C09-E4", k, pr.pos, why)
				continue
			}
			var path []string
			for _, at := range classes["FALSE"] {
				path = append(path, at+": IsNullable returns false although "+pr.child+" is nullable")
			}
			for _, at := range classes["CHILD"] {
				path = append(path, at+": IsNullable returns only another child's nullability although "+pr.child+" is nullable")
			}
			c.Bad("C09-E4", k, pr.pos, fmt.Sprintf("%s: Eval returns the literal NULL when the value of %s is NULL (%s), but IsNullable (%s) does not return true whenever %s is nullable: a NULL in a nullable argument yields NULL in a column announced NOT NULL", key, pr.child, c.P.Rel(pr.pos), c.P.Rel(nullable.Pos()), pr.child), path...)
		case len(classes["UNKNOWN"])+len(classes["PANIC"]) > 0:
			c.Note("C09-E4", k, pr.pos, fmt.Sprintf("not decided (%v %v)", classes["UNKNOWN"], classes["PANIC"]))
		default:
			c.Ok("C09-E4", k, pr.pos, "IsNullable is true whenever "+pr.child+" is nullable")
		}
	}
}
