package main

import (
	"fmt"
	"go/ast"
	"go/token"
	"go/types"
	"sort"
	"strings"

	"golang.org/x/tools/go/cfg"
	"golang.org/x/tools/go/packages"
)

// C21 — schema changes fail without effect: the table-rewrite abort protocol.

type c21Params struct {
	execRel    string   // package with the rewrite functions ("sql/rowexec")
	sqlRel     string   // package declaring the editor interfaces ("sql")
	ocIface    string   // "EditOpenerCloser"
	acquire    []string // method names that hand out a rewrite inserter: RewriteInserter, BuildIndex
	backendRel string   // backend package whose acquisition must be effect-free ("memory"), "" to skip R3
	entries    []string // backend acquisition entry points: "Table.RewriteInserter", "Table.BuildIndex"
	publish    string   // backend publication function: "Session.putTable"
	floors     map[string]int
}

var c21Repo = c21Params{
	execRel: "sql/rowexec", sqlRel: "sql", ocIface: "EditOpenerCloser",
	acquire:    []string{"RewriteInserter", "BuildIndex"},
	backendRel: "memory", entries: []string{"Table.RewriteInserter", "Table.BuildIndex"}, publish: "Session.putTable",
	floors: map[string]int{"C21-R0": 7, "C21-R1": 40, "C21-R2": 14, "C21-R3": 1},
}

// c21R1Exceptions: error exits between acquisition and Close that skip DiscardChanges/Close. With the
// in-tree backend the rewrite editor works on a private copy of the table and publishes it only in
// Close (side condition C21-R3), so these exits leave the table untouched: demonstrated harmless
// (repro/c21_test.go TestC21AbortedRewriteLeavesTable), hence exceptions, not findings. One exit per entry.
var c21R1Exceptions = map[string]string{}

func init() {
	for _, k := range []string{
		"modifyColumnIter.rewriteTable/exit Partitions",
		"modifyColumnIter.rewriteTable/exit ErrDataTruncatedForColumn.New",
		"createPkIter.rewriteTable/exit Partitions",
		"createPkIter.rewriteTable/exit ErrInsertIntoNonNullableProvidedNull.New",
		"dropPkIter.rewriteTable/exit Partitions",
		"addColumnIter.rewriteTable/exit Partitions",
		"addColumnIter.rewriteTable/exit ErrAutoIncrementNotSupported.New",
		"addColumnIter.rewriteTable/exit GetNextAutoIncrementValue",
		"addColumnIter.rewriteTable/exit Convert",
		"dropColumnIter.rewriteTable/exit Partitions",
		"buildIndex/exit Partitions",
		"buildIndex/exit ProjectRow",
		"rewriteTableForIndexCreate/exit Partitions",
		"rewriteTableForIndexCreate/exit ProjectRow",
	} {
		c21R1Exceptions[k] = "leaves the inserter neither discarded nor closed; harmless with the in-tree backend: the rewrite editor edits a private copy that only Close publishes (C21-R3), demonstrated by repro TestC21AbortedRewriteLeavesTable"
	}
	register(&Property{
		ID:       "C21",
		Patterns: []string{"./sql/rowexec", "./memory"},
		Explanation: "\"Otherwise the statement fails without effect\" for the table-rewrite paths of ALTER TABLE. Decided: (R0) every function of sql/rowexec that obtains a rewrite inserter (RewritableTable.RewriteInserter, IndexBuildingTable.BuildIndex) keeps it in a local variable and tests the acquisition error before use; " +
			"(R1) every return with a possibly non-nil error that is reachable after a successful acquisition passes inserter.DiscardChanges and then inserter.Close on every CFG path (never Close before DiscardChanges: the in-memory Close publishes the half-written copy unless DiscardChanges ran); " +
			"(R2) every successful return passes inserter.Close, whose error result is not dropped and is not swallowed; " +
			"(R3) in the in-memory backend the acquisition itself (Table.RewriteInserter / Table.BuildIndex and everything they call inside the package) never publishes table data to the session (Session.putTable): only the editor's Close may, so an aborted rewrite has nothing to undo.",
		NotCovered: "value conversion of existing rows, information_schema afterwards, in-place AddColumn/DropColumn/ModifyColumn of the backend, addColumnIter.UpdateRowsWithDefaults (a plain Updater used without statement boundaries), whether DiscardChanges restores full-text side tables",
		Technique:  "CFG must-pass-through with abstract error state (acquire = successful RewriteInserter, release = DiscardChanges then Close) + who-may-call reachability",
		Run:        func(c *Ctx) { runC21(c, c21Repo) },
		Fixture: func(c *Ctx, fx *Prog) {
			p := c21Params{execRel: "testdata/c21/exec", sqlRel: "testdata/c21/sql", ocIface: "EditOpenerCloser", acquire: []string{"RewriteInserter"},
				backendRel: "testdata/c21/mem", entries: []string{"Table.RewriteInserter"}, publish: "Session.putTable", floors: map[string]int{}}
			expectFixture(c, fx, "c21: broken rewrite functions must be reported", []string{
				"C21-R1:rewriteLeaky/exit Convert",
				"C21-R1:rewriteCloseFirst/exit Insert",
				"C21-R2:rewriteNoClose/success",
				"C21-R2:rewriteDropsCloseErr/close-error",
				"C21-R2:rewriteCloseFirst/close-error",
				"C21-R3:testdata/c21/mem.Table.prepare->Session.putTable",
			}, func(fc *Ctx) { runC21(fc, p) })
		},
		FixturePkgs: []string{"./testdata/c21/sql", "./testdata/c21/exec", "./testdata/c21/mem"},
	})
}

func runC21(c *Ctx, p c21Params) {
	c.Rule("C21-R0", "every rewrite-inserter acquisition (RewriteInserter / BuildIndex) is `x, err := …` into local variables", p.floors["C21-R0"])
	c.Rule("C21-R1", "after a successful acquisition every error exit passes x.DiscardChanges and then x.Close on every path", p.floors["C21-R1"])
	c.Rule("C21-R2", "after a successful acquisition every successful exit passes x.Close; the Close result is not dropped", p.floors["C21-R2"])
	c.Rule("C21-R3", "backend acquisition entry points never reach the session publication function (acquisition is effect-free; only Close publishes)", p.floors["C21-R3"])
	pk := c.P.Pkg(p.execRel)
	oc := dmlLookupIface(c.P, p.sqlRel, p.ocIface)
	if pk == nil || oc == nil {
		c.Undecided("C21-R0", "packages", 0, "package "+p.execRel+" or interface "+p.ocIface+" not found")
		return
	}
	info := pk.TypesInfo
	sqlPk := c.P.Pkg(p.sqlRel).Types
	isAcquire := func(call *ast.CallExpr) bool {
		fn := Callee(info, call)
		if fn == nil || fn.Pkg() != sqlPk {
			return false
		}
		for _, n := range p.acquire {
			if fn.Name() == n {
				sig := fn.Type().(*types.Signature)
				return sig.Recv() != nil && sig.Results().Len() == 2 && dmlImplements(sig.Results().At(0).Type(), oc)
			}
		}
		return false
	}
	c.P.EachFuncDecl([]string{p.execRel}, func(_ *packages.Package, fd *ast.FuncDecl) {
		var acqs []*ast.AssignStmt
		ast.Inspect(fd.Body, func(n ast.Node) bool {
			if x, ok := n.(*ast.AssignStmt); ok && len(x.Rhs) == 1 {
				if call, ok := ast.Unparen(x.Rhs[0]).(*ast.CallExpr); ok && isAcquire(call) {
					acqs = append(acqs, x)
				}
			}
			return true
		})
		// acquisitions not in an assignment
		nCalls := 0
		for _, call := range dmlCallsIn(fd.Body, true) {
			if isAcquire(call) {
				nCalls++
			}
		}
		name := DeclName(fd)
		if nCalls != len(acqs) {
			c.Bad("C21-R0", name+"/acquire", fd.Pos(), name+" obtains a rewrite inserter outside a plain `x, err := …` assignment: its lifecycle cannot be followed")
			return
		}
		for _, as := range acqs {
			c21Acquisition(c, pk, fd, as)
		}
	})
	if p.backendRel != "" {
		c21Backend(c, p)
	}
}

const (
	c21Discard      = 1 << 3 // DiscardChanges seen
	c21Close        = 1 << 4 // Close seen
	c21CloseFirst   = 1 << 5 // a Close happened before any DiscardChanges
	c21VFromClose   = 1 << 6 // the returned variable was last assigned from x.Close
	c21AcqPending   = 1 << 7 // the acquisition error has not been tested yet
	c21AcqShift     = 8      // 3 bits: abstract value of the acquisition error while pending
	c21DeferRelease = 1 << 11
	c21Committed    = 1 << 12 // a Close whose result is used ran while no error was pending: the rewrite is published
)

func c21Acquisition(c *Ctx, pk *packages.Package, fd *ast.FuncDecl, as *ast.AssignStmt) {
	info := pk.TypesInfo
	name := DeclName(fd)
	obj := func(e ast.Expr) types.Object {
		id, ok := e.(*ast.Ident)
		if !ok || id.Name == "_" {
			return nil
		}
		if o := info.Defs[id]; o != nil {
			return o
		}
		return info.Uses[id]
	}
	if len(as.Lhs) != 2 || obj(as.Lhs[0]) == nil || obj(as.Lhs[1]) == nil {
		c.Bad("C21-R0", name+"/acquire", as.Pos(), name+": the rewrite inserter or its error is not kept in a local variable")
		return
	}
	x, acqErr := obj(as.Lhs[0]), obj(as.Lhs[1])
	if v, ok := x.(*types.Var); !ok || v.IsField() || v.Parent() == v.Pkg().Scope() {
		c.Bad("C21-R0", name+"/acquire", as.Pos(), name+": the rewrite inserter is stored outside a local variable")
		return
	}
	c.Ok("C21-R0", name+"/acquire", as.Pos(), "inserter `"+x.Name()+"` acquired by "+types.ExprString(as.Rhs[0].(*ast.CallExpr).Fun))
	sig := info.Defs[fd.Name].(*types.Func).Type().(*types.Signature)
	g := c.P.CFG(info, fd.Body)
	start, ok := FindNode(g, as)
	if !ok {
		c.Undecided("C21-R1", name+"/cfg", as.Pos(), "acquisition not found in the CFG")
		return
	}
	callOnX := func(n ast.Node, method string, intoLits bool) *ast.CallExpr {
		for _, call := range dmlCallsIn(n, intoLits) {
			if recv, ok := dmlMethodCallOn(call, method); ok {
				if id, ok := ast.Unparen(recv).(*ast.Ident); ok && info.Uses[id] == x {
					return call
				}
			}
		}
		return nil
	}
	// the variable is not aliased / passed away: every use is a method call receiver
	escaped := false
	var stack []ast.Node
	ast.Inspect(fd.Body, func(n ast.Node) bool {
		if n == nil {
			stack = stack[:len(stack)-1]
			return true
		}
		stack = append(stack, n)
		if id, ok := n.(*ast.Ident); ok && info.Uses[id] == x && len(stack) >= 2 {
			if sel, ok := stack[len(stack)-2].(*ast.SelectorExpr); !ok || sel.X != ast.Expr(id) {
				escaped = true
			}
		}
		return true
	})
	if escaped {
		c.Undecided("C21-R1", name+"/escape", as.Pos(), "the rewrite inserter `"+x.Name()+"` is copied or passed to another function: its lifecycle cannot be followed locally")
		return
	}

	// group returns by exit key
	type exit struct {
		key  string
		rets []*ast.ReturnStmt
	}
	exits := map[string]*exit{}
	var order []string
	var succ []*ast.ReturnStmt
	ast.Inspect(fd.Body, func(n ast.Node) bool {
		switch r := n.(type) {
		case *ast.FuncLit:
			return false
		case *ast.ReturnStmt:
			if r.Pos() < as.Pos() {
				return true
			}
			e := dmlErrOperand(info, sig, r)
			if e == nil {
				return true
			}
			if isNilIdent(info, e) {
				succ = append(succ, r)
				return true
			}
			k := c21ExitOrigin(info, fd, r, e)
			if exits[k] == nil {
				exits[k] = &exit{key: k}
				order = append(order, k)
			}
			exits[k].rets = append(exits[k].rets, r)
		}
		return true
	})
	sort.Strings(order)

	// resultDropped: the statement drops the result of the call it contains (`x.Close()` / `_ = x.Close()`)
	resultDropped := func(n ast.Node) bool {
		switch s := n.(type) {
		case *ast.ExprStmt:
			return true
		case *ast.AssignStmt:
			for _, l := range s.Lhs {
				if id, ok := l.(*ast.Ident); !ok || id.Name != "_" {
					return false
				}
			}
			return true
		}
		return false
	}
	// onClose updates the state at a node that calls x.Close: a Close whose result is used and that runs
	// while the returned variable may still be nil (no error pending) commits the rewrite; any other
	// Close that is not preceded by DiscardChanges is a "Close first".
	onClose := func(n ast.Node, st int, v types.Object) int {
		st |= c21Close
		if st&c21Discard != 0 {
			return st
		}
		if !resultDropped(n) && (v == nil || st&dmlErrNil != 0) {
			return st | c21Committed
		}
		return st | c21CloseFirst
	}
	// generic walker over the paths from the acquisition to `ret`
	search := func(ret *ast.ReturnStmt, hit func(st int, v types.Object) bool) []ast.Node {
		var v types.Object
		if e := dmlErrOperand(info, sig, ret); e != nil {
			if id, ok := ast.Unparen(e).(*ast.Ident); ok {
				v = info.Uses[id]
			}
		}
		init := dmlErrAny | c21AcqPending | dmlErrAny<<c21AcqShift
		return dmlSearch(g, start, init,
			func(n ast.Node, st int) (int, dmlVerdict) {
				if r, ok := n.(*ast.ReturnStmt); ok {
					if callOnX(r, "Close", false) != nil {
						st = onClose(n, st, v) | c21VFromClose
					}
					if r == ret && hit(st, v) {
						return st, dmlHit
					}
					return st, dmlStop
				}
				if d, ok := n.(*ast.DeferStmt); ok {
					if lit, ok := d.Call.Fun.(*ast.FuncLit); ok && callOnX(lit.Body, "DiscardChanges", true) != nil && callOnX(lit.Body, "Close", true) != nil {
						st |= c21DeferRelease
					}
					return st, dmlGo
				}
				if callOnX(n, "DiscardChanges", false) != nil {
					st |= c21Discard
				}
				if cl := callOnX(n, "Close", false); cl != nil {
					st = onClose(n, st, v)
					if v != nil && dmlAssigns(info, n, v) {
						return st&^dmlErrAny | dmlErrAny | c21VFromClose, dmlGo
					}
				}
				if v != nil && dmlAssigns(info, n, v) {
					st = st&^(dmlErrAny|c21VFromClose) | dmlErrAny
				}
				if st&c21AcqPending != 0 && n != ast.Node(as) && dmlAssigns(info, n, acqErr) {
					st &^= c21AcqPending
				}
				return st, dmlGo
			},
			func(b *cfg.Block, si int, st int) (int, bool) {
				if st&c21AcqPending != 0 {
					abs, feasible := dmlRefineErr(info, b, si, acqErr, (st>>c21AcqShift)&dmlErrAny)
					if !feasible {
						return st, false
					}
					if abs&dmlErrNil == 0 {
						return st, false // acquisition failed: nothing to release on this path
					}
					st = st&^(dmlErrAny<<c21AcqShift) | abs<<c21AcqShift
					if abs == dmlErrNil {
						st &^= c21AcqPending
					}
				}
				if v != nil {
					abs, feasible := dmlRefineErr(info, b, si, v, st&dmlErrAny)
					if !feasible {
						return st, false
					}
					st = st&^dmlErrAny | abs
				}
				return st, true
			}, nil)
	}

	// R1: error exits
	for _, k := range order {
		ex := exits[k]
		key := name + "/exit " + k
		var bad []ast.Node
		what := ""
		reachable := false
		for _, ret := range ex.rets {
			if p := search(ret, func(st int, v types.Object) bool { return true }); p != nil {
				reachable = true
			}
			p := search(ret, func(st int, v types.Object) bool {
				if v != nil && st&dmlErrAny == dmlErrNil {
					return false // provably nil: a success exit in disguise
				}
				if st&c21VFromClose != 0 || st&c21DeferRelease != 0 || st&c21Committed != 0 {
					return false // the error is Close's own, a deferred release handles it, or the rewrite was already committed
				}
				return st&c21Discard == 0 || st&c21Close == 0 || st&c21CloseFirst != 0
			})
			if p != nil {
				bad = p
				what = "without inserter.DiscardChanges followed by inserter.Close"
				break
			}
		}
		if !reachable {
			continue // not reachable after a successful acquisition
		}
		switch {
		case bad == nil:
			c.Ok("C21-R1", key, ex.rets[0].Pos(), "DiscardChanges then Close on every path")
		case c21R1Exceptions[key] != "" && !c.fixtureMode:
			c.Exc("C21-R1", key, bad[len(bad)-1].Pos(), c21R1Exceptions[key])
		default:
			c.Bad("C21-R1", key, bad[len(bad)-1].Pos(), fmt.Sprintf("%s: the error exit `%s` is reachable after %s was acquired %s: a backend that stages the rewrite keeps (or, if Close runs first, publishes) the half-written table", name, k, x.Name(), what), c.P.DescribePath(bad)...)
		}
	}

	// R2: success exits pass Close; the Close result is used
	var badSucc []ast.Node
	nSucc := 0
	for _, ret := range succ {
		if search(ret, func(int, types.Object) bool { return true }) == nil {
			continue
		}
		nSucc++
		if p := search(ret, func(st int, _ types.Object) bool { return st&c21Close == 0 && st&c21DeferRelease == 0 }); p != nil {
			badSucc = p
			break
		}
	}
	// returns whose operand is provably nil or is Close's own result also count as success exits
	for _, k := range order {
		for _, ret := range exits[k].rets {
			if p := search(ret, func(st int, v types.Object) bool {
				return v != nil && st&dmlErrAny == dmlErrNil && st&c21Close == 0
			}); p != nil && badSucc == nil {
				badSucc = p
			}
			if callOnX(ret, "Close", false) != nil && search(ret, func(int, types.Object) bool { return true }) != nil {
				nSucc++
			}
		}
	}
	skey := name + "/success"
	switch {
	case badSucc != nil:
		c.Bad("C21-R2", skey, badSucc[len(badSucc)-1].Pos(), name+": a successful return is reachable without "+x.Name()+".Close: the rewritten table is never published although the ALTER reports success", c.P.DescribePath(badSucc)...)
	case nSucc == 0:
		c.Undecided("C21-R2", skey, fd.Pos(), name+" has no successful exit after the acquisition")
	default:
		c.Ok("C21-R2", skey, as.Pos(), "Close on every path to a successful return")
	}
	// the Close on the non-discard path must not drop its result
	dropped := token.NoPos
	ast.Inspect(fd.Body, func(n ast.Node) bool {
		var call *ast.CallExpr
		switch s := n.(type) {
		case *ast.ExprStmt:
			call = callOnX(s, "Close", false)
		case *ast.AssignStmt:
			if len(s.Lhs) == 1 {
				if id, ok := s.Lhs[0].(*ast.Ident); ok && id.Name == "_" {
					call = callOnX(s, "Close", false)
				}
			}
		case *ast.DeferStmt:
			return false
		}
		if call == nil {
			return true
		}
		// allowed when DiscardChanges precedes it on every path from the acquisition
		pt, ok := FindNode(g, call)
		if !ok {
			return true
		}
		_ = pt
		p := dmlSearch(g, start, 0, func(m ast.Node, st int) (int, dmlVerdict) {
			if callOnX(m, "DiscardChanges", false) != nil {
				return st, dmlStop
			}
			if m.Pos() <= call.Pos() && call.End() <= m.End() {
				return st, dmlHit
			}
			return st, dmlGo
		}, nil, nil)
		if p != nil && !dropped.IsValid() {
			dropped = call.Pos()
		}
		return true
	})
	if dropped.IsValid() {
		c.Bad("C21-R2", name+"/close-error", dropped, name+": the result of "+x.Name()+".Close on the non-discard path is dropped: a failed publication of the rewritten table is reported as success")
	} else if sw := c15Swallow(c.P, info, fd, sig); len(sw) > 0 {
		c.Bad("C21-R2", name+"/close-error", sw[0].path[len(sw[0].path)-1].Pos(), name+": an error (`"+sw[0].v+"`) is swallowed on the way out", c.P.DescribePath(sw[0].path)...)
	} else {
		c.Ok("C21-R2", name+"/close-error", as.Pos(), "Close result is checked")
	}
}

// c21ExitOrigin names an error exit by where its error comes from: the callee whose result the
// returned variable was assigned from just before the enclosing `if v != nil`, or the callee of the
// returned expression.
func c21ExitOrigin(info *types.Info, fd *ast.FuncDecl, ret *ast.ReturnStmt, e ast.Expr) string {
	calleeName := func(x ast.Expr) string {
		call, ok := ast.Unparen(x).(*ast.CallExpr)
		if !ok {
			return ""
		}
		switch f := ast.Unparen(call.Fun).(type) {
		case *ast.SelectorExpr:
			if fn := Callee(info, call); fn != nil && fn.Name() == "New" {
				if id := dmlBaseIdentOfSel(f.X); id != "" {
					return id + ".New"
				}
			}
			return f.Sel.Name
		case *ast.Ident:
			return f.Name
		}
		return ""
	}
	id, isIdent := ast.Unparen(e).(*ast.Ident)
	if !isIdent {
		if n := calleeName(e); n != "" {
			return n
		}
		return types.ExprString(e)
	}
	v := info.Uses[id]
	// innermost enclosing if statement that tests v, and the statement before it
	var best ast.Stmt
	var walk func(list []ast.Stmt)
	var visitStmt func(s ast.Stmt)
	walk = func(list []ast.Stmt) {
		for i, s := range list {
			if s.Pos() <= ret.Pos() && ret.End() <= s.End() {
				if ifs, ok := s.(*ast.IfStmt); ok && dmlMentions(info, ifs.Cond, v, false) {
					if ifs.Init != nil && dmlAssigns(info, ifs.Init, v) {
						best = ifs.Init
					} else {
						for j := i - 1; j >= 0; j-- {
							if dmlAssigns(info, list[j], v) {
								best = list[j]
								break
							}
							if _, isIf := list[j].(*ast.IfStmt); !isIf {
								// keep looking past unrelated statements only while they do not assign v
								continue
							}
						}
					}
				}
				visitStmt(s)
			}
		}
	}
	visitStmt = func(s ast.Stmt) {
		switch x := s.(type) {
		case *ast.BlockStmt:
			walk(x.List)
		case *ast.IfStmt:
			walk(x.Body.List)
			if x.Else != nil {
				visitStmt(x.Else)
			}
		case *ast.ForStmt:
			walk(x.Body.List)
		case *ast.RangeStmt:
			walk(x.Body.List)
		case *ast.SwitchStmt:
			walk(x.Body.List)
		case *ast.TypeSwitchStmt:
			walk(x.Body.List)
		case *ast.SelectStmt:
			walk(x.Body.List)
		case *ast.CaseClause:
			walk(x.Body)
		case *ast.CommClause:
			walk(x.Body)
		case *ast.LabeledStmt:
			visitStmt(x.Stmt)
		}
	}
	walk(fd.Body.List)
	if as, ok := best.(*ast.AssignStmt); ok && len(as.Rhs) == 1 {
		if n := calleeName(as.Rhs[0]); n != "" {
			return n
		}
	}
	return id.Name
}

func dmlBaseIdentOfSel(e ast.Expr) string {
	switch x := ast.Unparen(e).(type) {
	case *ast.Ident:
		return x.Name
	case *ast.SelectorExpr:
		return x.Sel.Name
	}
	return ""
}

// c21Backend decides R3: no static call path inside the backend package from an acquisition
// entry point to the publication function.
func c21Backend(c *Ctx, p c21Params) {
	pk := c.P.Pkg(p.backendRel)
	if pk == nil {
		c.Undecided("C21-R3", "package "+p.backendRel, 0, "backend package not loaded")
		return
	}
	pub := LookupFunc(pk, p.publish)
	if pub == nil {
		c.Undecided("C21-R3", p.publish, 0, "publication function "+p.publish+" not found in "+p.backendRel)
		return
	}
	info := pk.TypesInfo
	// static call graph of the package (calls to functions/methods declared in the package, incl. inside literals)
	callees := map[*types.Func][]*types.Func{}
	c.P.EachFuncDecl([]string{p.backendRel}, func(_ *packages.Package, fd *ast.FuncDecl) {
		fn, _ := info.Defs[fd.Name].(*types.Func)
		if fn == nil {
			return
		}
		seen := map[*types.Func]bool{}
		for _, call := range dmlCallsIn(fd.Body, true) {
			if cal := Callee(info, call); cal != nil && cal.Pkg() == pk.Types && !seen[cal.Origin()] {
				seen[cal.Origin()] = true
				callees[fn] = append(callees[fn], cal.Origin())
			}
		}
	})
	// direct callers of the publication function
	publishers := map[*types.Func]bool{}
	for f, cs := range callees {
		for _, g := range cs {
			if g == pub {
				publishers[f] = true
			}
		}
	}
	reported := map[*types.Func][]string{}
	var reportedOrder []*types.Func
	for _, en := range p.entries {
		entry := LookupFunc(pk, en)
		if entry == nil {
			c.Undecided("C21-R3", en, 0, "acquisition entry point "+en+" not found in "+p.backendRel)
			continue
		}
		parent := map[*types.Func]*types.Func{entry: nil}
		queue := []*types.Func{entry}
		var hits []*types.Func
		for len(queue) > 0 {
			f := queue[0]
			queue = queue[1:]
			if publishers[f] {
				hits = append(hits, f)
			}
			for _, g := range callees[f] {
				if _, ok := parent[g]; ok || g == pub {
					continue
				}
				parent[g] = f
				queue = append(queue, g)
			}
		}
		if len(hits) == 0 {
			c.Ok("C21-R3", dmlRelOfPkg(pk.PkgPath)+"."+en, entry.Pos(), fmt.Sprintf("%d functions reachable, none publishes", len(parent)))
			continue
		}
		for _, h := range hits {
			var chain []string
			for f := h; f != nil; f = parent[f] {
				chain = append([]string{c21ShortName(f)}, chain...)
			}
			if reported[h] == nil {
				reportedOrder = append(reportedOrder, h)
			}
			reported[h] = append(reported[h], strings.Join(chain, " -> "))
		}
	}
	pubName := c21ShortName(pub)
	for _, h := range reportedOrder {
		key := dmlRelOfPkg(pk.PkgPath) + "." + c21ShortName(h) + "->" + pubName
		c.Bad("C21-R3", key, h.Pos(), fmt.Sprintf("acquiring a rewrite inserter already publishes table data to the session: %s calls %s and is reached by %s; if the rewrite then fails, that effect stays (DiscardChanges can only go back to the editor's own snapshot)", c21ShortName(h), pubName, strings.Join(reported[h], "; ")))
	}
}

// c21ShortName renders a function as Type.Method or Name (no package).
func c21ShortName(fn *types.Func) string {
	sig := fn.Type().(*types.Signature)
	if r := sig.Recv(); r != nil {
		if nt := dmlNamedOf(r.Type()); nt != nil {
			return nt.Obj().Name() + "." + fn.Name()
		}
	}
	return fn.Name()
}
