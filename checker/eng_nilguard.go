package main

import (
	"fmt"
	"go/constant"
	"go/token"
	"go/types"
	"sort"
	"strings"

	"golang.org/x/tools/go/ssa"
)

// E4 sibling engine: "a nil test of value v dominates every other use of v".
//
// Works on go/ssa. For one function and one or more tracked values (usually interface-typed
// parameters, but any ssa.Value such as the result of a child Eval works), it decides
//
//   U  every use of v that is not itself a nil test lies in a block in which v is KNOWN
//      NON-NIL, i.e. a block dominated by the non-nil edge of a branch on a nil test of v;
//   R  every Return of the function lies in such a block for all tracked values, or the
//      caller-supplied predicate accepts it as "the prescribed answer for a nil input".
//
// Nil tests (exempt uses, and the source of non-nil knowledge) are
//   * v == nil / v != nil (also the `case nil` arm of a type switch, which go/ssa lowers to ==),
//   * a comma-ok type assertion v.(T) (safe on nil; ok==true implies non-nil),
//   * a call to a registered *decider* helper h(…v…) whose flag result is true iff one of the
//     covered arguments is nil (types.CompareNulls), resolved by object identity,
//   * a call to a registered nil *predicate* p(v) / v.p() whose boolean result is "v is nil"
//     (sql.Value.IsNull).
// Knowledge is per edge: `if c` gives facts for Succs[0] and Succs[1]; short-circuit || and &&
// are already separate blocks in SSA, so `a == nil || b == nil` works without special code.
// A block B knows v non-nil iff some block X on B's dominator chain (B included) has a single
// predecessor P ending in an If whose edge P->X carries "v non-nil".
//
// Nothing here matches source text or statement order; only dominance matters.

// NilDecider describes a helper whose Flag-th result is true iff at least one of the
// arguments at positions Args is nil/NULL.
type NilDecider struct {
	Flag int
	Args []int
}

type NilGuardSpec struct {
	Deciders map[*types.Func]NilDecider
	// NilPreds: function -> index of the argument (receiver counts as argument 0 for methods,
	// as in ssa.CallCommon.Args of a static method call) whose nil-ness the bool result reports.
	NilPreds map[*types.Func]int
	// Delegate reports that passing v to this call hands the whole decision to a sibling
	// implementation that is itself in the checked set (exempt use).
	Delegate func(call ssa.CallInstruction, v ssa.Value) bool
	// NeutralUse lets a property exempt further uses that are harmless on nil (rare).
	NeutralUse func(instr ssa.Instruction, v ssa.Value) bool
	// NilEquiv: functions f with f(x) == nil iff x == nil (reflect.TypeOf); value: argument index.
	NilEquiv map[*types.Func]int
	// NilPreserving recognises calls C = f(..., y, ...) that are documented (and checked elsewhere)
	// to return (nil value, ..., nil error) whenever y is nil: it returns the index of y among the
	// call's arguments and the indices of the value and error results. A nil test of such a result
	// (also after a phi that replaces it on the call's error branch) then witnesses y's nil-ness:
	// y nil => result nil, so "result non-nil" implies "y non-nil".
	NilPreserving func(call *ssa.Call) (arg, val, err int, ok bool)
}

type NilGuardUse struct {
	Instr ssa.Instruction
	Val   ssa.Value
	What  string
}

type NilGuardResult struct {
	Fn         *ssa.Function
	Tests      int           // nil tests seen (branches that carry non-nil knowledge for a tracked value)
	Unguarded  []NilGuardUse // rule U deviants
	Guarded    int           // other uses that are guarded
	Delegated  int           // uses handed to a sibling
	NilReturns []*ssa.Return // returns not in the all-non-nil region (reachable with a nil input as far as branch facts tell)
	Facts      map[*ssa.If][2][]ssa.Value
	spec       *NilGuardSpec
	vals       []ssa.Value
	tracked    map[ssa.Value]bool
	reach      map[ssa.Value]map[*ssa.BasicBlock]bool
}

// Canon maps a value to the tracked thing it reads (see ngCanon).
func (r *NilGuardResult) Canon(x ssa.Value) ssa.Value { return ngCanon(x, r.tracked) }

func ngStaticCallee(cc *ssa.CallCommon) *types.Func {
	if cc.IsInvoke() {
		return nil
	}
	if f := cc.StaticCallee(); f != nil {
		if o, ok := f.Object().(*types.Func); ok {
			return o.Origin()
		}
		// instantiated generic / wrapper
		if f.Origin() != nil {
			if o, ok := f.Origin().Object().(*types.Func); ok {
				return o
			}
		}
	}
	return nil
}

// ngTrack returns the thing to track for a parameter: the parameter itself, or - when the
// builder spilled it because it is address-taken (a field of a struct parameter is assigned, or
// a closure captures it) - the Alloc cell it is stored into at entry. All reads of such a
// parameter are loads of that cell, and nil facts are recorded for the cell.
func ngTrack(p *ssa.Parameter) ssa.Value {
	refs := p.Referrers()
	if refs == nil {
		return p
	}
	var cell *ssa.Alloc
	n := 0
	for _, r := range *refs {
		if _, ok := r.(*ssa.DebugRef); ok {
			continue
		}
		n++
		if st, ok := r.(*ssa.Store); ok && st.Val == p {
			if a, ok := st.Addr.(*ssa.Alloc); ok {
				cell = a
			}
		}
	}
	if n == 1 && cell != nil {
		return cell
	}
	return p
}

// ngCanon maps a load of a tracked cell to the cell; other values to themselves.
func ngCanon(x ssa.Value, tracked map[ssa.Value]bool) ssa.Value {
	if u, ok := x.(*ssa.UnOp); ok && u.Op == token.MUL {
		if a, ok := u.X.(*ssa.Alloc); ok && tracked[a] {
			return a
		}
	}
	return x
}

func ngIsNilConst(v ssa.Value) bool {
	c, ok := v.(*ssa.Const)
	return ok && c.IsNil()
}

// ngCondFacts returns the tracked values known non-nil on the true edge ([0]) and on the
// false edge ([1]) of a branch on cond.
func ngCondFacts(cond ssa.Value, spec *NilGuardSpec, tracked map[ssa.Value]bool, resolve func(ssa.Value) ssa.Value) (facts [2][]ssa.Value) {
	switch c := cond.(type) {
	case *ssa.UnOp:
		if c.Op == token.NOT {
			f := ngCondFacts(c.X, spec, tracked, resolve)
			return [2][]ssa.Value{f[1], f[0]}
		}
	case *ssa.BinOp:
		if c.Op == token.EQL || c.Op == token.NEQ {
			var x ssa.Value
			if ngIsNilConst(c.Y) {
				x = c.X
			} else if ngIsNilConst(c.X) {
				x = c.Y
			}
			if x != nil {
				// f(x) == nil with f nil-equivalent (reflect.TypeOf)
				if call, ok := x.(*ssa.Call); ok {
					if fn := ngStaticCallee(&call.Call); fn != nil {
						if ai, ok := spec.NilEquiv[fn]; ok && ai < len(call.Call.Args) {
							x = call.Call.Args[ai]
						}
					}
				}
				x = ngCanon(x, tracked)
				if !tracked[x] && resolve != nil {
					if y := resolve(x); y != nil {
						x = y
					}
				}
			}
			if x != nil && tracked[x] {
				if c.Op == token.EQL {
					facts[1] = append(facts[1], x)
				} else {
					facts[0] = append(facts[0], x)
				}
			}
		}
	case *ssa.Extract:
		switch t := c.Tuple.(type) {
		case *ssa.TypeAssert:
			if x := ngCanon(t.X, tracked); t.CommaOk && c.Index == 1 && tracked[x] {
				facts[0] = append(facts[0], x)
			}
		case *ssa.Call:
			if fn := ngStaticCallee(&t.Call); fn != nil {
				if d, ok := spec.Deciders[fn]; ok && d.Flag == c.Index {
					for _, ai := range d.Args {
						if ai < len(t.Call.Args) && tracked[ngCanon(t.Call.Args[ai], tracked)] {
							facts[1] = append(facts[1], ngCanon(t.Call.Args[ai], tracked))
						}
					}
				}
			}
		}
	case *ssa.Call:
		if fn := ngStaticCallee(&c.Call); fn != nil {
			if ai, ok := spec.NilPreds[fn]; ok && ai < len(c.Call.Args) && tracked[ngCanon(c.Call.Args[ai], tracked)] {
				facts[1] = append(facts[1], ngCanon(c.Call.Args[ai], tracked))
			}
			if d, ok := spec.Deciders[fn]; ok && d.Flag == 0 && c.Call.Signature().Results().Len() == 1 {
				for _, ai := range d.Args {
					if ai < len(c.Call.Args) && tracked[ngCanon(c.Call.Args[ai], tracked)] {
						facts[1] = append(facts[1], ngCanon(c.Call.Args[ai], tracked))
					}
				}
			}
		}
	}
	return facts
}

// NilGuardAnalyze decides rules U and R (see the file comment) for the tracked values.
func NilGuardAnalyze(fn *ssa.Function, vals []ssa.Value, spec *NilGuardSpec) *NilGuardResult {
	res := &NilGuardResult{Fn: fn, Facts: map[*ssa.If][2][]ssa.Value{}, spec: spec, vals: vals}
	tracked := map[ssa.Value]bool{}
	for _, v := range vals {
		tracked[v] = true
	}
	for _, b := range fn.Blocks {
		if len(b.Instrs) == 0 {
			continue
		}
		if iff, ok := b.Instrs[len(b.Instrs)-1].(*ssa.If); ok {
			f := ngCondFacts(iff.Cond, spec, tracked, func(x ssa.Value) ssa.Value {
				for _, v := range vals {
					if ngNilWhenNil(x, v, spec, tracked, map[ssa.Value]bool{}) {
						return v
					}
				}
				return nil
			})
			if len(f[0])+len(f[1]) > 0 {
				res.Facts[iff] = f
				res.Tests++
			}
		}
	}
	res.tracked = tracked
	type useSite struct {
		instr ssa.Instruction
		via   ssa.Value // the SSA value through which the tracked thing is used (the thing itself or a load of its cell)
	}
	for _, v := range vals {
		refs := v.Referrers()
		if refs == nil {
			continue
		}
		var sites []useSite
		for _, instr := range *refs {
			if _, isCell := v.(*ssa.Alloc); isCell {
				if st, ok := instr.(*ssa.Store); ok && st.Addr == v {
					if _, isParam := st.Val.(*ssa.Parameter); isParam {
						continue // the spill of the parameter at entry
					}
				}
				if ld, ok := instr.(*ssa.UnOp); ok && ld.Op == token.MUL && ld.X == v {
					if lr := ld.Referrers(); lr != nil {
						for _, li := range *lr {
							sites = append(sites, useSite{li, ld})
						}
					}
					continue
				}
			}
			sites = append(sites, useSite{instr, v})
		}
		for _, site := range sites {
			instr := site.instr
			kind := res.classify(instr, site.via)
			switch kind {
			case "test", "debug":
				continue
			case "delegate":
				res.Delegated++
				continue
			}
			if phi, ok := instr.(*ssa.Phi); ok {
				// v flows on along the edges where it is an operand: each such predecessor must know v non-nil
				okAll := true
				for i, e := range phi.Edges {
					if e == site.via && !res.KnownNonNil(phi.Block().Preds[i], v) {
						okAll = false
					}
				}
				if okAll {
					res.Guarded++
				} else {
					res.Unguarded = append(res.Unguarded, NilGuardUse{instr, v, "flows into a later value (phi) on a path without a nil test"})
				}
				continue
			}
			if res.KnownNonNil(instr.Block(), v) {
				res.Guarded++
			} else {
				res.Unguarded = append(res.Unguarded, NilGuardUse{instr, v, kind})
			}
		}
	}
	for _, b := range fn.Blocks {
		if len(b.Instrs) == 0 {
			continue
		}
		if ret, ok := b.Instrs[len(b.Instrs)-1].(*ssa.Return); ok {
			all := true
			for _, v := range vals {
				if !res.KnownNonNil(b, v) {
					all = false
				}
			}
			if !all {
				res.NilReturns = append(res.NilReturns, ret)
			}
		}
	}
	sort.Slice(res.Unguarded, func(i, j int) bool { return res.Unguarded[i].Instr.Pos() < res.Unguarded[j].Instr.Pos() })
	return res
}

func (r *NilGuardResult) classify(instr ssa.Instruction, v ssa.Value) string {
	switch x := instr.(type) {
	case *ssa.DebugRef:
		return "debug"
	case *ssa.BinOp:
		if (x.Op == token.EQL || x.Op == token.NEQ) && (ngIsNilConst(x.X) || ngIsNilConst(x.Y)) {
			return "test"
		}
		return "comparison " + x.Op.String()
	case *ssa.TypeAssert:
		if x.CommaOk {
			return "test"
		}
		return "type assertion to " + types.TypeString(x.AssertedType, nil) + " (panics on nil)"
	case ssa.CallInstruction:
		cc := x.Common()
		if fn := ngStaticCallee(cc); fn != nil {
			if d, ok := r.spec.Deciders[fn]; ok {
				for _, ai := range d.Args {
					if ai < len(cc.Args) && cc.Args[ai] == v {
						return "test"
					}
				}
			}
			if ai, ok := r.spec.NilPreds[fn]; ok && ai < len(cc.Args) && cc.Args[ai] == v {
				return "test"
			}
		}
		if r.spec.Delegate != nil && r.spec.Delegate(x, v) {
			return "delegate"
		}
		if r.spec.NeutralUse != nil && r.spec.NeutralUse(instr, v) {
			return "test"
		}
		return "passed to " + ngCallName(cc)
	}
	if r.spec.NeutralUse != nil && r.spec.NeutralUse(instr, v) {
		return "test"
	}
	return fmt.Sprintf("%T", instr)
}

func ngCallName(cc *ssa.CallCommon) string {
	if cc.IsInvoke() {
		return "interface method " + cc.Method.Name()
	}
	if f := cc.StaticCallee(); f != nil {
		return strings.TrimPrefix(f.String(), modPath+"/")
	}
	return "a dynamic call"
}

// KnownNonNil reports whether every path to block b passed the non-nil edge of a nil test of v.
func (r *NilGuardResult) KnownNonNil(b *ssa.BasicBlock, v ssa.Value) bool {
	for x := b; x != nil; x = x.Idom() {
		if len(x.Preds) != 1 {
			continue
		}
		p := x.Preds[0]
		if len(p.Instrs) == 0 {
			continue
		}
		iff, ok := p.Instrs[len(p.Instrs)-1].(*ssa.If)
		if !ok {
			continue
		}
		if p.Succs[0] == p.Succs[1] {
			continue
		}
		idx := 1
		if p.Succs[0] == x {
			idx = 0
		}
		f, ok := r.Facts[iff]
		if !ok {
			// `if flag` where flag is a phi of boolean constants that is true only on edges that
			// already know v non-nil (or that never evaluated v): `if v != nil { inc = true } … if inc {`
			if r.flagImpliesNonNil(iff.Cond, idx == 0, v, map[ssa.Value]bool{}) {
				return true
			}
			continue
		}
		for _, k := range f[idx] {
			if k == v {
				return true
			}
		}
	}
	return false
}

// flagImpliesNonNil: cond evaluating to `want` implies v non-nil (or v not evaluated on that path).
func (r *NilGuardResult) flagImpliesNonNil(cond ssa.Value, want bool, v ssa.Value, seen map[ssa.Value]bool) bool {
	switch c := cond.(type) {
	case *ssa.UnOp:
		if c.Op == token.NOT {
			return r.flagImpliesNonNil(c.X, !want, v, seen)
		}
	case *ssa.Phi:
		if seen[c] {
			return true
		}
		seen[c] = true
		for i, e := range c.Edges {
			pred := c.Block().Preds[i]
			switch k := e.(type) {
			case *ssa.Const:
				if k.Value == nil || k.Value.Kind() != constant.Bool {
					return false
				}
				if constant.BoolVal(k.Value) != want {
					continue // this edge cannot produce the wanted outcome
				}
				if !r.KnownNonNil(pred, v) && r.reachableFromDef(pred, v) {
					return false
				}
			case *ssa.Phi:
				if !r.flagImpliesNonNil(k, want, v, seen) {
					return false
				}
			default:
				return false
			}
		}
		return true
	}
	return false
}

// reachableFromDef reports whether block b can execute after v was defined.
func (r *NilGuardResult) reachableFromDef(b *ssa.BasicBlock, v ssa.Value) bool {
	if r.reach == nil {
		r.reach = map[ssa.Value]map[*ssa.BasicBlock]bool{}
	}
	set, ok := r.reach[v]
	if !ok {
		set = map[*ssa.BasicBlock]bool{}
		var def *ssa.BasicBlock
		if in, ok := v.(ssa.Instruction); ok {
			def = in.Block()
		}
		if def == nil { // parameters: defined at entry
			for _, bb := range r.Fn.Blocks {
				set[bb] = true
			}
		} else {
			set[def] = true
			work := []*ssa.BasicBlock{def}
			for len(work) > 0 {
				x := work[len(work)-1]
				work = work[:len(work)-1]
				for _, s := range x.Succs {
					if !set[s] {
						set[s] = true
						work = append(work, s)
					}
				}
			}
		}
		r.reach[v] = set
	}
	return set[b]
}

// ReachableFromDef is the exported form for property code.
func (r *NilGuardResult) ReachableFromDef(b *ssa.BasicBlock, v ssa.Value) bool {
	return r.reachableFromDef(b, v)
}

// ngNilWhenNil: x is nil on every feasible path on which v is nil.
func ngNilWhenNil(x, v ssa.Value, spec *NilGuardSpec, tracked map[ssa.Value]bool, seen map[ssa.Value]bool) bool {
	x = ngCanon(x, tracked)
	if x == v {
		return true
	}
	if spec.NilPreserving == nil || seen[x] {
		return false
	}
	seen[x] = true
	switch t := x.(type) {
	case *ssa.Extract:
		if call, ok := t.Tuple.(*ssa.Call); ok {
			if ai, vi, _, ok := spec.NilPreserving(call); ok && vi == t.Index && ai < len(call.Call.Args) {
				return ngNilWhenNil(call.Call.Args[ai], v, spec, tracked, seen)
			}
		}
	case *ssa.Phi:
		for i, e := range t.Edges {
			if ngNilWhenNil(e, v, spec, tracked, seen) {
				continue
			}
			// the edge is infeasible when v is nil if it lies on the error branch of a nil-preserving call on v
			if !ngOnErrorBranch(t.Block().Preds[i], v, spec, tracked) {
				return false
			}
		}
		return true
	}
	return false
}

// ngOnErrorBranch: block b is dominated by the err != nil edge of a nil-preserving call whose
// argument is nil whenever v is nil (such a call returns a nil error for a nil argument).
func ngOnErrorBranch(b *ssa.BasicBlock, v ssa.Value, spec *NilGuardSpec, tracked map[ssa.Value]bool) bool {
	for x := b; x != nil; x = x.Idom() {
		if len(x.Preds) != 1 {
			continue
		}
		p := x.Preds[0]
		if len(p.Instrs) == 0 || p.Succs[0] == p.Succs[1] {
			continue
		}
		iff, ok := p.Instrs[len(p.Instrs)-1].(*ssa.If)
		if !ok {
			continue
		}
		bo, ok := iff.Cond.(*ssa.BinOp)
		if !ok || (bo.Op != token.NEQ && bo.Op != token.EQL) {
			continue
		}
		var e ssa.Value
		if ngIsNilConst(bo.Y) {
			e = bo.X
		} else if ngIsNilConst(bo.X) {
			e = bo.Y
		}
		ex, ok := e.(*ssa.Extract)
		if !ok {
			continue
		}
		call, ok := ex.Tuple.(*ssa.Call)
		if !ok {
			continue
		}
		ai, _, ei, ok := spec.NilPreserving(call)
		if !ok || ei != ex.Index || ai >= len(call.Call.Args) {
			continue
		}
		if !ngNilWhenNil(call.Call.Args[ai], v, spec, tracked, map[ssa.Value]bool{}) {
			continue
		}
		nonNilEdge := 0 // err != nil: true edge
		if bo.Op == token.EQL {
			nonNilEdge = 1
		}
		if p.Succs[nonNilEdge] == x {
			return true
		}
	}
	return false
}

// ngParam returns the i-th declared parameter (receiver excluded) of an SSA method/function.
func ngParam(fn *ssa.Function, i int) *ssa.Parameter {
	if fn.Signature.Recv() != nil {
		i++
	}
	if i < 0 || i >= len(fn.Params) {
		return nil
	}
	return fn.Params[i]
}

// ngImplementers lists, for interface method `method` of iface, the distinct concrete
// declarations in the given module packages (value and pointer receivers), sorted by name.
func ngImplementers(p *Prog, iface *types.Interface, method string, rels []string) []*types.Func {
	seen := map[*types.Func]bool{}
	var out []*types.Func
	for _, rel := range rels {
		pk := p.Pkg(rel)
		if pk == nil {
			continue
		}
		sc := pk.Types.Scope()
		for _, name := range sc.Names() {
			tn, ok := sc.Lookup(name).(*types.TypeName)
			if !ok || tn.IsAlias() {
				continue
			}
			T := tn.Type()
			if _, isIface := T.Underlying().(*types.Interface); isIface {
				continue
			}
			if nt, ok := T.(*types.Named); ok && nt.TypeParams().Len() > 0 {
				continue
			}
			var impl types.Type
			if types.Implements(T, iface) {
				impl = T
			} else if types.Implements(types.NewPointer(T), iface) {
				impl = types.NewPointer(T)
			} else {
				continue
			}
			obj, _, _ := types.LookupFieldOrMethod(impl, true, pk.Types, method)
			fn, _ := obj.(*types.Func)
			if fn == nil {
				continue
			}
			fn = fn.Origin()
			if !seen[fn] && p.Decl(fn) != nil {
				seen[fn] = true
				out = append(out, fn)
			}
		}
	}
	sort.Slice(out, func(i, j int) bool { return FuncName(out[i]) < FuncName(out[j]) })
	return out
}

// ngLookupIface resolves a named interface type in a loaded package.
func ngLookupIface(p *Prog, rel, name string) *types.Interface {
	pk := p.Pkg(rel)
	if pk == nil {
		return nil
	}
	tn, _ := pk.Types.Scope().Lookup(name).(*types.TypeName)
	if tn == nil {
		return nil
	}
	it, _ := tn.Type().Underlying().(*types.Interface)
	return it
}

// ngFuncKey is the construct key of a sibling: pkg.Type.Method (module-relative; the fixture
// module prefix is dropped as well).
func ngFuncKey(fn *types.Func) string {
	return strings.TrimPrefix(FuncName(fn), "vchk/")
}

// ngDescribeUse renders an unguarded use for a diagnostic path line.
func ngDescribeUse(p *Prog, u NilGuardUse) string {
	pos := u.Instr.Pos()
	if !pos.IsValid() {
		if v, ok := u.Instr.(ssa.Value); ok {
			pos = v.Pos()
		}
	}
	return fmt.Sprintf("%s: %s is %s before/without a dominating nil test", p.Rel(pos), u.Val.Name(), u.What)
}
