package main

import (
	"fmt"
	"go/token"
	"go/types"
	"sort"
	"strings"

	"golang.org/x/tools/go/ssa"
)

// C15-S6..S9 — the statement-begin snapshot of a backend editor: direction and who-may-mutate.
//
// Discovery (structural, no field names): an EditOpenerCloser implementation T *keeps a snapshot*
// when T.StatementBegin stores into a receiver field `snap` a value that depends on another
// receiver field `live` (and both hold state: pointer-like types). For every such (T, snap, live):
//
//	S6  the snapshot field is assigned only in T.StatementBegin and in composite literals of T
//	    (constructors);
//	S7  outside T.StatementBegin nothing is written through the snapshot: no store / map update /
//	    copy() into memory reached from a load of the snapshot field, and no call that passes such
//	    a pointer to a function that writes through that parameter (transitively, static callees
//	    of the module);
//	S8  T.DiscardChanges restores the live state from the snapshot on every path to a return that
//	    does not go through the "error is ignorable" edge: a store into memory reached from `live`
//	    whose value derives from the snapshot, or a call g(.. live-pointer .., .. snapshot-derived ..)
//	    where g writes through the former parameter a value derived from the latter, or a call of
//	    a helper on the receiver that itself restores on every path;
//	S9  every value assigned to the snapshot field (StatementBegin and constructors) is a fresh
//	    object (an allocation, or the result of a function all of whose returns are fresh), never
//	    an alias of existing state; and for every pointer-like field f of the snapshot object that
//	    is read through the snapshot anywhere in the package, the copying function stores a fresh
//	    value into f of the object it returns (a shallow copy would share f with the live table).

type c15Snap struct {
	a        *c15
	prog     *ssa.Program
	mutMemo  map[c15MutKey]int // 1 in progress, 2 mutates, 3 does not
	mutWhy   map[c15MutKey]string
	flowMemo map[c15FlowKey]int
	fresh    map[*ssa.Function]int
}

type c15MutKey struct {
	f *ssa.Function
	i int
}
type c15FlowKey struct {
	f        *ssa.Function
	from, to int
}

func c15PointerLike(t types.Type) bool {
	switch u := t.Underlying().(type) {
	case *types.Pointer, *types.Slice, *types.Map, *types.Interface, *types.Chan, *types.Signature:
		return true
	case *types.Struct:
		for i := 0; i < u.NumFields(); i++ {
			if c15PointerLike(u.Field(i).Type()) {
				return true
			}
		}
	case *types.Array:
		return c15PointerLike(u.Elem())
	}
	return false
}

func (s *c15Snap) hasBody(f *ssa.Function) bool {
	return f != nil && len(f.Blocks) > 0
}

// isFresh: every return of f (result idx) is a fresh object.
func (s *c15Snap) isFresh(f *ssa.Function, idx int) bool {
	if !s.hasBody(f) {
		return false
	}
	switch s.fresh[f] {
	case 1, 3:
		return false
	case 2:
		return true
	}
	s.fresh[f] = 1
	ok, n := true, 0
	for _, b := range f.Blocks {
		for _, in := range b.Instrs {
			r, isRet := in.(*ssa.Return)
			if !isRet || idx >= len(r.Results) {
				continue
			}
			n++
			if !s.freshValue(r.Results[idx], 0) {
				ok = false
			}
		}
	}
	if ok && n > 0 {
		s.fresh[f] = 2
		return true
	}
	s.fresh[f] = 3
	return false
}

// freshValue: v is a newly created object (not an alias of something that existed before).
func (s *c15Snap) freshValue(v ssa.Value, depth int) bool {
	if depth > 6 {
		return false
	}
	switch x := v.(type) {
	case *ssa.Alloc, *ssa.MakeMap, *ssa.MakeSlice:
		return true
	case *ssa.Call:
		if callee := x.Common().StaticCallee(); callee != nil && x.Common().Signature().Results().Len() == 1 {
			return s.isFresh(callee, 0)
		}
	case *ssa.Extract:
		if call, ok := x.Tuple.(*ssa.Call); ok {
			if callee := call.Common().StaticCallee(); callee != nil {
				return s.isFresh(callee, x.Index)
			}
		}
	case *ssa.Phi:
		for _, e := range x.Edges {
			if !s.freshValue(e, depth+1) {
				return false
			}
		}
		return len(x.Edges) > 0
	case *ssa.ChangeType:
		return s.freshValue(x.X, depth+1)
	case *ssa.MakeInterface:
		return s.freshValue(x.X, depth+1)
	}
	return false
}

// freshSource: the allocation(s) a fresh value comes from, with the function that contains them.
func (s *c15Snap) freshSource(v ssa.Value, depth int) []*ssa.Alloc {
	if depth > 6 {
		return nil
	}
	switch x := v.(type) {
	case *ssa.Alloc:
		return []*ssa.Alloc{x}
	case *ssa.Call:
		return s.freshReturns(x.Common().StaticCallee(), 0, depth+1)
	case *ssa.Extract:
		if call, ok := x.Tuple.(*ssa.Call); ok {
			return s.freshReturns(call.Common().StaticCallee(), x.Index, depth+1)
		}
	case *ssa.Phi:
		var out []*ssa.Alloc
		for _, e := range x.Edges {
			out = append(out, s.freshSource(e, depth+1)...)
		}
		return out
	case *ssa.ChangeType:
		return s.freshSource(x.X, depth+1)
	case *ssa.MakeInterface:
		return s.freshSource(x.X, depth+1)
	}
	return nil
}

func (s *c15Snap) freshReturns(f *ssa.Function, idx, depth int) []*ssa.Alloc {
	if !s.hasBody(f) {
		return nil
	}
	var out []*ssa.Alloc
	for _, b := range f.Blocks {
		for _, in := range b.Instrs {
			if r, ok := in.(*ssa.Return); ok && idx < len(r.Results) {
				out = append(out, s.freshSource(r.Results[idx], depth)...)
			}
		}
	}
	return out
}

// taint computes, inside f, the values that point into (or carry pointers into) the memory reached
// from the seeds, and the local allocations that hold such values.
func (s *c15Snap) taint(f *ssa.Function, seeds []ssa.Value) (t map[ssa.Value]bool, holder map[ssa.Value]bool) {
	t, holder = map[ssa.Value]bool{}, map[ssa.Value]bool{}
	for _, v := range seeds {
		t[v] = true
	}
	rootAlloc := func(v ssa.Value) ssa.Value {
		for {
			switch x := v.(type) {
			case *ssa.FieldAddr:
				v = x.X
			case *ssa.IndexAddr:
				v = x.X
			default:
				return v
			}
		}
	}
	for changed := true; changed; {
		changed = false
		set := func(m map[ssa.Value]bool, v ssa.Value) {
			if !m[v] {
				m[v] = true
				changed = true
			}
		}
		for _, b := range f.Blocks {
			for _, in := range b.Instrs {
				switch x := in.(type) {
				case *ssa.FieldAddr:
					if t[x.X] {
						set(t, x)
					}
					if holder[x.X] {
						set(holder, x)
					}
				case *ssa.IndexAddr:
					if t[x.X] {
						set(t, x)
					}
					if holder[x.X] {
						set(holder, x)
					}
				case *ssa.Field:
					if t[x.X] && c15PointerLike(x.Type()) {
						set(t, x)
					}
				case *ssa.Index:
					if t[x.X] && c15PointerLike(x.Type()) {
						set(t, x)
					}
				case *ssa.Lookup:
					if t[x.X] && c15PointerLike(x.Type()) {
						set(t, x)
					}
				case *ssa.UnOp:
					if x.Op == token.MUL && (t[x.X] || holder[x.X]) && c15PointerLike(x.Type()) {
						set(t, x)
					}
				case *ssa.Phi:
					for _, e := range x.Edges {
						if t[e] {
							set(t, x)
						}
					}
				case *ssa.ChangeType:
					if t[x.X] {
						set(t, x)
					}
				case *ssa.Convert:
					if t[x.X] && c15PointerLike(x.Type()) {
						set(t, x)
					}
				case *ssa.MakeInterface:
					if t[x.X] {
						set(t, x)
					}
				case *ssa.ChangeInterface:
					if t[x.X] {
						set(t, x)
					}
				case *ssa.TypeAssert:
					if t[x.X] && c15PointerLike(x.Type()) {
						set(t, x)
					}
				case *ssa.Slice:
					if t[x.X] {
						set(t, x)
					}
				case *ssa.Range:
					if t[x.X] {
						set(t, x)
					}
				case *ssa.Next:
					if t[x.Iter] {
						set(t, x)
					}
				case *ssa.Extract:
					if t[x.Tuple] && c15PointerLike(x.Type()) {
						set(t, x)
					}
				case *ssa.Store:
					if t[x.Val] && !t[x.Addr] {
						if r := rootAlloc(x.Addr); r != nil {
							if _, isAlloc := r.(*ssa.Alloc); isAlloc {
								set(holder, r)
								set(holder, x.Addr)
							}
						}
					}
				case *ssa.Call:
					com := x.Common()
					if b, ok := com.Value.(*ssa.Builtin); ok {
						if b.Name() == "append" && len(com.Args) > 0 && t[com.Args[0]] {
							set(t, x)
						}
						continue
					}
					anyT := false
					for _, arg := range com.Args {
						if t[arg] {
							anyT = true
						}
					}
					if com.IsInvoke() && t[com.Value] {
						anyT = true
					}
					if !anyT {
						continue
					}
					// the result of a call that received snapshot memory may point into it, unless the callee returns fresh objects
					res := com.Signature().Results()
					if res.Len() == 0 {
						continue
					}
					callee := com.StaticCallee()
					allFresh := callee != nil && s.hasBody(callee)
					for i := 0; allFresh && i < res.Len(); i++ {
						if c15PointerLike(res.At(i).Type()) && !s.isFresh(callee, i) {
							allFresh = false
						}
					}
					if !allFresh && (res.Len() > 1 || c15PointerLike(res.At(0).Type())) {
						set(t, x)
					}
				}
			}
		}
	}
	return t, holder
}

type c15Mutation struct {
	pos  token.Pos
	what string
	key  string
}

// mutations lists the writes through tainted memory in f.
func (s *c15Snap) mutations(f *ssa.Function, t map[ssa.Value]bool, depth int) []c15Mutation {
	var out []c15Mutation
	for _, b := range f.Blocks {
		for _, in := range b.Instrs {
			switch x := in.(type) {
			case *ssa.Store:
				if t[x.Addr] {
					out = append(out, c15Mutation{x.Pos(), "stores into it", "store"})
				}
			case *ssa.MapUpdate:
				if t[x.Map] {
					out = append(out, c15Mutation{x.Pos(), "updates a map of it", "map-update"})
				}
			case ssa.CallInstruction:
				com := x.Common()
				if bi, ok := com.Value.(*ssa.Builtin); ok {
					if (bi.Name() == "copy" || bi.Name() == "delete" || bi.Name() == "clear") && len(com.Args) > 0 && t[com.Args[0]] {
						out = append(out, c15Mutation{x.Pos(), bi.Name() + "() into it", bi.Name()})
					}
					continue
				}
				if depth > 5 {
					continue
				}
				if com.IsInvoke() {
					// interface call: every implementation declared in this function's package is a possible callee
					for _, impl := range s.implsInPkg(f, com) {
						if t[com.Value] {
							if m, why := s.mutatesParam(impl, 0, depth+1); m {
								out = append(out, c15Mutation{x.Pos(), "calls " + c15FnName(impl) + " on it (through an interface), which " + why, "call " + c15FnName(impl)})
							}
						}
						for i, arg := range com.Args {
							if !t[arg] {
								continue
							}
							if m, why := s.mutatesParam(impl, i+1, depth+1); m {
								out = append(out, c15Mutation{x.Pos(), "passes it to " + c15FnName(impl) + " (through an interface), which " + why, "call " + c15FnName(impl)})
							}
						}
					}
					continue
				}
				callee := com.StaticCallee()
				if callee == nil || !s.hasBody(callee) {
					continue
				}
				for i, arg := range com.Args {
					if !t[arg] {
						continue
					}
					if m, why := s.mutatesParam(callee, i, depth+1); m {
						out = append(out, c15Mutation{x.Pos(), "passes it to " + c15FnName(callee) + ", which " + why, "call " + c15FnName(callee)})
					}
				}
			}
		}
	}
	return out
}

// implsInPkg: the methods, declared in the package of f, that an interface call may dispatch to.
func (s *c15Snap) implsInPkg(f *ssa.Function, com *ssa.CallCommon) []*ssa.Function {
	root := f
	for root.Parent() != nil {
		root = root.Parent()
	}
	pkg := root.Pkg
	if pkg == nil {
		if o := root.Origin(); o != nil {
			pkg = o.Pkg
		}
	}
	iface, _ := com.Value.Type().Underlying().(*types.Interface)
	if pkg == nil || iface == nil {
		return nil
	}
	var names []string
	for n := range pkg.Members {
		names = append(names, n)
	}
	sort.Strings(names)
	var out []*ssa.Function
	for _, n := range names {
		mt, ok := pkg.Members[n].(*ssa.Type)
		if !ok {
			continue
		}
		if _, isIface := mt.Type().Underlying().(*types.Interface); isIface {
			continue
		}
		for _, t := range []types.Type{mt.Type(), types.NewPointer(mt.Type())} {
			if !types.Implements(t, iface) {
				continue
			}
			if fn := s.prog.LookupMethod(t, com.Method.Pkg(), com.Method.Name()); fn != nil && fn.Synthetic == "" && s.hasBody(fn) {
				out = append(out, fn)
			}
			break
		}
	}
	return out
}

func c15FnName(f *ssa.Function) string {
	if obj, ok := f.Object().(*types.Func); ok {
		return c21ShortName(obj)
	}
	return f.Name()
}

// mutatesParam: f writes through (memory reached from) its parameter i.
func (s *c15Snap) mutatesParam(f *ssa.Function, i int, depth int) (bool, string) {
	k := c15MutKey{f, i}
	switch s.mutMemo[k] {
	case 1, 3:
		return false, ""
	case 2:
		return true, s.mutWhy[k]
	}
	s.mutMemo[k] = 1
	res, why := false, ""
	if i < len(f.Params) && c15PointerLike(f.Params[i].Type()) {
		t, _ := s.taint(f, []ssa.Value{f.Params[i]})
		if ms := s.mutations(f, t, depth); len(ms) > 0 {
			res, why = true, ms[0].what
		}
	}
	if res {
		s.mutMemo[k], s.mutWhy[k] = 2, why
	} else {
		s.mutMemo[k] = 3
	}
	return res, why
}

// forward: the values of f that depend on the seeds (operands, call arguments, loads from local
// allocations that received such a value).
func c15Forward(f *ssa.Function, seeds []ssa.Value) map[ssa.Value]bool {
	set := map[ssa.Value]bool{}
	for _, v := range seeds {
		set[v] = true
	}
	for changed := true; changed; {
		changed = false
		for _, b := range f.Blocks {
			for _, in := range b.Instrs {
				if st, ok := in.(*ssa.Store); ok {
					if set[st.Val] && !set[st.Addr] {
						if _, isAlloc := st.Addr.(*ssa.Alloc); isAlloc {
							set[st.Addr] = true
							changed = true
						}
					}
					continue
				}
				v, ok := in.(ssa.Value)
				if !ok || set[v] {
					continue
				}
				for _, op := range in.Operands(nil) {
					if *op != nil && set[*op] {
						set[v] = true
						changed = true
						break
					}
				}
			}
		}
	}
	return set
}

// addrClosure: pointers into the memory reached from the seeds (field / index addresses and loaded pointers).
func c15AddrClosure(f *ssa.Function, seeds []ssa.Value) map[ssa.Value]bool {
	set := map[ssa.Value]bool{}
	for _, v := range seeds {
		set[v] = true
	}
	for changed := true; changed; {
		changed = false
		for _, b := range f.Blocks {
			for _, in := range b.Instrs {
				v, ok := in.(ssa.Value)
				if !ok || set[v] {
					continue
				}
				hit := false
				switch x := in.(type) {
				case *ssa.FieldAddr:
					hit = set[x.X]
				case *ssa.IndexAddr:
					hit = set[x.X]
				case *ssa.UnOp:
					if x.Op == token.MUL && set[x.X] {
						_, isPtr := x.Type().Underlying().(*types.Pointer)
						hit = isPtr
					}
				case *ssa.Phi:
					for _, e := range x.Edges {
						if set[e] {
							hit = true
						}
					}
				case *ssa.ChangeType:
					hit = set[x.X]
				}
				if hit {
					set[v] = true
					changed = true
				}
			}
		}
	}
	return set
}

// flows: g writes through parameter `to` a value that derives from parameter `from`.
func (s *c15Snap) flows(g *ssa.Function, from, to, depth int) bool {
	if !s.hasBody(g) || from >= len(g.Params) || to >= len(g.Params) || depth > 4 {
		return false
	}
	k := c15FlowKey{g, from, to}
	switch s.flowMemo[k] {
	case 1, 3:
		return false
	case 2:
		return true
	}
	s.flowMemo[k] = 1
	src := c15Forward(g, []ssa.Value{g.Params[from]})
	dst := c15AddrClosure(g, []ssa.Value{g.Params[to]})
	res := s.restoresIn(g, dst, src, depth) != nil
	if res {
		s.flowMemo[k] = 2
	} else {
		s.flowMemo[k] = 3
	}
	return res
}

// restoresIn lists the instructions of f that write into dst-memory a value from src.
func (s *c15Snap) restoresIn(f *ssa.Function, dst, src map[ssa.Value]bool, depth int) map[ssa.Instruction]bool {
	out := map[ssa.Instruction]bool{}
	for _, b := range f.Blocks {
		for _, in := range b.Instrs {
			switch x := in.(type) {
			case *ssa.Store:
				if dst[x.Addr] && src[x.Val] {
					out[x] = true
				}
			case ssa.CallInstruction:
				com := x.Common()
				callee := com.StaticCallee()
				if callee == nil || !s.hasBody(callee) {
					continue
				}
				for i, ai := range com.Args {
					if !dst[ai] {
						continue
					}
					for j, aj := range com.Args {
						if i != j && src[aj] && !dst[aj] && s.flows(callee, j, i, depth+1) {
							out[x] = true
						}
					}
				}
			}
		}
	}
	if len(out) == 0 {
		return nil
	}
	return out
}

// avoidPath: a path of blocks from entry to a Return that passes none of the barrier instructions
// and no excluded edge; nil if there is none.
func c15AvoidPath(f *ssa.Function, barrier map[ssa.Instruction]bool, excluded func(b *ssa.BasicBlock, succ int) bool) []*ssa.BasicBlock {
	type item struct {
		b    *ssa.BasicBlock
		prev *item
	}
	seen := map[*ssa.BasicBlock]bool{f.Blocks[0]: true}
	queue := []*item{{f.Blocks[0], nil}}
	for len(queue) > 0 {
		it := queue[0]
		queue = queue[1:]
		blocked, returns := false, false
		for _, in := range it.b.Instrs {
			if barrier[in] {
				blocked = true
				break
			}
			if _, ok := in.(*ssa.Return); ok {
				returns = true
			}
		}
		if blocked {
			continue
		}
		if returns {
			var path []*ssa.BasicBlock
			for p := it; p != nil; p = p.prev {
				path = append([]*ssa.BasicBlock{p.b}, path...)
			}
			return path
		}
		for si, succ := range it.b.Succs {
			if excluded != nil && excluded(it.b, si) {
				continue
			}
			if !seen[succ] {
				seen[succ] = true
				queue = append(queue, &item{succ, it})
			}
		}
	}
	return nil
}

func (a *c15) snapshots() {
	c := a.c
	fl := func(id string) int { return a.p.floors[id] }
	c.Rule("C15-S6", "the statement-begin snapshot field of a backend editor is assigned only in StatementBegin and in constructors (composite literals)", fl("C15-S6"))
	c.Rule("C15-S7", "outside StatementBegin nothing writes through the snapshot: no store into memory reached from it, no call passing it to a function that writes through that parameter", fl("C15-S7"))
	c.Rule("C15-S8", "DiscardChanges writes the live state from the snapshot (data flows snapshot -> live) on every path that is not the ignorable-error path", fl("C15-S8"))
	c.Rule("C15-S9", "every value assigned to the snapshot field is a fresh copy (never an alias of existing state), deep for the pointer fields that are read through the snapshot", fl("C15-S9"))

	prog := c.P.SSA()
	s := &c15Snap{a: a, prog: prog, mutMemo: map[c15MutKey]int{}, mutWhy: map[c15MutKey]string{}, flowMemo: map[c15FlowKey]int{}, fresh: map[*ssa.Function]int{}}
	var ignorable types.Type // the named type (struct in the engine, interface in the fixture) asserted by `err.(sql.IgnorableError)`
	if a.p.ignorable != "" {
		if spk := c.P.Pkg(a.p.sqlRel); spk != nil {
			if itn, ok := spk.Types.Scope().Lookup(a.p.ignorable).(*types.TypeName); ok {
				ignorable = itn.Type()
			}
		}
		if ignorable == nil {
			c.Undecided("C15-S8", "ignorable", 0, "type "+a.p.sqlRel+"."+a.p.ignorable+" not found")
		}
	}
	found := 0
	for _, et := range a.editorTypes() {
		st, ok := et.nt.Underlying().(*types.Struct)
		if !ok {
			continue
		}
		method := func(name string) *ssa.Function {
			obj, _, _ := types.LookupFieldOrMethod(types.NewPointer(et.nt), true, et.pk.Types, name)
			fn, _ := obj.(*types.Func)
			if fn == nil {
				return nil
			}
			f := c.P.SSAFunc(fn)
			if f == nil || len(f.Blocks) == 0 {
				return nil
			}
			return f
		}
		begin := method("StatementBegin")
		if begin == nil || len(begin.Params) == 0 {
			continue
		}
		recv := begin.Params[0]
		if pt, isPtr := recv.Type().Underlying().(*types.Pointer); !isPtr || dmlNamedOf(pt.Elem()) != et.nt {
			continue // value receiver: StatementBegin cannot keep anything
		}
		isRecvField := func(f *ssa.Function, v ssa.Value) (int, bool) {
			fa, ok := v.(*ssa.FieldAddr)
			if !ok || len(f.Params) == 0 || fa.X != ssa.Value(f.Params[0]) {
				return 0, false
			}
			return fa.Field, true
		}
		// discovery: snapshot field <- value depending on another receiver field
		type pair struct{ snap, live int }
		var pairs []pair
		for _, b := range begin.Blocks {
			for _, in := range b.Instrs {
				sto, ok := in.(*ssa.Store)
				if !ok {
					continue
				}
				k, ok := isRecvField(begin, sto.Addr)
				if !ok || !c15PointerLike(st.Field(k).Type()) {
					continue
				}
				for j := 0; j < st.NumFields(); j++ {
					if j == k || !c15PointerLike(st.Field(j).Type()) {
						continue
					}
					var seeds []ssa.Value
					for _, b2 := range begin.Blocks {
						for _, in2 := range b2.Instrs {
							if u, ok := in2.(*ssa.UnOp); ok && u.Op == token.MUL {
								if fj, ok := isRecvField(begin, u.X); ok && fj == j {
									seeds = append(seeds, u)
								}
							}
						}
					}
					if len(seeds) > 0 && c15Forward(begin, seeds)[sto.Val] {
						pairs = append(pairs, pair{k, j})
					}
				}
			}
		}
		if len(pairs) == 0 {
			continue
		}
		tkey := dmlTypeKey(et.nt)
		tshort := et.nt.Obj().Name()
		pkgFuncs := dmlSSAFuncs(c.P, prog, map[*types.Package]bool{et.pk.Types: true}, func(f *ssa.Function) *types.Package {
			for g := f; g != nil; g = g.Parent() {
				if g.Pkg != nil {
					return g.Pkg.Pkg
				}
				if o := g.Origin(); o != nil && o.Pkg != nil {
					return o.Pkg.Pkg
				}
			}
			return nil
		})
		fname := func(f *ssa.Function) string {
			root := f
			for root.Parent() != nil {
				root = root.Parent()
			}
			n := c15FnName(root)
			if root != f {
				n += "$" + f.Name()
			}
			return n
		}
		isTPtr := func(t types.Type) bool {
			pt, ok := t.Underlying().(*types.Pointer)
			return ok && dmlNamedOf(pt.Elem()) == et.nt && types.Identical(pt.Elem(), et.nt)
		}
		seenPair := map[pair]bool{}
		for _, pr := range pairs {
			if seenPair[pr] {
				continue
			}
			seenPair[pr] = true
			found++
			snapName, liveName := st.Field(pr.snap).Name(), st.Field(pr.live).Name()
			isSnapAddr := func(v ssa.Value) bool {
				fa, ok := v.(*ssa.FieldAddr)
				return ok && fa.Field == pr.snap && isTPtr(fa.X.Type())
			}
			isLiveAddr := func(v ssa.Value) bool {
				fa, ok := v.(*ssa.FieldAddr)
				return ok && fa.Field == pr.live && isTPtr(fa.X.Type())
			}
			snapLoads := func(f *ssa.Function) []ssa.Value {
				var out []ssa.Value
				for _, b := range f.Blocks {
					for _, in := range b.Instrs {
						if u, ok := in.(*ssa.UnOp); ok && u.Op == token.MUL && isSnapAddr(u.X) {
							out = append(out, u)
						}
					}
				}
				return out
			}

			// deep fields: pointer-like fields of the snapshot object read through the snapshot anywhere in the package
			deep := map[int]string{}
			for _, f := range pkgFuncs {
				loads := snapLoads(f)
				if len(loads) == 0 {
					continue
				}
				isLoad := map[ssa.Value]bool{}
				for _, l := range loads {
					isLoad[l] = true
				}
				for _, b := range f.Blocks {
					for _, in := range b.Instrs {
						if fa, ok := in.(*ssa.FieldAddr); ok && isLoad[fa.X] {
							if pt, ok := fa.X.Type().Underlying().(*types.Pointer); ok {
								if sst, ok := pt.Elem().Underlying().(*types.Struct); ok && fa.Field < sst.NumFields() {
									if _, isPtr := sst.Field(fa.Field).Type().Underlying().(*types.Pointer); isPtr {
										deep[fa.Field] = sst.Field(fa.Field).Name()
									}
								}
							}
						}
					}
				}
			}

			// ---- S6 + S9: who assigns the snapshot field, and with what
			for _, f := range pkgFuncs {
				for _, b := range f.Blocks {
					for _, in := range b.Instrs {
						sto, ok := in.(*ssa.Store)
						if !ok || !isSnapAddr(sto.Addr) {
							continue
						}
						base := sto.Addr.(*ssa.FieldAddr).X
						_, ctor := base.(*ssa.Alloc)
						key := fname(f) + "/assigns " + tshort + "." + snapName
						switch {
						case f == begin:
							c.Ok("C15-S6", key, sto.Pos(), "StatementBegin")
						case ctor:
							c.Ok("C15-S6", key, sto.Pos(), "constructor (composite literal)")
						default:
							c.Bad("C15-S6", key, sto.Pos(), fmt.Sprintf("%s assigns the statement-begin snapshot %s.%s outside StatementBegin and outside a constructor: a later DiscardChanges restores whatever was put there instead of the state at statement begin", fname(f), tkey, snapName))
							continue
						}
						// S9 for the legitimate writers
						k9 := fname(f) + "/snapshot-copy " + tshort + "." + snapName
						if !s.freshValue(sto.Val, 0) {
							c.Bad("C15-S9", k9, sto.Pos(), fmt.Sprintf("%s assigns to the snapshot %s.%s a value that is not a fresh object (not an allocation nor the result of a function whose every return is a new object): the snapshot aliases state that the statement goes on to modify, so DiscardChanges restores the modified state", fname(f), tkey, snapName))
							continue
						}
						c.Ok("C15-S9", k9, sto.Pos(), "fresh object")
						var dks []int
						for k := range deep {
							dks = append(dks, k)
						}
						sort.Ints(dks)
						srcs := s.freshSource(sto.Val, 0)
						for _, dk := range dks {
							kd := fname(f) + "/snapshot-copy-deep " + tshort + "." + snapName + "." + deep[dk]
							okDeep := len(srcs) > 0
							for _, al := range srcs {
								if !c15AllocFieldFresh(s, al, dk) {
									okDeep = false
								}
							}
							if okDeep {
								c.Ok("C15-S9", kd, sto.Pos(), "the copy gets a fresh "+deep[dk])
							} else {
								c.Bad("C15-S9", kd, sto.Pos(), fmt.Sprintf("the object assigned to the snapshot %s.%s is new, but its field %s (read through the snapshot by DiscardChanges / Close) is not given a fresh value by the copying function on every path to its return: the snapshot shares %s with the table under edit, and edits applied in place show up in the \"restored\" state", tkey, snapName, deep[dk], deep[dk]))
							}
						}
					}
				}
			}

			// ---- S7: nothing writes through the snapshot outside StatementBegin
			for _, f := range pkgFuncs {
				if f == begin {
					continue
				}
				loads := snapLoads(f)
				if len(loads) == 0 {
					continue
				}
				t, _ := s.taint(f, loads)
				ms := s.mutations(f, t, 0)
				key := fname(f) + "/reads " + tshort + "." + snapName
				if len(ms) == 0 {
					c.Ok("C15-S7", key, loads[0].Pos(), "")
					continue
				}
				seenK := map[string]bool{}
				for _, m := range ms {
					if seenK[m.key] {
						continue
					}
					seenK[m.key] = true
					c.Bad("C15-S7", key+"/"+m.key, m.pos, fmt.Sprintf("%s writes through the statement-begin snapshot %s.%s (%s): after that the snapshot no longer is the state at statement begin, and a failed statement is \"rolled back\" to it", fname(f), tkey, snapName, m.what))
				}
			}

			// ---- S8: DiscardChanges restores live from snapshot
			discard := method("DiscardChanges")
			key8 := tshort + ".DiscardChanges/restores " + liveName + " from " + snapName
			if discard == nil {
				c.Undecided("C15-S8", key8, et.nt.Obj().Pos(), "DiscardChanges has no body")
				continue
			}
			restores := s.restoreSites(discard, discard.Params[0], isSnapAddr, isLiveAddr, 0)
			var errParam ssa.Value
			if n := len(discard.Params); n > 0 && IsErrorType(discard.Params[n-1].Type()) {
				errParam = discard.Params[n-1]
			}
			excluded := func(b *ssa.BasicBlock, succ int) bool {
				if ignorable == nil || errParam == nil || succ != 0 || len(b.Instrs) == 0 {
					return false
				}
				ifi, ok := b.Instrs[len(b.Instrs)-1].(*ssa.If)
				if !ok {
					return false
				}
				ex, ok := ifi.Cond.(*ssa.Extract)
				if !ok || ex.Index != 1 {
					return false
				}
				ta, ok := ex.Tuple.(*ssa.TypeAssert)
				if !ok || !ta.CommaOk || ta.X != errParam {
					return false
				}
				return types.Identical(ta.AssertedType, ignorable)
			}
			if path := c15AvoidPath(discard, restores, excluded); path != nil {
				var desc []string
				for _, b := range path {
					for _, in := range b.Instrs {
						if in.Pos().IsValid() {
							desc = append(desc, c.P.Rel(in.Pos())+": block "+fmt.Sprint(b.Index)+" ("+b.Comment+")")
							break
						}
					}
				}
				what := "never writes"
				if len(restores) > 0 {
					what = "can return without writing"
				}
				c.Bad("C15-S8", key8, discard.Pos(), fmt.Sprintf("%s.DiscardChanges %s the live table (%s) from the statement-begin snapshot (%s) on a path where the error is not ignorable: the failed statement's edits stay (data must flow snapshot -> live: a store into memory reached from %s of a value derived from %s, or a call that does so)", tkey, what, liveName, snapName, liveName, snapName), desc...)
			} else {
				c.Ok("C15-S8", key8, discard.Pos(), fmt.Sprintf("%d restoring instruction(s) on every non-ignorable path", len(restores)))
			}
		}
	}
	if found == 0 && !c.fixtureMode {
		c.Undecided("C15-S8", "snapshot editors", 0, "no EditOpenerCloser implementation whose StatementBegin keeps a snapshot was found in "+strings.Join(a.p.editorPkgs, ", "))
	}
}

// restoreSites: the instructions of f (whose parameter `ed` is the editor) that write live state from the snapshot.
func (s *c15Snap) restoreSites(f *ssa.Function, ed ssa.Value, isSnapAddr, isLiveAddr func(ssa.Value) bool, depth int) map[ssa.Instruction]bool {
	var snapSeeds, liveSeeds []ssa.Value
	for _, b := range f.Blocks {
		for _, in := range b.Instrs {
			switch x := in.(type) {
			case *ssa.UnOp:
				if x.Op == token.MUL && isSnapAddr(x.X) {
					snapSeeds = append(snapSeeds, x)
				}
				if x.Op == token.MUL && isLiveAddr(x.X) {
					liveSeeds = append(liveSeeds, x)
				}
			case *ssa.FieldAddr:
				if isLiveAddr(x) {
					liveSeeds = append(liveSeeds, x)
				}
			}
		}
	}
	src := c15Forward(f, snapSeeds)
	dst := c15AddrClosure(f, liveSeeds)
	out := s.restoresIn(f, dst, src, 0)
	if out == nil {
		out = map[ssa.Instruction]bool{}
	}
	// helper methods on the editor that restore on every path
	if depth < 2 {
		for _, b := range f.Blocks {
			for _, in := range b.Instrs {
				ci, ok := in.(ssa.CallInstruction)
				if !ok {
					continue
				}
				callee := ci.Common().StaticCallee()
				if callee == nil || !s.hasBody(callee) || callee == f {
					continue
				}
				for i, arg := range ci.Common().Args {
					if arg != ed || i >= len(callee.Params) {
						continue
					}
					sub := s.restoreSites(callee, callee.Params[i], isSnapAddr, isLiveAddr, depth+1)
					if len(sub) > 0 && c15AvoidPath(callee, sub, nil) == nil {
						out[in] = true
					}
				}
			}
		}
	}
	return out
}

// c15AllocFieldFresh: in the function that owns allocation al, field k of al receives a fresh value
// in a block that dominates every return of that function.
func c15AllocFieldFresh(s *c15Snap, al *ssa.Alloc, k int) bool {
	f := al.Parent()
	var stores []*ssa.Store
	for _, ref := range *al.Referrers() {
		fa, ok := ref.(*ssa.FieldAddr)
		if !ok || fa.Field != k {
			continue
		}
		for _, r2 := range *fa.Referrers() {
			if sto, ok := r2.(*ssa.Store); ok && sto.Addr == ssa.Value(fa) && s.freshValue(sto.Val, 0) {
				stores = append(stores, sto)
			}
		}
	}
	if len(stores) == 0 {
		return false
	}
	for _, b := range f.Blocks {
		for _, in := range b.Instrs {
			if _, ok := in.(*ssa.Return); !ok {
				continue
			}
			dom := false
			for _, sto := range stores {
				if sto.Block().Dominates(b) {
					dom = true
				}
			}
			if !dom {
				return false
			}
		}
	}
	return true
}
