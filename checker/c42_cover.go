package main

// C42-R2c — child coverage of delegating IsReadOnly implementations.
//
// For a plan node N whose IsReadOnly is not a constant, the engine's read-only check trusts
// N.IsReadOnly() for the whole subtree that N's executor runs. Necessary condition:
//
//	N.IsReadOnly() == true  ⇒  child.IsReadOnly() == true   for every child node N's executor executes.
//
// executed children E(N): the node argument of every call of the executor's dispatch that is
// reachable from N's build function (callees, closures, methods of the iterator types it
// allocates), resolved backwards over SSA to an access path rooted at the build function's node
// parameter (n.Child, n.BinaryNode.left, n.IfElse.IfConditionals[] …) — through accessors, helper
// parameters, iterator fields (every store to the field), closures, slices and tree rewriters.
// consulted-and-conjoined children D(N): a forward must-analysis of the SSA of N's IsReadOnly:
// the set of access paths p such that on every path to a return that may yield true,
// p.IsReadOnly() was called and observed true (or p was observed nil). `&&`, early `return false`,
// negations, flag variables, helper functions and "for every element" loops are read; `||`, a
// duplicate operand or a dropped operand leave the child outside D.
// N is fine iff every path of E(N) has a prefix in D(N).

import (
	"fmt"
	"go/constant"
	"go/token"
	"go/types"
	"os"
	"sort"
	"strings"
	"time"

	"golang.org/x/tools/go/packages"
	"golang.org/x/tools/go/ssa"
)

type c42cov struct {
	c        *Ctx
	cf       c42Cfg
	ix       *orgIndex
	exec     *packages.Package
	planPk   *packages.Package
	sqlPk    *packages.Package
	xformPk  *packages.Package
	nodeI    *types.Interface
	roSig    *types.Signature
	roName   string
	nodeType types.Type
}

func c42NewCov(c *Ctx, cf c42Cfg, exec, planPk, sqlPk *packages.Package) *c42cov {
	w := &c42cov{c: c, cf: cf, exec: exec, planPk: planPk, sqlPk: sqlPk, roName: "IsReadOnly"}
	if sqlPk == nil {
		return nil
	}
	tn, _ := sqlPk.Types.Scope().Lookup("Node").(*types.TypeName)
	if tn == nil {
		return nil
	}
	w.nodeType = tn.Type()
	w.nodeI, _ = tn.Type().Underlying().(*types.Interface)
	if w.nodeI == nil {
		return nil
	}
	for i := 0; i < w.nodeI.NumMethods(); i++ {
		if m := w.nodeI.Method(i); m.Name() == w.roName {
			w.roSig = m.Type().(*types.Signature)
		}
	}
	if w.roSig == nil {
		return nil
	}
	if cf.transformRel != "" {
		w.xformPk = c.P.Pkg(cf.transformRel)
	}
	w.ix = orgIndexOf(c.P)
	return w
}

func (w *c42cov) nodeish(t types.Type) bool {
	switch u := t.Underlying().(type) {
	case *types.Slice:
		return w.nodeish(u.Elem())
	case *types.Array:
		return w.nodeish(u.Elem())
	}
	if types.Implements(t, w.nodeI) {
		return true
	}
	if _, isPtr := t.(*types.Pointer); !isPtr {
		if _, isIface := t.Underlying().(*types.Interface); !isIface {
			return types.Implements(types.NewPointer(t), w.nodeI)
		}
	}
	return false
}

// planPath: every step of the path stays inside the plan tree (a node-typed field, an embedded
// struct, an element of a node slice) and the path ends in a node.
func (w *c42cov) planPath(p orgPath) bool {
	if len(p) == 0 {
		return false
	}
	for i, s := range p {
		if s.f == nil {
			continue
		}
		if w.nodeish(s.f.Type()) {
			continue
		}
		if s.f.Embedded() && i < len(p)-1 {
			continue
		}
		return false
	}
	return true
}

// isDispatch: the call enters the executor's node dispatch; returns the node argument.
func (w *c42cov) isDispatch(com *ssa.CallCommon) (ssa.Value, bool) {
	var sig *types.Signature
	var args []ssa.Value
	if com.IsInvoke() {
		m := com.Method
		if m.Pkg() == nil || (m.Pkg() != w.sqlPk.Types && m.Pkg() != w.exec.Types) || !contains(w.cf.dispatchers, m.Name()) {
			return nil, false
		}
		sig, args = m.Type().(*types.Signature), com.Args
	} else {
		cal := com.StaticCallee()
		if cal == nil || cal.Object() == nil || cal.Object().Pkg() != w.exec.Types || !contains(w.cf.dispatchers, cal.Name()) {
			return nil, false
		}
		sig = cal.Object().Type().(*types.Signature)
		args = com.Args
		if sig.Recv() != nil {
			if len(args) == 0 {
				return nil, false
			}
			args = args[1:]
		}
	}
	for i := 0; i < sig.Params().Len() && i < len(args); i++ {
		if types.Identical(sig.Params().At(i).Type(), w.nodeType) {
			return args[i], true
		}
	}
	return nil, false
}

type c42Exec struct {
	path orgPath
	site string
}

// executed: E(N).
func (w *c42cov) executed(build *ssa.Function, root *ssa.Parameter) (out []c42Exec, offTree []string, truncated bool) {
	seen := map[*ssa.Function]bool{}
	type item struct {
		f *ssa.Function
		d int
	}
	queue := []item{{build, 0}}
	var calls []ssa.CallInstruction
	var args []ssa.Value
	push := func(f *ssa.Function, d int) {
		if f == nil || seen[f] || len(f.Blocks) == 0 || !w.ix.inMod[orgPkgOf(f)] || d > 10 {
			return
		}
		seen[f] = true
		queue = append(queue, item{f, d})
	}
	seen[build] = true
	for len(queue) > 0 {
		it := queue[0]
		queue = queue[1:]
		for _, b := range it.f.Blocks {
			for _, in := range b.Instrs {
				if ci, ok := in.(ssa.CallInstruction); ok {
					if a, is := w.isDispatch(ci.Common()); is {
						calls, args = append(calls, ci), append(args, a)
						continue
					}
					push(ci.Common().StaticCallee(), it.d+1)
				}
				if al, ok := in.(*ssa.Alloc); ok {
					if nt, ok := types.Unalias(al.Type().(*types.Pointer).Elem()).(*types.Named); ok && c42InModule(w.c, nt.Obj().Pkg()) && c42IsIter(nt) {
						ms := w.ix.prog.MethodSets.MethodSet(types.NewPointer(nt))
						for i := 0; i < ms.Len(); i++ {
							push(w.ix.prog.MethodValue(ms.At(i)), it.d+1)
						}
					}
				}
				for _, op := range in.Operands(nil) {
					if op == nil || *op == nil {
						continue
					}
					if fn, ok := (*op).(*ssa.Function); ok {
						if _, isCall := in.(ssa.CallInstruction); isCall && in.(ssa.CallInstruction).Common().Value == fn {
							continue
						}
						push(fn, it.d+1)
					}
				}
			}
		}
	}
	got := map[string]bool{}
	off := map[string]bool{}
	for i, ci := range calls {
		r := w.ix.resolver(map[ssa.Value]orgPath{root: nil})
		r.storeFollow = func(owner types.Type) bool {
			nt, ok := types.Unalias(owner).(*types.Named)
			return ok && nt.Obj().Pkg() != w.planPk.Types
		}
		r.derive = w.derive
		r.opaque = func(fn *ssa.Function) bool { // the dispatch itself: its node parameter is "any node", not a child of this one
			return fn.Object() != nil && fn.Object().Pkg() == w.exec.Types && contains(w.cf.dispatchers, fn.Name())
		}
		for _, res := range r.Resolve(args[i]) {
			k := res.path.String()
			if !w.planPath(res.path) {
				if len(res.path) > 0 {
					off[k] = true
				}
				continue
			}
			if !got[k] {
				got[k] = true
				out = append(out, c42Exec{res.path, fmt.Sprintf("%s (%s)", c42FnName(ci.Parent()), w.c.P.Rel(ci.Pos()))})
			}
		}
		truncated = truncated || r.truncated
	}
	sort.Slice(out, func(i, j int) bool { return out[i].path.String() < out[j].path.String() })
	for k := range off {
		offTree = append(offTree, k)
	}
	sort.Strings(offTree)
	return
}

func c42FnName(f *ssa.Function) string {
	root := f
	for root.Parent() != nil {
		root = root.Parent()
	}
	s := root.Name()
	if recv := root.Signature.Recv(); recv != nil {
		t := recv.Type()
		if p, ok := t.(*types.Pointer); ok {
			t = p.Elem()
		}
		if nt, ok := types.Unalias(t).(*types.Named); ok {
			s = nt.Obj().Name() + "." + s
		}
	}
	if root != f {
		s += " (func literal)"
	}
	return s
}

// derive: tree rewriters of the transform package return the node they were given or a rewritten
// copy of it: executing the result executes (a copy of) the argument.
func (w *c42cov) derive(call *ssa.Call) []ssa.Value {
	cal := call.Call.StaticCallee()
	if cal == nil || w.xformPk == nil || orgPkgOf(cal) != w.xformPk.Types {
		return nil
	}
	res := cal.Signature.Results()
	if res.Len() == 0 || !w.nodeish(res.At(0).Type()) {
		return nil
	}
	var out []ssa.Value
	for _, a := range call.Call.Args {
		if w.nodeish(a.Type()) {
			out = append(out, a)
		}
	}
	return out
}

// ---- D(N): must-analysis of IsReadOnly

type c42facts struct {
	top bool
	m   map[string]orgPath
}

func c42Top() c42facts { return c42facts{top: true} }
func (a c42facts) union(b c42facts) c42facts {
	if a.top || b.top {
		return c42Top()
	}
	m := map[string]orgPath{}
	for k, v := range a.m {
		m[k] = v
	}
	for k, v := range b.m {
		m[k] = v
	}
	return c42facts{m: m}
}
func (a c42facts) meet(b c42facts) c42facts {
	if a.top {
		return b
	}
	if b.top {
		return a
	}
	m := map[string]orgPath{}
	for k, v := range a.m {
		if _, ok := b.m[k]; ok {
			m[k] = v
		}
	}
	return c42facts{m: m}
}
func (a c42facts) equal(b c42facts) bool {
	if a.top != b.top || len(a.m) != len(b.m) {
		return false
	}
	for k := range a.m {
		if _, ok := b.m[k]; !ok {
			return false
		}
	}
	return true
}

type c42ro struct {
	w        *c42cov
	fn       *ssa.Function
	res      *orgResolver
	in       map[*ssa.BasicBlock]c42facts
	depth    int
	visiting map[ssa.Value]bool
	trunc    bool
	loops    map[*ssa.BasicBlock]*c42loop
}

// conjoined: the access paths (relative to roots) whose IsReadOnly is known true (or that are
// known nil) whenever fn returns true. ok=false: fn could not be read.
func (w *c42cov) conjoined(fn *ssa.Function, roots map[ssa.Value]orgPath, depth int) (map[string]orgPath, bool) {
	if fn == nil || len(fn.Blocks) == 0 {
		return nil, false
	}
	a := &c42ro{w: w, fn: fn, in: map[*ssa.BasicBlock]c42facts{}, depth: depth, visiting: map[ssa.Value]bool{}}
	a.res = w.ix.resolver(roots)
	for _, b := range fn.Blocks {
		a.in[b] = c42Top()
	}
	a.in[fn.Blocks[0]] = c42facts{m: map[string]orgPath{}}
	for pass := 0; pass < 60; pass++ {
		changed := false
		for _, b := range fn.Blocks[1:] {
			nv := c42Top()
			for _, p := range b.Preds {
				nv = nv.meet(a.edgeTo(p, b))
			}
			if len(b.Preds) == 0 {
				nv = c42Top() // unreachable (e.g. recover block)
			}
			if !nv.equal(a.in[b]) {
				a.in[b] = nv
				changed = true
			}
		}
		if !changed {
			break
		}
	}
	final := c42Top()
	for _, b := range fn.Blocks {
		if len(b.Instrs) == 0 {
			continue
		}
		ret, ok := b.Instrs[len(b.Instrs)-1].(*ssa.Return)
		if !ok || len(ret.Results) != 1 || a.in[b].top {
			continue
		}
		final = final.meet(a.in[b].union(a.tf(ret.Results[0], true, b)))
	}
	out := map[string]orgPath{}
	if final.top {
		return out, !a.trunc // never returns true: nothing to cover, reported by the caller as constant
	}
	for k, v := range final.m {
		if !strings.Contains(k, "@") {
			out[k] = v
		}
	}
	return out, !a.trunc
}

func (a *c42ro) edgeTo(p, b *ssa.BasicBlock) c42facts {
	out := c42Top()
	for k, s := range p.Succs {
		if s == b {
			out = out.meet(a.edgeOut(p, k))
		}
	}
	return out
}

func (a *c42ro) edgeOut(p *ssa.BasicBlock, k int) c42facts {
	base := a.in[p]
	if base.top || len(p.Instrs) == 0 {
		return base
	}
	iff, ok := p.Instrs[len(p.Instrs)-1].(*ssa.If)
	if !ok {
		return base
	}
	// the branch outcome itself is remembered ("@val:t3=true"), so that a phi edge on which the
	// value is known false does not count as a way for it to be true
	cv, pol := iff.Cond, true
	for {
		u, ok := cv.(*ssa.UnOp)
		if !ok || u.Op != token.NOT {
			break
		}
		cv, pol = u.X, !pol
	}
	mark := func(taken bool) c42facts {
		return c42facts{m: map[string]orgPath{fmt.Sprintf("@val:%s=%t", cv.Name(), taken == pol): nil}}
	}
	if k == 0 {
		return base.union(a.tf(iff.Cond, true, p)).union(mark(true))
	}
	return base.union(a.tf(iff.Cond, false, p)).union(a.promote(p, iff)).union(mark(false))
}

// tf: the facts that hold whenever v == want. top: v can never equal want.
func (a *c42ro) tf(v ssa.Value, want bool, at *ssa.BasicBlock) c42facts {
	none := c42facts{m: map[string]orgPath{}}
	switch x := v.(type) {
	case *ssa.Const:
		if x.Value != nil && x.Value.Kind() == constant.Bool {
			if constant.BoolVal(x.Value) == want {
				return none
			}
			return c42Top()
		}
	case *ssa.UnOp:
		if x.Op == token.NOT {
			return a.tf(x.X, !want, at)
		}
	case *ssa.Phi:
		if a.visiting[x] {
			// re-entered through a cycle: "this very phi is true" (read by the loop-carried flag case below)
			return c42facts{m: map[string]orgPath{"@self:" + x.Name(): nil}}
		}
		a.visiting[x] = true
		defer delete(a.visiting, x)
		li := a.loopOf(x.Block())
		initF, backF := c42Top(), c42Top()
		for i, e := range x.Edges {
			pred := x.Block().Preds[i]
			ef := a.edgeTo(pred, x.Block())
			if !ef.top {
				if _, contra := ef.m[fmt.Sprintf("@val:%s=%t", e.Name(), !want)]; contra {
					continue // on this edge the value is known to be !want
				}
			}
			f := ef.union(a.tf(e, want, pred))
			if li != nil && li.back[pred] {
				backF = backF.meet(f)
			} else {
				initF = initF.meet(f)
			}
		}
		// a flag carried around a "for every element" loop, read after the loop: it is true only if it
		// was true initially and stayed true in every iteration (the back-edge value being true implies
		// the phi itself was true: "@self"), so what each iteration established for its element holds
		// for all elements.
		if li != nil && li.singleExit && !li.body[at] && !backF.top && !initF.top {
			_, mono := backF.m["@self:"+x.Name()]
			if _, viaBranch := backF.m[fmt.Sprintf("@val:%s=%t", x.Name(), want)]; viaBranch {
				mono = true
			}
			if mono {
				out := c42facts{m: map[string]orgPath{}}.union(initF)
				for k, v := range backF.m {
					if strings.HasSuffix(k, li.suffix) {
						out.m[strings.TrimSuffix(k, li.suffix)] = v
					}
				}
				return out
			}
		}
		return initF.meet(backF)
	case *ssa.BinOp:
		if (x.Op == token.EQL && want) || (x.Op == token.NEQ && !want) {
			var other ssa.Value
			if c, ok := x.Y.(*ssa.Const); ok && c.IsNil() {
				other = x.X
			} else if c, ok := x.X.(*ssa.Const); ok && c.IsNil() {
				other = x.Y
			}
			if other != nil {
				rs := a.resolve(other)
				if len(rs) == 1 && !rs[0].choice && !rs[0].path.hasElem() {
					return c42facts{m: map[string]orgPath{rs[0].path.String(): rs[0].path}}
				}
			}
		}
	case *ssa.Call:
		if !want {
			return none
		}
		if recv, ok := a.w.consulted(&x.Call); ok {
			return a.recvFacts(recv)
		}
		// helper function of the module returning bool
		cal := x.Call.StaticCallee()
		if cal != nil && a.depth < 3 && len(cal.Blocks) > 0 && a.w.ix.inMod[orgPkgOf(cal)] && cal.Signature.Results().Len() == 1 {
			roots := map[ssa.Value]orgPath{}
			for i, arg := range x.Call.Args {
				if i >= len(cal.Params) {
					break
				}
				rs := a.resolve(arg)
				if len(rs) == 1 && !rs[0].choice {
					roots[cal.Params[i]] = rs[0].path
				}
			}
			if len(roots) > 0 {
				if m, ok := a.w.conjoined(cal, roots, a.depth+1); ok {
					return c42facts{m: m}
				}
			}
		}
	}
	return none
}

func (a *c42ro) resolve(v ssa.Value) []orgResult {
	rs := a.res.Resolve(v)
	if a.res.truncated {
		a.trunc = true
	}
	return rs
}

// consulted: the call asks a node for its IsReadOnly; returns the receiver.
func (w *c42cov) consulted(com *ssa.CallCommon) (ssa.Value, bool) {
	if com.IsInvoke() {
		if com.Method.Name() != w.roName || !types.Identical(com.Method.Type().(*types.Signature), w.roSig) {
			return nil, false
		}
		return com.Value, true
	}
	cal := com.StaticCallee()
	if cal == nil || cal.Name() != w.roName || cal.Signature.Recv() == nil || len(com.Args) == 0 {
		return nil, false
	}
	if cal.Signature.Params().Len() != 0 || cal.Signature.Results().Len() != 1 || !types.Identical(cal.Signature.Results().At(0).Type(), w.roSig.Results().At(0).Type()) {
		return nil, false
	}
	if !w.nodeish(cal.Signature.Recv().Type()) {
		return nil, false
	}
	return com.Args[0], true
}

// recvFacts: "recv.IsReadOnly() is true". A receiver read from a slice element is a fact about
// that one element, tagged with (slice, index): it only counts once a loop has established it
// for every element (promote).
func (a *c42ro) recvFacts(recv ssa.Value) c42facts {
	none := c42facts{m: map[string]orgPath{}}
	tag := ""
	pv := orgPeel(recv)
	if u, ok := pv.(*ssa.UnOp); ok && u.Op == token.MUL {
		pv = u.X
	}
	if ia, ok := pv.(*ssa.IndexAddr); ok {
		tag = a.tagKey(ia.X, ia.Index)
	}
	rs := a.resolve(recv)
	if len(rs) == 0 {
		return none
	}
	for _, r := range rs {
		if r.choice {
			return none
		}
	}
	out := map[string]orgPath{}
	if tag != "" {
		for _, r := range rs {
			out[r.path.String()+"@"+tag] = r.path
		}
		return c42facts{m: out}
	}
	if len(rs) == 1 && !rs[0].path.hasElem() {
		out[rs[0].path.String()] = rs[0].path
	}
	return c42facts{m: out}
}

func (a *c42ro) sliceKey(x ssa.Value) string {
	rs := a.resolve(x)
	if len(rs) > 0 {
		var ks []string
		for _, r := range rs {
			if r.choice {
				return "v:" + x.Name()
			}
			ks = append(ks, r.path.String())
		}
		return strings.Join(ks, ",")
	}
	return "v:" + x.Name()
}

func (a *c42ro) tagKey(slice, idx ssa.Value) string { return a.sliceKey(slice) + "#" + idx.Name() }

// c42loop: a loop `for idx over 0 ≤ idx < len(S)` (the form go/ssa gives a range over a slice, or a
// hand-written three-clause loop) with header h.
type c42loop struct {
	back       map[*ssa.BasicBlock]bool // sources of the back edges
	body       map[*ssa.BasicBlock]bool // natural loop, header included
	singleExit bool                     // the only edge leaving the loop is the header's exhaustion edge
	suffix     string                   // "@"+tag of the facts about S[idx]
}

func (a *c42ro) loopOf(h *ssa.BasicBlock) *c42loop {
	if a.loops == nil {
		a.loops = map[*ssa.BasicBlock]*c42loop{}
	}
	if li, ok := a.loops[h]; ok {
		return li
	}
	a.loops[h] = nil
	if len(h.Instrs) == 0 {
		return nil
	}
	iff, ok := h.Instrs[len(h.Instrs)-1].(*ssa.If)
	if !ok {
		return nil
	}
	cmp, ok := iff.Cond.(*ssa.BinOp)
	if !ok || cmp.Op != token.LSS {
		return nil
	}
	lenCall, ok := cmp.Y.(*ssa.Call)
	if !ok {
		return nil
	}
	if b, isB := lenCall.Call.Value.(*ssa.Builtin); !isB || b.Name() != "len" || len(lenCall.Call.Args) != 1 {
		return nil
	}
	idx := cmp.X
	var phi *ssa.Phi
	wantInit := int64(0)
	if p, ok := idx.(*ssa.Phi); ok {
		phi = p
	} else if add, ok := idx.(*ssa.BinOp); ok && add.Op == token.ADD {
		if c, ok := add.Y.(*ssa.Const); ok && c.Value != nil && c.Int64() == 1 {
			phi, _ = add.X.(*ssa.Phi)
			wantInit = -1
		}
	}
	if phi == nil || phi.Block() != h {
		return nil
	}
	li := &c42loop{back: map[*ssa.BasicBlock]bool{}, body: map[*ssa.BasicBlock]bool{h: true}}
	for i, e := range phi.Edges {
		if c, ok := e.(*ssa.Const); ok {
			if c.Value == nil || c.Int64() != wantInit {
				return nil
			}
			continue
		}
		isStep := false
		if wantInit == -1 {
			isStep = e == idx
		} else if add, ok := e.(*ssa.BinOp); ok && add.Op == token.ADD && add.X == ssa.Value(phi) {
			if c, ok := add.Y.(*ssa.Const); ok && c.Value != nil && c.Int64() == 1 {
				isStep = true
			}
		}
		if !isStep {
			return nil
		}
		li.back[h.Preds[i]] = true
	}
	if len(li.back) == 0 {
		return nil
	}
	var stack []*ssa.BasicBlock
	for b := range li.back {
		stack = append(stack, b)
	}
	for len(stack) > 0 {
		b := stack[len(stack)-1]
		stack = stack[:len(stack)-1]
		if li.body[b] {
			continue
		}
		li.body[b] = true
		stack = append(stack, b.Preds...)
	}
	li.singleExit = len(h.Succs) == 2 && li.body[h.Succs[0]] && !li.body[h.Succs[1]]
	for b := range li.body {
		if b == h {
			continue
		}
		for _, sc := range b.Succs {
			if !li.body[sc] {
				li.singleExit = false
			}
		}
	}
	li.suffix = "@" + a.tagKey(lenCall.Call.Args[0], idx)
	a.loops[h] = li
	return li
}

// promote: a fact that holds for S[idx] on every back edge of the loop headed by h holds for every
// element of S on the loop's exhaustion edge.
func (a *c42ro) promote(h *ssa.BasicBlock, iff *ssa.If) c42facts {
	none := c42facts{m: map[string]orgPath{}}
	li := a.loopOf(h)
	if li == nil {
		return none
	}
	var acc map[string]orgPath
	for _, bp := range h.Preds {
		if !li.back[bp] {
			continue
		}
		ef := a.edgeTo(bp, h)
		if ef.top {
			continue // back edge not (yet) reachable
		}
		cur := map[string]orgPath{}
		for k, v := range ef.m {
			if strings.HasSuffix(k, li.suffix) {
				cur[strings.TrimSuffix(k, li.suffix)] = v
			}
		}
		if acc == nil {
			acc = cur
		} else {
			for k := range acc {
				if _, ok := cur[k]; !ok {
					delete(acc, k)
				}
			}
		}
	}
	if acc == nil {
		return none
	}
	return c42facts{m: acc}
}

// ---- the rule

func c42R2c(c *Ctx, cf c42Cfg, nodes []*c42Node, exec, planPk, sqlPk *packages.Package) {
	tIdx := time.Now()
	w := c42NewCov(c, cf, exec, planPk, sqlPk)
	if os.Getenv("VCHK_DUMP") != "" {
		fmt.Printf("C42-R2c ssa+index %v\n", time.Since(tIdx))
	}
	if w == nil {
		c.Undecided("C42-R2c", "anchors", 0, "sql.Node interface with IsReadOnly not found")
		return
	}
	seen := map[string]bool{}
	t0 := time.Now()
	defer func() {
		if os.Getenv("VCHK_DUMP") != "" && !c.fixtureMode {
			for _, o := range c.Obs {
				if o.Rule == "C42-R2c" {
					fmt.Printf("OBS %s %s %s | %s\n", o.Rule, o.Status, o.Key, o.Msg)
				}
			}
			fmt.Printf("C42-R2c total %v\n", time.Since(t0))
		}
	}()
	for _, n := range nodes {
		if seen[n.name] || n.ro != "delegates" {
			continue
		}
		seen[n.name] = true
		if n.build == nil {
			c.Undecided("C42-R2c", n.name, n.roPos, "the dispatch arm of plan."+n.name+" is not a single call of a build function")
			continue
		}
		build := w.ix.FuncValue(n.build)
		var root *ssa.Parameter
		if build != nil {
			for _, p := range build.Params {
				t := p.Type()
				if pt, ok := t.(*types.Pointer); ok {
					t = pt.Elem()
				}
				if nt, ok := types.Unalias(t).(*types.Named); ok && nt.Obj() == n.tn {
					root = p
				}
			}
		}
		if build == nil || root == nil {
			c.Undecided("C42-R2c", n.name, n.roPos, "build function of plan."+n.name+" has no parameter of the node's type")
			continue
		}
		execd, off, trunc := w.executed(build, root)
		if trunc {
			c.Notef("C42-R2c %s: origin search truncated (budget): executed children may be incomplete", n.name)
		}
		if len(off) > 0 {
			c.Notef("C42-R2c %s: executes nodes reached through non-plan fields (run-time references, not children): %v", n.name, off)
		}
		if len(execd) == 0 {
			c.Ok("C42-R2c", n.name, n.roPos, "executes no child field of its own (IsReadOnly delegates)")
			continue
		}
		// IsReadOnly: the declared method (possibly promoted through embedded fields)
		obj, index, _ := types.LookupFieldOrMethod(types.NewPointer(n.tn.Type()), true, n.tn.Pkg(), w.roName)
		m, _ := obj.(*types.Func)
		var chain orgPath
		{
			t := n.tn.Type()
			for _, i := range index[:max(0, len(index)-1)] {
				fv := orgFieldOf(t, i)
				if fv == nil {
					break
				}
				chain = append(chain, orgStep{fv})
				t = fv.Type()
				if p, ok := t.Underlying().(*types.Pointer); ok {
					t = p.Elem()
				}
			}
		}
		ro := w.ix.FuncValue(m)
		if ro == nil || len(ro.Params) == 0 {
			c.Undecided("C42-R2c", n.name, n.roPos, "IsReadOnly of plan."+n.name+" has no SSA body")
			continue
		}
		d, ok := w.conjoined(ro, map[ssa.Value]orgPath{ro.Params[0]: chain}, 0)
		if !ok {
			c.Undecided("C42-R2c", n.name, n.roPos, "IsReadOnly of plan."+n.name+" could not be read (origin search truncated)")
			continue
		}
		var dl []string
		for k := range d {
			dl = append(dl, k)
		}
		sort.Strings(dl)
		for _, e := range execd {
			key := n.name + "/" + e.path.String()
			cov := ""
			for _, k := range dl {
				if orgPrefix(d[k], e.path) {
					cov = k
					break
				}
			}
			if cov == "" && len(chain) > 0 && orgPrefix(e.path, chain) {
				cov = chain.String() + " (the same method, promoted)"
			}
			if cov != "" {
				c.Ok("C42-R2c", key, n.roPos, "executed at "+e.site+"; IsReadOnly is true only if "+cov+" is read-only (or nil)")
				continue
			}
			c.Bad("C42-R2c", key, n.roPos, fmt.Sprintf("plan.%s executes its child %s (%s) but %s.IsReadOnly can return true without %s.IsReadOnly() having been true (conjoined children: %v): a write in that child passes the engine's read-only check",
				n.name, e.path, e.site, n.name, e.path, dl))
		}
	}
}
