package main

import (
	"fmt"
	"go/ast"
	"go/token"
	"go/types"
	"sort"

	"golang.org/x/tools/go/packages"
)

// C43-N1 (run extraction): a reader that cuts the rows of one object out of a list that holds the
// rows of all objects does so with a two-phase scan over a position variable s - while s is unset
// (s < 0) the first element satisfying P starts the run, afterwards (s >= 0) the first element
// satisfying Q ends it. The run is exactly the elements of that object only if Q is the negation
// of P: a weaker Q lets the run continue into the elements of another object (the same-named
// table of the next database), a stronger one cuts it short.
//
// Found structurally in the given packages: an if / else-if chain inside a loop whose first
// condition is `s < 0 && P` (in any order) with body `s = <index>` and whose second condition is
// `s >= 0 && Q`. P and Q are folded over the truth values of their atoms (comparisons are
// normalised so that a != b is the negation of a == b; bool variables and any other
// sub-expression are opaque atoms) and must be complementary on all assignments.

func ruleRunComplement(c *Ctx, rule string, rels []string) {
	c.P.EachFuncDecl(rels, func(pk *packages.Package, fd *ast.FuncDecl) {
		if fd.Body == nil {
			return
		}
		info := pk.TypesInfo
		ast.Inspect(fd.Body, func(n ast.Node) bool {
			var body *ast.BlockStmt
			switch l := n.(type) {
			case *ast.RangeStmt:
				body = l.Body
			case *ast.ForStmt:
				body = l.Body
			default:
				return true
			}
			for _, st := range body.List {
				ifs, ok := st.(*ast.IfStmt)
				if !ok {
					continue
				}
				els, ok := ifs.Else.(*ast.IfStmt)
				if !ok {
					continue
				}
				s1, p := c43SplitPhase(info, ifs.Cond, token.LSS)
				s2, q := c43SplitPhase(info, els.Cond, token.GEQ)
				if s1 == nil || s2 == nil || s1 != s2 || p == nil || q == nil {
					continue
				}
				// the first arm records the start in s
				assigns := false
				for _, b := range ifs.Body.List {
					if as, ok := b.(*ast.AssignStmt); ok && len(as.Lhs) == 1 {
						if id := identOf(as.Lhs[0]); id != nil && info.Uses[id] == s1 {
							assigns = true
						}
					}
				}
				if !assigns {
					continue
				}
				key := DeclName(fd) + "/run over " + s1.Name()
				atoms := map[string]int{}
				var names []string
				var collect func(e ast.Expr)
				collect = func(e ast.Expr) {
					e = ast.Unparen(e)
					switch x := e.(type) {
					case *ast.UnaryExpr:
						if x.Op == token.NOT {
							collect(x.X)
							return
						}
					case *ast.BinaryExpr:
						if x.Op == token.LAND || x.Op == token.LOR {
							collect(x.X)
							collect(x.Y)
							return
						}
					}
					k, _ := c43Atom(info, e)
					if _, ok := atoms[k]; !ok {
						atoms[k] = len(atoms)
						names = append(names, k)
					}
				}
				collect(p)
				collect(q)
				if len(atoms) > 12 {
					c.Undecided(rule, key, ifs.Pos(), "too many atoms to fold")
					continue
				}
				var eval func(e ast.Expr, asg int) bool
				eval = func(e ast.Expr, asg int) bool {
					e = ast.Unparen(e)
					switch x := e.(type) {
					case *ast.UnaryExpr:
						if x.Op == token.NOT {
							return !eval(x.X, asg)
						}
					case *ast.BinaryExpr:
						switch x.Op {
						case token.LAND:
							return eval(x.X, asg) && eval(x.Y, asg)
						case token.LOR:
							return eval(x.X, asg) || eval(x.Y, asg)
						}
					}
					k, neg := c43Atom(info, e)
					v := asg&(1<<atoms[k]) != 0
					return v != neg
				}
				bad := ""
				for asg := 0; asg < 1<<len(atoms); asg++ {
					if eval(p, asg) == eval(q, asg) {
						var tr []string
						for i, nm := range names {
							tr = append(tr, fmt.Sprintf("%s=%v", nm, asg&(1<<i) != 0))
						}
						sort.Strings(tr)
						bad = fmt.Sprintf("with %v the start test and the end test are both %v", tr, eval(p, asg))
						break
					}
				}
				if bad != "" {
					c.Bad(rule, key, els.Cond.Pos(), fmt.Sprintf("%s: the test that ends the run (`%s`) is not the negation of the test that starts it (`%s`): %s, so the run does not hold exactly the elements of the object it was started for",
						DeclName(fd), types.ExprString(q), types.ExprString(p), bad))
				} else {
					c.Ok(rule, key, ifs.Pos(), fmt.Sprintf("end test is the negation of the start test over %d atoms", len(atoms)))
				}
			}
			return true
		})
	})
}

// c43SplitPhase splits `s <op> 0 && rest` (either order); op is LSS for the unset phase, GEQ for the set phase.
func c43SplitPhase(info *types.Info, cond ast.Expr, op token.Token) (types.Object, ast.Expr) {
	be, ok := ast.Unparen(cond).(*ast.BinaryExpr)
	if !ok || be.Op != token.LAND {
		return nil, nil
	}
	phase := func(e ast.Expr) types.Object {
		b, ok := ast.Unparen(e).(*ast.BinaryExpr)
		if !ok || b.Op != op {
			return nil
		}
		id := identOf(b.X)
		if id == nil {
			return nil
		}
		if tv, ok := info.Types[b.Y]; !ok || tv.Value == nil || tv.Value.ExactString() != "0" {
			return nil
		}
		return info.Uses[id]
	}
	// flatten the left-nested conjunction: (s<0 && a) && b
	var conj []ast.Expr
	var flat func(e ast.Expr)
	flat = func(e ast.Expr) {
		if b, ok := ast.Unparen(e).(*ast.BinaryExpr); ok && b.Op == token.LAND {
			flat(b.X)
			flat(b.Y)
			return
		}
		conj = append(conj, e)
	}
	flat(be)
	var s types.Object
	var rest ast.Expr
	for _, e := range conj {
		if o := phase(e); o != nil && s == nil {
			s = o
			continue
		}
		if rest == nil {
			rest = e
		} else {
			rest = &ast.BinaryExpr{X: rest, Op: token.LAND, Y: e}
		}
	}
	return s, rest
}

// c43Atom names a leaf: comparisons a == b / a != b share one atom (operands ordered), the latter negated.
func c43Atom(info *types.Info, e ast.Expr) (key string, negated bool) {
	e = ast.Unparen(e)
	if b, ok := e.(*ast.BinaryExpr); ok && (b.Op == token.EQL || b.Op == token.NEQ) {
		x, y := types.ExprString(b.X), types.ExprString(b.Y)
		if y < x {
			x, y = y, x
		}
		return x + " == " + y, b.Op == token.NEQ
	}
	return types.ExprString(e), false
}
