package main

import (
	"go/types"
	"strings"
)

// C12 — prepared statements behave like the inlined statement text.
//
// The equality of results between a bound and an inlined execution depends on run-time values
// and is not decided. What is decided are the structural necessary conditions of it that are
// visible in the shape of the code:
//
//	A  the syntax tree that the session caches (C11-G3: it is an AST, never a plan) is not written
//	   by the code every execution passes it through, so every EXECUTE builds the statement that
//	   was prepared (c12_ast.go);
//	B  the binding path: total converters, one substitution mechanism, nothing dropped between the
//	   three entry points and the planbuilder (c12_bind.go).

const c12Vitess = "github.com/dolthub/vitess/go/"

// Idempotent stores into the cached tree: each was read and is listed with the reason why a
// second execution builds the same plan. One symbol per entry.
var c12A1Exceptions = map[string]string{
	"Builder.tableSpecToSchema/ColumnDefinition.Type.Collate": "idempotent: the collation written is ParseCollation of the statement's own CHARACTER SET / COLLATE table options (the database default is overwritten two lines above), " +
		"so every execution writes the same string; demonstrated harmless (CREATE TABLE re-executed after ALTER DATABASE … COLLATE gives the same table as the text)",
	"Builder.buildGrantPrivilege/GrantPrivilege.Auth.Extra":   "scratch slot: overwritten with the node built in this run immediately before HandleAuth reads it; never read before the write",
	"Builder.buildGrantRole/GrantRole.Auth.Extra":             "scratch slot: overwritten with the node built in this run immediately before HandleAuth reads it",
	"Builder.buildGrantProxy/GrantProxy.Auth.Extra":           "scratch slot: overwritten with the node built in this run immediately before HandleAuth reads it",
	"Builder.buildRevokePrivilege/RevokePrivilege.Auth.Extra": "scratch slot: overwritten with the node built in this run immediately before HandleAuth reads it",
	"Builder.buildRevokeRole/RevokeRole.Auth.Extra":           "scratch slot: overwritten with the node built in this run immediately before HandleAuth reads it",
	"Builder.buildScalar/ColName.Qualifier.Name":              "idempotent: VALUES(col) gets the INSERT's own table alias as qualifier only while the qualifier is empty; the alias is a function of the same statement, so later executions resolve the same column",
	"Builder.buildScalar/ColName.Name":                        "idempotent: VALUES(col) column renamed through the INSERT's own column-alias list, only together with the empty-qualifier fill above",
	"Builder.setExprsToExpressions/SetVarExpr.Expr":           "idempotent: an integer literal assigned to sql_mode / collation_* / lc_time_names is replaced by the equivalent string literal (pure function of the literal); the second execution sees a string literal and skips the rewrite",
}

var c12B1ExecExceptions = map[string]string{
	"Engine.bindExecuteQueryNode/leaves without entry after GetUserVariable: return(nil, nil)": "the swallowed error cannot occur with the sessions in this repository: sql.UserVars.GetUserVariable (the only implementation) always returns a nil error; not demonstrable",
}

func c12RepoAst() *c12AstCfg {
	return &c12AstCfg{
		isASTPkg:   func(p *types.Package) bool { return p != nil && p.Path() == c12Vitess+"vt/sqlparser" },
		nodeIface:  "SQLNode",
		scope:      []string{"", "sql/planbuilder", "server", "driver"},
		exceptions: c12A1Exceptions,
	}
}

func c12RepoBind() *c12BindCfg {
	bv := "map[string]*" + c12Vitess + "vt/proto/query.BindVariable"
	ex := "map[string]" + c12Vitess + "vt/sqlparser.Expr"
	return &c12BindCfg{
		convs: []c12Conv{
			{Rel: "server", Fn: "bindingsToExprs", KeyIsKey: true},
			{Rel: "driver", Fn: "valuesToBindings"},
			{Rel: "driver", Fn: "namedValuesToBindings"},
			{Rel: "sql/planbuilder", Fn: "Builder.SetBindings", KeyIsKey: true, Via: modPath + "/sql/planbuilder.Builder.buildScalar"},
			{Rel: "", Fn: "Engine.bindExecuteQueryNode", Exception: c12B1ExecExceptions, RawGetter: modPath + "/sql.Session.GetUserVariable"},
		},
		ctxRel: "sql/planbuilder", builderType: "Builder", ctxField: "bindCtx", ctxType: "BindvarContext", mapField: "Bindings",
		ctxWriters: []string{"Builder.SetBindings", "Builder.SetBindingsWithExpr", "Builder.Reset", "Builder.buildPrepare"},
		fillers:    []string{"Builder.SetBindings", "Builder.SetBindingsWithExpr"},
		lookup:     "BindvarContext.GetSubstitute", unused: "BindvarContext.UnusedBindings", subst: "Builder.normalizeValArg", errFn: "Builder.handleErr",
		newBindVar: modPath + "/sql/expression.NewBindVar", resolveOnly: "resolveOnly", gatePred: "Builder.shouldAssignBindvarType",
		fwdPkgs:  []string{"", "server", "driver"},
		mapTypes: []string{bv, ex},
		srcTypes: []string{"[]database/sql/driver.Value", "[]database/sql/driver.NamedValue"},
		carrier:  c12Vitess + "mysql.PrepareData.BindVars",
		floors:   map[string]int{"C12-B1": 20, "C12-B2": 14, "C12-B3": 14},
	}
}

func init() {
	register(&Property{
		ID:       "C12",
		Patterns: []string{".", "./server", "./driver"},
		Explanation: "Structural necessary conditions of 'prepared = inlined', decided from the source: " +
			"(A1) the parser tree a session caches for a prepared statement (C11-G3: an AST, never a plan) is read-only on the way every execution takes: in the root package, sql/planbuilder, server and driver no assignment, " +
			"op-assignment, ++/--, copy/delete/clear writes memory that belongs to a vitess sqlparser node through a reference that was not allocated in the same function (a pointer parameter that every caller fills with the " +
			"address of its own struct copy counts as allocated); idempotent rewrites are named exceptions; (A2) no sqlparser node method that stores into its receiver is called on such a node. A violated clause makes the second " +
			"EXECUTE build a different statement than the text (demonstrated: NATURAL JOIN column list frozen at first execution; `_charset'…' COLLATE x` loses COLLATE; EXECUTE … USING @point fails where the inline @point works). " +
			"(B1) every converter loop (wire/API bindings -> AST literals in server and driver; AST literals -> expressions in Builder.SetBindings; EXECUTE … USING variables in Engine.bindExecuteQueryNode) is total on all CFG paths: an " +
			"iteration stores an entry for its binding or returns a non-nil error, error results are bound and tested with the non-nil edge leaving, the entry keeps its name, derives from the binding, and SetBindings builds it with " +
			"Builder.buildScalar — the function that builds inline literals; a user variable named in EXECUTE … USING reaches its entry with the value and type GetUserVariable returned (no conversion in between: the inline @v evaluates to the stored value); (B2) one substitution mechanism: Builder.bindCtx is assigned and BindvarContext built only by SetBindings/SetBindingsWithExpr/Reset/buildPrepare, its Bindings " +
			"map is indexed only in GetSubstitute (which returns exactly the map's comma-ok answer), called only by normalizeValArg, where every 'binding absent' edge ends in handleErr (a single panic) and success returns the looked-up " +
			"value; placeholder expressions (NewBindVar) are built only on paths with bindCtx == nil, resolve-only mode, or a declined substitution; (B3) every function of root/server/driver that receives bindings " +
			"(map[string]*BindVariable, map[string]sqlparser.Expr, driver argument slices, *mysql.PrepareData) passes them or their conversion to every callee that takes bindings: SQL EXECUTE, the bindings API and COM_STMT_EXECUTE reach the same " +
			"planbuilder substitution with nothing dropped. " +
			"(K1) the prepared cache is keyed by the exact text: every store, lookup and delete on a session map from string to parsed statement uses a string parameter of the enclosing function unchanged as the key (the same map serves named statements and statements prepared by their full text, so a folded key lets a bound statement run the tree cached for another text). " +
			"(K2) what is cached was parsed as the session would parse it: every statement stored in the session's prepared cache comes from a parser entry point that applies the session's SQL mode (a ParserOptions argument taken from SqlMode.ParserOptions(), or the context-taking Parse), never from an option-less parse; a statement received as a parameter is the caller's obligation.",
		NotCovered: "equality of results and effects between the bound and the inlined execution (depends on the values: typing of a bound literal vs. the same literal in text, e.g. what vitess' ExprFromValue produces for a wire type, " +
			"is outside the analysed module); stores into the cached tree made inside vitess itself, through reflection, through sub-objects copied from the cached tree into a freshly allocated node, or by " +
			"packages outside the four listed (sql/procedures rewrites procedure-body statements, sql/stats freshly parsed column types: listed as information); idempotence of the named A1 exceptions is argued by reading, not decided; " +
			"unused-binding accounting; the name scheme v1…vN shared by parser and converters; plan caches (C11) and session snapshot freshness (C17).",
		Technique: "who-may-write over go/types with allocation-site freshness + caller-copy resolution; CFG all-paths store-or-fail and never-returns-after-absent; who-reads/who-builds of the bind context; gate facts on CFG edges; data-dependence closure for forwarding; keyed-by-parameter and parser-entry-point origin rules on the session cache",
		Run: func(c *Ctx) {
			runC12Ast(c, c12RepoAst(), map[string]int{"C12-A1": 10, "C12-A2": 0})
			runC12Bind(c, c12RepoBind())
			runC12Key(c, "sql", func(p *types.Package) bool { return p != nil && p.Path() == c12Vitess+"vt/sqlparser" }, "Statement", []string{"sql"}, 3)
			runC12CacheParse(c, []string{""}, "sql", 2)
		},
		Fixture: func(c *Ctx, fx *Prog) {
			astCfg := func(rel string) *c12AstCfg {
				return &c12AstCfg{isASTPkg: func(p *types.Package) bool { return p != nil && p.Path() == "vchk/testdata/c12/ast" }, nodeIface: "Node", scope: []string{rel}, exceptions: map[string]string{}}
			}
			bindCfg := func(rel string) *c12BindCfg {
				pp := "vchk/" + rel
				return &c12BindCfg{
					convs: []c12Conv{
						{Rel: rel, Fn: "bindingsToExprs", KeyIsKey: true},
						{Rel: rel, Fn: "Builder.SetBindings", KeyIsKey: true, Via: pp + ".Builder.buildScalar"},
					},
					ctxRel: rel, builderType: "Builder", ctxField: "bindCtx", ctxType: "BindvarContext", mapField: "Bindings",
					ctxWriters: []string{"Builder.SetBindings", "Builder.SetBindingsWithExpr", "Builder.Reset", "Builder.buildPrepare"},
					fillers:    []string{"Builder.SetBindings", "Builder.SetBindingsWithExpr"},
					lookup:     "BindvarContext.GetSubstitute", unused: "BindvarContext.UnusedBindings", subst: "Builder.normalizeArg", errFn: "Builder.handleErr",
					newBindVar: pp + ".NewBindVar", resolveOnly: "resolveOnly", gatePred: "Builder.shouldAssignType",
					fwdPkgs:  []string{rel},
					mapTypes: []string{"map[string]*" + pp + ".Wire", "map[string]vchk/testdata/c12/ast.Expr"},
					carrier:  pp + ".Prepare.BindVars",
					floors:   map[string]int{},
				}
			}
			expectFixture(c, fx, "c12 good: read-only tree, total converters, one substitution path, bindings forwarded", nil, func(fc *Ctx) {
				runC12Ast(fc, astCfg("testdata/c12/good"), map[string]int{})
				runC12Bind(fc, bindCfg("testdata/c12/good"))
			})
			expectFixture(c, fx, "c12 bad: stores into the given tree (field, element, via accessor result, via helper, via alias, mutator method); converter skips/loses/relabels/mis-builds entries and drops errors; "+
				"second context writer, patched map, foreign lookup, lookup that always finds, absent binding defaulted, ungated placeholder, weakened predicate, returning error helper; bindings dropped twice",
				[]string{
					"C12-A1:Builder.build/Select.Using",
					"C12-A1:Builder.build/Exprs[]",
					"C12-A1:Builder.build/Where.Expr",
					"C12-A1:Builder.build/Auth.Names[]",
					"C12-A1:rename/Auth.Kind",
					"C12-A2:Builder.build/SetWhere",
					"C12-B1:bindingsToExprs/iteration without entry",
					"C12-B1:bindingsToExprs/leaves without entry after : return(nil, nil)",
					"C12-B1:bindingsToExprs/error of toValue",
					"C12-B1:bindingsToExprs/error of exprFromValue",
					"C12-B1:bindingsToExprs/entry ast.NewLit(\"0\")",
					"C12-B1:Builder.SetBindings/iteration without entry",
					"C12-B1:Builder.SetBindings/entry b.quickLiteral(bv)",
					"C12-B2:Builder.handleErr/never returns",
					"C12-B2:Builder.buildPrepare/BindvarContext{}",
					"C12-B2:Builder.withDefaults/bindCtx=",
					"C12-B2:Builder.withDefaults/BindvarContext{}",
					"C12-B2:Builder.patch/Bindings[]=",
					"C12-B2:Builder.limitArg/Bindings[k]",
					"C12-B2:Builder.limitArg/GetSubstitute",
					"C12-B2:BindvarContext.GetSubstitute/returns the map's answer",
					"C12-B2:Builder.normalizeArg/missing binding is an error",
					"C12-B2:Builder.normalizeArg/returns the looked-up value",
					"C12-B2:Builder.shouldAssignType/implies no bindings",
					"C12-B2:Builder.convertArg/placeholder built unconditionally",
					"C12-B3:testdata/c12/bad.Engine.prepared -> SetBindings",
					"C12-B3:testdata/c12/bad.Handler.ComStmtExecute -> doQuery",
				},
				func(fc *Ctx) {
					runC12Ast(fc, astCfg("testdata/c12/bad"), map[string]int{})
					runC12Bind(fc, bindCfg("testdata/c12/bad"))
				})
			expectFixture(c, fx, "c12 key: a prepared cache keyed by a folded text",
				[]string{"C12-K1:vchk/testdata/c12/sess.Session.PutFolded/index folded[strings.ToLower(query)]", "C12-K1:vchk/testdata/c12/sess.Session.GetFolded/index folded[strings.TrimSpace(query)]"},
				func(fc *Ctx) {
					runC12Key(fc, "testdata/c12/sess", func(p *types.Package) bool { return p != nil && p.Path() == "vchk/testdata/c12/ast" }, "Node", []string{"testdata/c12/sess"}, 0)
				})
		},
		FixturePkgs: []string{"./testdata/c12/ast", "./testdata/c12/good", "./testdata/c12/bad", "./testdata/c12/sess"},
	})
}

var _ = strings.TrimSpace
