package main

import (
	"fmt"
	"go/ast"
	"go/constant"
	"go/types"
	"os"
	"sort"
	"strings"

	"golang.org/x/tools/go/packages"
)

// C13 — reported affected / matched row counts of DML statements (structural clauses).
//
// The counts a client sees are produced in one place: rowexec.accumulatorIter drains the DML
// iterator, hands every row to a per-statement-kind handler and finally emits the handler's
// OkResult. Four things have to be right for the counts to be MySQL's, and each is a finite
// object that can be read from the source:
//
//	N1  the handler's accounting table        (c13_fold.go: forking fold over row shapes and flags)
//	N2  which handler a DML iterator gets     (fold of the choosing function over iterator kinds)
//	N3  once per row, one result after EOF    (CFG path shape of accumulatorIter.Next)
//	N4  one emitted REPLACE row = at most one deleted row (the shape has one "deleted" bit)
type c13Names struct {
	execRel, sqlRel, resRel, planRel string

	rowType, schemaType, rowIter string // in sqlRel
	okType                       string // in resRel
	okAffected, okInfo           string
	infoMatched, infoUpdated     string

	handlerIface, ignoreIface, matchIface string // in execRel
	dispatchFn, accIter                   string
	handleFn, okFn, ignoreFn, matchedFn   string
	rowsMatchedFn                         string

	kinds map[string]string   // handler type -> statement kind
	arms  map[string][]c13Arm // iterator type -> expected choice
	// N4
	replaceIter, replacerIface, deleteMethod string
	editorCtors                              []string // in planRel
	// N5
	joinIter, cacheIface, cacheGet, cachePut string
}

type c13Arm struct {
	fields map[string]bool // iterator field -> is non-nil
	want   []string        // handler type names, "delegated"
}

func c13RealNames() c13Names {
	return c13Names{
		execRel: "sql/rowexec", sqlRel: "sql", resRel: "sql/types", planRel: "sql/plan",
		rowType: "Row", schemaType: "Schema", rowIter: "RowIter",
		okType: "OkResult", okAffected: "RowsAffected", okInfo: "Info", infoMatched: "Matched", infoUpdated: "Updated",
		handlerIface: "accumulatorRowHandler", ignoreIface: "updateIgnoreAccumulatorRowHandler", matchIface: "matchingAccumulator",
		dispatchFn: "getRowHandler", accIter: "accumulatorIter",
		handleFn: "handleRowUpdate", okFn: "okResult", ignoreFn: "handleRowUpdateWithIgnore", matchedFn: "handleRowMatched", rowsMatchedFn: "RowsMatched",
		kinds: map[string]string{
			"insertRowHandler": "insert", "replaceRowHandler": "replace", "onDuplicateUpdateHandler": "odku",
			"updateRowHandler": "update", "updateJoinRowHandler": "updatejoin", "deleteRowHandler": "delete",
		},
		arms: map[string][]c13Arm{
			"insertIter": {
				{fields: map[string]bool{"replacer": true, "updater": false}, want: []string{"replaceRowHandler"}},
				{fields: map[string]bool{"replacer": false, "updater": true}, want: []string{"onDuplicateUpdateHandler"}},
				{fields: map[string]bool{"replacer": false, "updater": false}, want: []string{"insertRowHandler"}},
			},
			"updateIter":     {{want: []string{"delegated", "updateRowHandler"}}},
			"updateJoinIter": {{want: []string{"updateJoinRowHandler"}}},
			"deleteIter":     {{want: []string{"deleteRowHandler"}}},
		},
		replaceIter: "insertIter", replacerIface: "RowReplacer", deleteMethod: "Delete",
		editorCtors: []string{"NewTableEditorIter", "NewCheckpointingTableEditorIter"},
		joinIter:    "updateJoinIter", cacheIface: "KeyValueCache", cacheGet: "Get", cachePut: "Put",
	}
}

func init() {
	real := c13RealNames()
	fx := real
	fx.execRel, fx.sqlRel, fx.resRel, fx.planRel = "testdata/c13/rowexec", "testdata/c13/rowexec", "testdata/c13/rowexec", "testdata/c13/rowexec"
	register(&Property{
		ID:        "C13",
		Patterns:  []string{"./sql/rowexec"},
		Technique: "forking finite-domain fold (AST folding over row shapes x capability flag) of the row-count handlers and of the handler-choosing function; stateful CFG path exploration of accumulatorIter.Next; CFG cycle test on the REPLACE delete; CFG must-pass-through between cache lookup, cache put and the matched count in updateJoinIter.Next",
		Explanation: "The affected/matched counts a DML statement reports are produced by rowexec.accumulatorIter: it drains the DML iterator, hands each row to the handler chosen for the statement kind and, at EOF, emits the handler's OkResult. Decided: " +
			"(N1) accounting tables: handleRowUpdate / handleRowUpdateWithIgnore / handleRowMatched / okResult / RowsMatched of every handler, folded from a freshly built handler over sequences of row shapes (single-width row; old||new row with old==new or old!=new; deleted||inserted row whose deleted half is all NULL or (NULL, value); per-table relations for a join row) and both values of the CLIENT_FOUND_ROWS flag, yield MySQL's documented accounting: INSERT 1 per row; REPLACE 1 per inserted row, 2 when a row was deleted as well; INSERT … ON DUPLICATE KEY UPDATE 1 inserted / 2 updated / 0 set to its current values (1 under CLIENT_FOUND_ROWS); UPDATE matched = every row handed over (also rows skipped by IGNORE), changed = rows with old!=new, affected = changed, or matched under CLIENT_FOUND_ROWS, Info = {matched, changed}; UPDATE … JOIN the same per table row; DELETE 1 per row; every fork of the fold (conditions on values outside the abstraction) must end in the same counts; " +
			"(N2) dispatch: getRowHandler, folded per DML iterator type (and per replacer / updater field of insertIter), returns the handler of the same statement kind; every handler that has a configuration flag receives getRowHandler's flag parameter, every recursive call through a wrapper forwards it unchanged; an iterator that keeps a pointer to its handler (updateJoinIter.accumulator) is given the handler that is returned; every iterator type that rowexec wraps in a table editor iterator has an arm; every implementation of accumulatorRowHandler is the result of some arm; the flag every caller passes to getRowHandler is (client capabilities & 0x2) != 0, 0x2 being CLIENT_FOUND_ROWS in the MySQL handshake (the constant is folded, not matched by name); " +
			"(N3) once per row: in accumulatorIter.Next every row pulled from the child with a nil error reaches handleRowUpdate exactly once (with that row) before the next pull, handleRowUpdate is never reached while the child's error is not ruled out, the ignore variant only for an ignorable error, okResult is called only on the io.EOF edge, exactly once, and that path returns a nil error; every other return is an error return without a result; a second call of Next cannot pull again (sync.Once guard with an io.EOF return); the error a handler returns is tested before the next pull or return; the row emitted at EOF is built from the variable bound to okResult() and neither that variable nor its RowsAffected / Info is overwritten; " +
			"(N4) REPLACE: the handler's table has one 'a row was deleted' bit per emitted row, so between two pulls of the source insertIter.Next may delete at most one existing row per emitted row - a replacer.Delete call on a CFG cycle that avoids the source pull is reported. " +
			"(N5) UPDATE … JOIN matched rows: in updateJoinIter.Next the handler's handleRowMatched is reached from the seen-rows cache lookup only after the table row was put into the cache, at most once per lookup, and (when the iterator has a handler) on every path from that put to the next lookup or return - so a table row that joins with several rows is matched once.",
		NotCovered: "table contents against a reference model (key encoding, statement boundary and index coupling are claimed under C14/C15/C16); the values of the counts over concrete histories: whether the DML iterators emit exactly the rows MySQL would count (WHERE/ORDER BY/LIMIT evaluation, which rows collide with a key, the hash and cache that updateJoinIter's de-duplication of table rows relies on (only where matched is counted relative to the cache lookup/put is decided, N5), INSERT IGNORE dropping rows, triggers changing rows), sql.Row.Equals itself (the fold treats it as the equality of the two halves), warnings counts, LAST_INSERT_ID / InsertID, ROW_COUNT()/FOUND_ROWS() session bookkeeping, RETURNING statements (no accumulator), LOAD DATA and foreign-key cascades (they reuse insertIter/updateIter and their handlers), the old||new width agreement of UPDATE producers (decided by C23-L), the deleted||inserted layout written by insertIter (read only through N4), the error branch of Row.Equals in the handlers.",
		Run: func(c *Ctx) { runC13(c, real, false) },
		Fixture: func(c *Ctx, fx2 *Prog) {
			expectFixture(c, fx2, "c13: planted accounting, dispatch, once-per-row and replace-loop defects in the fixture executor must be reported", c13FixtureWant, func(fc *Ctx) { runC13(fc, fx, true) })
		},
		FixturePkgs: []string{"./testdata/c13/rowexec"},
	})
}

var c13FixtureWant = []string{
	"C13-N1:replaceRowHandler/replaced",
	"C13-N1:replaceRowHandler/new,replaced,replaced",
	"C13-N1:updateRowHandler/eq,neq,neq,ignored/found-rows",
	"C13-N1:updateJoinRowHandler/matched,matched,matched,j:10,j:01/found-rows",
	"C13-N2:choice/deleteIter",
	"C13-N2:chosen/deleteRowHandler",
	"C13-N2:flag/updateRowHandler",
	"C13-N2:forward/blockIter",
	"C13-N2:total/loadIter",
	"C13-N3:accumulatorIter.Next/handle-once",
	"C13-N3:accumulatorIter.Next/exits",
	"C13-N3:accumulatorIter.Next/handler-error",
	"C13-N4:insertIter.Next/replacer.Delete",
	"C13-N5:updateJoinIter.Next/matched-on-miss",
}

type c13Env struct {
	c       *Ctx
	nm      c13Names
	fx      bool
	pk      *packages.Package
	info    *types.Info
	rowT    *types.Named
	schemaT *types.Named
	okT     *types.Named
	iface   *types.Interface
	disp    *ast.FuncDecl
	dispFn  *types.Func
	flagPar types.Object // getRowHandler's bool parameter
	iterPar types.Object
}

func c13Named(p *Prog, rel, name string) *types.Named {
	pk := p.Pkg(rel)
	if pk == nil {
		return nil
	}
	tn, _ := pk.Types.Scope().Lookup(name).(*types.TypeName)
	if tn == nil {
		return nil
	}
	n, _ := types.Unalias(tn.Type()).(*types.Named)
	return n
}

func runC13(c *Ctx, nm c13Names, fx bool) {
	floor := func(n int) int {
		if fx {
			return 0
		}
		return n
	}
	c.Rule("C13-N1", "row-count handlers folded over row shapes x CLIENT_FOUND_ROWS yield MySQL's documented affected/matched accounting", floor(29))
	c.Rule("C13-N2", "getRowHandler gives every DML iterator kind the handler of the same statement kind, forwards the found-rows flag, couples iterator and handler, is total over the wrapped iterators", floor(25))
	c.Rule("C13-N3", "accumulatorIter.Next: each child row reaches the handler exactly once, the result is emitted once and only at io.EOF, errors are returned without a result", floor(6))
	c.Rule("C13-N5", "updateJoinIter.Next counts a table row as matched exactly once, when it is first recorded in the seen-rows cache", floor(3))
	c.Rule("C13-N4", "between two pulls of its source the REPLACE iterator deletes at most one existing row per emitted row", floor(1))

	e := &c13Env{c: c, nm: nm, fx: fx}
	e.pk = c.P.Pkg(nm.execRel)
	if e.pk == nil {
		c.Undecided("C13-N1", "package "+nm.execRel, 0, "anchor package not loaded")
		return
	}
	e.info = e.pk.TypesInfo
	e.rowT, e.schemaT, e.okT = c13Named(c.P, nm.sqlRel, nm.rowType), c13Named(c.P, nm.sqlRel, nm.schemaType), c13Named(c.P, nm.resRel, nm.okType)
	e.iface = dmlLookupIface(c.P, nm.execRel, nm.handlerIface)
	e.dispFn = LookupFunc(e.pk, nm.dispatchFn)
	e.disp = c.P.Decl(e.dispFn)
	if e.rowT == nil || e.schemaT == nil || e.okT == nil || e.iface == nil || e.disp == nil {
		c.Undecided("C13-N1", "anchors", 0, fmt.Sprintf("anchor not found (row %v schema %v result %v handler interface %v %s %v)", e.rowT != nil, e.schemaT != nil, e.okT != nil, e.iface != nil, nm.dispatchFn, e.disp != nil))
		return
	}
	for _, fl := range e.disp.Type.Params.List {
		for _, n := range fl.Names {
			o := e.info.Defs[n]
			if b, ok := o.Type().Underlying().(*types.Basic); ok && b.Kind() == types.Bool && e.flagPar == nil {
				e.flagPar = o
			} else if dmlNamedOf(o.Type()) != nil && dmlNamedOf(o.Type()).Obj().Name() == nm.rowIter && e.iterPar == nil {
				e.iterPar = o
			}
		}
	}
	if e.flagPar == nil || e.iterPar == nil {
		c.Undecided("C13-N2", nm.dispatchFn, e.disp.Pos(), "the choosing function does not have the (flag bool, iter RowIter) parameters")
		return
	}
	c13RunN1(e)
	c13RunN2(e)
	c13RunN2Source(e)
	c13RunN3(e)
	c13RunN4(e)
	c13RunN5(e)
	if os.Getenv("C13_DEBUG") != "" {
		for _, o := range c.Obs {
			if o.Status != OK {
				fmt.Fprintf(os.Stderr, "C13_DEBUG fx=%v %s:%s %s %s\n", fx, o.Rule, o.Key, o.Status, o.Msg)
			}
		}
	}
}

// ---- N1 ------------------------------------------------------------------------------------------

// c13Handlers lists the struct types of the package that implement the handler interface.
func (e *c13Env) handlers() []*types.Named {
	var out []*types.Named
	for _, nt := range dmlNamedTypes(e.pk) {
		if _, isStruct := nt.Underlying().(*types.Struct); isStruct && dmlImplements(nt, e.iface) {
			out = append(out, nt)
		}
	}
	sort.Slice(out, func(i, j int) bool { return out[i].Obj().Name() < out[j].Obj().Name() })
	return out
}

// literals of the handler type inside the choosing function
func (e *c13Env) dispatchLits(nt *types.Named) []*ast.CompositeLit {
	var out []*ast.CompositeLit
	ast.Inspect(e.disp.Body, func(n ast.Node) bool {
		if cl, ok := n.(*ast.CompositeLit); ok {
			if dmlNamedOf(e.info.Types[cl].Type) == nt {
				out = append(out, cl)
			}
		}
		return true
	})
	return out
}

// flagField: the field of the handler that the choosing function sets from its flag parameter.
func (e *c13Env) flagField(nt *types.Named) string {
	for _, cl := range e.dispatchLits(nt) {
		for _, el := range cl.Elts {
			if kv, ok := el.(*ast.KeyValueExpr); ok {
				if id, ok := ast.Unparen(kv.Value).(*ast.Ident); ok && e.info.Uses[id] == e.flagPar {
					if k, ok := kv.Key.(*ast.Ident); ok {
						return k.Name
					}
				}
			}
		}
	}
	return ""
}

func (e *c13Env) method(nt *types.Named, name string) *ast.FuncDecl {
	for _, fd := range dmlMethodDecls(e.pk, nt) {
		if fd.Name.Name == name && fd.Body != nil {
			return fd
		}
	}
	return nil
}

var c13Scenarios = map[string][]string{
	"insert":     {"row", "row,row,row"},
	"replace":    {"new", "replaced", "new,replaced,replaced"},
	"odku":       {"row", "eq", "neq", "row,eq,neq,neq"},
	"update":     {"eq", "neq", "ignored", "eq,neq,neq,ignored"},
	"updatejoin": {"matched", "j:10", "j:11", "j:00", "matched,matched,matched,j:10,j:01"},
	"delete":     {"row", "row,row"},
}

// c13Expect is the reference accounting (MySQL reference manual: INSERT … ON DUPLICATE KEY UPDATE,
// REPLACE, mysql_affected_rows(), UPDATE).
func c13Expect(kind string, steps []string, found bool) (affected, matched, changed int64, hasInfo, hasMatched bool) {
	for _, s := range steps {
		switch kind {
		case "insert", "delete":
			affected++
		case "replace":
			affected++
			if s == "replaced" {
				affected++
			}
		case "odku":
			switch s {
			case "row":
				affected++
			case "neq":
				affected += 2
			case "eq":
				if found {
					affected++
				}
			}
		case "update":
			matched++
			if s == "neq" {
				changed++
			}
		case "updatejoin":
			if s == "matched" {
				matched++
			} else {
				changed += int64(strings.Count(s, "1"))
			}
		}
	}
	if kind == "update" || kind == "updatejoin" {
		affected = changed
		if found {
			affected = matched
		}
		return affected, matched, changed, true, true
	}
	return affected, 0, 0, false, false
}

func c13RowFor(step string) *c13RowDesc {
	switch step {
	case "row":
		return &c13RowDesc{rel: []int{0}}
	case "new":
		return &c13RowDesc{double: true, oldNil: true, rel: []int{1}}
	case "replaced":
		return &c13RowDesc{double: true, rel: []int{1}}
	case "eq":
		return &c13RowDesc{double: true, rel: []int{0}}
	case "neq", "ignored":
		return &c13RowDesc{double: true, rel: []int{1}}
	}
	if strings.HasPrefix(step, "j:") {
		d := &c13RowDesc{double: true}
		for _, ch := range step[2:] {
			d.rel = append(d.rel, int(ch-'0'))
		}
		return d
	}
	return nil
}

func c13RunN1(e *c13Env) {
	c := e.c
	for _, nt := range e.handlers() {
		name := nt.Obj().Name()
		kind, known := e.nm.kinds[name]
		if !known {
			c.Undecided("C13-N1", name, nt.Obj().Pos(), "a row-count handler that the accounting table does not know: add its statement kind")
			continue
		}
		flagField := e.flagField(nt)
		for _, sc := range c13Scenarios[kind] {
			for _, found := range []bool{false, true} {
				hasFoundVariant := kind == "odku" || kind == "update" || kind == "updatejoin"
				if found && !hasFoundVariant {
					continue
				}
				if found && flagField == "" && sc != c13Scenarios[kind][len(c13Scenarios[kind])-1] {
					continue // a handler without a flag: one found-rows entry is enough to report it
				}
				key := name + "/" + sc
				if found {
					key += "/found-rows"
				}
				e.foldScenario(nt, kind, key, strings.Split(sc, ","), found, flagField)
			}
		}
	}
}

func (e *c13Env) foldScenario(nt *types.Named, kind, key string, steps []string, found bool, flagField string) {
	c := e.c
	pos := nt.Obj().Pos()
	ev := &c13Ev{p: c.P, rowT: e.rowT, schemaT: e.schemaT, okT: e.okT, tables: 2}
	st := &c13St{vars: map[types.Object]c13V{}}
	h := ev.newObj(st, nt)
	// the state the choosing function builds: zero, except the fields its literal sets
	for _, cl := range e.dispatchLits(nt) {
		for _, el := range cl.Elts {
			kv, ok := el.(*ast.KeyValueExpr)
			if !ok {
				continue
			}
			id, ok := kv.Key.(*ast.Ident)
			if !ok {
				continue
			}
			st.objs[h.i].fields[id.Name] = c13Unk{tag: id.Name}
		}
	}
	if sT, ok := nt.Underlying().(*types.Struct); ok {
		for i := 0; i < sT.NumFields(); i++ {
			if dmlNamedOf(sT.Field(i).Type()) == e.schemaT {
				st.objs[h.i].fields[sT.Field(i).Name()] = c13Len{c13Width}
			}
		}
	}
	if flagField != "" {
		st.objs[h.i].fields[flagField] = constant.MakeBool(found)
	}
	sts := []*c13St{st}
	for _, step := range steps {
		mname := e.nm.handleFn
		switch step {
		case "ignored":
			mname = e.nm.ignoreFn
		case "matched":
			mname = e.nm.matchedFn
		}
		fd := e.method(nt, mname)
		if fd == nil {
			c.Undecided("C13-N1", key, pos, fmt.Sprintf("%s has no method %s", nt.Obj().Name(), mname))
			return
		}
		pos = fd.Pos()
		desc := c13RowFor(step)
		outs, err := ev.runMethod(fd, e.info, h, sts, func(t types.Type) c13V {
			if dmlNamedOf(t) == e.rowT && desc != nil {
				return c13Row{d: desc, half: -1, table: -1}
			}
			if b, ok := t.Underlying().(*types.Basic); ok && b.Kind() == types.Bool {
				return constant.MakeBool(true) // handleRowUpdateWithIgnore(…, ignore=true)
			}
			return c13Unk{nonNil: true, tag: "param"}
		})
		if err != nil {
			c.Undecided("C13-N1", key, pos, "table not readable: "+err.Error())
			return
		}
		sts = nil
		for _, o := range outs {
			if len(o.vals) == 1 {
				if _, isNil := o.vals[0].(c13Nil); !isNil {
					c.Bad("C13-N1", key, pos, fmt.Sprintf("%s.%s returns a non-nil error (%s) for row shape %q: the statement would fail instead of counting the row", nt.Obj().Name(), mname, c13Show(o.vals[0]), step))
					return
				}
			}
			sts = append(sts, o.st)
		}
	}
	okFd := e.method(nt, e.nm.okFn)
	if okFd == nil {
		c.Undecided("C13-N1", key, pos, "no "+e.nm.okFn)
		return
	}
	var snaps []*c13St
	for _, s := range sts {
		snaps = append(snaps, s.clone())
	}
	outs, err := ev.runMethod(okFd, e.info, h, sts, func(t types.Type) c13V { return c13Unk{nonNil: true, tag: "param"} })
	if err != nil {
		c.Undecided("C13-N1", key, okFd.Pos(), "result not readable: "+err.Error())
		return
	}
	wantA, wantM, wantC, hasInfo, hasMatched := c13Expect(kind, steps, found)
	want := fmt.Sprintf("affected=%d", wantA)
	if hasInfo {
		want += fmt.Sprintf(" info.matched=%d info.changed=%d", wantM, wantC)
	}
	got := map[string]bool{}
	for _, o := range outs {
		got[e.showResult(o, hasInfo)] = true
	}
	if hasMatched {
		want += fmt.Sprintf(" found_rows=%d", wantM)
		mFd := e.method(nt, e.nm.rowsMatchedFn)
		if mFd == nil {
			c.Bad("C13-N1", key, pos, fmt.Sprintf("%s has no %s method: FOUND_ROWS() is not set to the matched rows", nt.Obj().Name(), e.nm.rowsMatchedFn))
			return
		}
		mouts, err := ev.runMethod(mFd, e.info, h, snaps, func(t types.Type) c13V { return c13Unk{tag: "param"} })
		if err != nil {
			c.Undecided("C13-N1", key, mFd.Pos(), "RowsMatched not readable: "+err.Error())
			return
		}
		ms := map[string]bool{}
		for _, o := range mouts {
			if len(o.vals) == 1 {
				ms[c13Show(o.vals[0])] = true
			} else {
				ms["<none>"] = true
			}
		}
		ng := map[string]bool{}
		for g := range got {
			for m := range ms {
				ng[g+" found_rows="+m] = true
			}
		}
		got = ng
	}
	gl := c13SortedKeys(got)
	flagTxt := ""
	if found {
		flagTxt = " under CLIENT_FOUND_ROWS"
		if flagField == "" {
			flagTxt += " (the choosing function gives this handler no flag)"
		}
	}
	if len(gl) == 1 && gl[0] == want {
		c.Ok("C13-N1", key, okFd.Pos(), want)
		return
	}
	c.Bad("C13-N1", key, okFd.Pos(), fmt.Sprintf("%s over rows [%s]%s reports {%s}; MySQL's accounting is %s", nt.Obj().Name(), strings.Join(steps, ","), flagTxt, strings.Join(gl, " | "), want))
}

func (e *c13Env) showResult(o c13CallRes, hasInfo bool) string {
	if len(o.vals) != 1 {
		return "<no result>"
	}
	r, ok := o.vals[0].(c13Ref)
	if !ok {
		return "<" + c13Show(o.vals[0]) + ">"
	}
	obj := o.st.objs[r.i]
	s := "affected=" + c13Show(obj.fields[e.nm.okAffected])
	if hasInfo {
		if ir, ok := obj.fields[e.nm.okInfo].(c13Ref); ok {
			io := o.st.objs[ir.i]
			s += " info.matched=" + c13Show(io.fields[e.nm.infoMatched]) + " info.changed=" + c13Show(io.fields[e.nm.infoUpdated])
		} else {
			s += " info=" + c13Show(obj.fields[e.nm.okInfo])
		}
	}
	return s
}
