package main

// C39-K1 — keyer field agreement of the grant tables' indexes (sql/mysql_db).
//
// The grant tables (user, role_edges, …) are in_mem_table.IndexedSets; each index files an entry
// under the key its Keyer computes, and DROP USER / DROP ROLE / REVOKE / SHOW GRANTS find entries by
// building a key value of the same struct type from the names in the statement. The lookup only
// answers for the statement's account if every field of the key the keyer builds is the entry's
// field that the key field denotes. The correspondence is structural: key field K denotes the
// entry field of the same name (case-insensitively) and identical type.

import (
	"fmt"
	"go/ast"
	"go/token"
	"go/types"
	"sort"
	"strings"

	"golang.org/x/tools/go/packages"
)

type c39KeyerCfg struct {
	rel     string   // package of the keyers
	lookups []string // names of the indexed-set methods taking (keyer, key)
	floor   int
}

type c39Keyer struct {
	tn    *types.TypeName
	fd    *ast.FuncDecl
	entry *types.Named
	key   *types.Named
}

func runC39Keyer(c *Ctx, cf c39KeyerCfg) {
	const R = "C39-K1"
	c.Rule(R, "keyer field agreement: every Keyer of the grant tables builds its index key from the entry fields the key fields denote (key field K <- entry field of the same name, every denoted field filled, no other entry field read); keyers of one entry type have pairwise different key types; every GetMany/RemoveMany call passes a key of the type its keyer builds", cf.floor)
	pk := c.P.Pkg(cf.rel)
	if pk == nil {
		c.Undecided(R, cf.rel, 0, "package not loaded")
		return
	}
	info := pk.TypesInfo
	// ---- enumerate keyers: named types with a method GetKey(e *E) any, E a struct of the package
	var keyers []*c39Keyer
	for _, f := range pk.Syntax {
		for _, d := range f.Decls {
			fd, ok := d.(*ast.FuncDecl)
			if !ok || fd.Recv == nil || fd.Name.Name != "GetKey" || fd.Body == nil {
				continue
			}
			fn, _ := info.Defs[fd.Name].(*types.Func)
			if fn == nil {
				continue
			}
			sig := fn.Type().(*types.Signature)
			if sig.Params().Len() != 1 || sig.Results().Len() != 1 {
				continue
			}
			if _, isI := sig.Results().At(0).Type().Underlying().(*types.Interface); !isI {
				continue
			}
			pt, ok := sig.Params().At(0).Type().(*types.Pointer)
			if !ok {
				continue
			}
			en, ok := types.Unalias(pt.Elem()).(*types.Named)
			if !ok {
				continue
			}
			if _, isS := en.Underlying().(*types.Struct); !isS {
				continue
			}
			rt := sig.Recv().Type()
			if p, ok := rt.(*types.Pointer); ok {
				rt = p.Elem()
			}
			rn, ok := types.Unalias(rt).(*types.Named)
			if !ok {
				continue
			}
			keyers = append(keyers, &c39Keyer{tn: rn.Obj(), fd: fd, entry: en})
		}
	}
	if len(keyers) == 0 {
		c.Undecided(R, cf.rel, 0, "no Keyer implementation (method GetKey(*Entry) any) found")
		return
	}
	sort.Slice(keyers, func(i, j int) bool { return keyers[i].tn.Name() < keyers[j].tn.Name() })
	entryField := func(st *types.Struct, name string) *types.Var {
		var hit *types.Var
		for i := 0; i < st.NumFields(); i++ {
			if strings.EqualFold(st.Field(i).Name(), name) {
				if hit != nil {
					return nil // ambiguous
				}
				hit = st.Field(i)
			}
		}
		return hit
	}
	for _, k := range keyers {
		name := k.tn.Name() + ".GetKey"
		est := k.entry.Underlying().(*types.Struct)
		// the entry parameter (may be unnamed: a constant key)
		var param types.Object
		if ps := k.fd.Type.Params.List; len(ps) == 1 && len(ps[0].Names) == 1 {
			param = info.Defs[ps[0].Names[0]]
		}
		// every return must be a struct literal of one named key type
		var lits []*ast.CompositeLit
		okShape := true
		ast.Inspect(k.fd.Body, func(n ast.Node) bool {
			if _, isLit := n.(*ast.FuncLit); isLit {
				okShape = false
				return false
			}
			ret, ok := n.(*ast.ReturnStmt)
			if !ok {
				return true
			}
			if len(ret.Results) != 1 {
				okShape = false
				return true
			}
			cl, ok := ast.Unparen(ret.Results[0]).(*ast.CompositeLit)
			if !ok {
				okShape = false
				return true
			}
			lits = append(lits, cl)
			return true
		})
		if !okShape || len(lits) == 0 {
			c.Undecided(R, name, k.fd.Pos(), "GetKey does not return a key struct literal on every path: the key's fields cannot be read")
			continue
		}
		for _, cl := range lits {
			kt, ok := types.Unalias(info.TypeOf(cl)).(*types.Named)
			if !ok {
				c.Undecided(R, name, cl.Pos(), "the returned key is not of a named struct type")
				continue
			}
			kst, ok := kt.Underlying().(*types.Struct)
			if !ok {
				c.Undecided(R, name, cl.Pos(), "the returned key is not a struct")
				continue
			}
			if k.key != nil && !types.Identical(k.key, kt) {
				c.Bad(R, name+"/key type", cl.Pos(), fmt.Sprintf("%s returns keys of two types (%s and %s): entries filed under one are never found through the other", name, k.key.Obj().Name(), kt.Obj().Name()))
			}
			k.key = kt
			// key field -> value expression
			vals := map[string]ast.Expr{}
			for i, el := range cl.Elts {
				if kv, ok := el.(*ast.KeyValueExpr); ok {
					if id, ok := kv.Key.(*ast.Ident); ok {
						vals[id.Name] = kv.Value
					}
				} else if i < kst.NumFields() {
					vals[kst.Field(i).Name()] = el
				}
			}
			for i := 0; i < kst.NumFields(); i++ {
				kf := kst.Field(i)
				key := name + "/" + kf.Name()
				want := entryField(est, kf.Name())
				val, filled := vals[kf.Name()]
				// entry fields read by the value expression
				var reads []*types.Var
				undec := ""
				if filled {
					ast.Inspect(val, func(n ast.Node) bool {
						switch x := n.(type) {
						case *ast.SelectorExpr:
							if id, ok := ast.Unparen(x.X).(*ast.Ident); ok && param != nil && info.Uses[id] == param {
								if fv, ok := info.Uses[x.Sel].(*types.Var); ok && fv.IsField() {
									reads = append(reads, fv)
								} else {
									undec = "calls a method of the entry (" + x.Sel.Name + ")"
								}
								return false
							}
						case *ast.Ident:
							if param != nil && info.Uses[x] == param {
								undec = "uses the entry as a whole"
							}
						}
						return true
					})
				}
				switch {
				case want == nil && !filled:
					c.Ok(R, key, cl.Pos(), "the entry type has no field of this name and the keyer leaves the key field zero (constant key part)")
				case want == nil:
					if len(reads) == 0 && undec == "" {
						c.Ok(R, key, val.Pos(), "no entry field of this name; filled from no entry field")
					} else {
						c.Undecided(R, key, val.Pos(), fmt.Sprintf("key field %s.%s has no entry field of the same name in %s but is filled from the entry: the denoted field cannot be derived", kt.Obj().Name(), kf.Name(), k.entry.Obj().Name()))
					}
				case !filled:
					c.Bad(R, key, cl.Pos(), fmt.Sprintf("%s leaves %s.%s zero although the entry has the field %s.%s: every entry is filed under the empty %s, lookups by the real value find nothing", name, kt.Obj().Name(), kf.Name(), k.entry.Obj().Name(), want.Name(), kf.Name()))
				case undec != "":
					c.Undecided(R, key, val.Pos(), "the value "+undec+": the entry fields it depends on cannot be read")
				default:
					var wrong []string
					hit := false
					for _, r := range reads {
						if r == want {
							hit = true
						} else {
							wrong = append(wrong, r.Name())
						}
					}
					if hit && len(wrong) == 0 && types.Identical(want.Type(), kf.Type()) {
						c.Ok(R, key, val.Pos(), fmt.Sprintf("%s.%s <- %s.%s", kt.Obj().Name(), kf.Name(), k.entry.Obj().Name(), want.Name()))
					} else if !hit || len(wrong) > 0 {
						from := "no entry field"
						if len(wrong) > 0 {
							from = k.entry.Obj().Name() + "." + strings.Join(wrong, ", ")
						}
						c.Bad(R, key, val.Pos(), fmt.Sprintf("%s fills key field %s.%s from %s instead of %s.%s: the index files each entry under another field's value, so lookups and removals by %s (DROP USER / DROP ROLE / REVOKE build the key from the statement's %s) miss the entry or hit a different one", name, kt.Obj().Name(), kf.Name(), from, k.entry.Obj().Name(), want.Name(), kf.Name(), kf.Name()))
					} else {
						c.Bad(R, key, val.Pos(), fmt.Sprintf("key field %s.%s and entry field %s.%s have different types", kt.Obj().Name(), kf.Name(), k.entry.Obj().Name(), want.Name()))
					}
				}
			}
		}
	}
	// ---- keyers of one entry type have pairwise different key types
	byKeyer := map[*types.TypeName]*c39Keyer{}
	for _, k := range keyers {
		byKeyer[k.tn] = k
	}
	for i, a := range keyers {
		if a.key == nil {
			continue
		}
		clash := ""
		for j, b := range keyers {
			if i != j && b.key != nil && types.Identical(a.entry, b.entry) && types.Identical(a.key, b.key) {
				clash = b.tn.Name()
			}
		}
		c.Check(clash == "", R, a.tn.Name()+"/key type", a.fd.Pos(), "key type "+a.key.Obj().Name()+" is built by no other keyer of "+a.entry.Obj().Name(),
			fmt.Sprintf("%s and %s build the same key type %s for %s: a key meant for one index matches the other (roles of the fields can be swapped unnoticed)", a.tn.Name(), clash, a.key.Obj().Name(), a.entry.Obj().Name()))
	}
	// ---- every lookup call (keyer, key) of the module passes the keyer's own key type
	for _, mp := range c.P.Module {
		minfo := mp.TypesInfo
		for _, f := range mp.Syntax {
			for _, d := range f.Decls {
				fd, ok := d.(*ast.FuncDecl)
				if !ok || fd.Body == nil {
					continue
				}
				ast.Inspect(fd.Body, func(n ast.Node) bool {
					call, ok := n.(*ast.CallExpr)
					if !ok || len(call.Args) != 2 {
						return true
					}
					sel, ok := ast.Unparen(call.Fun).(*ast.SelectorExpr)
					if !ok || !contains(cf.lookups, sel.Sel.Name) {
						return true
					}
					kt0 := minfo.TypeOf(call.Args[0])
					if kt0 == nil {
						return true
					}
					if p, ok := kt0.(*types.Pointer); ok {
						kt0 = p.Elem()
					}
					kn, ok := types.Unalias(kt0).(*types.Named)
					if !ok {
						return true
					}
					k := byKeyer[kn.Obj()]
					if k == nil {
						return true // keyer passed as an interface value (the generic container's own code)
					}
					key := DeclName(fd) + "/" + sel.Sel.Name + "(" + kn.Obj().Name() + ")"
					at := minfo.TypeOf(call.Args[1])
					if k.key == nil || at == nil {
						c.Undecided(R, key, call.Pos(), "key type of the keyer not read")
						return true
					}
					if _, isI := at.Underlying().(*types.Interface); isI {
						c.Undecided(R, key, call.Pos(), "the key argument is an interface value: its dynamic type is not read")
						return true
					}
					c.Check(types.Identical(at, k.key), R, key, call.Pos(), "key argument of type "+k.key.Obj().Name()+", the type "+kn.Obj().Name()+" builds",
						fmt.Sprintf("%s is called with keyer %s and a key of type %s, but the keyer files entries under %s: the lookup can never match", sel.Sel.Name, kn.Obj().Name(), types.TypeString(at, func(p *types.Package) string { return p.Name() }), k.key.Obj().Name()))
					return true
				})
			}
		}
	}
}

var _ = token.NoPos
var _ *packages.Package
