package main

import (
	"fmt"
	"go/token"
	"go/types"
	"os"
	"sort"
	"strings"

	"golang.org/x/tools/go/ssa"
)

// Map-aliasing engine ("ma"): interprocedural may-share analysis for Go maps over go/ssa.
//
// Question decided: after a function ran, can a map that is reachable from one of its parameters
// (a "root") have become reachable from the maps of ANOTHER parameter (an "effect" dst <- src), and can
// a result share a map with a parameter ("ret")?  This is the deep-copy / no-aliasing discipline of
// copy and merge functions over structs of maps: a merge may create entries in the destination, but
// every map it hangs into the destination must have been allocated by the family itself (MakeMap /
// composite literal), never loaded from the source operand.
//
// Domain. A *source* is a root (parameter i), EXT (anything the function did not allocate: globals,
// results of calls outside the family) or a *cell*: an allocation of the function (Alloc, MakeMap,
// MakeSlice, the result of a family call). Every SSA value whose type can hold a map carries the set of
// sources it may denote or point into. Cells have contents (the sets stored into them). Struct Allocs
// are field sensitive at the first level, and a load sees only the stores that are not overwritten on
// every path to it ("uu := *u; uu.PrivilegeSet = NewPrivilegeSet()" leaves no trace of u's set in
// uu.PrivilegeSet). Everything else is flow insensitive. Calls to family functions use summaries
// (ret, effects) iterated to a fixpoint; the analysis is context sensitive in the sense that a helper
// that stores its argument into its receiver is judged by what its callers pass.
//
// resolve(S) = roots reachable from the sources S (through cell contents);
// own(S)     = roots whose maps may be WRITTEN when writing through a container denoted by S
//              (a root itself, a family-call result that may share with a root, or a cell that was stored
//              into a root's container).

type maSrc int // >= 0: cell id; negative: roots

const maExt maSrc = -1 // not allocated here

func maParam(i int) maSrc { return maSrc(-2 - i) }
func (s maSrc) isParam() bool {
	return s <= -2
}
func (s maSrc) param() int { return int(-2 - s) }

type maSet map[maSrc]bool

func (s maSet) addAll(o maSet) bool {
	ch := false
	for k := range o {
		if !s[k] {
			s[k] = true
			ch = true
		}
	}
	return ch
}

type maCellKind int

const (
	maCellAlloc  maCellKind = iota // memory: pointer value, contents by (field-sensitive) stores
	maCellField                    // first-level field of a struct Alloc
	maCellMap                      // MakeMap / MakeSlice / MakeChan value: contents by updates
	maCellOpaque                   // result of a family call: may be (part of) its contents
)

type maCell struct {
	kind    maCellKind
	base    ssa.Value      // allocating instruction
	field   int            // maCellField
	parent  maSrc          // maCellField: the Alloc cell
	content maSet          // accumulated contents (maps, opaque results, partial stores)
	effs    []maEffContent // contents added by the effect of a family call: visible only after that call
	owners  maSet          // roots into whose containers the cell was stored
}

type maEffContent struct {
	after ssa.Instruction
	set   maSet
}

type maStore struct {
	instr ssa.Instruction
	val   ssa.Value
	field int  // -1 whole
	full  bool // overwrites the whole location
}

// maWitness says where an effect or a shared result comes from.
type maWitness struct {
	fn   *ssa.Function
	pos  token.Pos
	what string
	cont string     // the container written / "return"
	via  *maWitness // through a call to a family function
}

func (w *maWitness) leaf() *maWitness {
	for w.via != nil {
		w = w.via
	}
	return w
}

type maEffect struct{ dst, src maSrc } // roots only (param or ext)

type maSummary struct {
	ret     map[int]*maWitness      // root param index -> witness: some result may share a map with that parameter
	retExt  *maWitness              // some result may share a map with memory the family did not allocate
	eff     map[maEffect]*maWitness // maps reachable from src may have become reachable from dst's maps
	und     []string                // constructs the engine does not read (family functions must have none)
	undPos  []token.Pos
	nStores int // destination stores + family calls decided
}

type maFuncState struct {
	e       *maEngine
	fn      *ssa.Function
	val     map[ssa.Value]maSet
	cells   []*maCell
	byBase  map[ssa.Value]maSrc
	byField map[[2]int]maSrc
	stores  map[maSrc][]maStore // Alloc cell -> stores
	sum     *maSummary
	changed bool
}

type maEngine struct {
	p      *Prog
	family map[*ssa.Function]bool
	order  []*ssa.Function
	st     map[*ssa.Function]*maFuncState
	carry  map[types.Type]int // 0 unknown, 1 in progress, 2 no, 3 yes
}

// maCarries reports whether a value of type t can hold (a reference to) a map.
func (e *maEngine) carries(t types.Type) bool {
	switch e.carry[t] {
	case 1, 2:
		return false
	case 3:
		return true
	}
	e.carry[t] = 1
	r := false
	switch x := t.(type) {
	case *types.Named:
		r = e.carries(x.Underlying())
	case *types.Alias:
		r = e.carries(types.Unalias(x))
	case *types.Map, *types.Interface, *types.Signature:
		r = true
	case *types.Pointer:
		r = e.carries(x.Elem())
	case *types.Slice:
		r = e.carries(x.Elem())
	case *types.Array:
		r = e.carries(x.Elem())
	case *types.Chan:
		r = e.carries(x.Elem())
	case *types.Struct:
		for i := 0; i < x.NumFields(); i++ {
			if e.carries(x.Field(i).Type()) {
				r = true
			}
		}
	case *types.Tuple:
		for i := 0; i < x.Len(); i++ {
			if e.carries(x.At(i).Type()) {
				r = true
			}
		}
	}
	if r {
		e.carry[t] = 3
	} else {
		e.carry[t] = 2
	}
	return r
}

// elemCarries: can an element of a map/slice/array value of type t hold a map?
func (e *maEngine) elemCarries(t types.Type) bool {
	switch x := t.Underlying().(type) {
	case *types.Map:
		return e.carries(x.Elem()) || e.carries(x.Key())
	case *types.Slice:
		return e.carries(x.Elem())
	case *types.Array:
		return e.carries(x.Elem())
	case *types.Pointer:
		return e.elemCarries(x.Elem())
	}
	return true
}

// maNewEngine builds the family: entry functions and everything they reach through statically resolved
// calls to functions with a body in the entries' packages.
func maNewEngine(p *Prog, entries []*ssa.Function) *maEngine {
	e := &maEngine{p: p, family: map[*ssa.Function]bool{}, st: map[*ssa.Function]*maFuncState{}, carry: map[types.Type]int{}}
	pkgs := map[*ssa.Package]bool{}
	for _, f := range entries {
		if f != nil && f.Pkg != nil {
			pkgs[f.Pkg] = true
		}
	}
	var visit func(f *ssa.Function)
	visit = func(f *ssa.Function) {
		if f == nil || e.family[f] || len(f.Blocks) == 0 || f.Pkg == nil || !pkgs[f.Pkg] {
			return
		}
		e.family[f] = true
		e.order = append(e.order, f)
		for _, b := range f.Blocks {
			for _, in := range b.Instrs {
				if cc, ok := in.(ssa.CallInstruction); ok {
					visit(cc.Common().StaticCallee())
				}
			}
		}
	}
	for _, f := range entries {
		visit(f)
	}
	return e
}

func (e *maEngine) state(f *ssa.Function) *maFuncState {
	if s, ok := e.st[f]; ok {
		return s
	}
	s := &maFuncState{e: e, fn: f, val: map[ssa.Value]maSet{}, byBase: map[ssa.Value]maSrc{}, byField: map[[2]int]maSrc{}, stores: map[maSrc][]maStore{},
		sum: &maSummary{ret: map[int]*maWitness{}, eff: map[maEffect]*maWitness{}}}
	e.st[f] = s
	return s
}

// Solve iterates the family (and the extra functions: callers analysed for their own sake) to a fixpoint.
func (e *maEngine) Solve(extra ...*ssa.Function) {
	all := append([]*ssa.Function{}, e.order...)
	for _, f := range extra {
		if f != nil && !e.family[f] && len(f.Blocks) > 0 {
			all = append(all, f)
		}
	}
	for round := 0; round < 50; round++ {
		ch := false
		for _, f := range all {
			if e.state(f).run() {
				ch = true
			}
		}
		if !ch {
			break
		}
	}
	if os.Getenv("VCHK_MADUMP") != "" {
		for _, f := range all {
			fmt.Printf("MADUMP %s: %s\n", maFnName(f), e.Describe(f))
		}
	}
}

func (e *maEngine) Summary(f *ssa.Function) *maSummary { return e.state(f).sum }

func (s *maFuncState) cell(kind maCellKind, base ssa.Value) maSrc {
	if id, ok := s.byBase[base]; ok {
		return id
	}
	id := maSrc(len(s.cells))
	s.cells = append(s.cells, &maCell{kind: kind, base: base, field: -1, parent: -1, content: maSet{}, owners: maSet{}})
	s.byBase[base] = id
	s.changed = true
	return id
}

func (s *maFuncState) fieldCell(parent maSrc, f int) maSrc {
	k := [2]int{int(parent), f}
	if id, ok := s.byField[k]; ok {
		return id
	}
	id := maSrc(len(s.cells))
	s.cells = append(s.cells, &maCell{kind: maCellField, base: s.cells[parent].base, field: f, parent: parent, content: maSet{}, owners: maSet{}})
	s.byField[k] = id
	s.changed = true
	return id
}

func (s *maFuncState) get(v ssa.Value) maSet {
	switch x := v.(type) {
	case *ssa.Parameter:
		if !s.e.carries(x.Type()) {
			return nil
		}
		for i, p := range s.fn.Params {
			if p == x {
				return maSet{maParam(i): true}
			}
		}
	case *ssa.Global, *ssa.FreeVar:
		if s.e.carries(v.Type()) {
			return maSet{maExt: true}
		}
		return nil
	case *ssa.Const, *ssa.Function, *ssa.Builtin:
		return nil
	}
	return s.val[v]
}

func (s *maFuncState) set(v ssa.Value, add maSet) {
	if len(add) == 0 {
		return
	}
	cur := s.val[v]
	if cur == nil {
		cur = maSet{}
		s.val[v] = cur
	}
	if cur.addAll(add) {
		s.changed = true
	}
}

// reachAvoid: is there a path from just after `from` to `to` that does not execute `avoid`?
func maReachAvoid(from, to, avoid ssa.Instruction) bool {
	idx := func(in ssa.Instruction) int {
		for i, x := range in.Block().Instrs {
			if x == in {
				return i
			}
		}
		return -1
	}
	type start struct {
		b *ssa.BasicBlock
		i int
	}
	seen := map[*ssa.BasicBlock]bool{}
	work := []start{{from.Block(), idx(from) + 1}}
	for len(work) > 0 {
		w := work[len(work)-1]
		work = work[:len(work)-1]
		dead := false
		for i := w.i; i < len(w.b.Instrs); i++ {
			in := w.b.Instrs[i]
			if in == avoid {
				dead = true
				break
			}
			if in == to {
				return true
			}
		}
		if dead {
			continue
		}
		for _, sc := range w.b.Succs {
			if !seen[sc] {
				seen[sc] = true
				work = append(work, start{sc, 0})
			}
		}
	}
	return false
}

// carryingFields lists the indices of the fields of a struct type that can hold a map.
func (e *maEngine) carryingFields(t types.Type) []int {
	st, ok := t.Underlying().(*types.Struct)
	if !ok {
		return nil
	}
	var out []int
	for i := 0; i < st.NumFields(); i++ {
		if e.carries(st.Field(i).Type()) {
			out = append(out, i)
		}
	}
	return out
}

// load returns what a read of cell id at instruction `at` (nil: anywhere) may yield.
func (s *maFuncState) load(id maSrc, at ssa.Instruction) maSet {
	c := s.cells[id]
	out := maSet{}
	s.effContents(c, at, out)
	switch c.kind {
	case maCellMap:
		out.addAll(c.content)
	case maCellOpaque:
		out[id] = true
		out.addAll(c.content)
	case maCellField:
		out.addAll(c.content)
		out.addAll(s.cells[c.parent].content)
		s.effContents(s.cells[c.parent], at, out)
		sts := s.stores[c.parent]
		for _, st := range sts {
			if st.field != -1 && st.field != c.field {
				continue
			}
			if at != nil && s.killed(st, sts, at, c.field) {
				continue
			}
			out.addAll(s.get(st.val))
		}
	case maCellAlloc:
		out.addAll(c.content)
		for k, fid := range s.byField {
			if maSrc(k[0]) == id {
				out.addAll(s.cells[fid].content)
				s.effContents(s.cells[fid], at, out)
			}
		}
		sts := s.stores[id]
		var fields []int
		if pt, ok := c.base.Type().Underlying().(*types.Pointer); ok {
			fields = s.e.carryingFields(pt.Elem())
		}
		for _, st := range sts {
			if at != nil {
				if st.field >= 0 && s.killed(st, sts, at, st.field) {
					continue
				}
				if st.field == -1 {
					if s.killed(st, sts, at, -1) {
						continue
					}
					if len(fields) > 0 {
						all := true
						for _, f := range fields {
							if !s.killed(st, sts, at, f) {
								all = false
								break
							}
						}
						if all {
							continue
						}
					}
				}
			}
			out.addAll(s.get(st.val))
		}
	}
	return out
}

// effContents adds the contents that family calls put into the cell, as far as such a call can precede `at`.
func (s *maFuncState) effContents(c *maCell, at ssa.Instruction, out maSet) {
	for _, ec := range c.effs {
		if at == nil || maReachAvoid(ec.after, at, nil) {
			out.addAll(ec.set)
		}
	}
}

func (s *maFuncState) addEffContent(id maSrc, after ssa.Instruction, set maSet) {
	c := s.cells[id]
	for i := range c.effs {
		if c.effs[i].after == after {
			if c.effs[i].set.addAll(set) {
				s.changed = true
			}
			return
		}
	}
	n := maSet{}
	n.addAll(set)
	c.effs = append(c.effs, maEffContent{after, n})
	s.changed = true
}

// killed: every path from store st to `at` executes a later full store that covers `field` of the same Alloc
// (field == -1: covers the whole value).
func (s *maFuncState) killed(st maStore, all []maStore, at ssa.Instruction, field int) bool {
	for _, k := range all {
		if k.instr == st.instr || !k.full {
			continue
		}
		if k.field != -1 && k.field != field {
			continue
		}
		if !maReachAvoid(st.instr, at, k.instr) {
			return true
		}
	}
	return false
}

// deref: the values read through the sources of an address / container value.
func (s *maFuncState) deref(set maSet, at ssa.Instruction) maSet {
	out := maSet{}
	for src := range set {
		if src < 0 {
			out[src] = true
			continue
		}
		out.addAll(s.load(src, at))
	}
	return out
}

// resolve: roots (params, EXT) reachable from the sources, through cell contents.
func (s *maFuncState) resolve(set maSet, at ssa.Instruction) maSet {
	out := maSet{}
	seen := map[maSrc]bool{}
	var walk func(x maSet)
	walk = func(x maSet) {
		for src := range x {
			if src < 0 {
				out[src] = true
				continue
			}
			if seen[src] {
				continue
			}
			seen[src] = true
			walk(s.load(src, at))
		}
	}
	walk(set)
	return out
}

// cellsOf: cells reachable from the sources.
func (s *maFuncState) cellsOf(set maSet) []maSrc {
	seen := map[maSrc]bool{}
	var out []maSrc
	var walk func(x maSet)
	walk = func(x maSet) {
		for src := range x {
			if src < 0 || seen[src] {
				continue
			}
			seen[src] = true
			out = append(out, src)
			walk(s.load(src, nil))
		}
	}
	walk(set)
	return out
}

// own: roots whose maps may be written when writing through a container denoted by set.
func (s *maFuncState) own(set maSet, at ssa.Instruction) maSet {
	out := maSet{}
	for src := range set {
		if src < 0 {
			out[src] = true
			continue
		}
		c := s.cells[src]
		out.addAll(c.owners)
		if c.kind == maCellField {
			out.addAll(s.cells[c.parent].owners)
		}
		if c.kind == maCellOpaque {
			cc := maSet{}
			cc.addAll(c.content)
			s.effContents(c, at, cc)
			for r := range s.resolve(cc, at) {
				out[r] = true
			}
		}
	}
	return out
}

func (s *maFuncState) rootName(r maSrc) string {
	if r == maExt {
		return "memory not allocated by the family"
	}
	if r.isParam() && r.param() < len(s.fn.Params) {
		return s.fn.Params[r.param()].Name()
	}
	return fmt.Sprint(int(r))
}

func (s *maFuncState) addEffect(dst, src maSrc, w *maWitness) {
	k := maEffect{dst, src}
	if _, ok := s.sum.eff[k]; !ok {
		s.sum.eff[k] = w
		s.changed = true
	}
}

// storeInto records `container <- value` at instruction in.
func (s *maFuncState) storeInto(container maSet, value maSet, in ssa.Instruction, cont, what string, via func(dst, src maSrc) *maWitness) {
	if len(value) == 0 {
		return
	}
	owners := s.own(container, in)
	roots := s.resolve(value, in)
	for o := range owners {
		for r := range roots {
			if o != r {
				var w *maWitness
				if via != nil {
					w = via(o, r)
				} else {
					w = &maWitness{fn: s.fn, pos: in.Pos(), cont: cont, what: fmt.Sprintf("%s: a map reachable from %s is stored into a map of %s", what, s.rootName(r), s.rootName(o))}
				}
				s.addEffect(o, r, w)
			}
		}
	}
	if len(owners) > 0 {
		for _, cid := range s.cellsOf(value) {
			if s.cells[cid].owners.addAll(owners) {
				s.changed = true
			}
		}
	}
}

func (s *maFuncState) und(pos token.Pos, msg string) {
	for _, m := range s.sum.und {
		if m == msg {
			return
		}
	}
	s.sum.und = append(s.sum.und, msg)
	s.sum.undPos = append(s.sum.undPos, pos)
}

// run performs one flow-insensitive pass over the function; reports whether anything grew.
func (s *maFuncState) run() bool {
	s.changed = false
	e := s.e
	fn := s.fn
	nStores := 0
	for _, b := range fn.Blocks {
		for _, in := range b.Instrs {
			switch x := in.(type) {
			case *ssa.Alloc:
				s.set(x, maSet{s.cell(maCellAlloc, x): true})
			case *ssa.MakeMap:
				s.set(x, maSet{s.cell(maCellMap, x): true})
			case *ssa.MakeSlice:
				if e.carries(x.Type()) {
					s.set(x, maSet{s.cell(maCellMap, x): true})
				}
			case *ssa.MakeChan:
				if e.carries(x.Type()) {
					s.set(x, maSet{s.cell(maCellMap, x): true})
				}
			case *ssa.FieldAddr:
				out := maSet{}
				for src := range s.get(x.X) {
					if src >= 0 && s.cells[src].kind == maCellAlloc {
						out[s.fieldCell(src, x.Field)] = true
					} else {
						out[src] = true
					}
				}
				s.set(x, out)
			case *ssa.IndexAddr:
				s.set(x, s.get(x.X))
			case *ssa.UnOp:
				if !e.carries(x.Type()) {
					break
				}
				if x.Op == token.MUL {
					s.set(x, s.deref(s.get(x.X), x))
				} else {
					s.set(x, s.get(x.X))
				}
			case *ssa.Store:
				if !e.carries(x.Val.Type()) {
					break
				}
				val := s.get(x.Val)
				outside := maSet{}
				for src := range s.get(x.Addr) {
					if src < 0 {
						outside[src] = true
						continue
					}
					c := s.cells[src]
					switch c.kind {
					case maCellAlloc:
						s.recordStore(src, maStore{instr: x, val: x.Val, field: -1, full: x.Addr == c.base})
					case maCellField:
						fa, _ := x.Addr.(*ssa.FieldAddr)
						full := fa != nil && fa.X == c.base && fa.Field == c.field
						s.recordStore(c.parent, maStore{instr: x, val: x.Val, field: c.field, full: full})
					default:
						if c.content.addAll(val) {
							s.changed = true
						}
					}
					outside[src] = true
				}
				if len(s.own(outside, x)) > 0 {
					nStores++
				}
				s.storeInto(outside, val, x, maShort(x.Addr), "store through "+maShort(x.Addr), nil)
			case *ssa.MapUpdate:
				if !e.carries(x.Value.Type()) {
					break
				}
				val := s.get(x.Value)
				cont := s.get(x.Map)
				for src := range cont {
					if src >= 0 {
						if s.cells[src].content.addAll(val) {
							s.changed = true
						}
					}
				}
				if len(s.own(cont, x)) > 0 {
					nStores++
				}
				s.storeInto(cont, val, x, maShort(x.Map), "map update "+maShort(x.Map)+"[…] = "+maShort(x.Value), nil)
			case *ssa.Lookup:
				if e.carries(x.Type()) {
					s.set(x, s.deref(s.get(x.X), x))
				}
			case *ssa.Next:
				if e.carries(x.Type()) {
					s.set(x, s.deref(s.get(x.Iter), x))
				}
			case *ssa.Index:
				if e.carries(x.Type()) {
					s.set(x, s.get(x.X))
				}
			case *ssa.Range:
				s.set(x, s.get(x.X))
			case *ssa.Send:
				if e.carries(x.X.Type()) {
					s.und(x.Pos(), "channel send of a map-carrying value")
				}
			case *ssa.MakeClosure:
				for _, bnd := range x.Bindings {
					if e.carries(bnd.Type()) && len(s.get(bnd)) > 0 {
						s.und(x.Pos(), "closure capturing a map-carrying value")
					}
				}
			case *ssa.Go:
				s.und(x.Pos(), "go statement")
			case *ssa.Return:
				for _, r := range x.Results {
					if !e.carries(r.Type()) {
						continue
					}
					for root := range s.resolve(s.get(r), x) {
						w := &maWitness{fn: fn, pos: x.Pos(), what: fmt.Sprintf("the returned value can hold a map reachable from %s", s.rootName(root))}
						if root == maExt {
							if s.sum.retExt == nil {
								s.sum.retExt = w
								s.changed = true
							}
						} else if _, ok := s.sum.ret[root.param()]; !ok {
							s.sum.ret[root.param()] = w
							s.changed = true
						}
					}
				}
			case ssa.CallInstruction:
				if s.call(x) {
					nStores++
				}
			default:
				// value-forwarding instructions: Phi, Extract, Field, Slice, Convert, ChangeType, ChangeInterface,
				// MakeInterface, TypeAssert, Range, BinOp, SliceToArrayPointer, MultiConvert
				v, ok := in.(ssa.Value)
				if !ok || !e.carries(v.Type()) {
					break
				}
				out := maSet{}
				for _, op := range in.Operands(nil) {
					if *op != nil && e.carries((*op).Type()) {
						out.addAll(s.get(*op))
					}
				}
				s.set(v, out)
			}
		}
	}
	if s.sum.nStores != nStores {
		s.sum.nStores = nStores
	}
	return s.changed
}

func (s *maFuncState) recordStore(alloc maSrc, st maStore) {
	for _, o := range s.stores[alloc] {
		if o.instr == st.instr && o.field == st.field {
			return
		}
	}
	s.stores[alloc] = append(s.stores[alloc], st)
	s.changed = true
}

// call handles Call/Defer; reports whether it is a decided family call with two map-carrying operands.
func (s *maFuncState) call(in ssa.CallInstruction) bool {
	e := s.e
	cc := in.Common()
	v, _ := in.(ssa.Value)
	var args []ssa.Value
	if cc.IsInvoke() {
		args = append(args, cc.Value)
	}
	args = append(args, cc.Args...)
	carrying := 0
	for _, a := range args {
		if e.carries(a.Type()) && len(s.get(a)) > 0 {
			carrying++
		}
	}
	if b, ok := cc.Value.(*ssa.Builtin); ok && !cc.IsInvoke() {
		switch b.Name() {
		case "append":
			if v != nil && e.carries(v.Type()) {
				out := maSet{}
				for _, a := range args {
					out.addAll(s.get(a))
				}
				s.set(v, out)
			}
		case "copy":
			if len(args) == 2 && e.elemCarries(args[0].Type()) {
				src := s.deref(s.get(args[1]), in)
				for d := range s.get(args[0]) {
					if d >= 0 && s.cells[d].content.addAll(src) {
						s.changed = true
					}
				}
				s.storeInto(s.get(args[0]), src, in, maShort(args[0]), "copy()", nil)
			}
		}
		return false // len, cap, delete, clear, min, max, print…: no aliasing
	}
	callee := cc.StaticCallee()
	if callee != nil && e.family[callee] {
		cs := e.state(callee).sum
		// effects of the callee, mapped to the arguments
		for k, w := range cs.eff {
			var dset, sset maSet
			if k.dst.isParam() && k.dst.param() < len(args) {
				dset = s.get(args[k.dst.param()])
			} else if k.dst == maExt {
				dset = maSet{maExt: true}
			}
			if k.src.isParam() && k.src.param() < len(args) {
				sset = s.get(args[k.src.param()])
			} else if k.src == maExt {
				sset = maSet{maExt: true}
			}
			if len(dset) == 0 || len(sset) == 0 {
				continue
			}
			for d := range dset {
				if d >= 0 {
					// contents added by a callee are never killed (conservative), but are visible only after the call
					s.addEffContent(d, in, sset)
				}
			}
			ww := w
			s.storeInto(dset, sset, in, "", "call of "+callee.Name(), func(dst, src maSrc) *maWitness {
				return &maWitness{fn: s.fn, pos: in.Pos(), what: fmt.Sprintf("call of %s: a map reachable from %s becomes reachable from %s", maFnName(callee), s.rootName(src), s.rootName(dst)), via: ww}
			})
		}
		if v != nil && e.carries(v.Type()) {
			id := s.cell(maCellOpaque, v)
			c := s.cells[id]
			for i := range cs.ret {
				if i < len(args) {
					if c.content.addAll(s.get(args[i])) {
						s.changed = true
					}
				}
			}
			if cs.retExt != nil && !c.content[maExt] {
				c.content[maExt] = true
				s.changed = true
			}
			s.set(v, maSet{id: true})
		}
		return carrying >= 2
	}
	// shallow standard-library copies: a fresh container holding the elements of the argument
	if callee != nil {
		org := callee
		if o := callee.Origin(); o != nil {
			org = o
		}
		full := org.Name()
		if org.Pkg != nil {
			full = org.Pkg.Pkg.Path() + "." + org.Name()
		}
		switch full {
		case "maps.Clone", "slices.Clone":
			if v != nil && len(args) == 1 {
				id := s.cell(maCellMap, v)
				if e.elemCarries(args[0].Type()) && s.cells[id].content.addAll(s.deref(s.get(args[0]), in)) {
					s.changed = true
				}
				s.set(v, maSet{id: true})
			}
			return false
		case "maps.Copy":
			if len(args) == 2 && e.elemCarries(args[1].Type()) {
				src := s.deref(s.get(args[1]), in)
				for d := range s.get(args[0]) {
					if d >= 0 && s.cells[d].content.addAll(src) {
						s.changed = true
					}
				}
				s.storeInto(s.get(args[0]), src, in, maShort(args[0]), "maps.Copy", nil)
			}
			return false
		}
	}
	// outside the family
	if v != nil && e.carries(v.Type()) {
		s.set(v, maSet{maExt: true})
	}
	if carrying > 0 {
		name := "dynamic call"
		if callee != nil {
			name = callee.RelString(nil)
		} else if cc.IsInvoke() {
			name = "interface method " + cc.Method.Name()
		}
		s.und(in.Pos(), "a map-carrying value is passed to "+name+", which is outside the analysed family")
	}
	return false
}

// maFnName renders an SSA function as Type.Method or Name (no package, no position).
func maFnName(f *ssa.Function) string {
	if f == nil {
		return "?"
	}
	if recv := f.Signature.Recv(); recv != nil {
		t := recv.Type()
		if pt, ok := t.(*types.Pointer); ok {
			t = pt.Elem()
		}
		if nt, ok := types.Unalias(t).(*types.Named); ok {
			return nt.Obj().Name() + "." + f.Name()
		}
	}
	if f.Parent() != nil {
		return maFnName(f.Parent()) + "$" + f.Name()
	}
	return f.Name()
}

func maShort(v ssa.Value) string {
	switch x := v.(type) {
	case *ssa.FieldAddr:
		st := x.X.Type().Underlying().(*types.Pointer).Elem().Underlying().(*types.Struct)
		return maShort(x.X) + "." + st.Field(x.Field).Name()
	case *ssa.Field:
		st := x.X.Type().Underlying().(*types.Struct)
		return maShort(x.X) + "." + st.Field(x.Field).Name()
	case *ssa.UnOp:
		if x.Op == token.MUL {
			return maShort(x.X)
		}
	case *ssa.Alloc:
		if x.Comment != "" {
			return x.Comment
		}
	case *ssa.Parameter:
		return x.Name()
	case *ssa.Extract:
		return maShort(x.Tuple)
	case *ssa.Next:
		return "range " + maShort(x.Iter)
	case *ssa.Range:
		return maShort(x.X)
	case *ssa.Lookup:
		return maShort(x.X) + "[…]"
	case *ssa.Call:
		if f := x.Call.StaticCallee(); f != nil {
			return f.Name() + "(…)"
		}
	case *ssa.Phi:
		if x.Comment != "" {
			return x.Comment
		}
	}
	return v.Name()
}

// Describe renders a summary (development aid and evidence).
func (e *maEngine) Describe(f *ssa.Function) string {
	s := e.state(f)
	var parts []string
	var rs []string
	for i := range s.sum.ret {
		rs = append(rs, s.rootName(maParam(i)))
	}
	if s.sum.retExt != nil {
		rs = append(rs, "EXT")
	}
	sort.Strings(rs)
	if len(rs) == 0 {
		parts = append(parts, "result shares with: nothing")
	} else {
		parts = append(parts, "result shares with: "+strings.Join(rs, ","))
	}
	var es []string
	for k := range s.sum.eff {
		es = append(es, s.rootName(k.dst)+"<-"+s.rootName(k.src))
	}
	sort.Strings(es)
	if len(es) > 0 {
		parts = append(parts, "effects: "+strings.Join(es, " "))
	} else {
		parts = append(parts, "no cross-operand effect")
	}
	if len(s.sum.und) > 0 {
		parts = append(parts, "unread: "+strings.Join(s.sum.und, "; "))
	}
	return strings.Join(parts, "; ")
}

// WitnessPath renders a witness chain for diagnostics.
func (e *maEngine) WitnessPath(w *maWitness) []string {
	var out []string
	for ; w != nil; w = w.via {
		out = append(out, fmt.Sprintf("%s: in %s: %s", e.p.Rel(w.pos), maFnName(w.fn), w.what))
	}
	return out
}

// ArgSources gives, for a call instruction of an analysed function, the roots the i-th operand (receiver first) may
// share maps with (own-roots: maps that would be written through it).
func (e *maEngine) ArgOwn(f *ssa.Function, in ssa.CallInstruction, i int) (roots []string, ok bool) {
	s := e.state(f)
	cc := in.Common()
	var args []ssa.Value
	if cc.IsInvoke() {
		args = append(args, cc.Value)
	}
	args = append(args, cc.Args...)
	if i >= len(args) {
		return nil, false
	}
	set := s.get(args[i])
	// at the call, kill-aware: re-read loads feeding the operand is already done when the operand was computed
	for r := range s.own(set, in) {
		roots = append(roots, s.rootName(r))
	}
	for r := range s.resolve(set, in) {
		n := s.rootName(r)
		dup := false
		for _, x := range roots {
			if x == n {
				dup = true
			}
		}
		if !dup {
			roots = append(roots, n)
		}
	}
	sort.Strings(roots)
	return roots, true
}
