package main

import (
	"fmt"
	"go/ast"
	"go/token"
	"go/types"
	"sort"
	"strings"

	"golang.org/x/tools/go/cfg"
)

// C37 — identity clauses (Q3d, Q3e, Q3f): *which* query / connection a ProcessList method acts on.
//
// "The pid of the operation's own query" is read from the code, never from names: it is a call of the
// Context.Pid method (anchor ctxPid) on a parameter of the method, a variable whose only definition is
// such a call, or a never-reassigned parameter of the type of Process.QueryPid.
// "The connection addressed" is a never-reassigned parameter of the key type of procs, a call of the
// Session.ID method (anchor sessionID) on a value rooted at a parameter, a variable whose only definition is
// such a call, or a variable whose only definition is byQueryPid[<own pid>].

// c37Defs counts the definitions of o in body (function literals included) and returns the last
// right-hand side seen together with the number of left-hand sides of that assignment.
// Range variables, ++/--, op-assignments and &o count as two definitions (never "unique").
func c37Defs(info *types.Info, body *ast.BlockStmt, o types.Object) (n int, rhs ast.Expr, nlhs int) {
	if o == nil {
		return 0, nil, 0
	}
	ast.Inspect(body, func(nd ast.Node) bool {
		switch x := nd.(type) {
		case *ast.AssignStmt:
			for i, l := range x.Lhs {
				id, ok := ast.Unparen(l).(*ast.Ident)
				if !ok || (info.Defs[id] != o && info.Uses[id] != o) {
					continue
				}
				if x.Tok != token.ASSIGN && x.Tok != token.DEFINE {
					n += 2
					continue
				}
				n++
				nlhs = len(x.Lhs)
				if len(x.Lhs) == len(x.Rhs) {
					rhs = x.Rhs[i]
				} else if len(x.Rhs) == 1 && i == 0 {
					rhs = x.Rhs[0] // v, ok := m[k]
				} else {
					rhs = nil
				}
			}
		case *ast.IncDecStmt:
			if id, ok := ast.Unparen(x.X).(*ast.Ident); ok && info.Uses[id] == o {
				n += 2
			}
		case *ast.UnaryExpr:
			if id, ok := ast.Unparen(x.X).(*ast.Ident); ok && x.Op == token.AND && info.Uses[id] == o {
				n += 2
			}
		case *ast.RangeStmt:
			for _, e := range []ast.Expr{x.Key, x.Value} {
				if e == nil {
					continue
				}
				if id, ok := ast.Unparen(e).(*ast.Ident); ok && (info.Defs[id] == o || info.Uses[id] == o) {
					n += 2
				}
			}
		}
		return true
	})
	return
}

// c37RootIdent returns the identifier at the root of a selector chain x.a.b (nil if the chain passes
// through a call, an index, …).
func c37RootIdent(e ast.Expr) *ast.Ident {
	for {
		switch x := ast.Unparen(e).(type) {
		case *ast.Ident:
			return x
		case *ast.SelectorExpr:
			e = x.X
		case *ast.StarExpr:
			e = x.X
		default:
			return nil
		}
	}
}

type c37Ident struct {
	s      *c37State
	info   *types.Info
	fd     *ast.FuncDecl
	params map[types.Object]bool
}

func (s *c37State) newIdent(fd *ast.FuncDecl) *c37Ident {
	info := s.plPk.TypesInfo
	q := &c37Ident{s: s, info: info, fd: fd, params: map[types.Object]bool{}}
	for _, f := range fd.Type.Params.List {
		for _, nm := range f.Names {
			if o := info.Defs[nm]; o != nil {
				q.params[o] = true
			}
		}
	}
	return q
}

// stableParam: a parameter that is never assigned in the body.
func (q *c37Ident) stableParam(o types.Object) bool {
	if o == nil || !q.params[o] {
		return false
	}
	n, _, _ := c37Defs(q.info, q.fd.Body, o)
	return n == 0
}

// uniqueDef: the only definition of a local (non-parameter) variable; idx0 tells that the variable is the first
// of a `v, ok := …` pair (or the only left-hand side).
func (q *c37Ident) uniqueDef(o types.Object) ast.Expr {
	if o == nil || q.params[o] {
		return nil
	}
	n, rhs, _ := c37Defs(q.info, q.fd.Body, o)
	if n != 1 {
		return nil
	}
	return rhs
}

// callOn: e is a call of the method with the given full name whose receiver is rooted at a parameter.
func (q *c37Ident) callOn(e ast.Expr, full string) bool {
	call, ok := ast.Unparen(e).(*ast.CallExpr)
	if !ok || len(call.Args) != 0 {
		return false
	}
	fn := Callee(q.info, call)
	if fn == nil || FullName(fn.Origin()) != full {
		return false
	}
	sel, ok := ast.Unparen(call.Fun).(*ast.SelectorExpr)
	if !ok {
		return false
	}
	return q.rootedAtParam(sel.X, 0)
}

// rootedAtParam: e is a call-free selector chain on a parameter, or on a local whose only definition is such a chain
// (`sess := ctx.Session; id := sess.ID()`).
func (q *c37Ident) rootedAtParam(e ast.Expr, depth int) bool {
	id := c37RootIdent(e)
	if id == nil || depth > 4 {
		return false
	}
	o := q.info.Uses[id]
	if q.params[o] {
		return true
	}
	def := q.uniqueDef(o)
	return def != nil && q.rootedAtParam(def, depth+1)
}

// ownPid: e denotes the pid of the query this call is about.
func (q *c37Ident) ownPid(e ast.Expr) bool {
	e = ast.Unparen(e)
	if q.callOn(e, q.s.a.ctxPid) {
		return true
	}
	id, ok := e.(*ast.Ident)
	if !ok {
		return false
	}
	o := q.info.Uses[id]
	if o == nil {
		return false
	}
	if q.params[o] {
		return types.Identical(o.Type(), q.s.qpidVar.Type()) && q.stableParam(o)
	}
	def := q.uniqueDef(o)
	return def != nil && q.callOn(def, q.s.a.ctxPid)
}

// connAddr: k addresses exactly the connection this call is about. The string names how.
func (q *c37Ident) connAddr(k ast.Expr) (string, bool) {
	k = ast.Unparen(k)
	if q.callOn(k, q.s.a.sessionID) {
		return "session id of a parameter", true
	}
	id, ok := k.(*ast.Ident)
	if !ok {
		return "", false
	}
	o := q.info.Uses[id]
	if o == nil {
		return "", false
	}
	mt, _ := q.s.procsVar.Type().Underlying().(*types.Map)
	if q.params[o] {
		if mt != nil && types.Identical(o.Type(), mt.Key()) && q.stableParam(o) {
			return "connection-id parameter", true
		}
		return "", false
	}
	def := q.uniqueDef(o)
	if def == nil {
		return "", false
	}
	if q.callOn(def, q.s.a.sessionID) {
		return "session id of a parameter", true
	}
	if ix, ok := ast.Unparen(def).(*ast.IndexExpr); ok && q.s.isField(q.info, ix.X, q.s.byPidVar) && q.ownPid(ix.Index) {
		return "byQueryPid[own pid]", true
	}
	return "", false
}

// baseKey identifies the process an expression X in X.Field denotes: the variable, or the expression text.
func (q *c37Ident) baseKey(x ast.Expr) string {
	x = ast.Unparen(x)
	if id, ok := x.(*ast.Ident); ok {
		if o := q.info.Uses[id]; o != nil {
			return fmt.Sprintf("var:%s@%d", o.Name(), o.Pos())
		}
	}
	return "expr:" + types.ExprString(x)
}

// c37Guard: for each of the two successors of a branching block, the processes whose registered QueryPid is
// known to equal the call's own pid when that successor is taken.
type c37Guard [2][]string

// pidEqualWhen lists the processes B for which `cond == truth` implies B.QueryPid == <own pid>:
// a conjunct of a true &&-chain, a disjunct of a false ||-chain, through ! and parentheses
// (go/cfg keeps a whole `if` condition in one node, so the short-circuit structure is read here).
func (q *c37Ident) pidEqualWhen(cond ast.Expr, truth bool) []string {
	switch x := ast.Unparen(cond).(type) {
	case *ast.UnaryExpr:
		if x.Op == token.NOT {
			return q.pidEqualWhen(x.X, !truth)
		}
	case *ast.BinaryExpr:
		switch x.Op {
		case token.LAND:
			if truth {
				return append(q.pidEqualWhen(x.X, true), q.pidEqualWhen(x.Y, true)...)
			}
		case token.LOR:
			if !truth {
				return append(q.pidEqualWhen(x.X, false), q.pidEqualWhen(x.Y, false)...)
			}
		case token.EQL, token.NEQ:
			if (x.Op == token.EQL) != truth {
				return nil
			}
			var fieldSide, other ast.Expr
			switch {
			case q.s.isField(q.info, x.X, q.s.qpidVar):
				fieldSide, other = x.X, x.Y
			case q.s.isField(q.info, x.Y, q.s.qpidVar):
				fieldSide, other = x.Y, x.X
			default:
				return nil
			}
			if !q.ownPid(other) {
				return nil
			}
			return []string{q.baseKey(ast.Unparen(fieldSide).(*ast.SelectorExpr).X)}
		}
	}
	return nil
}

func (q *c37Ident) pidGuards(g *cfg.CFG) map[*cfg.Block]c37Guard {
	out := map[*cfg.Block]c37Guard{}
	for _, b := range g.Blocks {
		if len(b.Nodes) == 0 || len(b.Succs) != 2 {
			continue
		}
		cond, ok := b.Nodes[len(b.Nodes)-1].(ast.Expr)
		if !ok {
			continue
		}
		gd := c37Guard{q.pidEqualWhen(cond, true), q.pidEqualWhen(cond, false)}
		if len(gd[0])+len(gd[1]) > 0 {
			out[b] = gd
		}
	}
	return out
}

// unguardedPath: a path from the function entry to the node at pos that takes no edge on which the QueryPid of
// the given process (base "" = of any process) is known to equal the call's own pid.
func (q *c37Ident) unguardedPath(g *cfg.CFG, guards map[*cfg.Block]c37Guard, base string, pos token.Pos) []ast.Node {
	target := func(n ast.Node) bool { return n.Pos() <= pos && pos < n.End() }
	edgeOK := func(b *cfg.Block, si int) bool {
		gd, ok := guards[b]
		if !ok || si > 1 {
			return true
		}
		for _, gb := range gd[si] {
			if base == "" || gb == base {
				return false
			}
		}
		return true
	}
	return PathAvoiding(g, EntryPoint(g), nil, target, edgeOK)
}

type c37Effect struct {
	label string
	base  string // "" for effects without a process operand (the counter)
	pos   token.Pos
	multi bool // the process variable has several definitions
}

func (s *c37State) identity() {
	c, info := s.c, s.plPk.TypesInfo
	if s.a.ctxPid == "" {
		c.Undecided("C37-Q3d", "anchors", 0, "no Context.Pid anchor configured")
		return
	}
	for _, fd := range s.plMethods() {
		name := DeclName(fd)
		q := s.newIdent(fd)
		g := c.P.CFG(info, fd.Body)
		guards := q.pidGuards(g)

		// ---- Q3d: a method that ends a query (stores QueryPid = 0 on a process it keeps) ----------
		var effects []c37Effect
		ends := false
		baseOf := func(x ast.Expr) (string, bool) {
			multi := false
			if id, ok := ast.Unparen(x).(*ast.Ident); ok {
				if o := info.Uses[id]; o != nil {
					if n, _, _ := c37Defs(info, fd.Body, o); n > 1 {
						multi = true
					}
				}
			}
			return q.baseKey(x), multi
		}
		evs, _ := s.nodeEvents(info, fd.Body)
		for _, e := range evs {
			switch e.kind {
			case "dereg":
				ends = true
			case "decR":
				effects = append(effects, c37Effect{label: s.a.running + "-1", pos: e.pos})
			}
		}
		inspectNoLit(fd.Body, func(n ast.Node) bool {
			switch x := n.(type) {
			case *ast.AssignStmt:
				for _, l := range x.Lhs {
					sel, ok := ast.Unparen(l).(*ast.SelectorExpr)
					if !ok {
						continue
					}
					fv := c47SelField(info, sel)
					if fv == nil || c47NamedOf(info.TypeOf(sel.X)) != s.procTN {
						continue
					}
					b, multi := baseOf(sel.X)
					effects = append(effects, c37Effect{label: fv.Name() + "=", base: b, pos: x.Pos(), multi: multi})
				}
			case *ast.CallExpr:
				if s.isField(info, x.Fun, s.killVar) {
					sel := ast.Unparen(x.Fun).(*ast.SelectorExpr)
					b, multi := baseOf(sel.X)
					effects = append(effects, c37Effect{label: s.killVar.Name() + "()", base: b, pos: x.Pos(), multi: multi})
				}
			}
			return true
		})
		if ends {
			key := name + "/own-query-only"
			sort.SliceStable(effects, func(i, j int) bool { return effects[i].pos < effects[j].pos })
			var badLabels []string
			var firstPath []ast.Node
			var firstPos token.Pos
			for _, ef := range effects {
				var p []ast.Node
				if ef.multi {
					p = []ast.Node{}
				} else {
					p = q.unguardedPath(g, guards, ef.base, ef.pos)
				}
				if p != nil {
					badLabels = append(badLabels, ef.label)
					if !firstPos.IsValid() {
						firstPath, firstPos = p, ef.pos
					}
				}
			}
			if len(badLabels) == 0 {
				c.Ok("C37-Q3d", key, fd.Pos(), fmt.Sprintf("%d effect(s) on the process / the running counter, each reachable only through `<process>.QueryPid == <pid of the context's query>`", len(effects)))
			} else {
				c.Bad("C37-Q3d", key, firstPos, fmt.Sprintf("%s ends a query (it clears QueryPid) but %s can be reached without a successful test that the process's registered QueryPid equals the pid of the query being ended (Context.Pid of the parameter): a late End of an earlier query deregisters, cancels or un-counts the connection's current query",
					name, strings.Join(badLabels, ", ")), c.P.DescribePath(firstPath)...)
			}
		}

		// ---- Q3e: deletions from byQueryPid ------------------------------------------------------
		// ---- Q3f: every procs[k] / delete(procs, k) ----------------------------------------------
		var procDelKeys []ast.Expr
		var pidDels []*ast.CallExpr
		var procIdx []ast.Expr
		var procIdxPos []token.Pos
		inspectNoLit(fd.Body, func(n ast.Node) bool {
			switch x := n.(type) {
			case *ast.CallExpr:
				if IsBuiltinCall(info, x, "delete") && len(x.Args) == 2 {
					if s.isField(info, x.Args[0], s.byPidVar) {
						pidDels = append(pidDels, x)
					} else if s.isField(info, x.Args[0], s.procsVar) {
						procDelKeys = append(procDelKeys, x.Args[1])
						procIdx = append(procIdx, x.Args[1])
						procIdxPos = append(procIdxPos, x.Pos())
					}
				}
			case *ast.IndexExpr:
				if s.isField(info, x.X, s.procsVar) {
					procIdx = append(procIdx, x.Index)
					procIdxPos = append(procIdxPos, x.Pos())
				}
			}
			return true
		})
		for _, d := range pidDels {
			key := name + "/delete(" + s.a.byPid + ")"
			k := ast.Unparen(d.Args[1])
			if q.ownPid(k) {
				c.Ok("C37-Q3e", key, d.Pos(), "removes the entry of the call's own pid")
				continue
			}
			msg := "the key `" + types.ExprString(k) + "` is neither the pid of the call's own query nor the registered pid of the process being removed"
			var path []ast.Node
			if sel, ok := k.(*ast.SelectorExpr); ok && s.isField(info, sel, s.qpidVar) {
				base, multi := baseOf(sel.X)
				// (a) the process is the one deleted from procs in this method: P := procs[k2] … delete(procs, k2)
				removed := false
				if id, ok := ast.Unparen(sel.X).(*ast.Ident); ok && !multi {
					if def := q.uniqueDef(info.Uses[id]); def != nil {
						if ix, ok := ast.Unparen(def).(*ast.IndexExpr); ok && s.isField(info, ix.X, s.procsVar) {
							for _, dk := range procDelKeys {
								if c37SameOperand(info, ix.Index, dk) {
									removed = true
								}
							}
						}
					}
				}
				if removed {
					c.Ok("C37-Q3e", key, d.Pos(), "removes the entry of the process that is deleted from procs in the same call")
					continue
				}
				// (b) reached only when that pid equals the call's own pid
				if !multi {
					path = q.unguardedPath(g, guards, base, d.Pos())
					if path == nil {
						c.Ok("C37-Q3e", key, d.Pos(), "key is the process's QueryPid, tested equal to the call's own pid")
						continue
					}
				}
				msg = "the key is `" + types.ExprString(k) + "` of a process that stays registered, and it is not tested equal to the pid of the call's own query: the entry of the connection's current query is removed"
			}
			c.Bad("C37-Q3e", key, d.Pos(), name+": "+msg, c.P.DescribePath(path)...)
		}
		if len(procIdx) > 0 {
			key := name + "/procs[]"
			var how []string
			badAt := -1
			for i, k := range procIdx {
				h, ok := q.connAddr(k)
				if !ok {
					badAt = i
					break
				}
				how = append(how, h)
			}
			if badAt < 0 {
				c.Ok("C37-Q3f", key, procIdxPos[0], "every procs access is keyed by: "+strings.Join(c37Uniq(how), ", "))
			} else {
				c.Bad("C37-Q3f", key, procIdxPos[badAt], fmt.Sprintf("%s accesses %s[%s]: the key is not the connection-id parameter, the session id of a parameter's session, nor %s[<pid of the call's own query>] — the method acts on a process other than the one it was asked about",
					name, s.a.procsField, types.ExprString(procIdx[badAt]), s.a.byPid))
			}
		}
	}
}

func c37Uniq(xs []string) []string {
	seen := map[string]bool{}
	var out []string
	for _, x := range xs {
		if !seen[x] {
			seen[x] = true
			out = append(out, x)
		}
	}
	return out
}

// c37SameOperand: two key expressions denote the same value: the same variable, or the same text for a
// call-free selector chain.
func c37SameOperand(info *types.Info, a, b ast.Expr) bool {
	a, b = ast.Unparen(a), ast.Unparen(b)
	ia, oka := a.(*ast.Ident)
	ib, okb := b.(*ast.Ident)
	if oka && okb {
		return info.Uses[ia] != nil && info.Uses[ia] == info.Uses[ib]
	}
	if c37RootIdent(a) != nil && c37RootIdent(b) != nil {
		return types.ExprString(a) == types.ExprString(b)
	}
	return false
}
