package main

// C25-M1 — DECIMAL operations produce new values: every write of an arbitrary-precision decimal goes
// to a destination the writing function allocated itself.
//
// apd.Decimal is a mutable object (`d.Neg(x)` and `ctx.Add(d, x, y)` set d in place) and the engine's
// DECIMAL values are *apd.Decimal pointers that are shared: the in-memory table hands out its stored
// rows, a Literal hands out its value, an operand is handed to several operators of one expression.
// An operator that uses such a pointer as the destination of an apd operation changes the stored row /
// the literal / its sibling's operand: `d + (-d)` is no longer 0, and a SELECT modifies the table.
//
// The writer table is not written down here: it is derived from the source of the decimal package by
// the freshness engine (a function is a writer of its parameter i of type *Decimal iff its body,
// transitively through the package's own callees, stores through that parameter); a frozen list of
// confirmed names guards the derivation against reading nothing. Module functions that forward a
// parameter to a writer become writers themselves and are decided at their call sites.

import (
	"fmt"
	"go/token"
	"go/types"
	"os"
	"sort"
	"strings"

	"golang.org/x/tools/go/ssa"
)

type c25MutCfg struct {
	decPath   string   // import path of the decimal package
	decType   string   // name of the mutable decimal type
	confirmed []string // writers confirmed by reading ("Decimal.Neg/d", "Context.Add/d"): must be derived
	floor     int
	exc       map[string]c25MutExc
}

type c25MutExc struct {
	origins []string // accepted descriptions of non-owned origins
	why     string
}

func (e c25MutExc) covers(bad []frsLeaf) bool {
	for _, l := range bad {
		ok := false
		for _, o := range e.origins {
			if o == l.String() {
				ok = true
			}
		}
		if !ok {
			return false
		}
	}
	return true
}

func runC25Mut(c *Ctx, cfg c25MutCfg) {
	c.Rule("C25-M1", "destination freshness of decimal writes: every call that stores through a *"+cfg.decType+" parameter of its callee (the writers of package "+cfg.decPath+
		", derived from its source, and every module function that forwards a parameter to one), and every direct field store into a "+cfg.decType+", has a destination that the calling function "+
		"allocated itself (new, &T{}, a local variable, the result of a callee that returns only fresh decimals) and that is not a struct copy *x of a decimal it does not own; "+
		"a destination that is the function's own parameter makes the function a writer, decided at its call sites", cfg.floor)
	dp := c.P.ByPath[cfg.decPath]
	if dp == nil || dp.Types == nil {
		c.Undecided("C25-M1", "decimal-package", 0, "package "+cfg.decPath+" is not in the loaded program")
		return
	}
	tn, _ := dp.Types.Scope().Lookup(cfg.decType).(*types.TypeName)
	if tn == nil {
		c.Undecided("C25-M1", "decimal-type", 0, "type "+cfg.decType+" not found in "+cfg.decPath)
		return
	}
	decT := tn.Type()
	isDecPtr := func(t types.Type) bool {
		p, ok := types.Unalias(t).Underlying().(*types.Pointer)
		return ok && types.Identical(types.Unalias(p.Elem()), decT)
	}
	eng := frsNewEngine(c.P, dp.Types)

	// ---- the writer table of the decimal package, derived from its bodies
	sp := eng.ix.prog.Package(dp.Types)
	if sp == nil {
		c.Undecided("C25-M1", "decimal-package", 0, "no SSA package for "+cfg.decPath)
		return
	}
	derived := map[string]bool{}
	var pkgFns []*ssa.Function
	for _, m := range sp.Members {
		switch x := m.(type) {
		case *ssa.Function:
			pkgFns = append(pkgFns, x)
		case *ssa.Type:
			for _, t := range []types.Type{x.Type(), types.NewPointer(x.Type())} {
				ms := eng.ix.prog.MethodSets.MethodSet(t)
				for i := 0; i < ms.Len(); i++ {
					if fn := eng.ix.prog.MethodValue(ms.At(i)); fn != nil && fn.Synthetic == "" {
						pkgFns = append(pkgFns, fn)
					}
				}
			}
		}
	}
	for _, fn := range pkgFns {
		if !frsReadable(fn) {
			continue
		}
		for j := range eng.Writes(fn) {
			if j < len(fn.Params) && isDecPtr(fn.Params[j].Type()) {
				derived[maFnName(fn)+"/"+fn.Params[j].Name()] = true
			}
		}
	}
	var dn []string
	for k := range derived {
		dn = append(dn, k)
	}
	sort.Strings(dn)
	c.Notef("C25-M1 writer table derived from %s: %s", cfg.decPath, strings.Join(dn, " "))
	for _, w := range cfg.confirmed {
		if !derived[w] {
			c.Undecided("C25-M1", "writer-table/"+w, 0, "the derivation of the writer table from the source of "+cfg.decPath+" does not find "+w+" (a writer confirmed by reading): the package was not read as expected")
		}
	}

	dyn := frsDynamicMethods(c.P)

	// ---- every decimal write in the module: primitive sinks (calls of the package's writers, direct field
	// stores into a decimal), closed under forwarding through module functions
	extW := map[*ssa.Function]map[int]bool{}
	extWriters := func(g *ssa.Function) map[int]bool {
		if m, ok := extW[g]; ok {
			return m
		}
		var m map[int]bool
		if g.Pkg == sp || (g.Origin() != nil && g.Origin().Pkg == sp) {
			for j := range eng.Writes(g) {
				if j < len(g.Params) && isDecPtr(g.Params[j].Type()) {
					if m == nil {
						m = map[int]bool{}
					}
					m[j] = true
				}
			}
		}
		extW[g] = m
		return m
	}
	type sink struct {
		fn     *ssa.Function
		at     ssa.Instruction
		dest   ssa.Value
		callee string
	}
	fsinks, _ := eng.ProtectedSinks(func(f *ssa.Function, in ssa.Instruction) []frsSink {
		var out []frsSink
		switch x := in.(type) {
		case *ssa.Store:
			root := frsStoreRoot(x.Addr)
			if root == nil {
				return nil // into a local cell of the function
			}
			if isDecPtr(root.Type()) {
				_, first := frsPeelAddr(x.Addr)
				name := "*"
				if fa, ok := x.Addr.(*ssa.FieldAddr); ok && first >= 0 {
					name = frsFieldName(fa.X.Type(), fa.Field)
				}
				out = append(out, frsSink{f, in, root, "store ." + name})
			}
		case ssa.CallInstruction:
			com := x.Common()
			callee := com.StaticCallee()
			if callee == nil {
				return nil
			}
			m := extWriters(callee)
			var js []int
			for j := range m {
				js = append(js, j)
			}
			sort.Ints(js)
			for _, j := range js {
				if j < len(com.Args) {
					out = append(out, frsSink{f, in, com.Args[j], maFnName(callee)})
				}
			}
		}
		return out
	}, func(f *ssa.Function, p *ssa.Parameter) bool { return !dyn(f) && len(eng.ix.callers[f]) > 0 })
	var sinks []sink
	for _, s := range fsinks {
		sinks = append(sinks, sink{s.fn, s.at, s.dest, s.how})
	}
	dump := os.Getenv("VCHK_DUMP") != "" && !c.fixtureMode
	for _, s := range sinks {
		fk := frsFuncKey(s.fn)
		key := fmt.Sprintf("%s/%s(dst %s)", fk, s.callee, frsDescribe(s.dest))
		pos := s.at.Pos()
		if !pos.IsValid() {
			pos = s.fn.Pos()
		}
		o := eng.Origins(s.dest)
		if dump {
			fmt.Printf("M1SINK %s at %s: %s\n", key, c.P.Rel(pos), o.Describe())
		}
		var shallow []string
		for _, l := range o.Leaves() {
			if l.kind == frsFresh && l.cell != nil {
				for _, sh := range eng.ShallowShares(l.cell) {
					shallow = append(shallow, fmt.Sprintf("%s is filled with a struct copy of %s", frsAllocName(l.cell), sh.String()))
				}
			}
		}
		bad := o.NotOwned()
		switch {
		case len(bad) == 0 && len(shallow) == 0:
			c.Ok("C25-M1", key, pos, "destination is "+o.Describe())
		case len(shallow) > 0:
			c.Bad("C25-M1", key, pos, fmt.Sprintf("%s: %s writes a decimal through %s, and %s: a struct copy of a %s shares the heap part of its coefficient (coefficients above 128 bits) with the original, so the in-place update also changes the decimal it was copied from - a value this function does not own (a stored row, a literal, the caller's operand). Allocate an empty decimal (new(%s)) or copy with Set.",
				c.P.Rel(pos), fk, s.callee, strings.Join(shallow, "; "), cfg.decType, cfg.decType))
		default:
			onlyParams := true
			var ps []string
			for _, l := range bad {
				if l.kind != frsParam {
					onlyParams = false
				} else {
					ps = append(ps, l.par.Name())
				}
			}
			if onlyParams && !dyn(s.fn) && len(eng.ix.callers[s.fn]) > 0 {
				c.Ok("C25-M1", key, pos, fmt.Sprintf("destination is the function's own parameter %s: %s is itself a writer, decided at its %d static call site(s)", strings.Join(ps, ", "), fk, len(eng.ix.callers[s.fn])))
				continue
			}
			if ex, ok := cfg.exc[key]; ok && !c.fixtureMode && ex.covers(bad) {
				c.Exc("C25-M1", key, pos, ex.why)
				continue
			}
			var ds []string
			for _, l := range bad {
				ds = append(ds, l.String())
			}
			var path []string
			for _, l := range bad {
				if l.pos.IsValid() {
					path = append(path, fmt.Sprintf("%s: %s", c.P.Rel(l.pos), l.String()))
				}
			}
			c.Bad("C25-M1", key, pos, fmt.Sprintf("%s: %s writes a decimal in place through %s, whose destination %s is not an object the function allocated: it may be %s. DECIMAL values are shared pointers (stored rows of the in-memory table, Literal values, the operand of a sibling operator): the write changes that value for every other reader - `d + (-d)` stops being 0 and a read-only statement modifies the table. Write into a fresh decimal (new(%s)) instead.",
				c.P.Rel(pos), fk, s.callee, frsDescribe(s.dest), strings.Join(ds, "; "), cfg.decType), path...)
		}
	}
}

func frsAllocName(a *ssa.Alloc) string {
	if a.Comment != "" {
		return a.Comment
	}
	return "the new object"
}

// frsDynamicMethods: can this function be reached by dynamic dispatch (a method whose name is declared
// by an interface of the loaded program that its receiver type implements)? Its callers are then not
// all visible as static call sites.
func frsDynamicMethods(p *Prog) func(f *ssa.Function) bool {
	byName := map[string][]*types.Interface{}
	for _, pk := range p.ByPath {
		if pk.Types == nil {
			continue
		}
		sc := pk.Types.Scope()
		for _, n := range sc.Names() {
			tn, ok := sc.Lookup(n).(*types.TypeName)
			if !ok {
				continue
			}
			it, ok := tn.Type().Underlying().(*types.Interface)
			if !ok {
				continue
			}
			for i := 0; i < it.NumMethods(); i++ {
				byName[it.Method(i).Name()] = append(byName[it.Method(i).Name()], it)
			}
		}
	}
	return func(f *ssa.Function) bool {
		if f == nil {
			return true
		}
		if f.Parent() != nil {
			return true // a closure: called through a function value
		}
		recv := f.Signature.Recv()
		if recv == nil {
			return false
		}
		for _, it := range byName[f.Name()] {
			if types.Implements(recv.Type(), it) || types.Implements(types.NewPointer(recv.Type()), it) {
				return true
			}
		}
		return false
	}
}

var _ = token.NoPos
