package main

import (
	"go/types"
	"sort"

	"golang.org/x/tools/go/packages"
)

// C36 — concurrent read-only sessions are race-free: guarded-by clause over the frozen table of
// mutex-bearing structs (eng_guardedby_table.go), decided by the E2 engine (eng_guardedby.go).

// c36Exceptions: accesses the engine reports that are not defects, one construct each.
var c36Exceptions = map[string]string{
	"ReadOnlyProvider/readOnly(w)": "ProviderOption closure: applied by NewDBProviderWithOpts / WithOption while the provider is being constructed, before it is handed to an engine",
	"HistoryProvider/history(w)":   "ProviderOption closure: applied by NewDBProviderWithOpts / WithOption while the provider is being constructed",
	"WithDbsOption/dbs(w)":         "ProviderOption closure: applied by NewDBProviderWithOpts / WithOption while the provider is being constructed",
}

var c36ExitExceptions = map[string]string{}

func init() {
	register(&Property{
		ID:       "C36",
		Patterns: []string{".", "./server"},
		Explanation: "Guarded-by clause for the frozen table of shared, mutex-protected structures (ProcessList, MemoryManager, sqlredact.Mapping, memory.BaseDatabase.tables, memory.DbProvider, " +
			"IndexRegistry, ViewRegistry, globalSystemVariables, BackgroundThreads, cmap.Map, UserVars, Catalog.locks, Max1Row, SessionManager, connWatcher, connState). A field is an obligation " +
			"when it was confirmed by reading (table) or is written after construction and accessed under the struct's mutex somewhere (inferred). Decided for every function of the loaded " +
			"packages with a must-hold lock-state dataflow over the CFG (defer Unlock, early returns, RLock/RUnlock, function literals): (G1) every read of such a field happens with its mutex " +
			"held, every write with the exclusive lock; objects still local to their constructor are exempt; a function that touches a field without taking the lock is accepted only if every " +
			"one of its call sites holds the lock (caller-holds helpers are decided, not assumed from names: no call site, use as a function value, interface dispatch or a `go` call disqualify); " +
			"(G2) each call site of such a helper holds the lock in the mode the helper needs; (G3) a function that acquires one of these mutexes releases it, explicitly or by defer, on every " +
			"exit. An unlocked access to a field that other sessions write is a data race; a lock kept across a return blocks every later session. " +
			"(R) isolation of read-only statements in the memory backend (ownership of the stored row slices): an SSA taint from every load of TableData.partitions in the read closure — the methods by which the types of package memory implement sql.Table, sql.IndexedTable, sql.StatisticsTable, sql.RowIter and sql.PartitionIter, closed under static calls and closures — through locals, re-slices (s[:n:n] only removes 'append writes in place'), struct fields (field-based), closures, interfaces and the parameters / results of every module function (sql, sql/sorters, sql/iters …) must reach no in-place mutation: element store, copy into, append in place, delete / clear / store on the stored map, sort.Slice / slices.Sort* and friends; sort.Sort / sort.Stable are covered through the element stores of the sorter's Swap. make+copy (or append to another slice) is the sanitizer.",
		NotCovered: "structures without a mutex (BaseSession: one goroutine per session by design), mysql_db.MySQLDb (its RWMutex is handed out as Reader/Editor handles and sync.Locker values: not " +
			"decidable with per-function lock state), plan.HashLookup.Mutex (vestigial by the authors' own comment; plan nodes are executed by one goroutine), mutation through methods of a field's own type, " +
			"package-level variables (the extension planned in DESIGN.md is dropped: no exact 'reachable from Engine.Query after init' oracle), result isolation other than clause R, the memory backend's documented lack of concurrent-write support; " +
			"for R: the cells of a stored row (rows leave the backend through the RowIter interface: `row[i] = v` by a plan node on a row it was handed is not tracked), stored slices passed through interface-dispatched calls or to functions without an analysed body other than the listed stdlib mutators (listed as a note), secondaryIndexStorage, read entry points that are not methods of the five interfaces (e.g. table functions, the stats provider)",
		Technique: "per-function must-hold lock-state dataflow over go/cfg + decided caller-holds helpers (least fixpoint over call sites) + constructor freshness + interprocedural field-based SSA taint (stored-rows ownership)",
		Run: func(c *Ctx) {
			c.Rule("C36-G1", "every access to a guarded field of a table struct is under its mutex (write => exclusive), directly or through a decided caller-holds helper", 190)
			c.Rule("C36-G2", "every call site of a caller-holds helper holds the lock in the required mode", 8)
			c.Rule("C36-G3", "every function that acquires a table mutex releases it (explicitly or deferred) on every exit", 95)
			r := gbShared(c)
			for _, e := range gbTable {
				if e.Prop == "C36" {
					gbReportEntry(c, r, e, "C36-G1", "C36-G2", "C36-G3", c36Exceptions, c36ExitExceptions)
				}
			}
			runC36R(c, c36rRepo)
		},
		Fixture: func(c *Ctx, fx *Prog) {
			expectFixture(c, fx, "c36 good: locked accesses, defer, helper called under the lock, constructor, copy", nil,
				func(fc *Ctx) { runC36Fixture(fc, "testdata/c36/good") })
			expectFixture(c, fx, "c36 bad: unlocked read, write under RLock, access after Unlock, goroutine closure, helper called without the lock, lock kept across a return",
				[]string{
					"C36-G1:Reg.Len/items(r)",
					"C36-G1:Reg.Bump/count(w)",
					"C36-G1:Reg.After/items(r)",
					"C36-G1:Reg.Async/count(w)",
					"C36-G1:Reg.orphan/items(w)",
					"C36-G2:Reg.Careless/call setLocked",
					"C36-G3:Reg.Leaky/mu",
				},
				func(fc *Ctx) { runC36Fixture(fc, "testdata/c36/bad") })
			expectFixture(c, fx, "c36r: read paths that mutate stored rows (through an iterator field and a sorter of another package, directly, in the stored map) must be reported; copies and editors must not",
				[]string{
					"C36-R:testdata/c36r/mem.AliasTable.PartitionRows/stored-rows",
					"C36-R:testdata/c36r/mem.DirectTable.PartitionRows/stored-rows",
					"C36-R:testdata/c36r/mem.TableData.count/stored-rows",
				},
				func(fc *Ctx) {
					runC36R(fc, c36rParams{memRel: "testdata/c36r/mem", sqlRel: "testdata/c36r/sql", entryIfaces: []string{"Table", "StatisticsTable", "RowIter"}, tableDataType: "TableData", partitions: "partitions"})
				})
		},
		FixturePkgs: []string{"./testdata/c36/good", "./testdata/c36/bad", "./testdata/c36r/sql", "./testdata/c36r/sorters", "./testdata/c36r/mem"},
	})
}

// runC36Fixture runs the engine on one fixture package with discovery of every mutex-bearing struct.
func runC36Fixture(c *Ctx, rel string) {
	pk := c.P.Pkg(rel)
	if pk == nil {
		c.Undecided("C36-G1", "fixture", 0, "fixture package not loaded")
		return
	}
	r := gbAnalyse(c.P, gbConfig{Pkgs: []*packages.Package{pk}})
	var names []*types.TypeName
	for _, gs := range r.Structs {
		names = append(names, gs.Name)
	}
	sort.Slice(names, func(i, j int) bool { return names[i].Name() < names[j].Name() })
	for _, gs := range r.Structs {
		r.report(c, gs, "C36-G1", nil, nil)
		r.reportCalls(c, gs, "C36-G2")
		r.reportExits(c, gs, "C36-G3", nil)
	}
}
