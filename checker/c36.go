package main

import (
	"fmt"
	"go/types"
	"os"
	"sort"
	"strings"
	"time"
)

func init() {
	register(&Property{
		ID:       "C36",
		Patterns: enginePatterns,
		Run:      runC36Explore,
	})
}

func runC36Explore(c *Ctx) {
	t0 := time.Now()
	res := gbAnalyse(c.P, gbConfig{Pkgs: c.P.Module,
		Foreign: map[string]string{modPath + "/sql.Process": modPath + ".ProcessList.mu"}})
	w := os.Stderr
	fmt.Fprintf(w, "gbAnalyse took %v\n", time.Since(t0))
	for _, gs := range res.Structs {
		var mus []string
		for _, m := range gs.Mutexes {
			mus = append(mus, m.Name())
		}
		fmt.Fprintf(w, "== %s mutexes=%v\n", gbTypeKey(gs.Name), mus)
		for _, f := range gs.Fields {
			n, bad := 0, 0
			for _, a := range res.Accesses {
				if a.Field == f {
					n++
					if !a.OK {
						bad++
					}
				}
			}
			g := "-"
			if res.guardOf[f] != nil {
				g = res.guardOf[f].Name()
			}
			fmt.Fprintf(w, "   field %-28s mutable=%-5v guard=%-10s accesses=%d locked=%d bad=%d\n", f.Name(), res.Mutable[f], g, n, res.LockedAcc[f], bad)
		}
		for _, g := range res.groups(gs, nil) {
			for _, a := range g.Accesses {
				if !a.OK {
					fmt.Fprintf(w, "   BAD %s at %s: %s [held=%v base=%s]\n", g.Key, c.P.Rel(a.Pos), a.Reason, a.Held, a.Base)
					break
				}
			}
		}
	}
	var hs []string
	for fn, ok := range res.Valid {
		var rq []string
		for mu, m := range res.Req[fn] {
			rq = append(rq, mu.Name()+":"+m.String())
		}
		hs = append(hs, fmt.Sprintf("helper %-60s valid=%-5v sites=%d req=%v %s", FuncName(fn), ok, res.Sites[fn], rq, res.WhyNot[fn]))
	}
	sort.Strings(hs)
	fmt.Fprintln(w, strings.Join(hs, "\n"))
	for _, b := range res.BadCalls {
		fmt.Fprintf(w, "BADCALL %s -> %s at %s need %s:%v have %v\n", b.Call.Unit.Name, FuncName(b.Call.Callee), c.P.Rel(b.Call.Pos), b.Mu.Name(), b.Need, b.Have)
	}
	for _, e := range res.Exits {
		fmt.Fprintf(w, "EXIT-HOLDING %s at %s: %s.%s %v\n", e.Unit.Name, c.P.Rel(e.Pos), e.Key.base, e.Key.mu.Name(), e.Mode)
	}
	for _, e := range res.UnlockInh {
		fmt.Fprintf(w, "UNLOCK-INHERITED %s at %s: %s.%s\n", e.Unit.Name, c.P.Rel(e.Pos), e.Key.base, e.Key.mu.Name())
	}
	_ = types.Universe
}
